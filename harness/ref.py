"""The abstract index (DESIGN Appendix F) in Python: a dictionary from LRUs to attributes plus the list of
submitted links.  It is the *failing-input finder*: every property's statement is evaluated against it
directly on the implementation's answers.  It decides nothing by itself (DESIGN §6)."""
import re
from .impl import RULES, hx, unx, unx_list, split_list, brack, b01, opt_nat

SEP = 0x7C


def stems_of(l):
    out, last = [], 0
    for i, b in enumerate(l):
        if b == SEP:
            out.append(l[last:i + 1]); last = i + 1
    return out


def prefixes_of(l):
    """all stem-prefixes, shortest first (the last one is l itself when l is well formed)"""
    out, acc = [], b""
    for s in stems_of(l):
        acc += s
        out.append(acc)
    return out


def variations(lru):
    """scheme / www variations as C17 states them, on the stem list. None = outside the oracle's domain."""
    st = stems_of(lru)
    if not st or b"".join(st) != lru:
        return None

    def swap(stl):
        if stl[0] == b"s:http|":
            return [b"s:https|"] + stl[1:]
        if stl[0] == b"s:https|":
            return [b"s:http|"] + stl[1:]
        return None

    res = [lru]
    sw = swap(st)
    if sw:
        res.append(b"".join(sw))
    hidx = [i for i, s in enumerate(st) if s.startswith(b"h:")]
    if len(hidx) <= 1:
        return res
    if hidx != list(range(hidx[0], hidx[0] + len(hidx))):
        return None                                   # host stems not contiguous: not in the grammar
    last = hidx[-1]
    if st[last] == b"h:www|":
        new = st[:last] + st[last + 1:]
        nh = len(hidx) - 1
    else:
        new = st[:last + 1] + [b"h:www|"] + st[last + 1:]
        nh = len(hidx) + 1
    if nh == 1:
        return res
    res.append(b"".join(new))
    if sw:
        res.append(b"".join(swap(new)))
    return res


def in_c17_grammar(lru):
    """C17's quantifier: scheme, optional port, zero or more contiguous host stems not ending in two
    'www', then stems that are not host stems"""
    st = stems_of(lru)
    if not st or b"".join(st) != lru:
        return False
    s0 = st[0]
    if not (s0.startswith(b"s:") and len(s0) > 3 and s0[2:-1].isalpha() and s0[2:-1].isascii()):
        return False
    i = 1
    if i < len(st) and st[i].startswith(b"t:") and st[i][2:-1].isdigit():
        i += 1
    j = i
    while j < len(st) and st[j].startswith(b"h:"):
        j += 1
    if any(s.startswith(b"h:") for s in st[j:]):
        return False
    if j - i >= 2 and st[j - 1] == b"h:www|" and st[j - 2] == b"h:www|":
        return False
    return True


class Attr(object):
    __slots__ = ("page", "crawled", "rule", "mark", "we")

    def __init__(self):
        self.page = self.crawled = self.rule = self.mark = False
        self.we = 0


class Unknown(Exception):
    """the reference has no opinion (input outside its domain)"""


class Ref(object):
    def __init__(self):
        self.reset("never", {}, "111")
        self.tokens = {}

    def reset(self, dflt, rules, cfg=None):
        self.nodes = {}
        self.links = []
        self.last_id = 0
        self.dflt = dflt
        self.rules = dict(rules)
        if cfg is not None:
            self.cfg = cfg
        self.issued = []

    # ---- abstract state helpers
    def touch(self, x, mark=False):
        ps = prefixes_of(x)
        for p in ps:
            if p not in self.nodes:
                self.nodes[p] = Attr()
        if mark:
            for p in ps[:-1]:
                self.nodes[p].mark = True
        return ps[-1] if ps else b""

    def E(self, x):
        """(prefix, id) of the longest attached stem-prefix of x, or (None, 0)"""
        best = (None, 0)
        for p in prefixes_of(x):
            a = self.nodes.get(p)
            if a is None:
                break
            if a.we:
                best = (p, a.we)
        return best

    def K(self, x):
        """longest rule result over flagged anchors on existing prefixes of x (deepest first, strict >)"""
        anchors = []
        for p in prefixes_of(x):
            a = self.nodes.get(p)
            if a is None:
                break
            if a.rule:
                anchors.append(p)
        best = b""
        for a in reversed(anchors):
            if a not in self.rules:
                raise KeyError(a)
            m = re.compile(RULES[self.rules[a]], re.I).search(x)
            if m and m.group() and len(m.group()) > len(best):
                best = m.group()
        return best

    def under(self, p, x):
        """x is reported by a walk of the webentity started at prefix p"""
        if not x.startswith(p):
            return False
        for q in prefixes_of(x):
            if len(q) > len(p) and self.nodes[q].we:
                return False
        return True

    def pages_under(self, p, max_depth=None):
        if p not in self.nodes:
            return None
        out = []
        base = len(stems_of(p))
        for x, a in self.nodes.items():
            if a.page and self.under(p, x):
                if max_depth is not None and len(stems_of(x)) - base > max_depth:
                    continue
                out.append(x)
        return out

    def resolve(self, x):
        return self.E(x)[1]

    # ---- writes; each returns a canonical expected answer string
    def attach(self, ps, best):
        for p in ps:
            self.touch(p, mark=True)
        bad = [p for p in ps if self.nodes[p].we]
        good = []
        for p in ps:
            if p not in bad and p not in good:
                good.append(p)
        if bad and not best:
            return "err"
        if len(bad) == len(ps):
            return None
        self.last_id += 1
        self.issued.append(self.last_id)
        for p in good:
            self.nodes[p].we = self.last_id
        return (self.last_id, good)

    def add_page(self, x, crawled):
        self.touch(x)
        a = self.nodes[x]
        new = not a.page
        a.page = True
        a.crawled = a.crawled or crawled
        created = {}
        ep, _ = self.E(x)
        k = self.K(x)
        elen = len(ep) if ep is not None else -1
        if len(k) <= elen:
            return (1 if new else 0), created
        if not k:
            m = re.compile(RULES[self.dflt], re.I).search(x)
            k = m.group() if m else b""
            if not k:
                return (1 if new else 0), created
        vs = variations(k)
        if vs is None:
            raise Unknown("variations outside grammar: %r" % k)
        r = self.attach(vs, True)
        if r:
            created[r[0]] = r[1]
        return (1 if new else 0), created

    @staticmethod
    def report(pages, created):
        return "ok pages=%d we={%s}" % (pages, ";".join(
            "%s:%s" % ("none" if k is None else k, brack(sorted(hx(p) for p in v))) for k, v in sorted(created.items(), key=lambda kv: (kv[0] is None, kv[0] or 0))))

    def exec_write(self, w, hint_pages=None):
        try:
            return self._exec_write(w, hint_pages)
        except KeyError:
            # a flagged anchor without its rule in RAM (reopened without re-supplying it): the request aborts where
            # the code does, earlier effects stay
            return "err other KeyError"

    def _exec_write(self, w, hint_pages=None):
        op = w[0]
        if op == "init":
            self.reset(w[2], {unx(a): r for a, r in (x.split("=") for x in split_list(w[3]))}, w[4])
            return self._install(list(self.rules.items()), hint_pages)
        if op == "reopen":
            self.dflt = w[1]
            self.rules = {unx(a): r for a, r in (x.split("=") for x in split_list(w[2]))}
            return "ok"
        if op == "overwrite":
            rs = {unx(a): r for a, r in (x.split("=") for x in split_list(w[2]))}
            self.reset(w[1], rs)
            return self._install(list(rs.items()), hint_pages)
        if op == "clear":
            d = self.dflt if w[1] == "-" else w[1]
            rs = self.rules if w[2] == "none" else {unx(a): r for a, r in (x.split("=") for x in split_list(w[2]))}
            self.reset(d, rs)
            if w[2] == "none":
                return "ok"
            return self._install(list(rs.items()), hint_pages)
        if op == "addrule":
            a = unx(w[1])
            self.rules[a] = w[2]
            self.touch(a)
            self.nodes[a].rule = True
            if hint_pages is None:
                raise Unknown("rule installation needs the traversal order")
            pages, created = 0, {}
            for p in hint_pages:
                if p.startswith(a) and self.nodes.get(p) is not None and self.nodes[p].page:
                    n, c = self.add_page(p, False)
                    pages += n; created.update(c)
            return self.report(pages, created)
        if op == "rmrule":
            a = unx(w[1])
            if a not in self.rules:
                return "err other KeyError"
            del self.rules[a]
            if a not in self.nodes:
                return "err traph"
            self.nodes[a].rule = False
            return "ok"
        if op == "create":
            ps = unx_list(w[1])
            r = self.attach(ps, False)
            if r == "err":
                return "err traph"
            if r is None:
                return self.report(0, {None: []})
            return self.report(0, {r[0]: r[1]})
        if op == "delete":
            wid, ps = int(w[1]), unx_list(w[2])
            for p in ps:
                if p not in self.nodes or self.nodes[p].we != wid or wid == 0:
                    return "err traph"
            for p in ps:
                self.nodes[p].we = 0
            return "ok"
        if op == "pokeid":
            self.last_id = int(w[1])
            return "ok"
        if op == "deleteu":
            idx = {}
            for p in unx_list(w[1]):
                idx[p] = p if p in self.nodes else None
            for p, n in idx.items():
                if n is None:
                    return "err other AttributeError"
                self.nodes[p].we = 0
            return "ok"
        if op == "addruleram":
            self.rules[unx(w[1])] = w[2]
            return self.report(0, {})
        if op == "addprefix":
            p = unx(w[1])
            self.touch(p, mark=True)
            if self.nodes[p].we:
                return "err traph"
            self.nodes[p].we = int(w[2])
            return "ok"
        if op in ("rmprefix", "moveprefix"):
            p = unx(w[1])
            src = w[2] if op == "rmprefix" else w[3]
            self.touch(p)
            if src == "-" or int(src) == 0 or self.nodes[p].we == int(src):
                self.nodes[p].we = 0
            else:
                return "err traph"
            if op == "moveprefix":
                self.touch(p, mark=True)
                self.nodes[p].we = int(w[2])
            return "ok"
        if op == "addpage":
            n, c = self.add_page(unx(w[1]), w[2] == "1")
            return self.report(n, c)
        if op == "addpages":
            pages, created = 0, {}
            for x in unx_list(w[1]):
                n, c = self.add_page(x, w[2] == "1")
                pages += n; created.update(c)
                if self.cfg[1] == "1":
                    self.nodes[x].crawled = True
            return self.report(pages, created)
        if op == "addlinks":
            pairs = [tuple(unx(x) for x in st.split(">")) for st in split_list(w[1])]
            seen, pages, created = [], 0, {}
            for s, t in pairs:
                for x in (s, t):
                    if x not in seen:
                        seen.append(x)
                        n, c = self.add_page(x, False)
                        pages += n; created.update(c)
            self.links += pairs
            return self.report(pages, created)
        if op == "batch":
            data = []
            if w[1] != "-":
                for e in w[1].split(";"):
                    a, ts = e.split(">")
                    data.append((unx(a), [unx(x) for x in ts.split(",")] if ts else []))
            seen, pages, created = [], 0, {}
            for s, ts in data:
                if s not in seen:
                    seen.append(s)
                    n, c = self.add_page(s, True)
                    pages += n; created.update(c)
                else:
                    self.nodes[s].crawled = True
                for t in ts:
                    if t not in seen:
                        seen.append(t)
                        n, c = self.add_page(t, False)
                        pages += n; created.update(c)
                    self.links.append((s, t))
            return self.report(pages, created)
        raise Unknown(op)

    def _install(self, rules, hint_pages):
        for a, r in rules:
            self.touch(a)
            self.nodes[a].rule = True
        return "ok"

    # ---- link helpers
    def out_w(self, s):
        d = {}
        for a, b in self.links:
            if a == s:
                d[b] = d.get(b, 0) + 1
        return d

    def in_w(self, t):
        d = {}
        for a, b in self.links:
            if b == t:
                d[a] = d.get(a, 0) + 1
        return d

    def page_links(self, x, inc_in, inc_int, inc_out):
        a = self.nodes.get(x)
        if a is None or not a.page:
            return []
        out = []
        for t, n in self.out_w(x).items():
            if (inc_out and t != x) or (inc_int and t == x):
                out.append((x, t, n))
        if inc_in:
            for s, n in self.in_w(x).items():
                if s != x:
                    out.append((s, x, n))
        return out

    def we_pagelinks(self, wid, ps, inc_in, inc_int, inc_out):
        out = []
        for p in ps:
            pg = self.pages_under(p)
            if pg is None:
                return None
            for x in pg:
                for t, n in self.out_w(x).items():
                    tw = self.resolve(t)
                    if (inc_out and tw != wid) or (inc_int and tw == wid):
                        out.append((x, t, n))
                if inc_in:
                    for s, n in self.in_w(x).items():
                        if self.resolve(s) != wid:
                            out.append((s, x, n))
        return out

    @staticmethod
    def links_str(l):
        return brack(sorted("%s>%s:%d" % (hx(a), hx(b), n) for a, b, n in l))

    # ---- queries: expected canonical answer, or raises Unknown
    def expect_query(self, w):
        q = w[0]
        if q == "retrieveprefix":
            p, i = self.E(unx(w[1]))
            return "err traph" if not i else "ok " + hx(p)
        if q == "retrievewe":
            p, i = self.E(unx(w[1]))
            return "err traph" if not i else "ok %d" % i
        if q == "webyprefix":
            a = self.nodes.get(unx(w[1]))
            return "ok %d" % a.we if a is not None and a.we else "err traph"
        if q == "potential":
            x = unx(w[1])
            ep, _ = self.E(x)
            try:
                k = self.K(x)
            except KeyError:
                return "err other KeyError"
            elen = len(ep) if ep is not None else -1
            if len(k) <= elen:
                return "ok " + hx(ep)
            if k:
                return "ok " + hx(k)
            m = re.compile(RULES[self.dflt], re.I).search(x)
            return "ok " + hx(m.group()) if m and m.group() else "ok false"
        if q in ("pages", "crawledpages"):
            out = []
            for p in unx_list(w[2]):
                pg = self.pages_under(p)
                if pg is None:
                    return "err traph"
                out += pg
            items = [hx(x) + ":" + b01(self.nodes[x].crawled) for x in out if q == "pages" or self.nodes[x].crawled]
            return "ok " + brack(sorted(items))
        if q in ("parents", "children"):
            wid, res = int(w[1]), set()
            for p in unx_list(w[2]):
                if p not in self.nodes:
                    return "err traph"
                if q == "parents":
                    for pp in prefixes_of(p)[:-1]:
                        if self.nodes[pp].we and self.nodes[pp].we != wid:
                            res.add(self.nodes[pp].we)
                else:
                    for x, a in self.nodes.items():
                        if a.we and a.we != wid and x.startswith(p):
                            res.add(a.we)
            return "ok " + brack([str(x) for x in sorted(res)])
        if q == "pagelinks":
            if w[3:6] == ["0", "0", "0"]:
                return "err traph"
            l = self.we_pagelinks(int(w[1]), unx_list(w[2]), w[3] == "1", w[4] == "1", w[5] == "1")
            return "err traph" if l is None else "ok " + self.links_str(l)
        if q in ("weout", "wein"):
            res = set()
            for p in unx_list(w[2]):
                pg = self.pages_under(p)
                if pg is None:
                    return "err traph"
                for x in pg:
                    for y in (self.out_w(x) if q == "weout" else self.in_w(x)):
                        res.add(self.resolve(y))
            if self.cfg[2] != "1":
                res.discard(0)
            return "ok " + brack([str(x) for x in sorted(res)])
        if q == "wedeg":
            sizes = []
            for kind in ("wein", "weout"):
                a = self.expect_query([kind] + w[1:])
                if not a.startswith("ok"):
                    return a
                sizes.append(len(split_list(a[3:])))
            return "ok " + brack([str(sizes[0]), str(sizes[1]), str(sizes[0] + sizes[1])])
        if q == "pagelinksof":
            return "ok " + self.links_str(self.page_links(unx(w[1]), w[2] == "1", w[3] == "1", w[4] == "1"))
        if q == "pagedeg":
            x = unx(w[1])
            sel = {"in": (True, False, False), "out": (False, False, True), "deg": (True, True, True)}[w[2]]
            l = self.page_links(x, *sel)
            return "ok %d" % (sum(n for _, _, n in l) if w[3] == "1" else len(l))
        if q == "network":
            out, auto, slow = w[1] == "1", w[2] == "1", w[3] == "1"
            g, tally = {}, {}
            for x, a in self.nodes.items():
                if a.page:
                    i = self.resolve(x)
                    if i:
                        c = tally.setdefault(i, [0, 0])
                        c[0 if a.crawled else 1] += 1
            for s, t in self.links:
                a, b = self.resolve(s), self.resolve(t)
                if not a or not b or (not auto and a == b):
                    continue
                if not out:
                    a, b = b, a
                g.setdefault(a, {}).setdefault(b, 0)
                g[a][b] += 1
            rows = []
            keys = set(g) if slow else set(g) | set(tally)
            for src in sorted(keys):
                c = (0, 0) if slow else tally.get(src, (0, 0))
                ts = sorted("%d=%d" % kv for kv in g.get(src, {}).items())
                rows.append("%d:c=%d:u=%d:{%s}" % (src, c[0], c[1], "/".join(ts)))
            return "ok " + brack(rows)
        if q == "linksiter":
            pairs = set(self.links)
            if w[1] != "1":
                pairs = set((b, a) for a, b in pairs)
            return "ok " + brack(sorted(hx(a) + ">" + hx(b) for a, b in pairs))
        if q == "pagesiter":
            return "ok " + brack(sorted(hx(x) + ":" + b01(a.crawled) for x, a in self.nodes.items() if a.page))
        if q == "prefixiter":
            return "ok " + brack(sorted("%s:%d" % (hx(x), a.we) for x, a in self.nodes.items() if a.we))
        if q == "counts":
            return "ok pages=%d crawled=%d links2=%d" % (
                sum(1 for a in self.nodes.values() if a.page),
                sum(1 for a in self.nodes.values() if a.page and a.crawled), 2 * len(self.links))
        if q == "lrunode":
            return "present" if unx(w[1]) in self.nodes else "ok none"
        if q == "expand" or q == "variations":
            if not in_c17_grammar(unx(w[1])):
                raise Unknown("outside C17's grammar")
            v = variations(unx(w[1]))
            if v is None:
                raise Unknown("variations")
            return "ok " + brack([hx(x) for x in v])
        raise Unknown(q)

    def trie_blocks(self):
        n = 1
        for x in self.nodes:
            last = stems_of(x)[-1]
            n += max(1, -(-len(last) // 74))
        return n


SORTED_KINDS = {"pages", "crawledpages", "pagelinks", "pagelinksof", "pagesiter", "prefixiter", "linksiter"}


def canon_answer(kind, ans):
    """order-insensitive canonical form of an implementation answer for kinds whose order no property fixes"""
    if not ans.startswith("ok "):
        return ans
    if kind in SORTED_KINDS and ans.startswith("ok ["):
        return "ok " + brack(sorted(split_list(ans[3:])))
    if ans.startswith("ok pages=") and " we={" in ans:
        head, we = ans.split(" we={", 1)
        we = we[:-1]
        items = []
        for it in (we.split(";") if we else []):
            k, v = it.split(":", 1)
            items.append((k == "none", int(k) if k != "none" else 0, k, brack(sorted(split_list(v)))))
        items.sort()
        return head + " we={" + ";".join("%s:%s" % (k, v) for _, _, k, v in items) + "}"
    return ans

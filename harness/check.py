"""bin/check <Cxx> --tier quick|thorough — the check protocol of DESIGN §6."""
import atexit, hashlib, json, os, random, shutil, sys, tempfile, time, traceback

HERE = os.path.dirname(os.path.abspath(__file__))
ROOT = os.path.abspath(os.path.join(HERE, ".."))


def main(argv):
    prop = argv[1]
    tier = os.environ.get("VERIF_TIER") or "quick"
    if "--tier" in argv:
        tier = argv[argv.index("--tier") + 1]
    seed = int(os.environ.get("VERIF_SEED", "0") or 0)
    t0 = time.time()
    scratch = tempfile.mkdtemp(prefix="traph-verif-")
    atexit.register(lambda: shutil.rmtree(scratch, ignore_errors=True))
    os.makedirs(os.path.join(ROOT, "evidence"), exist_ok=True)
    os.makedirs(os.path.join(ROOT, "replays"), exist_ok=True)
    from . import leanbuild
    build = leanbuild.build(tier)
    from . import props
    try:
        out = props.run(prop, tier, seed, scratch, build)
    except Exception:
        traceback.print_exc()
        if not (build.get("ok_model") and build.get("ok_proofs")):
            print("INTERNAL-ERROR property=%s" % prop)
            return 2
        # model and proofs are fine; the harness itself broke down while driving or interpreting the implementation under
        # test (it does not on the pinned tree): the correspondence cannot be established on this tree — a broken tie, reported
        out = props.Outcome(prop, tier, seed)
        out.cfg = None
        out.violation({"kind": "no-failing-input-found",
                       "no_longer_checks": ["correspondence of %s: the harness could not drive / interpret the implementation under test" % prop],
                       "traceback": traceback.format_exc()[-3000:]}, nofail=True)
    out.finish(build, time.time() - t0)
    return out.exit_code


if __name__ == "__main__":
    sys.exit(main(sys.argv))

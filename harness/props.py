"""Per-property check logic: correspondence slice, oracle, extra harnesses, verdict, evidence."""
import collections, hashlib, json, os, random, re, time

from . import corr, model, oracle, leanbuild
from .impl import Impl, hx, unx, brack, RULES, fnv
from .oracle import KIND_PROPS

ROOT = leanbuild.ROOT
ALL = ["C%02d" % i for i in range(1, 21)]

BYTE_PROPS = {"C02", "C11", "C15", "C18", "C19"}      # properties whose slice includes the write-by-write tie
REPORT_PROPS = {"C01", "C06", "C12", "C17"}
EDIT_PROPS = {"C04", "C12", "C13"}

PROFILES = {
    "C01": {"w": {"addpage": 8, "addpages": 4, "addlinks": 4, "batch": 4}, "r": {"global": 6, "pages": 2}},
    "C02": {"g1": 0.3, "r": {"locate": 8, "resolution": 2, "metrics": 1}},
    "C03": {"co_interleave": 0.5, "w": {"addlinks": 8, "batch": 6, "clear": 0.6, "cobatch": 2.5}, "r": {"pagelinks": 6, "linksiter": 4, "global": 2}},
    "C04": {"g1": 0.8, "w": {"chain": 0.25, "create": 6, "delete": 3, "deleteu": 1.5, "addprefix": 3, "rmprefix": 3, "moveprefix": 2}, "r": {"resolution": 8, "global": 2}},
    "C05": {"g1": 0.85, "w": {"create": 5, "addprefix": 2, "clear": 0.5, "delete": 2, "rmprefix": 2}, "r": {"pages": 8, "resolution": 4, "global": 2}},
    "C06": {"g1": 1.0, "init_rules": 0.8, "w": {"addrule": 5, "nestedrules": 1.5, "reinstall": 1.5, "addruleram": 1.2, "rmrule": 1, "addpage": 8}, "r": {"resolution": 6, "global": 3}},
    "C07": {"g1": 0.9, "big_ids": 0.12, "w": {"addlinks": 7, "batch": 5, "create": 4, "rmprefix": 2, "delete": 2, "clear": 0.5}, "r": {"network": 8}},
    "C08": {"g1": 0.9, "big_ids": 0.08, "w": {"addlinks": 7, "batch": 5, "create": 4, "rmprefix": 2, "delete": 2, "clear": 0.5}, "r": {"welinks": 8}},
    "C09": {"g1": 0.9, "w": {"nestsite": 1.5, "addpage": 10, "addpages": 4, "create": 3, "clear": 0.5}, "r": {"paginate": 8, "pages": 1, "helpers": 1}},
    "C10": {"g1": 0.9, "w": {"nestsite": 2, "addlinks": 8, "batch": 5, "addpage": 5, "create": 3, "rmprefix": 2, "delete": 2, "clear": 0.5}, "r": {"paginatelinks": 8, "helpers": 2}},
    "C11": {"w": {"reopen": 4, "clear": 1.2, "cobatch": 1.5}, "read_rate": 0.7, "abandon_batch": 0.5},
    "C12": {"g1": 0.9, "init_rules": 0.5, "poke_ids": 0.4, "w": {"create": 5, "delete": 2, "reopen": 2, "addrule": 2, "clear": 0.6, "addprefix": 2, "moveprefix": 1.5}, "r": {"global": 4}},
    "C13": {"g1": 0.9, "init_rules": 0.6, "w": {"create": 6, "addprefix": 3, "moveprefix": 2, "rmprefix": 2.5, "delete": 1, "deleteu": 0.6, "addrule": 3, "addlinks": 6, "batch": 3}, "r": {"hierarchy": 4, "hierarchy_all": 6}, "read_rate": 0.8,
            "defaults": ["domain", "path1", "path2", "subdomain"]},
    "C14": {"read_rate": 0.9, "init_rules": 0.7, "forget_rule": 0.5, "w": {"reopen": 2.5}, "abandon_batch": 0.3},
    "C15": {"w": {"reopen": 0}, "abandon_batch": 0.2},
    "C16": {},
    "C17": {"g1": 1.0, "r": {"helpers": 8}},
    "C18": {"w": {"reopen": 0, "clear": 0}},
    "C19": {"g1": 0.35, "r": {"metrics": 6, "global": 2}},
    "C20": {"g1": 0.9, "w": {"addlinks": 8, "batch": 5, "create": 4, "rmprefix": 1.5, "delete": 1.5, "clear": 1.8}, "r": {"mostlinked": 8}},
}
BUDGET = {"quick": (150, 22), "thorough": (2500, 35)}
# the translation tie (gen/gen_helpers.py -> lean/Gen): property -> theorems about the GENERATED helper functions
GEN_TIES = {
    "C17": ["lru_variations_eq", "https_variation_eq", "C17_source_total", "C17_source_closed", "C17_source_local"],
    "C09": ["build_pagination_token_eq", "parse_pagination_token_eq", "int_to_base64_eq", "base64_to_int_eq",
            "C09_source_token_roundtrip", "C09_source_base64_roundtrip"],
    "C10": ["build_pagination_token_eq", "parse_pagination_token_eq", "C09_source_token_roundtrip"],
    "C19": ["chunks_iter_eq", "detailed_chunks_iter_eq", "C19_source_chunks"],
    "C02": ["chunks_iter_eq", "lru_iter_eq", "C19_source_chunks", "C02_source_lru_iter"],
    # the storage classes (gen/gen_storage.py -> lean/Gen/Storage.lean, equal to the storage machines of the model)
    "C15": ["FileStorage.read_eq", "FileStorage.write_eq", "MemoryStorage.read_eq", "MemoryStorage.write_eq", "MemMapStorage.read_eq",
            "C15_source_mmap", "C15_source_write", "C15_source_equiv"],
    "C11": ["FileStorage.check_for_corruption_eq", "FileStorage.len_eq", "FileStorage.read_eq", "FileStorage.write_eq"],
    "C18": ["FileStorage.check_for_corruption_eq", "FileStorage.write_eq"],
}
HELPER_TIES = {"C17", "C09", "C10", "C19", "C02"}


class Outcome(object):
    def __init__(self, prop, tier, seed):
        self.prop, self.tier, self.seed = prop, tier, seed
        self.violations, self.known, self.notes = [], [], []
        self.programs = self.ops = self.judged = self.unknown = 0
        self.distinct = set()
        self.nontrivial = 0
        self.samples = []
        self.kinds = collections.Counter()
        self.families = collections.Counter()
        self.errors = collections.Counter()
        self.disagreements = 0
        self.out_of_slice = collections.Counter()
        self.extra = {}
        self.exit_code = 0
        self.cfg = None

    # ---- recording
    def record_sequence(self, lines, answers, family):
        self.programs += 1
        self.ops += len(lines)
        h = hashlib.sha1("\n".join(lines).encode()).hexdigest()
        nontriv = any(not l.startswith("?") and not l.startswith("init") for l in lines) and \
            any(l.startswith("?") and a not in ("ok []", "ok none") and a.startswith("ok") for l, a in zip(lines, answers))
        if h not in self.distinct and nontriv:
            self.nontrivial += 1
        self.distinct.add(h)
        self.families[family] += 1
        for l, a in zip(lines, answers):
            w = l.split(" ")
            self.kinds[w[1] if w[0] == "?" else w[0]] += 1
            if a.startswith("err"):
                self.errors[a] += 1
        if len(self.samples) < 2:
            self.samples.append({"family": family, "first_lines": [x[:160] for x in lines[:10]], "length": len(lines)})

    def write_replay(self, obj):
        body = json.dumps(obj, indent=1, sort_keys=True)
        h = hashlib.sha1(body.encode()).hexdigest()[:10]
        rel = os.path.join("replays", "%s-%s.json" % (self.prop, h))
        with open(os.path.join(ROOT, rel), "w") as f:
            f.write(body)
        return rel

    def violation(self, obj, nofail=False):
        obj = dict(obj); obj["property"] = self.prop; obj["tree"] = os.environ.get("TRAPH_REPO", "/repo")
        obj["config"] = self.cfg
        rel = self.write_replay(obj)
        self.violations.append((rel, nofail))

    def finish(self, build, wall):
        thms = build.get("by_property", {}).get(self.prop, [])
        discharged = [t for t in thms if t in build.get("theorems", {}) and set(build["theorems"][t]) <= leanbuild.ALLOWED_AXIOMS]
        axioms = sorted(set(a for t in discharged for a in build["theorems"][t]))
        cov = {
            "obligations": max(1, len(thms)), "discharged": len(discharged) if build.get("ok_proofs") else min(len(discharged), max(0, len(thms) - 1)),
            "checker_cmd": "gen/gen_layout.py && lake build Traph driver Proofs Props && lake env lean .lake/Audit.lean (#print axioms on every Cxx_* theorem)" +
                           (" && lake env leanchecker Props.*" if self.tier == "thorough" else ""),
            "trusted_base": ["Lean kernel: " + leanbuild.lean_version(), "axioms used by this property's theorems: " + (", ".join(axioms) or "none"),
                             "translator gen/gen_layout.py (struct layouts, flag bits, constants measured through the package)",
                             "correspondence harness (harness/*.py): generator, canonicaliser, differ; compiled model driver (Lean compiler + C toolchain)",
                             "modelled, not verified: CPython bytes/dict/Counter/heapq/generators, struct, re on the rule family, OS files as byte arrays"],
            "theorems": {t: build.get("theorems", {}).get(t) for t in thms},
            "proofs_ok": bool(build.get("ok_proofs")), "forbidden_constructs": build.get("forbidden", []),
            "layout": build.get("layout"), "lean_build_s": build.get("wall_s"), "leanchecker": build.get("leanchecker"),
            "programs": self.programs, "operations": self.ops, "disagreements_checked": self.disagreements,
            "out_of_slice_disagreements": dict(self.out_of_slice),
            "evaluations": self.programs, "distinct_nontrivial": self.nontrivial,
            "rule": "operation sequences drawn from one PRNG (VERIF_SEED) by harness/gen.py, executed on the real Traph (file back-end, "
                    "and replayed on the memory back-end when no reopen occurs) and on the compiled Lean model; a sequence is non-trivial "
                    "when it contains a write besides init and a read with a non-empty ok answer; distinct by SHA-1 of its lines",
            "samples": self.samples or [{"note": "no generated sequence in this check; see extra"}],
            "op_kinds": dict(self.kinds), "families": dict(self.families), "error_answers": dict(self.errors),
            "oracle_judged": self.judged, "oracle_unknown": self.unknown, "config_probed": self.cfg, "extra": self.extra,
            "known_findings_shown": self.known, "notes": self.notes,
        }
        ev = {"property_id": self.prop, "tier": self.tier, "seed": self.seed, "level": "proof", "coverage": cov,
              "assumptions": ["a crash leaves a prefix of the program-ordered writes (C18)", "ids < 2^32, offsets < 2^64",
                              "rule patterns are from Hyphe's family (test/config.py) or never-matching"],
              "wall_s": round(wall, 2), "violations": len(self.violations)}
        evdir = os.environ.get("VERIF_EVIDENCE_DIR") or os.path.join(ROOT, "evidence")   # seeded runs point this elsewhere
        os.makedirs(evdir, exist_ok=True)
        with open(os.path.join(evdir, self.prop + ".json"), "w") as f:
            json.dump(ev, f, indent=1, sort_keys=True)
        for k in self.known:
            print("KNOWN-FINDING: property=%s %s" % (self.prop, k))
        for rel, nofail in self.violations[:5]:
            print("VIOLATION property=%s replay=%s%s" % (self.prop, rel, " no-failing-input-found" if nofail else ""))
        if self.violations:
            self.exit_code = 1
        else:
            print("PASS property=%s tier=%s seed=%d sequences=%d ops=%d theorems=%d wall=%.1fs" % (
                self.prop, self.tier, self.seed, self.programs, self.ops, len(discharged), wall))


# ---------------------------------------------------------------------------------------------------------------
def probe_config(scratch):
    """three tiny probes on the real code (DESIGN §5.3)"""
    bits = []
    im = Impl(scratch)
    try:
        # lonelyIndegreeOne
        im.exec("init mem never [] 111")
        im.exec("addpage %s 0" % hx(b"a|b|"))
        im.exec("create [%s]" % hx(b"a|"))
        a = im.exec("? mostlinked 1 [%s] 3 -" % hx(b"a|"))[0]
        bits.append("1" if a == "ok [%s:1]" % hx(b"a|b|") else "0")
        # addPagesAlwaysCrawled
        im.exec("init mem never [] 111")
        im.exec("addpages [%s] 0" % hx(b"a|"))
        a = im.exec("? counts")[0]
        bits.append("1" if "crawled=1" in a else "0")
        # noneInCitedSets
        im.exec("init mem never [] 111")
        im.exec("create [%s]" % hx(b"a|"))
        im.exec("addlinks [%s>%s]" % (hx(b"a|x|"), hx(b"b|")))
        a = im.exec("? weout 1 [%s]" % hx(b"a|"))[0]
        bits.append("1" if a == "ok [0]" else "0")
    finally:
        im.close()
    return "".join(bits)


def in_slice(prop, m, lines):
    """does correspondence mismatch `m` concern an observable of `prop` (DESIGN Appendix B)?"""
    w = m.line.split(" ")
    kind = m.kind()
    if prop == "C15":
        return True
    if prop == "C11":
        return any(l.startswith(("reopen", "clear", "overwrite")) for l in lines[: m.idx + 1]) or m.what == "writes" or kind == "hash"
    if prop == "C14":
        return w[0] == "?" or kind == "hash"
    if m.what == "writes":
        return prop in BYTE_PROPS and w[0] != "?"
    if w[0] == "?":
        return prop in KIND_PROPS.get(kind, [])
    if kind == "hash":
        return prop in BYTE_PROPS
    # answers of write requests (a generator drained by hand answers "done <report>")
    if m.impl.startswith("done ") and m.mdl.startswith("done "):
        m = corr.Mismatch(m.idx, m.line, m.what, m.impl[5:], m.mdl[5:], m.backend)
    if m.impl.startswith("ok pages=") and m.mdl.startswith("ok pages="):
        pi, pm = m.impl.split(" we=")[0], m.mdl.split(" we=")[0]
        if pi != pm and prop == "C01":
            return True
        return prop in ("C06", "C12", "C17") and m.impl.split(" we=")[1] != m.mdl.split(" we=")[1]
    return prop in ("C04", "C06", "C12", "C01") or (prop == "C13" and kind in ("create", "addprefix", "moveprefix"))


def load_corpus(prop):
    out = []
    d = os.path.join(ROOT, "corpus")
    for f in sorted(os.listdir(d)) if os.path.isdir(d) else []:
        if f.endswith(".json"):
            o = json.load(open(os.path.join(d, f)))
            if not o.get("properties") or prop in o["properties"]:
                out.append((f, o))
    return out


def known_findings():
    p = os.path.join(ROOT, "known_findings.json")
    return json.load(open(p)) if os.path.exists(p) else []


def matches_known(prop, finding):
    for k in known_findings():
        if k.get("status") != "open" or prop not in k.get("properties", [k.get("property")]):
            continue
        sig = k.get("signature", {})
        if sig.get("kind") and sig["kind"] != finding.kind:
            continue
        if sig.get("got_regex") and not re.search(sig["got_regex"], finding.got or ""):
            continue
        if sig.get("reason_regex") and not re.search(sig["reason_regex"], finding.reason or ""):
            continue
        return k
    return None


def matches_known_extra(prop, h):
    for k in known_findings():
        if k.get("status") != "open" or prop not in k.get("properties", []):
            continue
        sig = k.get("signature", {})
        if sig.get("extra_kind") == h.get("kind") and re.search(sig.get("reason_regex", "$^"), (h.get("finding") or {}).get("reason", "")):
            return k
    return None


def judge_and_compare(out, prop, lines, st, mism, cfg, source):
    """feed one executed sequence to the oracle and classify the correspondence mismatches; returns
    (oracle findings for prop, in-slice mismatches)"""
    answers = [a[0] for a in st["file"]]
    j = oracle.judge(lines, answers)
    out.judged += j.judged; out.unknown += j.unknown
    mine = [f for f in j.findings if prop in f.props]
    if st.get("mem"):
        jm = oracle.judge(lines, [a[0] for a in st["mem"]])
        for f in jm.findings:
            if prop in f.props or prop == "C15":
                f.backend = "mem"
                mine.append(f)
    ins = []
    for m in mism:
        out.disagreements += 1
        if in_slice(prop, m, lines):
            ins.append(m)
        else:
            out.out_of_slice[m.kind() + ":" + m.what] += 1
    return mine, ins


def shrink(scratch, lines, still_fails, budget=60):
    """delta-debugging on the op list (keeps the init line)"""
    cur = list(lines)
    n = 2
    tries = 0
    while len(cur) > 2 and tries < budget:
        chunk = max(1, (len(cur) - 1) // n)
        reduced = False
        i = 1
        while i < len(cur) and tries < budget:
            cand = cur[:i] + cur[i + chunk:]
            tries += 1
            if len(cand) >= 2 and still_fails(cand):
                cur = cand; reduced = True
            else:
                i += chunk
        if not reduced:
            if chunk == 1:
                break
            n = min(len(cur), n * 2)
    return cur


def oracle_fails_on(scratch, prop, lines, backend=None):
    if any(l.startswith("reopen") for l in lines):
        backend = None
    res = corr.replay_impl(scratch, lines, backend=backend)
    j = oracle.judge(lines, [a[0] for a in res])
    out = [f for f in j.findings if prop in f.props or (prop == "C15" and backend == "mem")]
    for f in out:
        f.backend = backend or "file"
    return out


def run(prop, tier, seed, scratch, build):
    out = Outcome(prop, tier, seed)
    cfg = probe_config(scratch)
    out.cfg = cfg
    thms = build.get("by_property", {}).get(prop, [])
    proof_ok = bool(build.get("ok_proofs")) and bool(thms)
    model_ok = bool(build.get("ok_model"))
    broken = []           # names of proof obligations / correspondence slices that no longer check
    if not thms:
        out.notes.append("no property theorem registered for %s yet" % prop)
    if not build.get("ok_proofs"):
        broken.append("lean build/audit: failed modules %s; forbidden %s; bad axioms %s; missing %s; log tail: %s" % (
            build.get("failed_modules"), build.get("forbidden"), build.get("bad_axioms"), build.get("missing"), build.get("log", "")[-1500:]))
    nseq, nops = BUDGET[tier]
    profile = PROFILES.get(prop, {})
    oracle_hits, corr_hits = [], []
    # translation tie for the helper functions this property leans on: never a verdict by itself (the theorems of
    # lean/Props are about the hand-written model, which the correspondence check ties to the code); when it does not
    # check, the helper functions get a much larger differential budget below and the evidence says so
    gen = build.get("gen") or {}
    tie = GEN_TIES.get(prop)
    gen_broken = False
    if tie:
        gthm = gen.get("theorems", {})
        lost = [t for t in tie if t not in gthm or not set(gthm[t]) <= leanbuild.ALLOWED_AXIOMS]
        gen_broken = bool(lost) or not gen.get("ok")
        out.extra["translation_tie"] = {
            "what": "traph/helpers.py and traph/storage/*.py translated to Lean by gen/gen_helpers.py / gen/gen_storage.py on this run; each "
                    "generated function proved equal to the model function (Gen/HelpersEq.lean, Gen/StorageEq.lean); property theorems "
                    "restated on the generated functions (Gen/Lifted.lean, C15_source_*)",
            "functions": gen.get("status"), "theorems": {t: gthm.get(t) for t in tie}, "checks": not gen_broken,
            "no_longer_checks": lost, "log": (gen.get("log") or "")[-1200:] if gen_broken else ""}
        if gen_broken:
            out.notes.append("translation tie (helpers.py / storage classes) does not check on this tree (%s): tie by correspondence only, "
                             "with a larger differential budget" % (", ".join(lost) or "build"))
            print("NOTE property=%s translation tie (helpers.py / storage classes) unavailable or broken; correspondence carries the tie" % prop)

    def one(lines_or_seed, corpus_name=None, profile=profile, nops=nops):
        if corpus_name is not None:
            lines = lines_or_seed
            fres = corr.replay_impl(scratch, lines)
            mres = model.run_lines(lines) if model_ok else None
            mism = corr.compare(lines, fres, mres, "file") if mres else []
            mem = None
            if not any(l.startswith("reopen") for l in lines):
                mem = corr.replay_impl(scratch, lines, backend="mem")
                if mres:
                    mism += corr.compare(lines, mem, mres, "mem")
            st = {"family": "corpus:" + corpus_name, "file": fres, "mem": mem, "model": mres}
        else:
            if model_ok:
                lines, mism, st = corr.run_sequence(scratch, lines_or_seed, profile, nops, cfg=cfg)
            else:
                r = random.Random(lines_or_seed)
                im = Impl(scratch)
                try:
                    from .gen import Session
                    ses = Session(im, r, profile, cfg=cfg); ses.run(nops)
                finally:
                    im.close()
                lines, mism, st = ses.lines, [], {"family": ses.family, "file": ses.results, "mem": None}
        out.record_sequence(lines, [a[0] for a in st["file"]], st["family"])
        mine, ins = judge_and_compare(out, prop, lines, st, mism, cfg, corpus_name)
        for f in mine:
            oracle_hits.append((lines, f))
        for m in ins:
            corr_hits.append((lines, m))

    for name, o in load_corpus(prop):
        one(o["lines"], corpus_name=name)
    base = seed * 1000003 + int(prop[1:]) * 7919
    deadline = time.time() + (150 if tier == "quick" else 2400)
    for i in range(nseq):
        one(base + i)
        if len(oracle_hits) >= 3:
            break
        if time.time() > deadline:
            out.notes.append("time budget reached after %d generated sequences" % (i + 1))
            break

    if gen_broken and len(oracle_hits) < 3 and not corr_hits:
        if prop in HELPER_TIES:
            hp = dict(profile); hp["r"] = {"helpers": 10, "paginate": 1 if prop in ("C09", "C10") else 0, "metrics": 1 if prop in ("C19", "C02") else 0}
            hp["read_rate"] = 1.0
            extra_n, extra_ops = (300 if tier == "quick" else 4000), 5
        else:                                   # storage classes: more of the property's own sequences (both back-ends, reopenings)
            hp, extra_n, extra_ops = profile, (120 if tier == "quick" else 1500), nops
        for i in range(extra_n):
            one(base + 500000 + i, profile=hp, nops=extra_ops)
            if len(oracle_hits) >= 3 or corr_hits or time.time() > deadline + 60:
                break

    # property-specific harnesses (direct failing-input finders and the implementation-only ties)
    from . import extra
    extra_hits = extra.run(prop, tier, seed, scratch, cfg, out, model_ok)

    # known findings: re-demonstrate open ones from their stored witness
    from . import findings as kf
    kf.demonstrate(prop, scratch, out)

    # ---- verdict
    reported = 0
    for lines, f in oracle_hits:
        k = matches_known(prop, f)
        if k:
            line = "%s (%s)" % (k["text"], k["id"])
            if line not in out.known:
                out.known.append(line)
            continue
        be = getattr(f, "backend", None)
        small = shrink(scratch, lines, lambda c: bool(oracle_fails_on(scratch, prop, c, be))) if tier == "quick" or reported == 0 else lines
        fs = oracle_fails_on(scratch, prop, small, be) or [f]
        out.violation({"kind": "oracle", "backend": be or "file", "lines": small, "finding": fs[0].to_json(), "how": "bin/replay <this file>"})
        reported += 1
        if reported >= 2:
            break
    for h in extra_hits:
        k = matches_known_extra(prop, h)
        if k:
            line = "%s (%s)" % (k["text"], k["id"])
            if line not in out.known:
                out.known.append(line)
            continue
        out.violation(h, nofail=(h.get("kind") == "no-failing-input-found"))
        reported += 1
    if reported == 0 and (corr_hits or broken):
        # the proof or the tie is broken: search harder for a concrete failing input
        found = None
        tried = 0
        search_n = 400 if tier == "quick" else 3000
        cand_lines = [l for l, _ in corr_hits[:20]]
        for lines in cand_lines:
            fs = oracle_fails_on(scratch, prop, lines)
            if fs and not matches_known(prop, fs[0]):
                found = (lines, fs[0]); break
        r = random.Random(seed + 99)
        search_deadline = time.time() + (120 if tier == "quick" else 1200)
        while found is None and tried < search_n and time.time() < search_deadline:
            tried += 1
            im = Impl(scratch)
            try:
                from .gen import Session
                ses = Session(im, random.Random(base + 100000 + tried), profile, cfg=cfg)
                ses.run(nops + 10)
            finally:
                im.close()
            j = oracle.judge(ses.lines, [a[0] for a in ses.results])
            fs = [f for f in j.findings if prop in f.props and not matches_known(prop, f)]
            if fs:
                found = (ses.lines, fs[0])
        if found:
            lines, f = found
            small = shrink(scratch, lines, lambda c: bool(oracle_fails_on(scratch, prop, c)))
            fs = oracle_fails_on(scratch, prop, small) or [f]
            out.violation({"kind": "oracle-after-broken-tie", "lines": small, "finding": fs[0].to_json(),
                           "broken": broken + [m.to_json() for _, m in corr_hits[:3]]})
        else:
            lines, m = corr_hits[0] if corr_hits else ([], None)
            out.violation({"kind": "no-failing-input-found",
                           "no_longer_checks": broken + (["correspondence slice of %s: model and implementation disagree on '%s' (%s)" % (prop, m.kind(), m.what)] if m else []),
                           "disagreement": m.to_json() if m else None, "lines": lines[: (m.idx + 1) if m else 0],
                           "search": "%d extra sequences judged by the oracle without a failing input" % tried}, nofail=True)
    return out

"""Operation-sequence generator (DESIGN §5.2). Everything random is drawn from one `random.Random`.
Generation is adaptive: the session executes each line on the implementation as it goes so that later
operations can refer to ids and prefixes that exist; the recorded lines are then replayed through the model."""
from .impl import hx, brack, unx

LONG = [73, 74, 75, 76, 147, 148, 149, 150, 221, 222, 223, 296, 300]
G2_BYTES = [0x00, 0x01, 0x7B, 0x7D, 0x41, 0x61, 0xFF, 0x80, 0x3A, 0x6D, 0x0A, 0x0D, 0x20, 0x5C, 0x2E, 0x24]   # incl. newline, CR, space, backslash, dot, dollar
RULE_NAMES = ["never", "domain", "subdomain", "path1", "path2", "path3", "path4"]


class LruSpace(object):
    """a small universe of stems so that shared prefixes, collisions and nesting are the norm"""

    def __init__(self, r, family):
        self.r = r
        self.family = family
        if family == "g1":
            self.schemes = [b"s:http|", b"s:https|"] + ([b"s:ftp|"] if r.random() < 0.3 else []) + \
                           ([b"S:HTTP|"] if r.random() < 0.15 else [])
            self.ports = [b"t:80|", b"t:8080|"]
            hosts = [b"h:com|", b"h:org|", b"h:a|", b"h:b|", b"h:www|", b"h:mm|", b"h:m|"] + \
                    ([r.choice([b"h:WWW|", b"h:Www|", b"h:wwW|"])] if r.random() < 0.25 else [])
            r.shuffle(hosts)
            self.hosts = hosts[: r.randint(3, 6)]
            self.special = [b"h:localhost|", b"h:1.2.3.4|", b"h:[::1]|", b"h:LocalHost|"]
            paths = [b"p:x|", b"p:y|", b"p:m|", b"p:mm|", b"p:s:http|", b"p:h:www|", b"P:Z|", b"p:|",
                     b"p:" + b"L" * r.choice([71, 72, 73, 74, 146, 147, 200]) + b"|", b"p:\xc3\xa9|", b"p:{|", b"p:}|"]
            r.shuffle(paths)
            self.paths = paths[: r.randint(3, 7)]
            if r.random() < 0.5:        # long siblings that agree on everything the head block holds (any order of arrival)
                head = b"p:" + b"L" * 72
                sib = [head + r.choice([b"-zz|", b"zz|", b"LLz|"]), head + r.choice([b"-mm|", b"a|", b"LL|", b"|"]), head + r.choice([b"0|", b"Lm|", b"z|"])]
                r.shuffle(sib)
                self.paths += sib[: r.choice([2, 3])]
            self.deep = r.random() < 0.12  # now and then pages many stems below their site
            self.tails = [b"q:a=1|", b"f:top|", b"q:s:http|"]
        else:
            n = r.randint(3, 7)
            self.stems = []
            for _ in range(n):
                if r.random() < 0.22:
                    L = r.choice(LONG)
                else:
                    L = r.choice([1, 1, 2, 2, 3])
                alphabet = r.sample(G2_BYTES, r.randint(1, 3))
                body = bytes(r.choice(alphabet) for _ in range(L - 1))
                self.stems.append(body + b"|")
                if L > 76 and r.random() < 0.7:     # a sibling that differs only beyond the head block
                    self.stems.append(body[:74] + bytes(r.choice(alphabet) for _ in range(r.choice([0, 1, 3, 80]))) + b"|")
            if r.random() < 0.3:
                self.stems.append(b"|")

    def lru(self):
        r = self.r
        if self.family == "g1":
            out = r.choice(self.schemes)
            if r.random() < 0.2:
                out += r.choice(self.ports)
            if r.random() < 0.12:
                out += r.choice(self.special)
            else:
                for _ in range(r.choice([1, 2, 2, 2, 3, 3, 4])):
                    out += r.choice(self.hosts)
            for _ in range(r.choice([0, 0, 1, 1, 2, 3, 4]) + (r.choice([0, 5, 7, 9]) if getattr(self, "deep", False) else 0)):
                out += r.choice(self.paths)
            if r.random() < 0.15:
                out += r.choice(self.tails)
            return out
        return b"".join(r.choice(self.stems) for _ in range(r.choice([1, 2, 2, 3, 3, 4, 5])))


def utf8_clean(b):
    try:
        return b.decode("utf-8").encode("utf-8") == b
    except UnicodeDecodeError:
        return False


def stems_of(l):
    out, last = [], 0
    for i, b in enumerate(l):
        if b == 0x7C:
            out.append(l[last:i + 1]); last = i + 1
    return out


class Session(object):
    """drives one implementation instance; records (line, answer, nwrites, fingerprint)"""

    def __init__(self, impl, r, profile, backend="file", family=None, cfg="111"):
        self.impl, self.r, self.p = impl, r, profile
        self.backend = backend
        self.family = family or ("g1" if r.random() < profile.get("g1", 0.65) else "g2")
        self.space = LruSpace(r, self.family)
        self.known = []          # LRUs named so far
        self.pages = []          # LRUs submitted as pages
        self.lines, self.results = [], []
        self.cfg = cfg
        self.tokens = {}         # resume tokens from pagination answers

    # -- plumbing
    def do(self, line):
        res = self.impl.exec(line)
        self.lines.append(line); self.results.append(res)
        return res[0]

    def note(self, *lrus):
        for l in lrus:
            if l not in self.known:
                self.known.append(l)

    # -- argument pickers
    def new_lru(self):
        return self.space.lru()

    def any_lru(self):
        r = self.r
        x = r.random()
        if self.known and x < 0.55:
            return r.choice(self.known)
        if self.known and x < 0.7:                      # proper prefix of a known one
            st = stems_of(r.choice(self.known))
            return b"".join(st[: r.randint(1, len(st))])
        if self.known and x < 0.8:                      # extension of a known one
            return r.choice(self.known) + stems_of(self.new_lru())[-1]
        return self.new_lru()

    def page_lru(self):
        if self.pages and self.r.random() < 0.45:
            return self.r.choice(self.pages)
        return self.any_lru()

    def we_map(self):
        m = {}
        try:
            for node, lru in self.impl.t.webentity_prefix_iter():
                m.setdefault(node.webentity(), []).append(lru)
        except Exception:
            pass
        return m

    def pick_we(self):
        m = self.we_map()
        if not m or self.r.random() < 0.08:
            return self.r.randint(1, 9), [self.any_lru()]
        w = self.r.choice(sorted(m))
        ps = list(m[w])
        self.r.shuffle(ps)
        if self.r.random() < 0.1 and len(ps) > 1:
            ps = ps[:-1]
        return w, ps

    def rules_arg(self, n=None):
        r = self.r
        n = r.choice([0, 0, 1, 1, 2]) if n is None else n
        d = {}
        for _ in range(n):
            st = stems_of(self.any_lru())
            d[b"".join(st[: r.randint(1, len(st))])] = r.choice(RULE_NAMES[1:])
        return brack(["%s=%s" % (hx(a), v) for a, v in d.items()])

    # -- operations
    def init(self):
        d = self.r.choice(self.p.get("defaults", ["domain", "domain", "never", "subdomain", "path1"]))
        self.dflt = d
        self.rules_s = self.rules_arg() if self.r.random() < self.p.get("init_rules", 0.4) else "[]"
        # now and then an index constructed with another `encoding=`: text arguments are then encoded with it (the model sees bytes)
        enc = self.r.choice(["latin-1", "cp1252"]) if self.r.random() < 0.12 else None
        a = self.do("init %s%s %s %s %s" % (self.backend, ":" + enc if enc else "", d, self.rules_s, self.cfg))
        if self.r.random() < self.p.get("poke_ids", 0.08):
            # an index that has already issued many ids: the counter just below a power of 256
            self.do("pokeid %d" % self.r.choice([250, 254, 255, 65530, 65534, 65535, 16777213, 16777215, 70000]))
        if self.r.random() < self.p.get("big_ids", 0.04):
            # webentity ids beyond CPython's small-integer cache (> 256): create and delete one webentity over and over
            p = self.space.lru()
            n = self.r.choice([257, 260, 300])
            for k in range(1, n + 1):
                ans = self.do("create " + brack([hx(p)]))
                w = ans.split("we={")[1].split(":")[0] if ans.startswith("ok") and "we={" in ans and ":" in ans else None
                if w is None or not w.isdigit():
                    break
                self.do("delete %s %s" % (w, brack([hx(x) for x in self.we_map().get(int(w), [p])])))
        return a

    def rule_table(self):
        """the RAM rule table of the index under test, keys as bytes (whatever the implementation stores)"""
        out = {}
        try:
            for a, rx in dict(getattr(self.impl.t, "webentity_creation_rules", {}) or {}).items():
                if isinstance(a, str):
                    a = a.encode(getattr(self.impl, "enc", None) or "utf-8", "replace")
                if isinstance(a, (bytes, bytearray)):
                    out[bytes(a)] = rx
        except Exception:
            pass
        return out

    def current_rules_arg(self):
        rs = self.rule_table()
        inv = {}
        from .impl import RULES
        for name, pat in RULES.items():
            inv[pat] = name
        return brack(["%s=%s" % (hx(a), inv.get(rx.pattern, "never")) for a, rx in rs.items()])

    def w_addpage(self):
        l = self.page_lru()
        if self.pages and self.r.random() < 0.12:
            l = self.variation_of(self.r.choice(self.pages))       # the scheme / www twin of a page already there
        self.note(l); self.pages.append(l)
        return self.do("addpage %s %s" % (hx(l), "1" if self.r.random() < 0.4 else "0"))

    def w_addpages(self):
        ls = [self.page_lru() for _ in range(self.r.randint(0, 4))]
        self.note(*ls); self.pages.extend(ls)
        return self.do("addpages %s %s" % (brack([hx(l) for l in ls]), "1" if self.r.random() < 0.5 else "0"))

    def link_pairs(self, n):
        r = self.r
        pool = [self.page_lru() for _ in range(r.randint(1, 4))]
        pairs = []
        for _ in range(n):
            s, t = r.choice(pool), r.choice(pool)
            if r.random() < 0.25:
                t = self.page_lru()
            pairs.append((s, t))
            if r.random() < 0.2:
                pairs.append((s, t))
        return pairs

    def w_addlinks(self):
        pairs = self.link_pairs(self.r.randint(0, 5))
        for s, t in pairs:
            self.note(s, t); self.pages += [s, t]
        return self.do("addlinks " + brack(["%s>%s" % (hx(s), hx(t)) for s, t in pairs]))

    def w_batch(self):
        r = self.r
        pool = [self.page_lru() for _ in range(r.randint(1, 5))]
        data = {}
        for _ in range(r.randint(0, 3)):
            s = r.choice(pool)
            ts = [r.choice(pool) if r.random() < 0.7 else self.page_lru() for _ in range(r.choice([0, 1, 2, 2, 3, 4]))]
            data[s] = ts
        for s, ts in data.items():
            self.note(s, *ts); self.pages += [s] + ts
        if not data:
            return self.do("batch -")
        return self.do("batch " + self.batch_arg(data, pool))

    def batch_arg(self, data, pool):
        """the multimap as text; now and then one source is given twice, once as bytes and once as text (two different keys
        of the caller's dict that name the same page): first character b / s instead of x"""
        r = self.r
        ents = [(hx(s), ts) for s, ts in data.items()]
        clean = [i for i, (s, _) in enumerate(data.items()) if utf8_clean(s)]
        if clean and r.random() < 0.2:
            i = r.choice(clean)
            h, ts = ents[i]
            ents[i] = ("b" + h[1:], ts)
            ts2 = [r.choice(pool) if r.random() < 0.7 else self.page_lru() for _ in range(r.choice([0, 1, 1, 2, 3]))]
            self.note(*ts2); self.pages += ts2
            ents.append(("s" + h[1:], ts2))
        return ";".join("%s>%s" % (h, ",".join(hx(t) for t in ts)) for h, ts in ents)

    def w_cobatch(self):
        """the crawl batch through its generator, advanced by hand and left at the first state that says done (the
        caller need not exhaust it), usually followed by a reopening and a creation"""
        r = self.r
        pool = [self.page_lru() for _ in range(r.randint(1, 4))]
        data = {}
        for _ in range(r.randint(1, 3)):
            s_ = r.choice(pool)
            data[s_] = [r.choice(pool) if r.random() < 0.7 else self.page_lru() for _ in range(r.choice([0, 1, 2, 3]))]
        for s_, ts in data.items():
            self.note(s_, *ts); self.pages += [s_] + ts
        self.co_n = getattr(self, "co_n", 100) + 1
        self.do("co new %d batch %s" % (self.co_n, self.batch_arg(data, pool)))
        a = "yield"
        limit = r.randint(1, 4) if r.random() < self.p.get("abandon_batch", 0.0) else 400   # the caller drops the generator half-way
        inter = self.p.get("co_interleave", 0.0)
        cur = self.co_n
        for _ in range(limit):
            a = self.do("co step %d" % cur)
            if a != "yield":
                break
            if inter and r.random() < inter:            # another request of the same client while the batch is suspended
                getattr(self, "w_" + r.choice(["addlinks", "addlinks", "batch", "addpage"]))()
        if self.backend == "file" and self.p.get("w", {}).get("reopen", 1) > 0 and r.random() < 0.6:
            self.w_reopen()
            self.w_create()
        return a

    def w_chain(self):
        """many sibling stems under one parent, arriving in sorted order (a degenerate sibling tree, as a sorted crawl
        produces), some of them webentity prefixes; then look-ups at the far end"""
        r = self.r
        base = r.choice(self.known) if self.known and r.random() < 0.5 else self.new_lru()
        n = r.choice([70, 90, 130])
        idx = list(range(n))
        if r.random() < 0.5:
            idx.reverse()
        fmt = r.choice([b"p:%04d|", b"p:c%03d|"])
        lrus = [base + (fmt % k) for k in idx]
        for i in range(0, n, 25):
            chunk = lrus[i:i + 25]
            self.do("addpages %s %s" % (brack([hx(l) for l in chunk]), "0"))
        self.note(lrus[0], lrus[-1], lrus[n // 2]); self.pages += [lrus[0], lrus[-1], lrus[n // 2]]
        for l in (lrus[-1], lrus[-2], lrus[n // 2]):
            self.do("create " + brack([hx(l)]))
        for l in (lrus[-1], lrus[-2], lrus[0]):
            self.q("retrievewe " + hx(l + b"p:x|")); self.q("webyprefix " + hx(l)); self.q("lrunode " + hx(l))
        self.q("prefixiter")
        return self.q("counts")

    def w_create(self):
        ps = [self.any_lru() for _ in range(self.r.choice([1, 1, 2, 3]))]
        if self.r.random() < 0.15 and ps:
            ps.append(ps[0])
        self.note(*ps)
        return self.do("create " + brack([hx(p) for p in ps]))

    def probe_queries(self):
        """queries about one webentity, asked before and again after an edit that takes prefixes away (or a clear followed
        by re-indexing): whatever a query remembered on the index object must not outlive the edit"""
        w2, ps2 = self.pick_we()
        a2 = brack([hx(p) for p in ps2])
        sw = self.r.choice(["010", "001", "110", "111"])
        qs = ["pagelinks %d %s %s %s %s" % (w2, a2, sw[0], sw[1], sw[2]), "weout %d %s" % (w2, a2), "wein %d %s" % (w2, a2),
              "network 1 0 %s" % self.r.choice("01"), "network %s 1 1" % self.r.choice("01"),
              "paginatelinks %d %s %s %s %s -" % (w2, a2, sw[1], sw[2], self.r.choice(["1", "2", "-"])),
              "mostlinked %d %s %s %s" % (w2, a2, self.r.choice(["2", "10"]), self.r.choice(["-", "2"])),
              "pages %d %s" % (w2, a2), "children %d %s" % (w2, a2), "paginate %d %s %s - 0" % (w2, a2, self.r.choice(["1", "3", "-"])),
              "pagelinksof %s 1 1 1" % hx(self.page_lru()), "linksiter %s" % self.r.choice("01")]
        # the questions this check is about come first, the rest is drawn
        mine = {"mostlinked": [6], "welinks": [0, 1, 2], "network": [3, 4], "paginatelinks": [5], "pages": [7], "hierarchy": [8],
                "hierarchy_all": [8], "paginate": [9], "pagelinks": [10], "linksiter": [11]}
        first = [qs[i] for k, idx in mine.items() if self.p.get("r", {}).get(k, 0) > 0 for i in idx]
        rest = [q for q in qs if q not in first]
        self.r.shuffle(rest)
        return first + rest[: max(0, self.r.randint(3, 6) - len(first))]

    def w_delete(self):
        w, ps = self.pick_we()
        probe = self.r.random() < 0.5
        if probe:                       # a query, the deletion, the same query again (stale caches show here)
            qs = self.probe_queries()
            for q in qs:
                self.q(q)
        x = self.r.random()
        if x < 0.25 and ps:                 # a deletion the library must refuse: valid prefixes first, then a foreign or unknown one
            m = self.we_map()
            foreign = [p for k, v in m.items() if k != w for p in v]
            bad = self.r.choice(foreign) if foreign and self.r.random() < 0.7 else self.any_lru()
            ps = list(ps) + [bad]
            if self.r.random() < 0.3:
                self.r.shuffle(ps)
        under = (self.r.choice(ps) if ps else self.any_lru()) + self.r.choice([b"", b"p:zz|"])
        self.q("retrievewe " + hx(under)); self.q("retrieveprefix " + hx(under))
        r = self.do("delete %d %s" % (w, brack([hx(p) for p in ps])))
        self.q("retrievewe " + hx(under)); self.q("retrieveprefix " + hx(under))
        if x < 0.25:                        # resolution below every listed prefix, right after the (refused) deletion
            for p in ps[:3]:
                self.q("retrievewe " + hx(p + self.r.choice([b"", b"p:zz|"])))
        if probe:
            for q in qs:
                self.q(q)
        return r

    def w_deleteu(self):
        """delete_webentity(…, check_for_corruption=False): prefixes of one or two webentities, now and then one that is
        not in the index (the request then fails half-way) or one given twice"""
        w, ps = self.pick_we()
        ps = list(ps)
        x = self.r.random()
        if x < 0.3:
            ps += self.pick_we()[1][:1]
        if x > 0.75:
            ps.insert(self.r.randint(0, len(ps)), self.any_lru())
        if ps and self.r.random() < 0.15:
            ps.append(ps[0])
        under = (self.r.choice(ps) if ps else self.any_lru()) + self.r.choice([b"", b"p:zz|"])
        self.q("retrievewe " + hx(under))
        res = self.do("deleteu " + brack([hx(p) for p in ps]))
        self.q("retrievewe " + hx(under))
        return res

    def w_addruleram(self):
        st = stems_of(self.any_lru())
        a = b"".join(st[: self.r.randint(1, len(st))])
        res = self.do("addruleram %s %s" % (hx(a), self.r.choice(RULE_NAMES[1:])))
        self.q("potential " + hx(a + b"p:zz|"))
        return res

    def w_addprefix(self):
        w, _ = self.pick_we()
        p = self.any_lru(); self.note(p)
        return self.do("addprefix %s %d" % (hx(p), w))

    def w_rmprefix(self):
        w, ps = self.pick_we()
        p = self.r.choice(ps) if self.r.random() < 0.8 else self.any_lru()
        self.note(p)
        x = self.r.random()
        arg = str(w) if x < 0.6 else ("-" if x < 0.85 else str(w + 1))
        qs = self.probe_queries() if self.r.random() < 0.5 else []
        for q in qs:
            self.q(q)
        under = p + self.r.choice([b"", b"p:zz|"])
        self.q("retrieveprefix " + hx(under)); self.q("retrievewe " + hx(under))
        res = self.do("rmprefix %s %s" % (hx(p), arg))
        self.q("retrievewe " + hx(under)); self.q("retrieveprefix " + hx(under))
        if self.p.get("r", {}).get("hierarchy_all", 0) > 0:
            self.r_hierarchy_all()           # the pruning marks must survive the removal of a prefix
        for q in qs:
            self.q(q)
        return res

    def w_moveprefix(self):
        w, ps = self.pick_we()
        w2, _ = self.pick_we()
        p = self.r.choice(ps) if self.r.random() < 0.8 else self.any_lru()
        self.note(p)
        x = self.r.random()
        arg = str(w) if x < 0.6 else ("-" if x < 0.85 else str(w + 1))
        qs = self.probe_queries() if self.r.random() < 0.3 else []
        for q in qs:
            self.q(q)
        under = p + self.r.choice([b"", b"p:zz|"])
        self.q("retrievewe " + hx(under))
        res = self.do("moveprefix %s %d %s" % (hx(p), w2, arg))
        self.q("retrievewe " + hx(under)); self.q("webyprefix " + hx(p))
        for q in qs:
            self.q(q)
        return res

    def w_addrule(self):
        st = stems_of(self.any_lru())
        a = b"".join(st[: self.r.randint(1, len(st))]); self.note(a)
        rs = list(self.rule_table().keys())
        below = [l for l in self.known for q in rs if l.startswith(q) and len(stems_of(l)) > len(stems_of(q))]
        if below and self.r.random() < 0.4:
            # an anchor nested below an anchored rule, with a rule that proposes a longer prefix than the one above
            l = self.r.choice(below)
            q = max((q for q in rs if l.startswith(q)), key=len)
            stl = stems_of(l)
            if len(stems_of(q)) + 1 <= len(stl):
                a = b"".join(stl[: self.r.randint(len(stems_of(q)) + 1, len(stl))]); self.note(a)
                self.q("pagesiter")
                return self.do("addrule %s %s" % (hx(a), self.r.choice(["path2", "path3", "path4"])))
        self.q("pagesiter")          # the traversal order the oracle needs ("in some order")
        return self.do("addrule %s %s" % (hx(a), self.r.choice(RULE_NAMES[1:])))

    def w_nestsite(self):
        """a site whose pages arrive in an order that makes one of them an inner node of its sibling tree (pages of the
        site on both sides); that page becomes a webentity of its own, with link-bearing pages below; then the site is paged
        through, pages and page links, one and two at a time"""
        r = self.r
        st = stems_of(self.new_lru())
        hosts_end = max([i for i, x in enumerate(st) if x.startswith((b"h:", b"s:", b"t:"))] + [0]) + 1
        site = b"".join(st[:hosts_end])
        base = site + r.choice([b"", b"p:europe|"])
        names = r.sample([b"p:france|", b"p:france2|", b"p:fr|", b"p:spain|", b"p:italy|", b"p:austria|", b"p:zambia|", b"p:m|", b"p:k|",
                          b"p:k1|", b"p:b|", b"p:b-c|"], r.randint(4, 7))      # some stems are prefixes of a sibling ('|' sorts after letters and digits)
        pages = [base + n for n in names]
        nested = pages[r.choice([0, 0, 1])]
        sub = [nested + b"p:%c|" % c for c in r.sample(list(b"cabz"), r.randint(1, 3))]
        if r.random() < 0.4:
            sub.append(sub[0] + b"p:deep|")
        self.do("create " + brack([hx(site)]))
        self.do("addpages %s %s" % (brack([hx(l) for l in pages + sub]), r.choice("01")))
        self.do("create " + brack([hx(nested)]))
        for l in pages + sub:
            self.note(l); self.pages.append(l)
        links = [(r.choice(pages), r.choice(pages)) for _ in range(r.randint(2, 4))] + \
                [(r.choice(sub), r.choice(pages + sub)) for _ in range(r.randint(1, 3))] + \
                [(r.choice(pages), r.choice(sub)) for _ in range(r.randint(1, 2))] + [(nested, r.choice(sub)), (r.choice(pages), nested)]
        res = self.do("addlinks " + brack(["%s>%s" % (hx(a_), hx(b_)) for a_, b_ in links]))
        m = self.we_map()
        w = next((k for k, v in m.items() if site in v), None)
        if w is None:
            return res
        a = brack([hx(p_) for p_ in m[w]])
        want = self.p.get("r", {})
        if want.get("paginate", 1) >= want.get("paginatelinks", 1):
            self.q("pages %d %s" % (w, a))
            for k in ("1", "2"):
                tok = "-"
                for _ in range(14):
                    ans = self.q("paginate %d %s %s %s 0" % (w, a, k, tok))
                    if not ans.startswith("ok done=0"):
                        break
                    tok = ans.rsplit("token=", 1)[1]
        if want.get("paginatelinks", 1) >= want.get("paginate", 1):
            for n, o in (("1", "1"), r.choice([("1", "0"), ("0", "1")])):
                self.q("pagelinks %d %s 0 %s %s" % (w, a, n, o))
                for k in ("1", "2"):
                    tok = "-"
                    for _ in range(14):
                        ans = self.q("paginatelinks %d %s %s %s %s %s" % (w, a, n, o, k, tok))
                        if not ans.startswith("ok done=0"):
                            break
                        tok = ans.rsplit("token=", 1)[1]
        return res

    def w_reinstall(self):
        """a client pushing its rule set again: a rule already in force is installed a second time (same anchor, same
        pattern), after a webentity lying below its anchor has been deleted: the pages there are evaluated again"""
        r = self.r
        from .impl import RULES
        inv = {v: k for k, v in RULES.items()}
        rt = [(a, inv.get(getattr(rx, "pattern", None))) for a, rx in self.rule_table().items()]
        rt = [(a, n) for a, n in rt if n]
        if not rt:
            site = self.new_lru()
            st = stems_of(site)
            a = b"".join(st[: max(1, len(st) - 2)])
            name = r.choice(["path1", "path2", "subdomain"])
            self.do("addrule %s %s" % (hx(a), name))
            page = site + r.choice([b"", b"p:k|"])
            self.note(page); self.pages.append(page)
            self.do("addpage %s 1" % hx(page))
        else:
            a, name = r.choice(rt)
        m = self.we_map()
        below = [(w, ps) for w, ps in m.items() if isinstance(w, int) and all(isinstance(p, bytes) for p in ps)
                 and any(p.startswith(a) and len(p) > len(a) for p in ps)]
        if below:
            w, ps = r.choice(sorted(below))
            self.do("delete %d %s" % (w, brack([hx(p) for p in ps])))
            under = ps[0] + r.choice([b"", b"p:zz|"])
            self.q("retrievewe " + hx(under))
        self.q("pagesiter")
        res = self.do("addrule %s %s" % (hx(a), name))
        if below:
            self.q("retrievewe " + hx(under)); self.q("retrieveprefix " + hx(under))
        self.q("prefixiter")
        return res

    def w_nestedrules(self):
        """two rules on nested anchors of a site nobody has visited yet, the deeper one proposing the longer prefix; then the
        first pages below both"""
        r = self.r
        site = self.new_lru()
        st = stems_of(site)
        hosts_end = max([i for i, x in enumerate(st) if x.startswith((b"h:", b"s:", b"t:"))] + [0]) + 1
        site = b"".join(st[:hosts_end])
        p1, p2 = r.choice(self.space.paths if self.family == "g1" else self.space.stems), r.choice(self.space.paths if self.family == "g1" else self.space.stems)
        shallow, deep = site, site + p1
        lo, hi = r.choice([("path1", "path3"), ("path1", "path2"), ("path2", "path4"), ("domain", "path2"), ("path3", "path1")])
        self.note(shallow, deep)
        self.do("addrule %s %s" % (hx(shallow), lo))
        self.do("addrule %s %s" % (hx(deep), hi))
        page = deep + p2 + r.choice([b"p:x|", b"p:y|p:z|", b""]) + r.choice([b"", b"p:w|"])
        self.note(page); self.pages.append(page)
        self.q("potential " + hx(page))
        res = self.do("addpage %s %s" % (hx(page), r.choice("01")))
        self.q("retrieveprefix " + hx(page)); self.q("prefixiter")
        return res

    def w_rmrule(self):
        rs = list(self.rule_table().keys())
        a = self.r.choice(rs) if rs and self.r.random() < 0.8 else self.any_lru()
        return self.do("rmrule " + hx(a))

    def w_reopen(self):
        if self.backend != "file":
            return None
        rules = self.current_rules_arg()
        forgotten = None
        if self.r.random() < self.p.get("forget_rule", 0.0):
            items = rules[1:-1].split(",") if len(rules) > 2 else []
            if items:
                forgotten = unx(items.pop(self.r.randrange(len(items))).split("=")[0])
                rules = "[" + ",".join(items) + "]"
        res = self.do("reopen %s %s" % (self.dflt, rules))
        if forgotten is None and self.r.random() < 0.6:
            # the rules re-supplied on reopening must work as before: a new page below each anchor (one of them spelled
            # with a capital type letter, which the rules match case-insensitively)
            anchors = [unx(x.split("=")[0]) for x in (rules[1:-1].split(",") if len(rules) > 2 else [])][:2]
            for k, a in enumerate(anchors):
                tail = self.r.choice([b"p:rr|p:ss|p:tt|", b"P:Z|p:ss|p:tt|p:uu|", b"p:rr|P:Z|p:tt|"]) if self.family == "g1" else stems_of(self.new_lru())[-1]
                page = a + tail
                self.note(page); self.pages.append(page)
                self.q("potential " + hx(page))
                self.do("addpage %s 0" % hx(page))
                self.q("retrieveprefix " + hx(page))
        if forgotten is not None:
            # queries that walk through the flagged anchor whose rule is no longer in RAM
            under = [l for l in self.known if l.startswith(forgotten)][:3] + [forgotten + b"p:zz|"]
            for l in under:
                self.q("potential " + hx(l)); self.q("retrievewe " + hx(l))
        return res

    def w_clear(self):
        qs = self.probe_queries() if self.r.random() < 0.6 else []
        for q in qs:
            self.q(q)
        earlier = [l for l in self.lines if l.startswith(("addlinks ", "batch ", "addpage ", "create "))]
        res = self.w_clear0()
        if qs:
            # index again on the same object: some of the earlier requests in another order, then the same questions
            for l in self.r.sample(earlier, min(len(earlier), self.r.randint(2, 6))):
                self.do(l)
                if l.startswith(("addlinks ", "batch ")):
                    self.pages = self.pages or []
            for q in qs:
                self.q(q)
        return res

    def w_clear0(self):
        x = self.r.random()
        if x < 0.15:
            d = self.r.choice(RULE_NAMES); self.dflt = d
            r = self.do("overwrite %s %s" % (d, self.rules_arg()))
            self.pages = []
            return r
        if x < 0.6:
            d = "never" if (self.dflt != "never" and self.r.random() < 0.3) else self.r.choice(RULE_NAMES)
            self.dflt = d
            r = self.do("clear %s %s" % (d, self.rules_arg()))
        elif x < 0.8:
            r = self.do("clear - []")
        else:
            r = self.do("clear - none")
        self.pages = []
        return r

    # -- reads
    def q(self, s):
        return self.do("? " + s)

    def variation_of(self, l):
        st = stems_of(l)
        if st and st[0] in (b"s:http|", b"s:https|") and self.r.random() < 0.5:
            st = [b"s:https|" if st[0] == b"s:http|" else b"s:http|"] + st[1:]
        else:
            hs = [i for i, x in enumerate(st) if x.startswith(b"h:")]
            if hs:
                k = hs[-1]
                st = st[:k] + st[k + 1:] if st[k] == b"h:www|" else st[:k + 1] + [b"h:www|"] + st[k + 1:]
        return b"".join(st)

    def r_resolution(self):
        if self.pages and self.r.random() < 0.5:
            v = self.variation_of(self.r.choice(self.pages))       # the scheme / www twin of an indexed page
            self.q("retrievewe " + hx(v)); self.q("retrieveprefix " + hx(v))
        l = self.any_lru()
        self.q("retrievewe " + hx(l)); self.q("retrieveprefix " + hx(l))
        self.q("webyprefix " + hx(self.any_lru())); self.q("potential " + hx(self.any_lru()))

    def r_pages(self):
        w, ps = self.pick_we()
        a = brack([hx(p) for p in ps])
        self.q("pages %d %s" % (w, a)); self.q("crawledpages %d %s" % (w, a))

    def r_paginate(self, full=True):
        w, ps = self.pick_we()
        if self.r.random() < 0.12 and len(self.pages) >= 4:
            # a long prefix list (two-digit prefix indexes in the tokens): the prefixes are not checked against the id
            extra = []
            for l in self.r.sample(self.pages, min(len(self.pages), 14)):
                st = stems_of(l)
                q = b"".join(st[: self.r.randint(max(1, len(st) - 1), len(st))])
                if q not in extra and q not in ps:
                    extra.append(q)
            ps = list(ps) + extra
        a = brack([hx(p) for p in ps])
        k = self.r.choice(["1", "1", "2", "3", "5", "-"])
        co = "1" if self.r.random() < 0.25 else "0"
        tok = "-"
        for _ in range(12 if full else 1):
            ans = self.q("paginate %d %s %s %s %s" % (w, a, k, tok, co))
            if not ans.startswith("ok done=0"):
                break
            tok = ans.rsplit("token=", 1)[1]
            if self.r.random() < 0.3:
                self.w_addpage()

    def r_paginatelinks(self, full=True):
        w, ps = self.pick_we()
        a = brack([hx(p) for p in ps])
        k = self.r.choice(["1", "1", "2", "3", "-"])
        n, o = self.r.choice([("1", "0"), ("0", "1"), ("1", "1"), ("1", "1")] * 5 + [("0", "0")])
        tok = "-"
        self.q("pagelinks %d %s 0 %s %s" % (w, a, n, o))
        for _ in range(12 if full else 1):
            ans = self.q("paginatelinks %d %s %s %s %s %s" % (w, a, n, o, k, tok))
            if not ans.startswith("ok done=0"):
                break
            tok = ans.rsplit("token=", 1)[1]

    def r_mostlinked(self):
        w, ps = self.pick_we()
        a = brack([hx(p) for p in ps])
        for depth in self.r.sample(["-", "0", "1", "2", "3"], 2):
            self.q("mostlinked %d %s %s %s" % (w, a, self.r.choice(["1", "2", "3", "10"]), depth))
        for depth in ["1", "2", "3", "4"]:      # every depth limit with room for every page: the limit alone decides
            self.q("mostlinked %d %s 100 %s" % (w, a, depth))

    def r_hierarchy(self):
        w, ps = self.pick_we()
        a = brack([hx(p) for p in ps])
        self.q("parents %d %s" % (w, a)); self.q("children %d %s" % (w, a))

    def r_hierarchy_all(self):
        m = self.we_map()
        for w in sorted(m)[:6]:
            a = brack([hx(p) for p in m[w]])
            self.q("children %d %s" % (w, a)); self.q("parents %d %s" % (w, a))

    def r_welinks(self):
        w, ps = self.pick_we()
        a = brack([hx(p) for p in ps])
        i, n, o = self.r.choice(["000", "100", "010", "001", "110", "101", "011", "111"])
        self.q("pagelinks %d %s %s %s %s" % (w, a, i, n, o))
        self.q("weout %d %s" % (w, a)); self.q("wein %d %s" % (w, a)); self.q("wedeg %d %s" % (w, a))

    def r_pagelinks(self):
        l = self.page_lru()
        i, n, o = self.r.choice(["000", "100", "010", "001", "110", "101", "011", "111"])
        self.q("pagelinksof %s %s %s %s" % (hx(l), i, n, o))
        self.q("pagedeg %s %s %s" % (hx(l), self.r.choice(["in", "out", "deg"]), self.r.choice("01")))

    def r_network(self):
        self.q("network %s %s %s" % (self.r.choice("01"), self.r.choice("01"), self.r.choice("01")))

    def r_global(self):
        self.q("pagesiter"); self.q("counts"); self.q("prefixiter")

    def r_linksiter(self):
        self.q("linksiter 1"); self.q("linksiter 0")

    def r_locate(self):
        l = self.any_lru()
        ans = self.q("lrunode " + hx(l))
        if ans.startswith("ok ") and ans != "ok none":
            self.q("windup " + ans[3:])
        self.q("dfs")

    def r_metrics(self):
        self.q("metrics"); self.q("counts")

    def r_helpers(self):
        l = self.any_lru()
        self.q("expand " + hx(l)); self.q("variations " + hx(l))
        self.q("token %d %d" % (self.r.choice([0, 1, 2, 3, 5, 9, 10, 11, 37, 64, 100]), self.r.choice([0, 1, 2, 3, 7, 27, 63, 64, 4095, 4096, self.r.getrandbits(40)])))
        self.q("chunks %d %s" % (self.r.choice([1, 2, 74]), hx(self.any_lru())))
        self.q("rule %s %s" % (self.r.choice(RULE_NAMES), hx(l)))

    def observe_all(self):
        self.r_global(); self.r_linksiter(); self.q("network 1 1 0"); self.q("network 0 0 1"); self.q("dfs")
        self.q("metrics")
        self.do("hash")

    WRITES = ["addpage", "addpages", "addlinks", "batch", "create", "delete", "addprefix", "rmprefix", "moveprefix",
              "addrule", "rmrule", "reopen", "clear", "cobatch", "deleteu", "addruleram", "chain", "nestedrules", "reinstall", "nestsite"]
    READS = ["resolution", "pages", "paginate", "paginatelinks", "mostlinked", "hierarchy", "welinks", "pagelinks",
             "network", "global", "linksiter", "locate", "metrics", "helpers", "hierarchy_all"]

    def run(self, nops, skip_init=False):
        p = self.p
        if not skip_init:
            self.init()
        ww = [p.get("w", {}).get(k, DEFAULT_W[k]) for k in self.WRITES]
        rw = [p.get("r", {}).get(k, 0.0 if k == "hierarchy_all" else 1.0) for k in self.READS]
        for _ in range(nops):
            op = self.r.choices(self.WRITES, ww)[0]
            getattr(self, "w_" + op)()
            if self.r.random() < p.get("read_rate", 0.5):
                for rd in self.r.choices(self.READS, rw, k=self.r.randint(1, 2)):
                    getattr(self, "r_" + rd)()
        self.observe_all()


DEFAULT_W = {"addpage": 6, "addpages": 2, "addlinks": 4, "batch": 3, "create": 3, "delete": 1.2, "addprefix": 1.5,
             "rmprefix": 1, "moveprefix": 0.8, "addrule": 1.5, "rmrule": 0.5, "reopen": 0.8, "clear": 0.25, "cobatch": 0.5,
             "deleteu": 0.5, "addruleram": 0.4, "chain": 0.06, "nestedrules": 0.15, "reinstall": 0.1, "nestsite": 0.1}

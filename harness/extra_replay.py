"""Replays of the property-specific harness findings (kinds other than oracle findings)."""
from . import corr
from .impl import Impl, unx


def replay(o, scratch):
    kind, lines = o.get("kind"), o.get("lines") or []
    if kind == "variations":
        from .extra import c17_clauses
        x = unx(lines[0].split(" ")[2])
        bad = c17_clauses(x)
        print("lru_variations(%r):" % x, "FAILS: %s %s" % bad if bad else "all clauses hold")
        return 1 if bad else 0
    if kind == "backends-differ":
        f = corr.replay_impl(scratch, lines)
        m = corr.replay_impl(scratch, lines, backend="mem")
        for l, a, b in zip(lines, f, m):
            if a[0] != b[0]:
                print("FAILS at:", l[:200]); print("  file  :", a[0][:300]); print("  memory:", b[0][:300])
                return 1
        print("PASSES (same answers and bytes on both back-ends)")
        return 0
    if kind == "clear-differs-from-fresh":
        be = o.get("backend")
        w = [l for l in lines if l.startswith("clear ")][-1].split(" ")
        cfg = o.get("config") or "111"
        if o.get("probes"):
            n = o["probes"]
            pa = [x[0] for x in corr.replay_impl(scratch, lines, backend=be)[-n:]]
            pb = [x[0] for x in corr.replay_impl(scratch, ["init %s %s %s %s" % (be or "file", w[1], w[2], cfg)] + lines[-n:])[1:]]
            for q, x, y in zip(lines[-n:], pa, pb):
                if x != y:
                    print("FAILS at:", q[:200]); print("  cleared:", x[:300]); print("  fresh  :", y[:300])
                    return 1
            print("PASSES")
            return 0
        a = corr.replay_impl(scratch, lines, backend=be)[-1][0]
        b = corr.replay_impl(scratch, ["init %s %s %s %s" % (be or "file", w[1], w[2], cfg), "dump"])[-1][0]
        print("FAILS: cleared index differs from a fresh one" if a != b else "PASSES")
        return 1 if a != b else 0
    if kind == "reopen-changes-behaviour":
        keep = [k for k, l in enumerate(lines) if not l.startswith("reopen")]
        a = corr.replay_impl(scratch, lines)
        b = corr.replay_impl(scratch, [lines[k] for k in keep])
        for j, k in enumerate(keep):
            if a[k][0] != b[j][0]:
                print("FAILS at:", lines[k][:200]); print("  with reopen :", a[k][0][:300]); print("  never closed:", b[j][0][:300])
                return 1
        print("PASSES")
        return 0
    if kind == "query-modifies-store":
        im = Impl(scratch)
        try:
            for l in lines[:-1]:
                if l.startswith("init ") and o.get("backend") == "mem":
                    w = l.split(" "); w[1] = "mem"; l = " ".join(w)
                im.exec(l)
            before = im.images()
            ans, nw, _ = im.exec(lines[-1])
            after = im.images()
        finally:
            im.close()
        bad = before != after or nw
        print(lines[-1][:200], "->", ans[:200]); print("FAILS: store changed by a read (%d writes)" % nw if bad else "PASSES")
        return 1 if bad else 0
    if kind in ("mmap-differs", "mmap-node-differs"):
        from traph.lru_trie.node import LRUTrieNode
        im = Impl(scratch)
        try:
            for l in lines:
                im.exec(l)
            im._flush()
            st = im.t.lru_trie_storage
            mm = st.map()
            try:
                for b in range(128, len(st), 128):
                    try:
                        s1 = LRUTrieNode(mm, block=b).stem()
                    except Exception as e:  # noqa
                        s1 = "raised " + type(e).__name__
                    s2 = LRUTrieNode(st, block=b).stem()
                    if s1 != s2 or mm.read(b) is None or bytes(mm.read(b)) != bytes(st.read(b)):
                        print("FAILS at block", b, "through map:", repr(s1)[:120], "through file:", repr(s2)[:120])
                        return 1
            finally:
                mm.release()
        finally:
            im.close()
        print("PASSES")
        return 0
    if kind == "query-modifies-store-after-cut":
        from .extra import CUT_OBSERVERS
        im = Impl(scratch)
        try:
            for l in lines:
                im.exec(l)
            k, j = o["cut"]
            bad = False
            if im.exec("cut %d %d" % (k, j))[0] == "ok":
                for q in CUT_OBSERVERS + ["? counts", "? metrics"]:
                    before = im.images(); ans, nw, _ = im.exec(q); after = im.images()
                    if before != after or nw:
                        print("FAILS:", q, "changed the stores (%d writes)" % nw); bad = True; break
                im.exec("uncut")
            print("FAILS" if bad else "PASSES")
            return 1 if bad else 0
        finally:
            im.close()
    if kind == "cut":
        from .extra import CUT_OBSERVERS
        im = Impl(scratch)
        try:
            from . import impl as _impl
            del _impl.PHYS_LOG[:]
            _impl.PHYS_ACTIVE[0] = bool(o.get("physical"))
            for l in lines:
                im.exec(l)
            _impl.PHYS_ACTIVE[0] = False
            im.phys_snapshot = list(_impl.PHYS_LOG)
            k, j = o["cut"]
            a = im.exec("%s %d %d" % ("cutp" if o.get("physical") else "cut", k, j))[0]
            print("cut after %d %swrites + %d bytes ->" % (k, "physical " if o.get("physical") else "", j), a)
            bad = a not in ("ok", "err traph")
            if a == "ok":
                for q in CUT_OBSERVERS:
                    ans = im.exec(q)[0]
                    if ans.startswith("err") and not (q == "? metrics" and ans == "err other ZeroDivisionError"):
                        print("FAILS:", q, "->", ans); bad = True
                im.exec("uncut")
            print("FAILS" if bad else "PASSES (refused or opens and answers every observer)")
            return 1 if bad else 0
        finally:
            im.close()
    if kind == "ids-after-crash":
        from .extra import _items
        from .impl import hx
        im = Impl(scratch)
        try:
            for l in lines:
                im.exec(l)
            k, j = o["cut"]
            a = im.exec("cut %d %d" % (k, j))[0]
            bad = False
            if a == "ok":
                pre = im.exec("? prefixiter")[0]
                ids = [int(x.rsplit(":", 1)[1]) for x in _items(pre)] if pre.startswith("ok") else []
                ans = im.exec("create [%s]" % hx(b"s:http|h:org|h:freshsite|"))[0]
                head = ans.split("we={", 1)[1].split(":", 1)[0] if ans.startswith("ok pages=") and "we={" in ans else ""
                print("cut after %d writes: ids attached in the reopened index %s, creation answers %s" % (k, sorted(set(ids)), ans[:80]))
                bad = head.isdigit() and bool(ids) and int(head) <= max(ids)
                im.exec("uncut")
            print("FAILS (the id is not fresh)" if bad else "PASSES")
            return 1 if bad else 0
        finally:
            if im.t is not None:
                im._uncut()
            im.close()
    if kind == "co":
        return replay_co(o, scratch)
    print("unknown replay kind", kind)
    return 2


def replay_co(o, scratch):
    """C16: run the recorded schedule again; a request that fails, a query outside its two-sided bound (re-derived from the
    atomic probes recorded between the steps) or a disagreement with the coroutine model on the schedule is a failure"""
    from . import extra, model
    lines = o["lines"]
    im = Impl(scratch)
    try:
        res = [im.exec(l) for l in lines]
    finally:
        im.close()
    ans = [a[0] for a in res]
    reqs, bad = {}, False
    for i, l in enumerate(lines):
        w = l.split(" ")
        if w[:2] == ["co", "new"]:
            cid, kind, args = int(w[2]), w[3], w[4:]
            arg = None
            if kind in extra.WE_QUERIES:
                arg = {"w": int(args[0]), "ps": args[1]}
                if kind == "mostlinked":
                    arg.update(k=int(args[2]), d=args[3])
                if kind == "pagelinks":
                    arg.update(fl=" ".join(args[2:5]))
            elif kind in extra.NET_QUERIES:
                arg = {"o": args[0], "a": args[1]}
            reqs[cid] = {"kind": kind, "arg": arg, "new": i, "end": None, "answer": None}
        elif w[:2] == ["co", "step"]:
            st = reqs.get(int(w[2]))
            if st is None or st["answer"] is not None:
                continue
            if ans[i].startswith("done "):
                st["answer"], st["end"] = ans[i][5:], i
            elif ans[i] != "yield":
                st["answer"], st["end"] = ans[i], i
                print("FAILS: request %d (%s) failed under the schedule: %s" % (int(w[2]), st["kind"], ans[i])); bad = True
    pre = [a for l, a in zip(lines, ans) if l == "? prefixiter"]
    static_we = len(pre) >= 2 and pre[0] == pre[-1]
    for cid, st in sorted(reqs.items()):
        if st["arg"] is None or st["answer"] is None or not st["answer"].startswith("ok"):
            continue
        pl = extra._probe_line(st["kind"], st["arg"])
        probes = [a for i, (l, a) in enumerate(zip(lines, ans)) if l == pl and st["new"] < i < st["end"]]
        if st["kind"] == "pagelinks":
            # the single-switch probes recorded after each full probe give the class of every link at that moment (F16c)
            cls_lines = ["? pagelinks %d %s %s" % (st["arg"]["w"], st["arg"]["ps"], fl) for fl in ("1 0 0", "0 1 0", "0 0 1")]
            cls = []
            for i, l in enumerate(lines):
                if l == pl and st["new"] < i < st["end"] and lines[i + 1:i + 4] == cls_lines:
                    cls.append(tuple(frozenset(extra._items(ans[i + k])) for k in (1, 2, 3)))
            if cls:
                st["arg"]["cls"] = cls
        hits, known = extra._judge_query(st["kind"], st["arg"], st["answer"], probes, static_we)
        for reason, detail in hits:
            print("FAILS: request %d: %s %s" % (cid, reason, detail)); bad = True
        for reason, detail in known:
            print("phantom (known mechanism if the model reproduces it): request %d: %s %s" % (cid, reason, detail))
    try:
        mres = model.run_lines(lines)
        mism = [(l, a[0], b[0]) for l, a, b in zip(lines, res, mres) if a != b]
        if mism:
            print("FAILS: implementation and coroutine model disagree on '%s': %s vs %s" % (mism[0][0][:80], mism[0][1][:200], mism[0][2][:200]))
            bad = True
    except Exception as e:  # noqa
        print("  model driver not available:", e)
    print("FAILS" if bad else "PASSES (no request fails, every query within its bounds or a phantom the model reproduces, model agrees)")
    return 1 if bad else 0

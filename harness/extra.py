"""Property-specific harnesses: implementation-only ties (C11 reopen/clear, C14 byte frame, C15 back-ends)
and direct statements on pure helpers (C17).  Each returns replay objects for concrete failing inputs."""
import os, random

from . import corr
from .impl import Impl, hx, unx, brack, fnv
from .gen import Session
from .props import PROFILES


def run(prop, tier, seed, scratch, cfg, out, model_ok):
    f = globals().get("extra_" + prop)
    if f is None:
        return []
    try:
        return f(tier, seed, scratch, cfg, out)
    except Exception:
        # the harness could not make sense of what the implementation returned (it never happens on the pinned tree):
        # that is a broken tie, to be reported, not a reason to give up the check
        import traceback
        return [{"kind": "no-failing-input-found",
                 "no_longer_checks": ["property harness of %s failed while interpreting the implementation's answers" % prop],
                 "traceback": traceback.format_exc()[-2500:]}]


def _session(scratch, s, profile, nops, cfg, family=None):
    im = Impl(scratch)
    try:
        ses = Session(im, random.Random(s), profile, cfg=cfg, family=family)
        ses.run(nops)
    finally:
        im.close()
    return ses


# ---- large indexes (C05, C07, C08, C20) --------------------------------------------------------------------------
BIG_QUERIES = {
    "C05": lambda w, a, r: ["pages %d %s" % (w, a), "crawledpages %d %s" % (w, a)],
    "C07": lambda w, a, r: ["network %s %s %s" % (r.choice("01"), r.choice("01"), r.choice("01"))],
    "C08": lambda w, a, r: ["pagelinks %d %s %s" % (w, a, r.choice(["1 1 1", "0 1 1", "1 0 0", "0 0 1", "1 1 0"])),
                            "weout %d %s" % (w, a), "wein %d %s" % (w, a)],
    "C20": lambda w, a, r: ["mostlinked %d %s %s %s" % (w, a, r.choice(["2", "3", "10"]), r.choice(["-", "1", "2"]))],
}


def _big_index(prop, tier, seed, scratch, cfg, out):
    """an index past the megabyte (the sizes at which a reader may switch to another way of reading the files): a bulk of
    pages on many hosts, then a small site that is edited and asked about in turns, every question coming directly after a
    request that wrote; answers judged by the oracle, and the whole history run through the model"""
    from . import model, oracle
    hits = []
    judged = 0
    for i in range(1 if tier == "quick" else 4):
        r = random.Random(seed * 7907 + 8800 + i)
        im = Impl(scratch)
        try:
            ses = Session(im, r, {"defaults": ["domain"], "init_rules": 0.0, "read_rate": 0.0, "g1": 1.0}, cfg=cfg)
            ses.init()
            bulk = [b"s:http|h:com|h:b%02d|p:%04x|" % (h, k) for h in range(45) for k in range(200)]
            r.shuffle(bulk)
            for j in range(0, len(bulk), 450):
                ses.do("addpages %s %d" % (brack([hx(l) for l in bulk[j:j + 450]]), r.randint(0, 1)))
            live, peer = b"s:http|h:com|h:live|", b"s:http|h:org|h:peer|"
            lp = [live + b"p:%c|" % c for c in b"abcdef"]
            pp = [peer + b"p:%c|" % c for c in b"xy"]
            ses.do("addpages %s 0" % brack([hx(l) for l in lp + pp]))
            for l in lp + pp:
                ses.note(l); ses.pages.append(l)
            ses.do("addlinks " + brack(["%s>%s" % (hx(r.choice(lp)), hx(r.choice(lp + pp))) for _ in range(4)] +
                                       ["%s>%s" % (hx(r.choice(pp)), hx(r.choice(lp))) for _ in range(2)]))
            for rnd in range(10 if tier == "quick" else 30):
                m = ses.we_map()
                w = next((k for k, v in m.items() if live in v), None)
                if w is None:
                    break
                x = r.random()
                fresh = r.choice(lp) + b"p:n%d|" % rnd
                if x < 0.45:
                    ses.do("addlinks " + brack(["%s>%s" % (hx(a_), hx(b_)) for a_, b_ in
                                                [(r.choice(lp), r.choice(lp + pp + [fresh])), (r.choice(pp + [r.choice(bulk)]), r.choice(lp))][: r.randint(1, 2)]]))
                elif x < 0.6:
                    ses.do("addpage %s 1" % hx(r.choice(lp + [fresh])))
                elif x < 0.75:
                    ses.do("batch %s>%s" % (hx(r.choice(lp + [fresh])), ",".join(hx(t) for t in r.sample(lp + pp, 2))))
                elif x < 0.9:
                    ses.do("create " + brack([hx(r.choice(lp))]))
                else:
                    ses.do("addpages %s 1" % brack([hx(r.choice(lp)), hx(fresh)]))
                ps = brack([hx(p_) for p_ in m[w]])
                ses.do("? " + r.choice(BIG_QUERIES[prop](w, ps, r)))          # directly after the write
            lines, results = list(ses.lines), list(ses.results)
        finally:
            im.close()
        j = oracle.judge(lines, [a[0] for a in results])
        judged += j.judged
        fs = [f for f in j.findings if prop in f.props]
        if fs:
            hits.append({"kind": "oracle", "backend": "file", "lines": lines[: fs[0].idx + 1], "finding": fs[0].to_json()})
            break
        try:
            mres = model.run_lines(lines)
            mism = corr.compare(lines, results, mres, "file")
            out.disagreements += len(mism)
            if mism:
                m0 = mism[0]
                hits.append({"kind": "no-failing-input-found", "lines": lines[: m0.idx + 1],
                             "no_longer_checks": ["correspondence slice of %s on a large index: model and implementation disagree on '%s' (%s)" % (prop, m0.kind(), m0.what)],
                             "disagreement": m0.to_json()})
                break
        except Exception as e:  # noqa
            out.notes.append("model driver unavailable for the large index: %r" % e)
    out.extra["large_index"] = {"histories": i + 1, "nodes_at_least": 9000, "answers_judged": judged}
    return hits[:1]


def extra_C05(tier, seed, scratch, cfg, out):
    return _big_index("C05", tier, seed, scratch, cfg, out)


def extra_C07(tier, seed, scratch, cfg, out):
    return _big_index("C07", tier, seed, scratch, cfg, out)


def extra_C08(tier, seed, scratch, cfg, out):
    return _big_index("C08", tier, seed, scratch, cfg, out)


def extra_C20(tier, seed, scratch, cfg, out):
    return _big_index("C20", tier, seed, scratch, cfg, out)


# ---- C11 ------------------------------------------------------------------------------------------------------
def extra_C11(tier, seed, scratch, cfg, out):
    hits = []
    n = 40 if tier == "quick" else 600
    checked_reopen = checked_clear = 0
    for i in range(n):
        ses = _session(scratch, seed * 7907 + 11000 + i, PROFILES["C11"], 22, cfg)
        lines = ses.lines
        with_reopen = [a[0] for a in ses.results]
        # (a) the same history without the close/reopen cycles
        keep = [k for k, l in enumerate(lines) if not l.startswith("reopen")]
        if len(keep) != len(lines):
            plain = corr.replay_impl(scratch, [lines[k] for k in keep] + ["dump"])
            again = corr.replay_impl(scratch, lines + ["dump"])
            checked_reopen += 1
            a1 = [again[k][0] for k in keep] + [again[-1][0]]
            a2 = [x[0] for x in plain]
            for j, (x, y) in enumerate(zip(a1, a2)):
                if x != y:
                    line = (lines + ["dump"])[keep[j]] if j < len(keep) else "dump"
                    hits.append({"kind": "reopen-changes-behaviour", "lines": lines + ["dump"],
                                 "finding": {"line": line, "with_reopen": x[:1500], "never_closed": y[:1500],
                                             "reason": "an index that was closed and reopened answers differently from one that was never closed"}})
                    break
            if not again[-1][0].startswith("T="):
                hits.append({"kind": "reopen-changes-behaviour", "lines": lines + ["dump"],
                             "finding": {"line": "dump", "with_reopen": again[-1][0][:300], "never_closed": plain[-1][0][:300],
                                         "reason": "the stores of the reopened index cannot be read back"}})
                break
            tl, ll = _image_lengths(again[-1][0])
            if tl % 128 or ll % 16:
                hits.append({"kind": "partial-block", "lines": lines, "finding": {"reason": "file is not a whole number of blocks", "trie": tl, "links": ll}})
        # (b) clear(d, rs) = fresh index holding rs
        for k, l in enumerate(lines):
            w = l.split(" ")
            if w[0] == "clear" and w[1] != "-" and w[2] != "none" and with_reopen[k] == "ok":
                a = corr.replay_impl(scratch, lines[: k + 1] + ["dump"])[-1][0]
                b = corr.replay_impl(scratch, ["init file %s %s %s" % (w[1], w[2], cfg), "dump"])[-1][0]
                checked_clear += 1
                if a != b:
                    hits.append({"kind": "clear-differs-from-fresh", "lines": lines[: k + 1] + ["dump"],
                                 "finding": {"reason": "cleared index differs byte-wise from a fresh one holding the same rules",
                                             "cleared": a[:600], "fresh": b[:600]}})
                # ... and behaves like it: the rules in force (the default one is held by the object, not by the files)
                lr = hx(b"s:http|h:com|h:zz%d|p:a|p:b|" % k)
                probes = ["? potential " + lr, "addpage %s 1" % lr, "? retrievewe " + lr, "? prefixiter", "dump"]
                pa = [x[0] for x in corr.replay_impl(scratch, lines[: k + 1] + probes)[k + 1:]]
                pb = [x[0] for x in corr.replay_impl(scratch, ["init file %s %s %s" % (w[1], w[2], cfg)] + probes)[1:]]
                for q, x, y in zip(probes, pa, pb):
                    if x != y:
                        hits.append({"kind": "clear-differs-from-fresh", "lines": lines[: k + 1] + probes, "probes": len(probes),
                                     "finding": {"reason": "a cleared index does not behave like a fresh one holding the same rules",
                                                 "line": q, "cleared": x[:600], "fresh": y[:600]}})
                        break
                am = corr.replay_impl(scratch, lines[: k + 1] + ["dump"], backend="mem")[-1][0] \
                    if not any(x.startswith("reopen") for x in lines[: k + 1]) else None
                bm = corr.replay_impl(scratch, ["init mem %s %s %s" % (w[1], w[2], cfg), "dump"])[-1][0]
                if am is not None and am != bm:
                    hits.append({"kind": "clear-differs-from-fresh", "lines": lines[: k + 1] + ["dump"], "backend": "mem",
                                 "finding": {"reason": "cleared in-memory index differs from a fresh in-memory one holding the same rules",
                                             "cleared": am[:600], "fresh": bm[:600]}})
        if len(hits) >= 2:
            break
    out.extra["C11"] = {"histories_compared_with_and_without_reopen": checked_reopen, "clear_vs_fresh_compared": checked_clear}
    return hits[:2]


def _image_lengths(dump):
    t, l = dump.split(" ")
    return (len(t) - 3) // 2, (len(l) - 3) // 2


# ---- C12 ------------------------------------------------------------------------------------------------------
def extra_C12(tier, seed, scratch, cfg, out):
    """a restart after a crash is a restart too: for every cut of the write log of histories that create webentities, the
    reopened index (when it opens) must give the next creation an id greater than every id attached to a prefix in it"""
    from .impl import FULL_LOG
    hits = []
    nhist = 4 if tier == "quick" else 40
    cuts_done = 0
    for i in range(nhist):
        r = random.Random(seed * 7907 + 12000 + i)
        prof = {"g1": 1.0, "read_rate": 0.0, "init_rules": 0.5, "poke_ids": 0.0,
                "w": {"reopen": 0, "clear": 0, "create": 6, "addpage": 5, "addlinks": 2, "batch": 2, "delete": 1, "chain": 0, "cobatch": 0,
                      "deleteu": 0, "addruleram": 0, "nestedrules": 0.5, "addprefix": 0, "moveprefix": 0, "rmprefix": 0.5}}     # no caller-chosen ids
        im = Impl(scratch)
        try:
            ses = Session(im, r, prof, cfg=cfg)
            ses.run(5 if tier == "quick" else 9)
            nlog = len(FULL_LOG)
            ks = list(range(1, nlog + 1))
            if len(ks) > (60 if tier == "quick" else 400):
                ks = sorted(r.sample(ks, 60 if tier == "quick" else 400))
            fresh = hx(b"s:http|h:org|h:freshsite|")
            for k in ks:
                if im.exec("cut %d 0" % k)[0] != "ok":
                    continue
                cuts_done += 1
                pre = im.exec("? prefixiter")[0]
                ids = [int(x.rsplit(":", 1)[1]) for x in _items(pre)] if pre.startswith("ok") else []
                ans = im.exec("create [%s]" % fresh)[0]
                new = None
                if ans.startswith("ok pages=") and "we={" in ans:
                    head = ans.split("we={", 1)[1].split(":", 1)[0]
                    new = int(head) if head.isdigit() else None
                im.exec("uncut")
                if new is not None and ids and new <= max(ids):
                    hits.append({"kind": "ids-after-crash", "lines": list(ses.lines), "cut": [k, 0],
                                 "finding": {"reason": "after a crash cut and a reopening a creation received an id that is not greater than "
                                                       "an id attached in the reopened index", "new_id": new, "attached_max": max(ids)}})
                    break
        finally:
            if im.t is not None:
                im._uncut()
            im.close()
        if hits:
            break
    out.extra["C12"] = {"crash_cuts_followed_by_a_creation": cuts_done}
    return hits[:1]


# ---- C14 ------------------------------------------------------------------------------------------------------
def extra_C14(tier, seed, scratch, cfg, out):
    hits = []
    n = 40 if tier == "quick" else 500
    reads = 0
    for i in range(n):
        ses = _session(scratch, seed * 7907 + 14000 + i, PROFILES["C14"], 18, cfg)
        for backend in ("file", "mem"):
            if backend == "mem" and any(l.startswith("reopen") for l in ses.lines):
                continue
            im = Impl(scratch)
            try:
                for k, line in enumerate(ses.lines):
                    if line.startswith("init ") and backend == "mem":
                        w = line.split(" "); w[1] = "mem"; line = " ".join(w)
                    if line.startswith("? "):
                        before = im.images()
                        ans, nw, _ = im.exec(line)
                        after = im.images()
                        reads += 1
                        if before != after or nw:
                            hits.append({"kind": "query-modifies-store", "lines": ses.lines[: k + 1], "backend": backend,
                                         "finding": {"line": line, "answer": ans[:300], "storage_writes": nw,
                                                     "reason": "a read-only request changed the stored bytes (or issued a storage write)"}})
                            break
                    else:
                        im.exec(line)
            finally:
                im.close()
        if hits:
            break
    # reads on an index that holds no node at all (fresh without rules, or just cleared): nothing to find, nothing to write
    if not hits:
        r = random.Random(seed * 7907 + 14400)
        for backend in ("file", "mem"):
            for variant in range(3):
                im = Impl(scratch)
                try:
                    ses = Session(im, r, dict(PROFILES["C14"]), backend=backend, cfg=cfg)
                    lines = ["init %s %s [] %s" % (backend, r.choice(["never", "domain", "path1"]), cfg)]
                    if variant == 1:
                        lines += ["addpage %s 1" % hx(ses.new_lru()), "clear - []"]
                    if variant == 2:
                        lines += ["create %s" % brack([hx(ses.new_lru())]), "clear never []"]
                    for l in lines:
                        im.exec(l)
                    qs = []
                    for _ in range(6):
                        l = hx(ses.new_lru())
                        qs += ["? retrievewe " + l, "? retrieveprefix " + l, "? potential " + l, "? webyprefix " + l,
                               "? pages 1 [%s]" % l, "? lrunode " + l, "? pagelinksof %s 1 1 1" % l]
                    qs += ["? pagesiter", "? prefixiter", "? linksiter 1", "? network 1 1 0", "? dfs", "? counts", "? metrics"]
                    for k, q in enumerate(qs):
                        before = im.images()
                        ans, nw, _ = im.exec(q)
                        reads += 1
                        if im.images() != before or nw:
                            hits.append({"kind": "query-modifies-store", "lines": lines + qs[: k + 1], "backend": backend,
                                         "finding": {"line": q, "answer": ans[:300], "storage_writes": nw,
                                                     "reason": "a read-only request on an index without any node changed the stored bytes"}})
                            break
                finally:
                    im.close()
                if hits:
                    break
            if hits:
                break
    # reads on reopened crash-cut states (a torn long-stem node is a reachable on-disk state, C18) must not write either
    cut_reads = 0
    if not hits:
        from .impl import FULL_LOG
        for i in range(3 if tier == "quick" else 30):
            r = random.Random(seed * 7907 + 14500 + i)
            prof = {"g1": 0.2, "read_rate": 0.0, "w": {"reopen": 0, "clear": 0}}
            im = Impl(scratch)
            try:
                ses = Session(im, r, prof, cfg=cfg, family="g2")
                ses.init()
                for L in r.sample([75, 100, 148, 149, 200, 223], 2):      # multi-block stems: head and tails are separate appends
                    ses.do("addpage %s %d" % (hx(bytes([r.choice([65, 66, 0x80])]) * 2 + b"|" + bytes([r.choice([67, 0xff])]) * (L - 1) + b"|"), r.randint(0, 1)))
                for _ in range(4):
                    getattr(ses, "w_" + r.choice(["addpage", "addlinks", "batch", "create", "addpages"]))()
                nlog = len(FULL_LOG)
                torn = [k + 1 for k, (kind, off, data) in enumerate(FULL_LOG) if kind in (0, 1) and len(data) == 128 and data[75] & 32]
                for k in sorted(set(r.sample(range(nlog + 1), min(nlog + 1, 20)) + torn[:12])):
                    if im.exec("cut %d 0" % k)[0] != "ok":
                        continue
                    for q in CUT_OBSERVERS + ["? counts", "? metrics"]:
                        before = im.images()
                        ans, nw, _ = im.exec(q)
                        after = im.images()
                        cut_reads += 1
                        if before != after or nw:
                            hits.append({"kind": "query-modifies-store-after-cut", "lines": ses.lines, "cut": [k, 0],
                                         "finding": {"line": q, "answer": ans[:200], "storage_writes": nw,
                                                     "reason": "a read-only request changed the stored bytes of an index reopened after a crash cut"}})
                            break
                    im.exec("uncut")
                    if hits:
                        break
            finally:
                if im.t is not None:
                    im._uncut()
                im.close()
            if hits:
                break
    # reads in a session in which an append failed half-way (the device filled up; the caller caught the error and goes on
    # asking): the torn bytes are the writer's, a query must leave them as they are
    fault_reads = 0
    if not hits:
        from . import impl as _impl
        for i in range(6 if tier == "quick" else 60):
            r = random.Random(seed * 7907 + 14600 + i)
            im = Impl(scratch)
            try:
                ses = Session(im, r, {"g1": 0.3, "read_rate": 0.0, "w": {"reopen": 0, "clear": 0}}, cfg=cfg)
                ses.init()
                for _ in range(4):
                    getattr(ses, "w_" + r.choice(["addpage", "addlinks", "batch", "create"]))()
                which = i % 2
                for attempt in range(4):
                    ses.do("fault %d %d" % (which, r.randint(0, 3)))
                    getattr(ses, "w_" + (r.choice(["addlinks", "batch"]) if which else r.choice(["addpage", "batch", "addpages"])))()
                    if _impl.FAULT[0] is None:
                        break
                fired = _impl.FAULT[0] is None
                _impl.FAULT[0] = None
                if not fired:
                    continue
                for q in ["? counts", "? metrics"] + CUT_OBSERVERS:
                    before = im.images()
                    ans, nw, _ = im.exec(q)
                    after = im.images()
                    fault_reads += 1
                    if before != after or nw:
                        hits.append({"kind": "query-modifies-store", "lines": ses.lines + [q], "backend": "file",
                                     "finding": {"line": q, "answer": ans[:200], "storage_writes": nw,
                                                 "lengths_before": [len(before[0]), len(before[1])], "lengths_after": [len(after[0]), len(after[1])],
                                                 "reason": "a read-only request changed the files of a session in which an append had failed half-way"}})
                        break
            finally:
                _impl.FAULT[0] = None
                im.close()
            if hits:
                break
    # a read-only request through an index object that has been closed: it may be refused, it must not touch the files
    closed_reads = 0
    if not hits:
        import os as _os
        for variant in ("created", "reopened", "overwritten"):
            im = Impl(scratch)
            try:
                r = random.Random(seed * 7907 + 14700)
                ses = Session(im, r, {"g1": 1.0, "read_rate": 0.0, "w": {"reopen": 0, "clear": 0}}, cfg=cfg)
                ses.init()
                for _ in range(5):
                    getattr(ses, "w_" + r.choice(["addpage", "addlinks", "batch", "create"]))()
                if variant == "reopened":
                    ses.w_reopen()
                if variant == "overwritten":
                    ses.do("overwrite domain []"); ses.w_addpage(); ses.w_addlinks()
                folder, t = im.folder, im.t
                before = im.images()
                t.close()
                for q in ("count_pages", "count_links", "metrics", "get_webentities_links", "pages"):
                    try:
                        if q == "pages":
                            list(t.pages_iter())
                        else:
                            getattr(t, q)()
                    except Exception:
                        pass
                    closed_reads += 1
                    with open(_os.path.join(folder, "lru_trie.dat"), "rb") as f1, open(_os.path.join(folder, "link_store.dat"), "rb") as f2:
                        after = (f1.read(), f2.read())
                    if after != before:
                        hits.append({"kind": "query-modifies-store", "lines": ses.lines + ["(close)", "(%s on the closed object)" % q],
                                     "finding": {"line": q, "reason": "a read-only request through a closed index object changed the files",
                                                 "lengths_before": [len(before[0]), len(before[1])], "lengths_after": [len(after[0]), len(after[1])]}})
                        break
                im.t = None
            finally:
                im.close()
            if hits:
                break
    out.extra["C14"] = {"reads_with_image_compared_before_after": reads, "reads_on_crash_cut_states": cut_reads,
                        "reads_on_closed_objects": closed_reads, "reads_after_a_failed_append": fault_reads}
    return hits[:1]


# ---- C15 ------------------------------------------------------------------------------------------------------
def extra_C15(tier, seed, scratch, cfg, out):
    hits = []
    n = 50 if tier == "quick" else 600
    compared = mapped = 0
    for i in range(n):
        ses = _session(scratch, seed * 7907 + 15000 + i, PROFILES["C15"], 20, cfg,
                       family=("g2" if i % 3 == 0 else None))
        lines = ses.lines + ["dump"]
        f = corr.replay_impl(scratch, lines)
        m = corr.replay_impl(scratch, lines, backend="mem")
        compared += 1
        for k, (a, b) in enumerate(zip(f, m)):
            if a[0] != b[0]:
                hits.append({"kind": "backends-differ", "lines": lines[: k + 1],
                             "finding": {"line": lines[k], "file": a[0][:1500], "memory": b[0][:1500],
                                         "reason": "in-memory and on-disk index answer differently (or end with different bytes)"}})
                break
        # the memory-mapped reader returns the same blocks and nodes — also when it is asked for again after the store has
        # grown (or been cleared) and the earlier readers are still around
        im = Impl(scratch)
        keep_maps = []
        try:
            for k, line in enumerate(ses.lines):
                im.exec(line)
                if k % 7 == 3 and im.t is not None and not line.startswith(("cut", "co ")):
                    try:
                        im._flush()
                        st0 = im.t.lru_trie_storage
                        m0 = st0.map()
                        keep_maps.append(m0)
                        last = len(st0) - 128
                        if last >= 0:
                            mapped += 1
                            x, y = m0.read(last), st0.read(last)
                            if x is None or y is None or bytes(x) != bytes(y):
                                hits.append({"kind": "mmap-differs", "lines": ses.lines[: k + 1],
                                             "finding": {"block": last, "reason": "map().read of the last block differs from the file read (reader asked for again after the store changed)"}})
                                break
                    except ValueError:
                        pass                      # an empty file cannot be mapped
            im._flush()
            from traph.lru_trie.node import LRUTrieNode
            st = im.t.lru_trie_storage
            mm = st.map()
            try:
                size = len(st)
                for b in range(0, size, 128):
                    mapped += 1
                    x, y = mm.read(b), st.read(b)
                    if x is None or y is None or bytes(x) != bytes(y):
                        hits.append({"kind": "mmap-differs", "lines": ses.lines, "finding": {"block": b, "reason": "map().read differs from file read"}})
                        break
                    if b >= 128:
                        try:
                            s1 = LRUTrieNode(mm, block=b).stem()
                        except Exception as e:  # noqa
                            s1 = "raised " + type(e).__name__
                        s2 = LRUTrieNode(st, block=b).stem()
                        if s1 != s2:
                            hits.append({"kind": "mmap-node-differs", "lines": ses.lines,
                                         "finding": {"block": b, "through_map": repr(s1)[:200], "through_file": repr(s2)[:200],
                                                     "reason": "reading a node through the memory-mapped reader differs from reading it through the file"}})
                            break
            finally:
                mm.release()
        finally:
            for m0 in keep_maps:
                try:
                    m0.release()
                except Exception:
                    pass
            im.close()
        if len(hits) >= 2:
            break
    out.extra["C15"] = {"histories_run_on_both_backends": compared, "blocks_read_through_map": mapped}
    return hits[:2]


# ---- C17 ------------------------------------------------------------------------------------------------------
_HARVEST = {}


def harvest_literals(repo=None):
    """byte/text literals of the code under test that look like pieces of an LRU (stems, stem runs, dotted host names):
    a dictionary for the input generators, so that a table of special names in the source is exercised by its own entries"""
    import ast, glob, re as _re
    from .impl import REPO
    repo = repo or REPO
    if repo in _HARVEST:
        return _HARVEST[repo]
    runs, hosts = set(), set()
    for f in glob.glob(os.path.join(repo, "traph", "**", "*.py"), recursive=True):
        try:
            tree = ast.parse(open(f, "rb").read())
        except Exception:
            continue
        for n in ast.walk(tree):
            if isinstance(n, ast.Constant) and isinstance(n.value, (bytes, str)):
                v = n.value.encode("utf-8", "replace") if isinstance(n.value, str) else n.value
                if not 0 < len(v) <= 80:
                    continue
                if v.endswith(b"|") and all(_re.match(rb"^[a-z]:[^|]*$", p) for p in v[:-1].split(b"|")):
                    runs.add(v)
                elif _re.match(rb"^[a-z]:[^|\s]{1,20}$", v):
                    runs.add(v + b"|")
                elif _re.match(rb"^[A-Za-z0-9-]{1,12}(\.[A-Za-z0-9-]{1,12}){1,3}$", v):
                    hosts.add(b"".join(b"h:" + p + b"|" for p in reversed(v.split(b"."))))
    res = sorted(runs | hosts)[:400]
    _HARVEST[repo] = res
    return res


def _c17_lru(r):
    hv = harvest_literals()
    if hv and r.random() < 0.3:
        sch = r.choice([b"s:http|", b"s:https|"])
        port = r.choice([b"", b"", b"", b"t:80|"])
        mid = r.choice(hv)
        if not mid.startswith(b"h:"):
            mid = r.choice([b"h:com|", b"h:com|h:a|", b""]) + (mid if not mid.startswith(b"s:") else b"")
        pre = r.choice([b"", b"", b"h:com|", b"h:a|"]) if mid.startswith(b"h:") else b""
        post = r.choice([b"", b"", b"h:www|", b"h:a|", b"h:a|h:www|", b"p:x|", b"h:www|p:x|"])
        return sch + port + pre + mid + post
    sch = r.choice([b"s:http|", b"s:https|", b"s:http|", b"s:https|", b"s:ftp|", b"s:HTTP|", b"s:httpx|", b"s:h|"])
    port = r.choice([b"", b"", b"t:80|", b"t:443|"])
    hostpool = [b"h:com|", b"h:a|", b"h:www|", b"h:wwww|", b"h:b|", b"h:|", b"h:s:http|", b"h:h:www|", b"h:WWW|", b"h:Www|", b"h:com|"]
    nh = r.choice([0, 0, 1, 1, 2, 2, 3, 4])
    hosts = [r.choice(hostpool) for _ in range(nh)]
    while len(hosts) >= 2 and hosts[-1] == b"h:www|" and hosts[-2] == b"h:www|":
        hosts[-1] = r.choice([b"h:a|", b"h:com|"])
    restpool = [b"p:s:http|", b"p:s:https|", b"p:h:www|", b"p:x|", b"q:h:com|h:a|".replace(b"|h", b";h"), b"p:|", b"f:s:http|",
                b"p:xs:http|", b"p:\xff\x00|", b"q:a=h:www|", b"p:www|", b"p:a\nb|", b"q:\r\n|", b"f:\x0b\x0c\x85|"]
    rest = [r.choice(restpool) for _ in range(r.choice([0, 0, 1, 2, 3]))]
    return sch + port + b"".join(hosts) + b"".join(rest)


def c17_clauses(x):
    """all clauses of C17 for one grammar LRU against the real helpers; returns (reason, detail) or None"""
    from traph import helpers as H
    from .ref import stems_of
    try:
        v = H.lru_variations(x)
    except Exception as e:  # noqa
        return ("expansion fails with %s" % type(e).__name__, None)
    if not isinstance(v, (list, tuple)) or any(not isinstance(y, bytes) for y in v):
        return ("the expansion is not a list of byte strings", repr(v)[:300])
    if not v or v[0] != x:
        return ("the prefix itself is not listed first", [repr(y) for y in v])
    if len(set(v)) != len(v):
        return ("an entry is listed twice", [repr(y) for y in v])
    sx = stems_of(x)
    tg = _toggle(sx)
    for y in v:
        sy = stems_of(y)
        if b"".join(sy) != y or sy[1:] not in (sx[1:], tg[1:] if tg else None) or \
                (sy[0] != sx[0] and {sy[0], sx[0]} != {b"s:http|", b"s:https|"}):
            return ("an entry differs from the prefix in more than the scheme stem and a trailing www host stem", repr(y))
    for y in v:
        try:
            vy = H.lru_variations(y)
        except Exception as e:  # noqa
            return ("expanding the member %r fails with %s" % (y, type(e).__name__), None)
        if not isinstance(vy, (list, tuple)) or any(not isinstance(z, bytes) for z in vy):
            return ("expanding the member %r does not give a list of byte strings" % y, repr(vy)[:300])
        if set(vy) != set(v):
            return ("not closed: expanding the member %r yields a different set" % y,
                    {"of_prefix": [repr(z) for z in v], "of_member": [repr(z) for z in vy]})
    return None


def extra_C17(tier, seed, scratch, cfg, out):
    from .ref import in_c17_grammar
    r = random.Random(seed * 7907 + 17000)
    n = 4000 if tier == "quick" else 120000
    hits, seen = [], set()
    for _ in range(n):
        x = _c17_lru(r)
        if not in_c17_grammar(x) or x in seen:
            continue
        seen.add(x)
        bad = c17_clauses(x)
        if bad:
            hits.append({"kind": "variations", "lines": ["? variations " + hx(x)],
                         "finding": {"lru": repr(x), "reason": bad[0], "detail": bad[1]}})
            break
    out.extra["C17"] = {"distinct_grammar_lrus_checked": len(seen)}
    return hits[:1]


def _toggle(st):
    idx = [i for i, s in enumerate(st) if s.startswith(b"h:")]
    if len(idx) < 2:
        return None
    last = idx[-1]
    if st[last] == b"h:www|":
        return st[:last] + st[last + 1:]
    return st[:last + 1] + [b"h:www|"] + st[last + 1:]


# ---- C18 ------------------------------------------------------------------------------------------------------
CUT_OBSERVERS = ["? pagesiter", "? counts", "? linksiter 1", "? linksiter 0", "? network 1 1 0", "? network 0 0 1",
                 "? dfs", "? prefixiter", "? metrics"]


def extra_C18(tier, seed, scratch, cfg, out):
    """every cut of the program-ordered write log of generated histories: rebuild the files, reopen them with
    the real code, run the observers; compare with the model on the same cut; pages and links of the cut
    must be reported by the completed history as well"""
    from . import model
    from .impl import FULL_LOG, PHYS_LOG, PHYS_ACTIVE, absolutize
    from .ref import stems_of
    hits = []
    nhist = 6 if tier == "quick" else 60
    cuts_done = byte_cuts = refused = phys_histories = 0
    for i in range(nhist):
        r = random.Random(seed * 7907 + 18000 + i)
        prof = dict(PROFILES["C18"]); prof["read_rate"] = 0.0
        if i % 2 == 0:
            prof["g1"] = 0.2            # arbitrary-byte stems with multi-block lengths
        im = Impl(scratch)
        physical = False
        try:
            del PHYS_LOG[:]
            PHYS_ACTIVE[0] = True
            ses = Session(im, r, prof, cfg=cfg, family=("g2" if i % 2 == 0 else None))
            ses.init()
            if i % 2 == 0:                  # a node whose head and tail blocks are separate appends, early in the log
                L = r.choice([75, 100, 148, 149, 223])
                ses.do("addpage %s 1" % hx(b"\x80A|" + b"C" * (L - 1) + b"|"))
            ses.run(6 if tier == "quick" else 10, skip_init=True)
            clear_start, pre_pages, pre_links = None, set(), set()
            if i % 3 == 2:                  # a `clear` in the middle of the history: its two truncations are crash points too
                ses.w_addlinks()
                pre_pages = set(x.split(":")[0] for x in _items(im.exec("? pagesiter")[0]))
                pre_links = set(_items(im.exec("? linksiter 1")[0]))
                clear_start = len(FULL_LOG)
                ses.do(r.choice(["clear - none", "clear - []", "clear domain []"]))
                ses.run(r.randint(0, 4), skip_init=True)
            base_lines = list(ses.lines)
            PHYS_ACTIVE[0] = False
            phys = list(PHYS_LOG)
            physical = phys != absolutize(FULL_LOG)      # the file objects did not receive the blocks in the order of the storage.write calls
            if physical:
                phys_histories += 1
                im.phys_snapshot = phys
            nlog = len(phys) if physical else len(FULL_LOG)
            log_kinds = [(f, o, len(d)) for f, o, d in phys] if physical else [(k, o, len(d)) for k, o, d in FULL_LOG]
            final = {q: im.exec(q)[0] for q in ("? pagesiter", "? linksiter 1")}
            final_pages = set(x.split(":")[0] for x in _items(final["? pagesiter"]))
            final_links = set(_items(final["? linksiter 1"]))
            # choose cuts: every block boundary (capped) and byte-granular cuts inside appends
            ks = list(range(nlog + 1))
            if len(ks) > (120 if tier == "quick" else 100000):
                ks = sorted(r.sample(ks, 120))
            if clear_start is not None:
                ks = sorted(set(ks) | set(range(clear_start, min(nlog, clear_start + 5) + 1)))
            cuts = [(k, 0) for k in ks]
            for k in r.sample(range(nlog), min(nlog, 25 if tier == "quick" else 400)):
                kind, off, ln = log_kinds[k]
                cuts.append((k, r.choice([1, ln // 2, ln - 1])))
            lines = list(base_lines)
            results = list(ses.results)
            for k, j in cuts:
                cutop = "cutp" if physical else "cut"
                a = im.exec("%s %d %d" % (cutop, k, j))
                lines.append("%s %d %d" % (cutop, k, j)); results.append(a)
                cuts_done += 1
                byte_cuts += 1 if j else 0
                if a[0] != "ok":
                    refused += 1
                    if a[0] != "err traph":
                        hits.append({"kind": "cut", "lines": base_lines, "cut": [k, j],
                                     "finding": {"reason": "reopening a truncated history failed with something else than the library's own error",
                                                 "answer": a[0]}})
                    continue
                for q in CUT_OBSERVERS:
                    ans = im.exec(q)
                    lines.append(q); results.append(ans)
                    if ans[0].startswith("err") and not (q == "? metrics" and ans[0] == "err other ZeroDivisionError"):
                        hits.append({"kind": "cut", "lines": base_lines, "cut": [k, j], "finding": {
                            "reason": "the reopened index cannot be queried: %s fails" % q, "answer": ans[0]}})
                    before_clear = clear_start is not None and k <= clear_start     # the history completed so far ends before the clear
                    if q == "? pagesiter" and ans[0].startswith("ok"):
                        extra_pages = set(x.split(":")[0] for x in _items(ans[0])) - (pre_pages if before_clear else final_pages)
                        if extra_pages:
                            hits.append({"kind": "cut", "lines": base_lines, "cut": [k, j], "finding": {
                                "reason": "the cut index reports a page the completed history does not", "pages": sorted(extra_pages)[:3]}})
                    if q == "? linksiter 1" and ans[0].startswith("ok"):
                        extra_links = set(_items(ans[0])) - (pre_links if before_clear else final_links)
                        if extra_links:
                            hits.append({"kind": "cut", "lines": base_lines, "cut": [k, j], "finding": {
                                "reason": "the cut index reports a link the completed history does not", "links": sorted(extra_links)[:3]}})
                u = im.exec("uncut"); lines.append("uncut"); results.append(u)
                if hits:
                    break
        finally:
            PHYS_ACTIVE[0] = False
            im._uncut() if im.t is not None else None
            im.close()
        if physical:
            for h in hits:
                h["physical"] = True
        if hits:
            break
        if physical:
            # the logical log is not what reaches the files: its cuts are not the crash points any more, and the
            # model's account of them is not tied to this code; the physical cuts above found nothing
            hits.append({"kind": "no-failing-input-found", "lines": base_lines,
                         "no_longer_checks": ["correspondence slice of C18: the blocks reach the two file objects in another order (or in other pieces) "
                                              "than the storage.write calls the model's write log follows; every cut of the physical order reopened and answered, "
                                              "but the model no longer describes the crash points"]})
            continue
        # the same cuts through the model
        try:
            mres = model.run_lines(lines)
            mism = corr.compare(lines, results, mres, "file")
            out.disagreements += len(mism)
            if mism:
                m = mism[0]
                out.extra.setdefault("C18_model_mismatch", []).append(m.to_json())
                hits.append({"kind": "no-failing-input-found", "lines": lines[: m.idx + 1],
                             "no_longer_checks": ["correspondence slice of C18 (write log / cut states): model and implementation disagree on '%s' (%s)" % (m.kind(), m.what)],
                             "disagreement": m.to_json()})
                break
        except Exception as e:  # noqa
            out.notes.append("model driver unavailable for C18 cuts: %r" % e)
    # one store missing is refused
    im = Impl(scratch)
    try:
        im.exec("init file never [] " + cfg)
        im.exec("addpage %s 0" % hx(b"a|b|"))
        folder = im.folder
        im.close()
        os.remove(os.path.join(folder, "link_store.dat"))
        from traph import Traph
        from traph.traph import TraphException
        try:
            Traph(folder=folder, default_webentity_creation_rule=b"(?!)", webentity_creation_rules={}).close()
            hits.append({"kind": "cut", "lines": ["init file never [] " + cfg], "cut": "link_store.dat missing",
                         "finding": {"reason": "a folder with one store missing was not refused"}})
        except TraphException:
            pass
        except Exception as e:  # noqa
            hits.append({"kind": "cut", "lines": ["init file never [] " + cfg], "cut": "link_store.dat missing",
                         "finding": {"reason": "a folder with one store missing fails with %s instead of the library's own error" % type(e).__name__}})
    finally:
        im.close()
    out.extra["C18"] = {"histories": nhist, "cuts_reopened_with_real_code": cuts_done, "byte_granular_cuts": byte_cuts, "refused": refused,
                       "histories_whose_physical_write_order_differs_from_the_logical_log": phys_histories}
    res, seen = [], set()
    for h in hits:
        key = (h["kind"], h.get("finding", {}).get("reason"))
        if key not in seen:
            seen.add(key); res.append(h)
    nofail = [h for h in res if h["kind"] == "no-failing-input-found"]
    return [h for h in res if h["kind"] != "no-failing-input-found"][:2] or nofail[:1]


def _items(ans):
    inner = ans[4:-1] if ans.startswith("ok [") else ""
    return inner.split(",") if inner else []


# ---- C16 ------------------------------------------------------------------------------------------------------
WE_QUERIES = ["pages", "crawled", "mostlinked", "children", "pagelinks", "weout", "wein"]
NET_QUERIES = ["net", "netslow"]
QUERY_KINDS = WE_QUERIES + NET_QUERIES


def _we_query(r, kind, w, ps):
    """(kind, co-arguments, description for the probes) of a per-webentity query generator"""
    pa = brack([hx(p) for p in ps])
    if kind in ("pages", "crawled", "weout", "wein", "children"):
        return (kind, "%d %s" % (w, pa), {"w": w, "ps": pa})
    if kind == "mostlinked":
        k = r.choice([1, 2, 3, 1000, 1000])
        d = r.choice(["-", "-", "-", "0", "1", "2"])
        return (kind, "%d %s %d %s" % (w, pa, k, d), {"w": w, "ps": pa, "k": k, "d": d})
    if kind == "pagelinks":
        fl = r.choice(["011", "011", "111", "100", "010", "001", "110", "101"])
        return (kind, "%d %s %s" % (w, pa, " ".join(fl)), {"w": w, "ps": pa, "fl": " ".join(fl)})
    raise ValueError(kind)


def _probe_line(kind, a):
    if kind == "pages":
        return "? pages %d %s" % (a["w"], a["ps"])
    if kind == "crawled":
        return "? crawledpages %d %s" % (a["w"], a["ps"])
    if kind == "mostlinked":
        return "? mostlinked %d %s 1000000 %s" % (a["w"], a["ps"], a["d"])
    if kind == "children":
        return "? children %d %s" % (a["w"], a["ps"])
    if kind == "pagelinks":
        return "? pagelinks %d %s %s" % (a["w"], a["ps"], a["fl"])
    if kind in ("weout", "wein"):
        return "? %s %d %s" % (kind, a["w"], a["ps"])
    if kind == "net":
        return "? network %s %s 0" % (a["o"], a["a"])
    if kind == "netslow":
        return "? network %s %s 1" % (a["o"], a["a"])
    raise ValueError(kind)


def _pages_under(ses, prefixes):
    return sorted(set(p for p in ses.pages if any(p.startswith(q) for q in prefixes)))


def _busy_we(r, ses):
    """a webentity of the index, with a bias towards those that own many of the session's pages"""
    m = ses.we_map()
    if not m:
        return None, [], m
    ws = sorted(m)
    if r.random() < 0.6:
        w = max(ws, key=lambda x: (len(_pages_under(ses, m[x])), -x))
    else:
        w = r.choice(ws)
    return w, m[w], m


def _co_scenario(r, ses):
    """2-3 generator requests on the session's current state: at least one writer (crawl batch, rule installation), the others
    drawn from the nine query generators. With a query on board, the index is first given links and the writers are aimed at
    the webentity the query is about."""
    reqs = []
    n = r.choice([2, 2, 3])
    if r.random() < 0.3:
        kinds = ["batch"] * n
    else:
        nw = 1 if n == 2 or r.random() < 0.6 else 2
        kinds = [r.choice(["batch", "batch", "batch", "rule"]) for _ in range(nw)] + [r.choice(QUERY_KINDS) for _ in range(n - nw)]
        r.shuffle(kinds)
    focus = None
    if any(k in QUERY_KINDS for k in kinds):
        for _ in range(r.randint(1, 3)):
            ses.w_addlinks() if r.random() < 0.7 else ses.w_batch()
        w, ps, _ = _busy_we(r, ses)
        if w is not None and r.random() < 0.8:
            under = _pages_under(ses, ps)
            if len(under) >= 2 and r.random() < 0.7:
                ses.do("addlinks " + brack(["%s>%s" % (hx(r.choice(under)), hx(r.choice(under) if r.random() < 0.7 else ses.page_lru()))
                                            for _ in range(r.randint(1, 4))]))
            focus = (w, ps, under)
    shared = [ses.page_lru() for _ in range(r.randint(2, 3))] + [ses.new_lru()]
    if focus and r.random() < 0.7:
        w, ps, under = focus
        shared = (r.sample(under, min(len(under), 3)) or [ses.page_lru()]) + \
                 [r.choice(under or ps) + b"p:zz%d|" % j for j in range(r.randint(1, 2))] + [ses.page_lru()]
    for k in kinds:
        if k == "batch":
            pool = shared if r.random() < 0.7 else [ses.page_lru() for _ in range(r.randint(1, 4))]
            data = {}
            for _ in range(r.randint(1, 3)):
                s = r.choice(pool)
                data[s] = [r.choice(pool) if r.random() < 0.6 else ses.page_lru() for _ in range(r.choice([0, 1, 2, 3]))]
            reqs.append(("batch", ";".join("%s>%s" % (hx(s), ",".join(hx(t) for t in ts)) for s, ts in data.items()), data))
        elif k == "rule":
            from .gen import stems_of, RULE_NAMES
            st = stems_of(r.choice(focus[2] or focus[1]) if focus and r.random() < 0.6 else ses.any_lru())
            a = b"".join(st[: r.randint(1, len(st))])
            reqs.append(("rule", "%s %s" % (hx(a), r.choice(RULE_NAMES[1:])), None))
        elif k in WE_QUERIES:
            if focus and r.random() < 0.8:
                w, ps = focus[0], focus[1]
            else:
                w, ps = ses.pick_we()
                m = ses.we_map()
                if w not in m:
                    continue
                ps = m[w]
            if r.random() < 0.2 and ps:
                # the prefix list is the caller's: a prefix given twice, or together with one of its own stem-prefixes
                from .gen import stems_of as _st
                ps = list(ps)
                q = r.choice(ps)
                st = _st(q)
                ps.insert(r.randint(0, len(ps)), q if r.random() < 0.5 or len(st) < 2 else b"".join(st[: r.randint(1, len(st) - 1)]))
            reqs.append(_we_query(r, k, w, ps))
        else:
            o, a = r.choice("01"), r.choice("01")
            reqs.append((k, "%s %s" % (o, a), {"o": o, "a": a}))
    return reqs


def _carve_scenario(r, ses):
    """directed family: a query over a webentity with several folders is suspended after a few steps, then a rule
    installation carves new webentities out of folders the traversal has not reached yet and a crawl batch adds pages
    below them, then the query is resumed (stale traversal state of any kind shows here)"""
    dom = b"s:http|h:com|h:" + r.choice([b"site", b"m", b"zz"]) + b"|"
    folders = r.sample([b"p:a|", b"p:m|", b"p:zzz|", b"p:k|", b"p:b|", b"p:x|"], r.randint(2, 4))
    ses.do("create " + brack([hx(dom)]))
    pages = []
    for f in folders:
        for j in range(r.randint(1, 3)):
            pages.append(dom + f + b"p:%d|" % j)
    r.shuffle(pages)
    for l in pages:
        ses.note(l); ses.pages.append(l)
        ses.do("addpage %s %d" % (hx(l), r.randint(0, 1)))
    m = ses.we_map()
    w = next((k for k, v in m.items() if dom in v), None)
    if w is None:
        return [], []
    fresh = [dom + r.choice(folders) + b"p:new%d|" % j for j in range(r.randint(1, 3))]
    data = {fresh[0]: fresh[1:] + ([r.choice(pages)] if r.random() < 0.5 else [])}
    qkind = "pages" if r.random() < 0.35 else r.choice(WE_QUERIES)
    if qkind != "pages" and len(pages) > 1:
        ses.do("addlinks " + brack(["%s>%s" % (hx(r.choice(pages)), hx(r.choice(pages))) for _ in range(r.randint(1, 5))]))
    reqs = [_we_query(r, qkind, w, m[w]),
            ("rule", "%s %s" % (hx(dom), r.choice(["path1", "path1", "path2"])), None),
            ("batch", ";".join("%s>%s" % (hx(a), ",".join(hx(t) for t in ts)) for a, ts in data.items()), data)]
    plan = [0] * r.randint(1, len(pages)) + [1] * 400 + [2] * 400
    return reqs, plan


def _links_scenario(r, ses):
    """directed family: a link-bearing query (page links, cited / citing webentities, most linked pages, the two network
    queries) over a webentity whose pages link to each other and to a second host is suspended after a few steps; a crawl
    batch then adds links from, to and below the pages the query sits on (new heads of lists it holds copies of, new children
    of nodes whose copies it holds), possibly a rule installation carves the webentity up; then the query is resumed"""
    tag = r.choice([b"site", b"m", b"zz"])
    dom, other = b"s:http|h:com|h:" + tag + b"|", b"s:http|h:org|h:" + tag + b"|"
    ses.do("create " + brack([hx(dom)]))
    ses.do("create " + brack([hx(other)]))
    pages = [dom + f + b"p:%d|" % j for f in r.sample([b"p:a|", b"p:m|", b"p:zzz|", b"p:k|"], r.randint(1, 3)) for j in range(r.randint(1, 2))]
    outside = [other + b"p:o%d|" % j for j in range(r.randint(1, 2))]
    r.shuffle(pages)
    for l in pages + outside:
        ses.note(l); ses.pages.append(l)
    ses.do("addpages %s %d" % (brack([hx(l) for l in pages + outside]), r.randint(0, 1)))
    everything = pages + outside
    links = [(r.choice(pages), r.choice(everything)) for _ in range(r.randint(2, 6))] + \
            [(r.choice(outside), r.choice(pages)) for _ in range(r.randint(1, 3))]
    links += [r.choice(links) for _ in range(r.randint(0, 2))]          # weights > 1
    ses.do("addlinks " + brack(["%s>%s" % (hx(a), hx(b)) for a, b in links]))
    m = ses.we_map()
    w = next((k for k, v in m.items() if dom in v), None)
    if w is None:
        return [], []
    kind = r.choice(["pagelinks", "pagelinks", "weout", "wein", "mostlinked", "netslow", "net", "crawled", "children"])
    if kind in WE_QUERIES:
        q = _we_query(r, kind, w, m[w])
        if kind == "pagelinks" and r.random() < 0.6:
            q = (kind, "%d %s 1 1 1" % (w, q[2]["ps"]), dict(q[2], fl="1 1 1"))
    else:
        o, a = r.choice("01"), r.choice("01")
        q = (kind, "%s %s" % (o, a), {"o": o, "a": a})
    fresh = [r.choice(pages) + b"p:new%d|" % j for j in range(r.randint(1, 2))]
    data = {}
    for _ in range(r.randint(1, 3)):
        src = r.choice(pages + outside + fresh)
        data[src] = [r.choice(pages + fresh + outside) for _ in range(r.randint(1, 3))]
    reqs = [q, ("batch", ";".join("%s>%s" % (hx(a), ",".join(hx(t) for t in ts)) for a, ts in data.items()), data)]
    plan = [0] * r.randint(1, 2 * len(links) + len(pages)) + [1] * 400
    if r.random() < 0.4:
        reqs.append(("rule", "%s %s" % (hx(dom), r.choice(["path1", "path2"])), None))
        plan += [2] * 400
    return reqs, plan


def _fat_scenario(r, ses, k):
    """a hub page: one crawl batch gives a page several hundred links (the same few targets over and over: the lists are
    multisets), another batch links the same pages; the first is suspended after k steps, the second runs to completion"""
    tag = r.choice([b"hub", b"m"])
    dom = b"s:http|h:com|h:" + tag + b"|"
    hub, t1, t2, t3 = dom + b"p:hub|", dom + b"p:t1|", dom + b"p:t2|", dom + b"p:t3|"
    known = r.sample([hub, t1, t2], r.randint(1, 3))
    for l in (hub, t1, t2, t3):
        ses.note(l); ses.pages.append(l)
    ses.do("addpages %s 0" % brack([hx(l) for l in known]))
    if r.random() < 0.5:
        ses.do("addlinks " + brack(["%s>%s" % (hx(hub), hx(t1)), "%s>%s" % (hx(t2), hx(hub))]))
    n1, n2 = r.choice([(300, 250), (501, 3), (520, 505), (1001, 2)])
    big = {hub: [t1] * n1 + [t2] * n2}
    if r.random() < 0.5:
        big[t2] = [hub] * r.choice([1, 2, 600])
    small = {hub: [t3] * r.randint(1, 2), t3: [t1, hub][: r.randint(1, 2)]}
    enc = lambda data: ";".join("%s>%s" % (hx(a), ",".join(hx(t) for t in ts)) for a, ts in data.items())  # noqa
    reqs = [("batch", enc(big), big), ("batch", enc(small), small)]
    plan = [0] * k + [1] * 400
    return reqs, plan


def _net_pairs(a):
    ps = set()
    for row in _items(a):
        src = row.split(":")[0]
        inner = row.split("{")[1].rstrip("}")
        for tw in (inner.split("/") if inner else []):
            ps.add((src, tw.split("=")[0]))
    return ps


def _keyed(kind, a):
    """{item key: number attached to it (or None)} of an answer"""
    if kind in ("net", "netslow"):
        return {k: None for k in _net_pairs(a)}
    out = {}
    for x in _items(a):
        if kind in ("pages", "crawled"):
            out[x.split(":")[0]] = None
        elif kind in ("mostlinked", "pagelinks"):
            k, n = x.rsplit(":", 1)
            out[k] = int(n)
        else:
            out[x] = None
    return out


_WORDS = {
    # kind: (what is missed, what is reported although it qualified at no moment)
    "pages": ("page query misses a page that belonged to the webentity throughout its execution",
              "page query reports a page that never belonged to the webentity during its execution"),
    "crawled": ("page query (crawled pages) misses a crawled page that belonged to the webentity throughout its execution",
                "page query reports a crawled page that never belonged to the webentity during its execution"),
    "mostlinked": ("page query (most linked, room for all) misses a page that belonged to the webentity throughout its execution",
                   "page query reports a most-linked page that never belonged to the webentity during its execution"),
    "children": ("child-webentity query misses a webentity that lay below the prefixes throughout its execution",
                 None),
    "pagelinks": ("page-link query misses a link that qualified throughout its execution",
                  "page query reports a page link that existed at no moment of its execution"),
    "weout": ("cited-webentity query misses a webentity cited throughout its execution (no webentity created meanwhile)",
              "page query reports a cited webentity that existed at no moment of its execution in the cited set"),
    "wein": ("citing-webentity query misses a webentity citing throughout its execution (no webentity created meanwhile)",
             "page query reports a citing webentity that existed at no moment of its execution in the citing set"),
    "net": ("network query misses a webentity link present throughout its execution",
            "network query reports a webentity link that existed at no moment of its execution"),
    "netslow": ("network query (slow variant) misses a webentity link present throughout its execution",
                "network query reports a webentity link (slow variant) that existed at no moment of its execution"),
}


def _judge_query(kind, arg, answer, probes, static_we):
    """two-sided bound of C16 for one query generator: (violations, phantoms) as lists of (reason, detail)"""
    hits, known = [], []
    got = _keyed(kind, answer)
    maps = [_keyed(kind, p) for p in probes if p.startswith("ok")]
    if not maps:
        return hits, known
    lower = set.intersection(*[set(m) for m in maps])
    upper = set.union(*[set(m) for m in maps])
    miss_words, phantom_words = _WORDS[kind]
    check_lower = True
    if kind == "mostlinked":
        # room for every entry: a prefix given twice (or nested prefixes of the webentity) lists a page once per prefix, and
        # every entry takes a place in the bounded heap — count the entries of the unbounded probes, not the distinct pages
        check_lower = arg["k"] >= max(len(_items(p)) for p in probes if p.startswith("ok"))
        if len(got) > arg["k"]:
            hits.append(("most-linked ranking is longer than asked for", {"length": len(got), "asked": arg["k"]}))
        degs = [int(x.rsplit(":", 1)[1]) for x in _items(answer)]
        if degs != sorted(degs, reverse=True):
            hits.append(("most-linked ranking is not in descending order", {"answer": answer[:300]}))
    if kind in ("weout", "wein"):
        check_lower = static_we        # membership of the far ends moves when webentities are created: set-level bound only if none was
    if check_lower and not lower <= set(got):
        missing = lower - set(got)
        reclass = set()
        if kind == "pagelinks" and arg.get("cls"):
            # a missed link that the single-switch probes show under different classes while the query ran (F16c)
            for k_ in missing:
                seen = set()
                for cin, cint, cout in arg["cls"]:
                    names = [n for n, c in (("in", cin), ("int", cint), ("out", cout)) if any(x.rsplit(":", 1)[0] == k_ for x in c)]
                    seen.add(tuple(names))
                if len(seen) > 1:
                    reclass.add(k_)
        if reclass:
            known.append(("page-link query misses a link that changed class (internal / inbound / outbound) while the query ran: it qualified "
                          "at every moment under the switches asked for", {"missing": sorted(map(str, reclass))[:3]}))
        if missing - reclass:
            hits.append((miss_words, {"missing": sorted(map(str, missing - reclass))[:3]}))
    if not set(got) <= upper:
        if phantom_words is None:
            hits.append(("child-webentity query reports a webentity that lay below the prefixes at no moment of its execution",
                         {"phantom": sorted(map(str, set(got) - upper))[:3]}))
        else:
            known.append((phantom_words, {"phantom": sorted(map(str, set(got) - upper))[:3]}))
    if kind in ("mostlinked", "pagelinks"):
        # the number attached to an item (indegree, weight) only grows; an item is (key, number): a number the key never had in a
        # probe that lists it is the same kind of phantom (the page was visited after it had left the webentity)
        for k, n in got.items():
            vals = [m[k] for m in maps if k in m]
            if vals and not (min(vals) <= n <= max(vals)):
                known.append((("page query reports a most-linked page with an indegree: the page never belonged to the webentity while it had it"
                               if kind == "mostlinked" else
                               "page query reports a page link with a weight: the link with that weight existed at no moment of its execution"),
                              {"item": k, "reported": n, "seen": sorted(set(vals))}))
                break
    return hits, known


def extra_C16(tier, seed, scratch, cfg, out):
    from . import model
    hits, nscen, nsteps = [], (420 if tier == "quick" else 3000), 0
    known_hits = []
    search_left = 0
    req_count, step_count, phantom_count = {}, {}, {}
    for i in range(nscen):
        r = random.Random(seed * 7907 + 16000 + i)
        prof = dict(PROFILES["C16"]); prof["read_rate"] = 0.0; prof["g1"] = 0.85
        prof["w"] = {"reopen": 0, "clear": 0, "create": 5, "addrule": 2, "delete": 2}
        im = Impl(scratch)
        try:
            ses = Session(im, r, prof, cfg=cfg)
            ses.init()
            for _ in range(r.randint(2, 7)):
                getattr(ses, "w_" + r.choices(ses.WRITES, [prof["w"].get(k, 1.0) if k in prof["w"] else 1.0 for k in ses.WRITES])[0])()
            carve_plan = None
            if i % 60 == 5:
                reqs, carve_plan = _fat_scenario(r, ses, 1 + (i // 60) % 5)
            elif i % 4 == 3:
                reqs, carve_plan = _carve_scenario(r, ses)
            elif i % 4 == 1:
                reqs, carve_plan = _links_scenario(r, ses)
            else:
                reqs = _co_scenario(r, ses)
            base = list(ses.lines)
            if len(reqs) < 2:
                continue
            live = {}
            scen_known = []
            for cid, (kind, arg, _) in enumerate(reqs):
                ses.do("co new %d %s %s" % (cid, kind, arg))
                live[cid] = {"kind": kind, "probes": [], "answer": None, "arg": reqs[cid][2]}

            def probe():
                for cid, st in live.items():
                    if st["answer"] is None and st["kind"] in QUERY_KINDS:
                        st["probes"].append(ses.do(_probe_line(st["kind"], st["arg"])))
                        if st["kind"] == "pagelinks":
                            # the class of every link at this moment (inbound / internal / outbound): F16c is about links that change class
                            a_ = st["arg"]
                            st["arg"].setdefault("cls", []).append(tuple(
                                frozenset(_items(ses.do("? pagelinks %d %s %s" % (a_["w"], a_["ps"], fl)))) for fl in ("1 0 0", "0 1 0", "0 0 1")))
            for kind, _, _ in reqs:
                req_count[kind] = req_count.get(kind, 0) + 1
            we_before = ses.do("? prefixiter")
            probe()
            failed = None
            # schedules: uniformly random, or "one request for k steps, another to completion, then the rest"
            block = r.random() < 0.5
            order = list(live)
            r.shuffle(order)
            plan = []
            if carve_plan is not None and (r.random() < 0.8 or i % 60 == 5):
                plan = carve_plan
            elif block:
                plan = [order[0]] * r.randint(1, 6) + [order[1 % len(order)]] * 200
            while any(st["answer"] is None for st in live.values()):
                alive = [c for c, st in live.items() if st["answer"] is None]
                cid = None
                while plan and cid is None:
                    c = plan.pop(0)
                    if c in alive:
                        cid = c
                if cid is None:
                    cid = r.choice(alive)
                ans = ses.do("co step %d" % cid)
                nsteps += 1
                step_count[live[cid]["kind"]] = step_count.get(live[cid]["kind"], 0) + 1
                if ans.startswith("done "):
                    live[cid]["answer"] = ans[5:]
                elif ans != "yield":
                    live[cid]["answer"] = ans
                    failed = (cid, ans)
                probe()
            static_we = ses.do("? prefixiter") == we_before       # no webentity was created while the generators ran
            ses.do("? pagesiter"); final_pages = ses.results[-1][0]
            ses.do("? counts"); final_counts = ses.results[-1][0]
            pages = [x.split(":")[0] for x in _items(final_pages)]
            outs, ins = [], []
            for p in pages:
                outs += _items(ses.do("? pagelinksof %s 0 1 1" % p))
                ins += _items(ses.do("? pagelinksof %s 1 0 0" % p))
            ses.do("hash")
            lines = list(ses.lines)
            results = list(ses.results)
        finally:
            im.close()
        sched = [l for l in lines[len(base):] if l.startswith("co ")]
        # --- oracle (statement of C16 on the implementation)
        if failed:
            hits.append({"kind": "co", "lines": lines, "finding": {"reason": "a request failed under interleaving: %s" % failed[1], "schedule": sched}})
        # sequential application of the same write requests on a second index
        seq = list(base)
        for kind, arg, _ in reqs:
            if kind == "batch":
                seq.append("batch " + arg)
            elif kind == "rule":
                seq.append("addrule " + arg)
        seq += ["? pagesiter", "? counts"]
        sres = corr.replay_impl(scratch, seq)
        if sorted(_items(sres[-2][0])) != sorted(_items(final_pages)):
            hits.append({"kind": "co", "lines": lines, "finding": {"reason": "final pages differ from the requests applied one after another",
                         "interleaved": final_pages[:800], "sequential": sres[-2][0][:800], "schedule": sched}})
        if sres[-1][0].split("links2=")[-1] != final_counts.split("links2=")[-1]:
            hits.append({"kind": "co", "lines": lines, "finding": {"reason": "final number of links differs from the sequential application",
                         "interleaved": final_counts, "sequential": sres[-1][0], "schedule": sched}})
        nonself_out = sorted(x for x in outs if x.split(">")[0] != x.split(">")[1].split(":")[0])
        if nonself_out != sorted(ins):
            hits.append({"kind": "co", "lines": lines, "finding": {"reason": "inbound/outbound lists are not symmetric after the schedule",
                         "out_only": sorted(set(nonself_out) - set(ins))[:3], "in_only": sorted(set(ins) - set(nonself_out))[:3], "schedule": sched}})
        for cid, st in live.items():
            if st["kind"] in QUERY_KINDS and st["answer"].startswith("ok"):
                h2, k2 = _judge_query(st["kind"], st["arg"], st["answer"], st["probes"], static_we)
                for reason, detail in h2:
                    hits.append({"kind": "co", "lines": lines, "finding": dict(detail, reason=reason, schedule=sched)})
                for reason, detail in k2:
                    scen_known.append({"kind": "co", "lines": lines, "finding": dict(detail, reason=reason, schedule=sched)})
                    phantom_count[st["kind"]] = phantom_count.get(st["kind"], 0) + 1
        if any(h["kind"] != "no-failing-input-found" for h in hits):
            break
        # --- correspondence with the coroutine model on the same schedule
        try:
            mres = model.run_lines(lines)
            mism = corr.compare(lines, results, mres, "file")
            out.disagreements += len(mism)
            if mism and scen_known:
                # F16 is the phantom the executable model of the unchanged generators reproduces on the same schedule; a
                # phantom on a schedule where the implementation has left the model is a different violation
                h = scen_known[0]
                h["finding"]["reason"] = ("a query advanced in turns reports an item that qualified at no moment of its execution (or misses one that "
                                          "qualified throughout), and not by a known mechanism: the model of the unchanged generators disagrees on this "
                                          "schedule (%s)" % mism[0].what)
                hits.append(h)
                break
            if mism:
                # the tie is broken: keep the first disagreement, and keep looking (for a while) for a schedule on which
                # the property itself fails on the implementation
                if not any(h["kind"] == "no-failing-input-found" for h in hits):
                    m = mism[0]
                    hits.append({"kind": "no-failing-input-found", "lines": lines[: m.idx + 1],
                                 "no_longer_checks": ["correspondence slice of C16 (generator sections under a schedule): model and implementation disagree on '%s' (%s)" % (m.line[:60], m.what)],
                                 "disagreement": m.to_json()})
                    search_left = 80
                search_left -= 1
                if search_left <= 0:
                    break
                continue
            known_hits += scen_known
        except Exception as e:  # noqa
            out.notes.append("model driver unavailable for C16: %r" % e)
            known_hits += scen_known
    out.extra["C16"] = {"scenarios": nscen, "generator_steps": nsteps, "phantom_items_seen": len(known_hits),
                        "requests_by_kind": dict(sorted(req_count.items())), "steps_by_kind": dict(sorted(step_count.items())),
                        "phantoms_by_kind": dict(sorted(phantom_count.items()))}
    real = [h for h in hits if h["kind"] != "no-failing-input-found"]
    return (real[:2] or hits[:1]) + known_hits[:1]

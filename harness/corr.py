"""Correspondence check: the same operation lines through the implementation and through the Lean model."""
import random
from . import model
from .impl import Impl
from .gen import Session


class Mismatch(object):
    def __init__(self, idx, line, what, impl, mdl, backend):
        self.idx, self.line, self.what, self.impl, self.mdl, self.backend = idx, line, what, impl, mdl, backend

    def kind(self):
        w = self.line.split(" ")
        return w[1] if w[0] == "?" else w[0]

    def to_json(self):
        return {"index": self.idx, "line": self.line, "what": self.what, "impl": self.impl[:2000],
                "model": self.mdl[:2000], "backend": self.backend}


def compare(lines, impl_results, model_results, backend):
    out = []
    for i, (line, a, b) in enumerate(zip(lines, impl_results, model_results)):
        if a[0] != b[0]:
            out.append(Mismatch(i, line, "answer", a[0], b[0], backend))
        elif a[1] != b[1] or a[2] != b[2]:
            out.append(Mismatch(i, line, "writes", "%d writes fp=%d" % (a[1], a[2]), "%d writes fp=%d" % (b[1], b[2]), backend))
    return out


def replay_impl(scratch, lines, backend=None):
    """run recorded lines on a fresh implementation instance (optionally forcing the back-end)"""
    impl = Impl(scratch)
    res = []
    try:
        for line in lines:
            if backend and line.startswith("init "):
                w = line.split(" "); w[1] = backend + (":" + w[1].split(":", 1)[1] if ":" in w[1] else ""); line = " ".join(w)
            res.append(impl.exec(line))
    finally:
        impl.close()
    return res


def run_sequence(scratch, seed, profile, nops, both_backends=True, family=None, cfg="111"):
    """generate adaptively on the file back-end, replay on memory, run the model once; returns
    (lines, mismatches, stats)"""
    r = random.Random(seed)
    impl = Impl(scratch)
    try:
        ses = Session(impl, r, profile, backend="file", family=family, cfg=cfg)
        ses.run(nops)
    finally:
        impl.close()
    lines = ses.lines
    mres = model.run_lines(lines)
    mism = compare(lines, ses.results, mres, "file")
    mem_res = None
    if both_backends and not any(l.startswith("reopen") for l in lines):
        mem_res = replay_impl(scratch, lines, backend="mem")
        mism += compare(lines, mem_res, mres, "mem")
    return lines, mism, {"family": ses.family, "file": ses.results, "mem": mem_res, "model": mres}

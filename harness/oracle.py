"""Property oracles: each property's statement evaluated on the implementation's answers to a recorded
operation sequence, using the abstract reference of ref.py.  Used to FIND failing inputs; the verdict of a
check rests on the Lean build, the axiom audit and the correspondence (DESIGN §6)."""
from .ref import Ref, Unknown, canon_answer, stems_of, prefixes_of
from .impl import unx, unx_list, split_list, hx, brack

# which properties an observable of kind K is evidence for (DESIGN Appendix B)
KIND_PROPS = {
    "pagesiter": ["C01"], "counts": ["C01", "C03", "C19"], "report.pages": ["C01"],
    "lrunode": ["C02"], "windup": ["C02"], "dfs": ["C02"],
    "pagelinksof": ["C03"], "linksiter": ["C03"], "pagedeg": ["C03"],
    "retrievewe": ["C04", "C05"], "retrieveprefix": ["C04"], "webyprefix": ["C04", "C02"], "prefixiter": ["C04", "C12"],
    "edit": ["C04"],
    "pages": ["C05"], "crawledpages": ["C05"],
    "report.we": ["C06", "C12"], "potential": ["C06"],
    "network": ["C07"],
    "pagelinks": ["C08"], "weout": ["C08"], "wein": ["C08"], "wedeg": ["C08"],
    "paginate": ["C09"], "paginatelinks": ["C10"], "token": ["C09", "C10"],
    "parents": ["C13"], "children": ["C13"],
    "expand": ["C17"], "variations": ["C17"],
    "metrics": ["C19"], "hash": ["C19"],
    "mostlinked": ["C20"],
    "ids": ["C12"],
}
EDIT_OPS = {"create", "delete", "deleteu", "addprefix", "rmprefix", "moveprefix", "rmrule"}
REPORT_OPS = {"addpage", "addpages", "addlinks", "batch", "addrule", "addruleram", "create"}


class Finding(object):
    def __init__(self, idx, line, kind, reason, expected, got):
        self.idx, self.line, self.kind, self.reason, self.expected, self.got = idx, line, kind, reason, expected, got
        self.props = KIND_PROPS.get(kind, [])
        self.backend = None

    def to_json(self):
        return {"index": self.idx, "line": self.line, "kind": self.kind, "reason": self.reason,
                "expected": (self.expected or "")[:3000], "got": (self.got or "")[:3000], "properties": self.props,
                "backend": self.backend}


def parse_report(ans):
    """'ok pages=N we={..}' -> (N, {id: [prefix hex sorted]})"""
    head, we = ans.split(" we={", 1)
    n = int(head.split("pages=")[1])
    d = {}
    we = we[:-1]
    for it in (we.split(";") if we else []):
        k, v = it.split(":", 1)
        d[k] = sorted(split_list(v))
    return n, d


def parse_kv(ans):
    return dict(x.split("=", 1) for x in ans[3:].split(" "))


class Judge(object):
    """consumes (line, implementation answer) pairs in order"""

    def __init__(self):
        self.ref = Ref()
        self.findings = []
        self.unknown = 0
        self.judged = 0
        self.max_id = 0
        self.prev = (None, None)
        self.epis = {}           # pagination episodes
        self.lost = False        # reference lost track (an Unknown on a write): stop judging state-dependent answers

    def add(self, idx, line, kind, reason, expected=None, got=None):
        self.findings.append(Finding(idx, line, kind, reason, expected, got))

    def feed(self, idx, line, ans):
        w = line.strip().split(" ")
        if w[0] != "co" and getattr(self, "cos", None) and w[0] != "init":
            # a crawl-batch generator was dropped half-way: the reference does not know how far it got
            self.cos = {}
            self.lost = True
        # generators still suspended (the in-link mirrors of a batch are written last: no symmetry is owed before)
        if not hasattr(self, "pending"):
            self.pending = set()
        if w[0] == "co" and len(w) > 2:
            if w[1] == "new":
                self.pending.add(w[2])
            elif w[1] == "step" and ans != "yield":
                self.pending.discard(w[2])
        if w[0] in ("init", "clear", "overwrite"):
            self.pending = set()
        try:
            if w[0] == "?":
                if not self.lost:
                    self.query(idx, line, w[1:], ans)
                elif not self.pending and w[1:] == ["linksiter", "0"] and self.prev[0] and self.prev[0].strip() == "? linksiter 1" \
                        and ans.startswith("ok [") and self.prev[1].startswith("ok ["):
                    # judged without the reference (it lost track at an interleaved request): the two directions list the same links
                    self.judged += 1
                    fwd = set(split_list(self.prev[1][3:]))
                    bwd = set(">".join(reversed(x.split(">"))) for x in split_list(ans[3:]))
                    if fwd != bwd:
                        d = sorted(fwd ^ bwd)[:3]
                        self.add(idx, line, "linksiter", "the out-link lists and the in-link lists do not hold the same links "
                                 "(every request has completed): %s" % d, None, ans[:300])
            elif w[0] in ("hash",):
                if not self.lost:
                    self.hash_line(idx, line, ans)
            elif w[0] == "dump":
                pass
            else:
                self.write(idx, line, w, ans)
        except Unknown:
            self.unknown += 1
            if w[0] != "?":
                self.lost = True
        self.prev = (line, ans)

    # ---- writes
    def write(self, idx, line, w, ans):
        if w[0] == "co":
            # a generator request drained on its own (gen.py: w_cobatch): the batch takes effect as a whole; the caller
            # stops at the first state that says done, as run_iterator does not have to be used
            if not hasattr(self, "cos"):
                self.cos = {}
            if w[1] == "new" and w[3] == "batch":
                if self.cos:
                    # an earlier generator is still suspended (dropped half-way, or about to be interleaved): the reference
                    # does not know how far it got
                    self.cos = {}
                    self.lost = True
                    return
                self.cos[w[2]] = w[4]
                return
            if w[1] == "step" and w[2] in self.cos:
                if ans == "yield":
                    return
                data = self.cos.pop(w[2])
                if ans.startswith("done "):
                    return self.write(idx, line, ["batch", data], ans[5:])
                return self.write(idx, line, ["batch", data], ans)
            raise Unknown()
        if w[0] == "init":
            self.cos = {}
        if w[0] == "pokeid":
            self.max_id = max(self.max_id, int(w[1]))
        if w[0] in ("init", "clear", "overwrite"):
            self.max_id = 0
            self.epis = {}
            if w[0] == "init":
                self.lost = False
        if self.lost and w[0] != "init":
            return
        hint = None
        if w[0] == "addrule":
            pl, pa = self.prev
            if pl and pl.strip() == "? pagesiter" and pa.startswith("ok ["):
                hint = [unx(x.split(":")[0]) for x in split_list(pa[3:])]
        exp = self.ref.exec_write(w, hint)
        self.judged += 1
        # errors / ok
        if exp.startswith("err") or ans.startswith("err"):
            if exp != ans:
                kind = "edit" if w[0] in EDIT_OPS else "report.we"
                self.add(idx, line, kind, "answer class differs", exp, ans)
                self.lost = True
            return
        if w[0] in REPORT_OPS and ans.startswith("ok pages="):
            n, d = parse_report(ans)
            en, ed = parse_report(exp)
            if n != en:
                self.add(idx, line, "report.pages", "nb_created_pages differs from the number of new pages", exp, ans)
            if d != ed:
                self.add(idx, line, "report.we", "created webentities differ from the rule ladder", exp, ans)
                self.lost = True
            ids = [int(k) for k in d if k != "none"]
            for i in sorted(ids):
                if i <= self.max_id:
                    self.add(idx, line, "ids", "id %d not greater than every id issued before (%d)" % (i, self.max_id), None, ans)
                self.max_id = max(self.max_id, i)
        elif exp != ans:
            self.add(idx, line, "edit", "answer differs", exp, ans)

    # ---- queries
    def query(self, idx, line, w, ans):
        q = w[0]
        ref = self.ref
        if q in ("token", "chunks", "rule"):
            return self.helper(idx, line, w, ans)
        if q == "paginate":
            return self.paginate(idx, line, w, ans)
        if q == "paginatelinks":
            return self.paginatelinks(idx, line, w, ans)
        if q == "mostlinked":
            return self.mostlinked(idx, line, w, ans)
        if q == "metrics":
            return self.metrics(idx, line, ans)
        if q == "dfs":
            self.judged += 1
            if not ans.startswith("ok ["):
                return self.add(idx, line, "dfs", "traversal failed", None, ans)
            items = [x.split(":") for x in split_list(ans[3:])]
            lrus = [unx(l) for _, l in items]
            if len(set(lrus)) != len(lrus):
                self.add(idx, line, "dfs", "an LRU is met twice by the full traversal", None, ans)
            if set(lrus) != set(ref.nodes):
                miss = sorted(set(ref.nodes) - set(lrus))[:3]
                extra = sorted(set(lrus) - set(ref.nodes))[:3]
                self.add(idx, line, "dfs", "traversal differs from the prefix closure of the named LRUs: missing %s extra %s"
                         % ([hx(x) for x in miss], [hx(x) for x in extra]), None, ans)
            self.dfs_blocks = {int(b): unx(l) for b, l in items}
            return
        if q == "windup":
            self.judged += 1
            pl, pa = self.prev
            if pl and pl.startswith("? lrunode ") and pa == "ok " + w[1]:
                exp = "ok " + pl.strip().split(" ")[2]
                if ans != exp:
                    self.add(idx, line, "windup", "bottom-up reconstruction differs from the LRU that located the block", exp, ans)
            return
        exp = ref.expect_query(w)
        self.judged += 1
        if q == "lrunode":
            got = "ok none" if ans == "ok none" else ("present" if ans.startswith("ok ") else ans)
            if got != exp:
                self.add(idx, line, "lrunode", "locatable iff stem-prefix of a named LRU", exp, ans)
            return
        got = canon_answer(q, ans)
        if q == "counts":
            e, g = parse_kv(exp), parse_kv(got) if got.startswith("ok ") else {}
            if g.get("pages") != e["pages"] or g.get("crawled") != e["crawled"]:
                self.add(idx, line, "counts", "page counts differ", exp, ans)
            elif g.get("links2") != e["links2"]:
                self.add(idx, line, "counts", "link count differs", exp, ans)
            return
        if exp != got:
            self.add(idx, line, q, "answer differs from the abstract index", exp, got)

    def helper(self, idx, line, w, ans):
        self.judged += 1
        if w[0] == "token":
            if not ans.startswith("ok ") or ans.split(" ")[2:] != [w[1], w[2]]:
                self.add(idx, line, "token", "token does not round-trip through its text encoding", "… %s %s" % (w[1], w[2]), ans)
        elif w[0] == "chunks":
            n, x = int(w[1]), unx(w[2])
            exp = [x[i:i + n] for i in range(0, len(x), n)] or [x]
            if ans != "ok " + brack([hx(c) for c in exp]):
                self.add(idx, line, "metrics", "chunking is not ceil(len/n) slices", brack([hx(c) for c in exp]), ans)

    def hash_line(self, idx, line, ans):
        w = ans.split(" ")
        if w[0] != "#T":
            return
        self.judged += 1
        tb, lb = int(w[2]), int(w[5])
        if tb != self.ref.trie_blocks():
            self.add(idx, line, "hash", "trie store holds %d blocks, accounted %d" % (tb, self.ref.trie_blocks()), None, ans)
        if lb != 1 + 2 * len(self.ref.links):
            self.add(idx, line, "hash", "link store holds %d blocks, accounted %d" % (lb, 1 + 2 * len(self.ref.links)), None, ans)

    def metrics(self, idx, line, ans):
        ref = self.ref
        self.judged += 1
        if not ref.nodes:
            return
        if not ans.startswith("ok "):
            return self.add(idx, line, "metrics", "metrics failed on a non-empty index", None, ans)
        if ans.startswith("ok metrics-derived"):
            return self.add(idx, line, "metrics", "the derived metrics figures disagree with the counted ones", None, ans[:300])
        m = parse_kv(ans)
        blocks = [max(1, -(-len(stems_of(x)[-1]) // 74)) for x in ref.nodes]
        exp = {"nodes": sum(blocks), "pages": sum(1 for a in ref.nodes.values() if a.page),
               "crawled": sum(1 for a in ref.nodes.values() if a.page and a.crawled),
               "tail": sum(b - 1 for b in blocks), "frag": sum(b - 1 for b in blocks), "stems": len(blocks),
               "maxtail": max(b - 1 for b in blocks), "links2": 2 * len(ref.links)}
        bad = [k for k, v in exp.items() if m.get(k) != str(v)]
        if bad:
            self.add(idx, line, "metrics", "figures differ: %s" % bad, str(exp), ans)

    def mostlinked(self, idx, line, w, ans):
        ref = self.ref
        self.judged += 1
        k, depth = int(w[3]), (None if w[4] == "-" else int(w[4]))
        cand = []
        for p in unx_list(w[2]):
            pg = ref.pages_under(p, depth)
            if pg is None:
                if ans != "err traph":
                    self.add(idx, line, "mostlinked", "unknown prefix not refused", "err traph", ans)
                return
            cand += pg
        if not ans.startswith("ok ["):
            return self.add(idx, line, "mostlinked", "query failed", None, ans)
        lonely = 1 if ref.cfg[0] == "1" else 0
        indeg = {}
        for x in set(cand):
            n = len(ref.in_w(x))
            indeg[x] = n if n else lonely
        items = [(unx(a), int(b)) for a, b in (x.split(":") for x in split_list(ans[3:]))]
        mult = {}
        for x in cand:
            mult[x] = mult.get(x, 0) + 1
        if len(items) != min(k, len(cand)):
            return self.add(idx, line, "mostlinked", "expected %d entries" % min(k, len(cand)), None, ans)
        seen = {}
        for x, d in items:
            seen[x] = seen.get(x, 0) + 1
            if x not in indeg or seen[x] > mult[x]:
                return self.add(idx, line, "mostlinked", "entry %s is not a page of the walk" % hx(x), None, ans)
            if d != indeg[x]:
                return self.add(idx, line, "mostlinked", "indegree of %s is %d distinct sources, reported %d" % (hx(x), indeg[x], d), None, ans)
        ds = [d for _, d in items]
        if ds != sorted(ds, reverse=True):
            return self.add(idx, line, "mostlinked", "not in non-increasing order", None, ans)
        if items:
            rest = dict(mult)
            for x, _ in items:
                rest[x] -= 1
            omitted = [indeg[x] for x, n in rest.items() if n > 0]
            if omitted and max(omitted) > min(ds):
                self.add(idx, line, "mostlinked", "an omitted page has a larger indegree than a listed one", None, ans)

    # ---- pagination
    def expected_seq(self, prefixes, crawled_only):
        seq = []
        for i, p in enumerate(prefixes):
            pg = self.ref.pages_under(p)
            if pg is None:
                return None
            for x in sorted(pg):
                if not crawled_only or self.ref.nodes[x].crawled:
                    seq.append((i, x))
        return seq

    def paginate(self, idx, line, w, ans):
        ref = self.ref
        self.judged += 1
        prefixes, k, tok, co = unx_list(w[2]), (None if w[3] == "-" else int(w[3])), w[4], w[5] == "1"
        seq = self.expected_seq(prefixes, co)
        key = ("p", w[1], w[2], w[3], w[5])
        if seq is None:
            # some prefix unknown: an answer may still be produced for the prefixes before it; only demand no crash class
            if not (ans.startswith("err traph") or ans.startswith("ok ")):
                self.add(idx, line, "paginate", "unexpected failure", "err traph", ans)
            return
        if tok == "-":
            start, old = 0, set(seq)
        else:
            ent = self.epis.get((key, tok))
            if ent is None:
                raise Unknown("token of unknown origin")
            last, old = ent
            # entries strictly after the token's page (prefix index, lru)
            start = len([1 for (i, x) in seq if (i, x) <= last])
        if not ans.startswith("ok done="):
            return self.add(idx, line, "paginate", "pagination failed", None, ans)
        kv = parse_kv(ans)
        pages = [(unx(a), b == "1") for a, b in (x.split(":") for x in split_list(kv["pages"]))]
        got = [x for x, _ in pages]
        rest = seq[start:]
        # match the chunk against the ordered sequence after the token; pages inserted after the token was
        # issued may legitimately be absent (the property only protects pages present throughout)
        gi, leftover_old, last_matched = 0, 0, None
        for ix in rest:
            if gi < len(got) and got[gi] == ix[1]:
                gi += 1; last_matched = ix
            elif ix in old:
                if gi < len(got):
                    return self.add(idx, line, "paginate", "page %s skipped or out of order" % hx(ix[1]),
                                    brack([hx(x) for _, x in (rest if k is None else rest[:k])]), brack([hx(x) for x in got]))
                leftover_old += 1
        if gi < len(got):
            return self.add(idx, line, "paginate", "entry %s repeated, unknown or out of order" % hx(got[gi]),
                            brack([hx(x) for _, x in (rest if k is None else rest[:k])]), brack([hx(x) for x in got]))
        if any(c != ref.nodes[x].crawled for x, c in pages):
            return self.add(idx, line, "paginate", "crawled mark wrong", None, ans)
        if int(kv["count"]) != len(pages) or int(kv["crawled"]) != sum(1 for _, c in pages if c):
            return self.add(idx, line, "paginate", "counts do not match contents", None, ans)
        if kv["done"] == "1":
            if leftover_old:
                return self.add(idx, line, "paginate", "final answer but %d pages of the webentity were never returned" % leftover_old, None, ans)
        else:
            if k is None or len(got) != k:
                return self.add(idx, line, "paginate", "non-final answer does not hold exactly the requested count", None, ans)
            if kv["token"] == "-":
                return self.add(idx, line, "paginate", "non-final answer without token", None, ans)
            self.epis[(key, kv["token"])] = (last_matched, set(seq))

    def paginatelinks(self, idx, line, w, ans):
        ref = self.ref
        self.judged += 1
        wid, prefixes = int(w[1]), unx_list(w[2])
        inc_int, inc_out, k, tok = w[3] == "1", w[4] == "1", (None if w[5] == "-" else int(w[5])), w[6]
        if not inc_int and not inc_out:
            if ans != "err traph":
                self.add(idx, line, "paginatelinks", "no switch set must be refused", "err traph", ans)
            return
        seq = self.expected_seq(prefixes, False)
        if seq is None:
            if not (ans.startswith("err traph") or ans.startswith("ok ")):
                self.add(idx, line, "paginatelinks", "unexpected failure", "err traph", ans)
            return
        groups = []
        for i, x in seq:
            ls = []
            for t, n in ref.out_w(x).items():
                tw = ref.resolve(t)
                if (inc_out and tw != wid) or (inc_int and tw == wid):
                    ls.append((x, t, n))
            if ls:
                groups.append(((i, x), ls))
        key = ("l", w[1], w[2], w[3], w[4], w[5])
        if tok == "-":
            start = 0
        else:
            last = self.epis.get((key, tok))
            if last is None:
                raise Unknown("token of unknown origin")
            start = len([1 for (ix, _) in groups if ix <= last])
        if not ans.startswith("ok done="):
            return self.add(idx, line, "paginatelinks", "a token issued by the index cannot be resumed" if tok != "-" else "pagination failed", None, ans)
        kv = parse_kv(ans)
        got = sorted(split_list(kv["links"]))
        rest = groups[start:]
        exp_groups = rest if k is None else rest[:k]
        exp_done = k is None or len(rest) <= k
        exp = sorted("%s>%s:%d" % (hx(a), hx(b), n) for _, ls in exp_groups for a, b, n in ls)
        if got != exp:
            return self.add(idx, line, "paginatelinks", "chunk differs from the links of the next source pages", brack(exp), brack(got))
        if int(kv["sources"]) != len(exp_groups) or (kv["done"] == "1" and not exp_done):
            return self.add(idx, line, "paginatelinks", "done/count wrong (expected done=%s sources=%d)" % (exp_done, len(exp_groups)), None, ans)
        if kv["done"] == "0" and (k is None or len(exp_groups) != k):
            return self.add(idx, line, "paginatelinks", "non-final answer does not cover exactly the requested number of source pages", None, ans)
        if kv["done"] == "0":
            if kv["token"] == "-":
                return self.add(idx, line, "paginatelinks", "non-final answer without token", None, ans)
            self.epis[(key, kv["token"])] = exp_groups[-1][0]


def judge(lines, answers):
    j = Judge()
    for i, (l, a) in enumerate(zip(lines, answers)):
        j.feed(i, l, a)
    return j

"""Runs operation lines through the compiled Lean model driver."""
import os, subprocess

HERE = os.path.dirname(os.path.abspath(__file__))
LEAN_DIR = os.path.join(HERE, "..", "lean")
DRIVER = os.path.join(LEAN_DIR, ".lake", "build", "bin", "driver")


def run_lines(lines, timeout=600):
    """returns list of (answer, nwrites, fingerprint) per input line"""
    p = subprocess.run([DRIVER], input=("\n".join(lines) + "\n").encode(), stdout=subprocess.PIPE,
                       stderr=subprocess.PIPE, timeout=timeout)
    if p.returncode != 0:
        raise RuntimeError("driver failed: rc=%s stderr=%s" % (p.returncode, p.stderr.decode()[-2000:]))
    out = p.stdout.decode().split("\n")
    if out and out[-1] == "":
        out.pop()
    if len(out) != 2 * len(lines):
        raise RuntimeError("driver printed %d lines for %d operations" % (len(out), len(lines)))
    res = []
    for i in range(len(lines)):
        w = out[2 * i + 1].split(" ")
        assert w[0] == "#W", out[2 * i + 1]
        res.append((out[2 * i], int(w[1]), int(w[2])))
    return res

"""Runs operation lines (DESIGN Appendix A) on the real hyphe-traph, in-process, and renders the answers in
the canonical form the Lean driver prints.  The tree under test is $TRAPH_REPO (default /repo)."""
import os, re, shutil, signal, sys, tempfile, warnings

REPO = os.environ.get("TRAPH_REPO", "/repo")
if REPO not in sys.path:
    sys.path.insert(0, REPO)
warnings.simplefilter("ignore")
import traph as _traph_pkg  # noqa: E402

assert os.path.realpath(_traph_pkg.__file__).startswith(os.path.realpath(REPO) + os.sep), \
    "traph imported from %s, not from %s" % (_traph_pkg.__file__, REPO)
from traph import Traph  # noqa: E402
from traph.traph import TraphException  # noqa: E402
from traph import helpers as H  # noqa: E402
from traph.storage.file import FileStorage  # noqa: E402
from traph.storage.memory import MemoryStorage  # noqa: E402
from traph.lru_trie.node import LRU_TRIE_NODE_BLOCK_SIZE  # noqa: E402

_HOSTS = b"(h:[^\\|]+\\|(h:[^\\|]+\\|)%s|h:(localhost|(\\d{1,3}\\.){3}\\d{1,3}|\\[[\\da-f]*:[\\da-f:]*\\])\\|)"
_HEAD = b"(s:[a-zA-Z]+\\|(t:[0-9]+\\|)?"
RULES = {
    "never": b"(?!)",
    "domain": _HEAD + (_HOSTS % b"") + b")",
    "subdomain": _HEAD + (_HOSTS % b"+") + b")",
}
for _n in (1, 2, 3, 4):
    RULES["path%d" % _n] = _HEAD + (_HOSTS % b"+") + (b"(p:[^\\|]+\\|){%d})" % _n)

_DFLT_CALLS = [0]


def default_rule(name, first=False):
    """the default creation rule handed to the constructor / to `clear`: a rule that never fires is written `(?!)` or, every
    other time, as the empty pattern (whose empty match the code treats as "no prefix found": the same rule to a caller)"""
    if name == "never":
        _DFLT_CALLS[0] += 1
        if _DFLT_CALLS[0] % 2 == (1 if first else 0):
            return b""
    return RULES[name]


OP_TIMEOUT = float(os.environ.get("VERIF_OP_TIMEOUT", "10"))
BYSTANDER = os.environ.get("VERIF_BYSTANDER", "1") == "1"


class OpTimeout(BaseException):
    pass


def _on_alarm(signum, frame):
    raise OpTimeout()


MASK = (1 << 64) - 1
FNV_INIT = 14695981039346656037
FNV_PRIME = 1099511628211


def fnv(data, h=FNV_INIT):
    for b in data:
        h = ((h ^ b) * FNV_PRIME) & MASK
    return h


# ---- write log capture (no source hooks: wrapped in this process only) ---------------------------------------
WRITE_LOG = []          # (kind, offset, bytes) of the current operation
FULL_LOG = []           # whole history since init (C18)
_orig_fwrite = FileStorage.write
_orig_mwrite = MemoryStorage.write


def _kind(storage, block):
    trie = storage.block_size == LRU_TRIE_NODE_BLOCK_SIZE
    if trie:
        return 1 if block is None else 0
    return 3 if block is None else 2


def _fwrite(self, data, block=None):
    e = (_kind(self, block), 0 if block is None else block, bytes(data))
    WRITE_LOG.append(e); FULL_LOG.append(e)
    return _orig_fwrite(self, data, block)


def _mwrite(self, data, block=None):
    e = (_kind(self, block), 0 if block is None else block, bytes(data))
    WRITE_LOG.append(e); FULL_LOG.append(e)
    return _orig_mwrite(self, data, block)


FileStorage.write = _fwrite
MemoryStorage.write = _mwrite

# `clear` empties the two stores before it re-initialises them: these are crash points too (kinds 4 = trie, 5 = links).
# Recorded only while a `clear` request runs (the constructor opens its files with the same call).
IN_CLEAR = [False]
import builtins as _builtins
import traph.traph as _traph_module
_orig_mclear = MemoryStorage.clear


# The physical write log: what reaches the two file objects, in the order it reaches them (C18's crash points are
# cuts of *this* order; on the unchanged tree it is the order of the `storage.write` calls, which extra_C18 checks
# before it trusts the logical log).  Entries (file 0 = trie / 1 = links, absolute offset, bytes); offset -1 = truncation.
PHYS_LOG = []
PHYS_ACTIVE = [False]
FAULT = [None]          # [file, appends still to let through]: the next append after that to this file fails half-way (C14)
import io as _io


class LoggedFile(_io.BufferedRandom):
    def __init__(self, path, mode, which):
        super(LoggedFile, self).__init__(_io.FileIO(path, mode.replace("b", "")))
        self._which = which

    def write(self, data):
        if FAULT[0] is not None and FAULT[0][0] == self._which:
            pos = self.tell()
            self.flush()
            if pos >= os.fstat(self.fileno()).st_size:          # an append: the device fills up half-way through it
                FAULT[0][1] -= 1
                if FAULT[0][1] < 0:
                    FAULT[0] = None
                    super(LoggedFile, self).write(bytes(data)[:max(1, len(data) // 2)])
                    self.flush()
                    raise OSError(28, "No space left on device")
        if PHYS_ACTIVE[0]:
            PHYS_LOG.append((self._which, self.tell(), bytes(data)))
        return super(LoggedFile, self).write(data)

    def truncate(self, pos=None):
        if PHYS_ACTIVE[0]:
            PHYS_LOG.append((self._which, -2, (self.tell() if pos is None else pos).to_bytes(8, "little")))
        return super(LoggedFile, self).truncate(pos)


def absolutize(log):
    """the logical log in the physical log's terms"""
    size, res = [0, 0], []
    for kind, off, data in log:
        if kind in (4, 5):
            size[kind - 4] = 0
            res.append((kind - 4, -1, b""))
            continue
        f = 0 if kind in (0, 1) else 1
        pos = size[f] if kind in (1, 3) else off
        size[f] = max(size[f], pos + len(data))
        res.append((f, pos, data))
    return res


def phys_cut_files(log, k, j):
    bufs = [bytearray(), bytearray()]
    def put(f, pos, data):
        if pos == -1:
            del bufs[f][:]
        elif pos == -2:
            n = int.from_bytes(data, "little")
            del bufs[f][n:]
            bufs[f].extend(b"\0" * (n - len(bufs[f])))
        else:
            if pos > len(bufs[f]):
                bufs[f].extend(b"\0" * (pos - len(bufs[f])))
            bufs[f][pos:pos + len(data)] = data
    for f, pos, data in log[:k]:
        put(f, pos, data)
    if j and k < len(log):
        f, pos, data = log[k]
        if pos >= len(bufs[f]):                              # only an append can be torn
            put(f, pos, data[:j])
    return bytes(bufs[0]), bytes(bufs[1])


def _topen(path, mode="r", *a, **k):
    name = os.path.basename(str(path))
    which = 0 if name == "lru_trie.dat" else 1 if name == "link_store.dat" else None
    if IN_CLEAR[0] and "w" in mode and which is not None:
        e = (4 + which, 0, b"")
        WRITE_LOG.append(e); FULL_LOG.append(e)
        if PHYS_ACTIVE[0]:
            PHYS_LOG.append((which, -1, b""))
    if which is not None and "+" in mode and "b" in mode and not a and not k:
        return LoggedFile(path, mode, which)
    return _builtins.open(path, mode, *a, **k)


def _mclear(self):
    if IN_CLEAR[0]:
        e = (4 if self.block_size == LRU_TRIE_NODE_BLOCK_SIZE else 5, 0, b"")
        WRITE_LOG.append(e); FULL_LOG.append(e)
    return _orig_mclear(self)


_traph_module.open = _topen
MemoryStorage.clear = _mclear

# C16: every loop iteration is a yield point (wrapped in this process only; atomic requests are unaffected
# because run_iterator drains the generator anyway)
from traph.traph_iterator_state import TraphIteratorState  # noqa: E402
TraphIteratorState.should_yield = lambda self, yield_frequency=1000: True


def writes_fingerprint(log):
    if sum(len(d) for _, _, d in log) > (8 << 20):
        return 0            # one request wrote more than 8 MiB (no generated request comes near): not hashed byte by byte in Python; never equals the model's
    h = FNV_INIT
    for kind, off, data in log:
        h = ((h ^ kind) * FNV_PRIME) & MASK
        h = fnv(off.to_bytes(8, "little"), h)
        h = fnv(data, h)
    return h


# ---- text helpers -------------------------------------------------------------------------------------------
def hx(b):
    if isinstance(b, str):
        b = b.encode()
    return "x" + bytes(b).hex()


def unx(s):
    return bytes.fromhex(s[1:])


SESSION_ENCODING = ["utf-8"]      # the `encoding=` the index of the current session was constructed with


def as_api_arg(b):
    """the API accepts `str` as well as `bytes` and encodes it itself: hand over text for about half of the
    arguments that are valid UTF-8 (chosen by a hash of the value, so both back-ends and replays agree)"""
    if STR_ARGS and fnv(b) % 2 == 0:
        try:
            t = b.decode(SESSION_ENCODING[0])
            if t.encode(SESSION_ENCODING[0]) == b:
                return t
        except (UnicodeDecodeError, UnicodeEncodeError):
            pass
    return b


def unx_arg(s):
    """first character: `x` = the hash of the value decides between text and bytes, `s` = text (when the value is
    UTF-8), `b` = bytes.  The model reads all three alike."""
    v = unx(s)
    if s[0] == "b":
        return v
    if s[0] == "s":
        try:
            t = v.decode(SESSION_ENCODING[0])
            return t if t.encode(SESSION_ENCODING[0]) == v else v
        except (UnicodeDecodeError, UnicodeEncodeError):
            return v
    return as_api_arg(v)


_SHAPE_CALLS = [0]
ONE_SHOT = os.environ.get("VERIF_ONE_SHOT", "1") == "1"


def as_iterable(items):
    """the API documents its list arguments as iterables: hand them over as a list, a tuple, or a one-shot generator in turn"""
    _SHAPE_CALLS[0] += 1
    k = _SHAPE_CALLS[0] % 3
    if k == 1 or not ONE_SHOT:
        return list(items)
    if k == 2:
        return tuple(items)
    return (x for x in list(items))


def unx_arg_list(s):
    """a list argument the API indexes or walks more than once: a list or a tuple"""
    _SHAPE_CALLS[0] += 1
    items = [unx_arg(x) for x in split_list(s)]
    return tuple(items) if _SHAPE_CALLS[0] % 2 == 0 else items


def unx_arg_iter(s):
    """a list argument the API walks once (pages, links, prefixes of a creation / deletion / page query, targets of a crawled
    page): list, tuple or one-shot generator in turn"""
    return as_iterable([unx_arg(x) for x in split_list(s)])


STR_ARGS = os.environ.get("VERIF_STR_ARGS", "1") == "1"


def split_list(s):
    inner = s[1:-1]
    return inner.split(",") if inner else []


def unx_list(s):
    return [unx(x) for x in split_list(s)]


def brack(items):
    return "[" + ",".join(items) + "]"


def b01(b):
    return "1" if b else "0"


def opt_nat(s):
    return None if s == "-" else int(s)


# Documented defaults of the public API (signatures of the pinned tree).  Callers rely on them, so an argument that
# equals its documented default is omitted from every other call: a changed default then shows as a changed answer.
DEFAULTS = {
    "add_page": {"crawled": False}, "add_pages": {"crawled": False},
    "get_page_degree": {"weighted": False}, "get_page_indegree": {"weighted": False}, "get_page_outdegree": {"weighted": False},
    "get_page_links": {"include_inbound": True, "include_internal": True, "include_outbound": True},
    "get_webentities_inlinks": {"include_auto": False}, "get_webentities_outlinks": {"include_auto": False},
    "get_webentities_links": {"include_auto": False, "out": True}, "get_webentities_links_iter": {"include_auto": False, "out": True},
    "get_webentities_links_slow": {"include_auto": False, "out": True}, "get_webentities_links_slow_iter": {"include_auto": False, "out": True},
    "get_webentity_most_linked_pages": {"max_depth": None, "pages_count": 10},
    "get_webentity_most_linked_pages_iter": {"max_depth": None, "pages_count": 10},
    "get_webentity_pagelinks": {"include_inbound": False, "include_internal": True, "include_outbound": False},
    "get_webentity_pagelinks_iter": {"include_inbound": False, "include_internal": True, "include_outbound": False},
    "links_iter": {"out": True},
    "paginate_webentity_pagelinks": {"include_internal": True, "include_outbound": False, "pagination_token": None, "source_page_count": None},
    "paginate_webentity_pages": {"crawled_only": False, "page_count": None, "pagination_token": None},
}
_KW_CALLS = [0]
# documented parameter order (pinned signatures): every third call hands the keyword arguments over positionally
ORDER = {
    "add_page": ["lru", "crawled"], "add_pages": ["lrus", "crawled"],
    "get_page_degree": ["lru", "weighted"], "get_page_indegree": ["lru", "weighted"], "get_page_outdegree": ["lru", "weighted"],
    "get_page_links": ["lru", "include_inbound", "include_internal", "include_outbound"],
    "get_webentities_links": ["out", "include_auto"], "get_webentities_links_iter": ["out", "include_auto"],
    "get_webentities_links_slow": ["out", "include_auto"], "get_webentities_links_slow_iter": ["out", "include_auto"],
    "get_webentities_inlinks": ["include_auto"], "get_webentities_outlinks": ["include_auto"],
    "get_webentities_inlinks_iter": ["include_auto"], "get_webentities_outlinks_iter": ["include_auto"],
    "get_webentity_most_linked_pages": ["weid", "prefixes", "pages_count", "max_depth"],
    "get_webentity_most_linked_pages_iter": ["weid", "prefixes", "pages_count", "max_depth"],
    "get_webentity_pagelinks": ["weid", "prefixes", "include_inbound", "include_internal", "include_outbound"],
    "get_webentity_pagelinks_iter": ["weid", "prefixes", "include_inbound", "include_internal", "include_outbound"],
    "paginate_webentity_pagelinks": ["weid", "prefixes", "include_internal", "include_outbound", "source_page_count", "pagination_token"],
    "paginate_webentity_pages": ["weid", "prefixes", "page_count", "pagination_token", "crawled_only"],
    "links_iter": ["out"], "delete_webentity": ["weid", "weid_prefixes", "check_for_corruption"],
    "add_webentity_creation_rule": ["rule_prefix", "pattern", "write_in_trie"],
}
_STYLE = [0]


class ArgStyle(object):
    """the index as a caller sees it: keyword arguments are handed over positionally, in the documented order, on every
    third call (when those given form an initial run of the remaining parameters)"""

    def __init__(self, t):
        object.__setattr__(self, "_t", t)

    def __getattr__(self, name):
        f = getattr(self._t, name)
        order = ORDER.get(name)
        if order is None or not callable(f):
            return f

        def g(*a, **k):
            _STYLE[0] += 1
            if _STYLE[0] % 3 == 0 and k:
                names = order[len(a):]
                n = 0
                while n < len(names) and names[n] in k:
                    n += 1
                if n == len(k):
                    return f(*a, *[k[x] for x in names[:n]])
            return f(*a, **k)
        return g

    def __setattr__(self, name, value):
        setattr(self._t, name, value)


def kw(name, **k):
    _KW_CALLS[0] += 1
    if _KW_CALLS[0] % 2:
        return k
    d = DEFAULTS.get(name, {})
    return {a: v for a, v in k.items() if not (a in d and d[a] == v and type(d[a]) is type(v))}


def parse_rules(s):
    out = {}
    for ar in split_list(s):
        a, r = ar.split("=")
        out[unx_arg(a)] = RULES[r]          # rule anchors are given as text or as bytes, like any LRU
    return out


def ok_true(res):
    """the edit requests answer True (documented): anything else is part of the answer"""
    return "ok" if res is True else "ok returned %r" % (res,)


def render_report(r):
    items = []
    for k, v in r.created_webentities.items():
        items.append(("none" if k is None else str(k)) + ":" + brack([hx(p) for p in v]))
    return "ok pages=%d we={%s}" % (r.nb_created_pages, ";".join(items))


def render_links(l):
    return brack(["%s>%s:%d" % (hx(a), hx(b), w) for a, b, w in l])


def render_graph(g):
    rows = []
    for src in sorted(g.keys()):
        c = g[src]
        ts = sorted("%d=%d" % (k, v) for k, v in c.items() if not isinstance(k, str))
        rows.append("%d:c=%d:u=%d:{%s}" % (src, c.get("pages_crawled", 0), c.get("pages_uncrawled", 0), "/".join(ts)))
    return "ok " + brack(rows)


class Impl(object):
    """one real index; `backend` is 'file' or 'mem'"""

    def __init__(self, scratch):
        self.scratch = scratch
        self.t = None
        self.backend = None
        self.folder = None
        self.dflt = None
        self.rules = None
        self.saved = None

    def enc_kw(self):
        return {"encoding": self.enc} if getattr(self, "enc", None) else {}

    def construct(self, folder, overwrite=False):
        """Traph(...) the way callers write it: by keyword, or positionally in the documented order
        (folder, overwrite, encoding, debug, default rule, rules), in turn"""
        self.ctor_calls = getattr(self, "ctor_calls", 0) + 1
        if self.ctor_calls % 2 == 0:
            return Traph(folder, overwrite, getattr(self, "enc", None) or "utf-8", False, self.dflt, self.rules)
        k = dict(folder=folder, default_webentity_creation_rule=self.dflt, webentity_creation_rules=self.rules, **self.enc_kw())
        if overwrite:
            k["overwrite"] = True
        return Traph(**k)

    def bystander(self, texts=None):
        """a second, unrelated index alive in the same process (applications keep several corpora open): what happens to
        it must not reach the index under test"""
        try:
            want = "latin-1" if SESSION_ENCODING[0] == "utf-8" else "utf-8"
            if getattr(self, "other", None) is None or getattr(self, "other_enc", None) != want:
                self.other = Traph(folder=None, encoding=want, default_webentity_creation_rule=RULES["domain"], webentity_creation_rules={})
                self.other_enc = want
                self.other_n = 0
            self.other_n += 1
            o, n = self.other, self.other_n
            for txt in (texts or [])[:3]:          # the same text the index under test is about to receive
                o.add_page(txt)
            site = "s:http|h:org|h:bystander%d|" % (n % 7)
            o.add_page(site + "p:%d|" % n, crawled=bool(n % 2))
            o.add_links([(site + "p:%d|" % n, site + "p:%d|" % (n // 2))])
            if n % 5 == 0:
                o.create_webentity([site + "p:we%d|" % n])
            if n % 9 == 0:
                o.get_webentities_links()
                o.expand_prefix(site)
                for _ in o.pages_iter():
                    break
            if n % 40 == 0:
                o.clear()
        except Exception:
            pass

    # -- lifecycle
    def close(self):
        if self.t is not None:
            try:
                self.t.close()
            except Exception:
                pass
            self.t = None

    def _flush(self):
        if self.backend == "file":
            self.t.lru_trie_file.flush()
            self.t.link_store_file.flush()

    def images(self):
        if self.backend == "file":
            self._flush()
            with open(os.path.join(self.folder, "lru_trie.dat"), "rb") as f:
                tb = f.read()
            with open(os.path.join(self.folder, "link_store.dat"), "rb") as f:
                lb = f.read()
            return tb, lb
        return bytes(self.t.lru_trie_storage.array), bytes(self.t.links_store_storage.array)

    # -- execution
    def exec(self, line):
        """returns (answer, nwrites, fingerprint); an operation that does not return within OP_TIMEOUT seconds
        (an edit of the code under test can make a walk loop for ever) is reported as `err other Timeout`"""
        del WRITE_LOG[:]
        if getattr(self, "poisoned", False) and not line.startswith("init "):
            return "err other Timeout", 0, FNV_INIT          # an earlier call of this session never returned
        self.poisoned = False
        self.n_exec = getattr(self, "n_exec", 0) + 1
        if BYSTANDER and self.n_exec % 3 == 0 and not line.startswith(("co ", "cut", "uncut")):  # "cut" covers "cutp"
            saved = list(WRITE_LOG), list(FULL_LOG), list(PHYS_LOG)
            texts = []
            for tok in re.findall(r"[xsb]((?:[0-9a-f]{2})+)", line):
                v = as_api_arg(bytes.fromhex(tok))
                if isinstance(v, str) and not v.isascii() and v not in texts:
                    texts.append(v)
            self.bystander(texts)
            WRITE_LOG[:], FULL_LOG[:], PHYS_LOG[:] = saved
        # the limit is on the CPU time of this process (a walk that loops for ever burns it), so that a loaded machine cannot
        # turn a slow request into a "Timeout" answer; a generous wall-clock limit stays as a backstop
        signal.signal(signal.SIGPROF, _on_alarm)
        signal.signal(signal.SIGALRM, _on_alarm)
        signal.setitimer(signal.ITIMER_PROF, OP_TIMEOUT)
        signal.setitimer(signal.ITIMER_REAL, OP_TIMEOUT * 30)
        try:
            ans = self._exec(line.strip().split(" "))
        except TraphException:
            ans = "err traph"
        except OpTimeout:
            ans = "err other Timeout"
            self.poisoned = True
        except MemoryError:
            ans = "err other MemoryError"
        except Exception as e:  # noqa
            ans = "err other " + type(e).__name__
        finally:
            signal.setitimer(signal.ITIMER_PROF, 0)
            signal.setitimer(signal.ITIMER_REAL, 0)
        log = list(WRITE_LOG)
        return ans, len(log), writes_fingerprint(log)

    def _exec(self, w):
        op = w[0]
        t = ArgStyle(self.t) if self.t is not None else None
        if op == "init":
            self.close()
            _KW_CALLS[0] = 0
            _SHAPE_CALLS[0] = 0
            _STYLE[0] = 0
            _DFLT_CALLS[0] = 0
            del FULL_LOG[:]
            del PHYS_LOG[:]
            self.backend, _, enc = w[1].partition(":")          # `file:latin-1`: the constructor's `encoding=` (the model reads bytes)
            self.enc = enc or None
            SESSION_ENCODING[0] = enc or "utf-8"
            self.dflt = default_rule(w[2])
            self.rules = parse_rules(w[3])
            if self.backend == "file":
                self.folder = tempfile.mkdtemp(dir=self.scratch)
                shutil.rmtree(self.folder)
                self.t = self.construct(self.folder)
            else:
                self.folder = None
                self.t = self.construct(None)
            return "ok"
        if op == "reopen":
            assert self.backend == "file"
            self.close()
            self.dflt = default_rule(w[1])
            self.rules = parse_rules(w[2])
            self.t = self.construct(self.folder)
            return "ok"
        if op == "overwrite":
            # close, then construct again on the same folder (or in memory) with overwrite=True: a fresh index
            self.close()
            del FULL_LOG[:]
            del PHYS_LOG[:]
            self.dflt = default_rule(w[1])
            self.rules = parse_rules(w[2])
            self.t = self.construct(self.folder, overwrite=True)
            return "ok"
        if op == "clear":
            d = None if w[1] == "-" else default_rule(w[1], first=self.n_exec % 2 == 0)
            rs = None if w[2] == "none" else parse_rules(w[2])
            IN_CLEAR[0] = True
            try:
                t.clear(d, rs)
            finally:
                IN_CLEAR[0] = False
            return "ok"
        if op == "addrule":
            return render_report(t.add_webentity_creation_rule(unx_arg(w[1]), RULES[w[2]]))
        if op == "rmrule":
            return ok_true(t.remove_webentity_creation_rule(unx_arg(w[1])))
        if op == "create":
            return render_report(t.create_webentity(unx_arg_iter(w[1])))
        if op == "delete":
            return ok_true(t.delete_webentity(int(w[1]), unx_arg_iter(w[2])))
        if op == "pokeid":
            # the id counter of the header set by hand, through the header's own write: an index that has issued that many ids
            h = self.t.lru_trie.header
            h.set_last_webentity_id(int(w[1])) if hasattr(h, "set_last_webentity_id") else h.data.__setitem__(0, int(w[1]))
            h.write()
            return "ok"
        if op == "deleteu":
            self.du_calls = getattr(self, "du_calls", 0) + 1
            return ok_true(t.delete_webentity([None, 0, 7][self.du_calls % 3], unx_arg_iter(w[1]), check_for_corruption=False))
        if op == "addruleram":
            return render_report(t.add_webentity_creation_rule(unx_arg(w[1]), RULES[w[2]], write_in_trie=False))
        if op == "addprefix":
            return ok_true(t.add_prefix_to_webentity(unx_arg(w[1]), int(w[2])))
        if op == "rmprefix":
            if w[2] == "-":
                return ok_true(t.remove_prefix_from_webentity(unx_arg(w[1])))
            return ok_true(t.remove_prefix_from_webentity(unx_arg(w[1]), int(w[2])))
        if op == "moveprefix":
            # the explicit alias for every other call
            self.mv_calls = getattr(self, "mv_calls", 0) + 1
            mv = t.move_prefix_to_webentity_from_webentity if self.mv_calls % 2 else t.move_prefix_to_webentity
            if w[3] == "-":
                return ok_true(mv(unx_arg(w[1]), int(w[2])))
            return ok_true(mv(unx_arg(w[1]), int(w[2]), int(w[3])))
        if op == "addpage":
            return render_report(t.add_page(unx_arg(w[1]), **kw("add_page", crawled=(w[2] == "1"))))
        if op == "addpages":
            return render_report(t.add_pages(unx_arg_iter(w[1]), **kw("add_pages", crawled=(w[2] == "1"))))
        if op == "addlinks":
            links = as_iterable([tuple(unx_arg(x) for x in st.split(">")) for st in split_list(w[1])])
            return render_report(t.add_links(links))
        if op == "batch":
            data = {}
            if w[1] != "-":
                for e in w[1].split(";"):
                    a, ts = e.split(">")
                    data[unx_arg(a)] = as_iterable([unx_arg(x) for x in ts.split(",")] if ts else [])
            return render_report(t.index_batch_crawl(data))
        if op == "?":
            return self._query(w[1:])
        if op == "co":
            return self._co(w[1:])
        if op == "cut":
            return self._cut(int(w[1]), int(w[2]))
        if op == "fault":                # not a model operation: arm an I/O failure in the file object (extra_C14)
            FAULT[0] = [int(w[1]), int(w[2])]
            return "ok"
        if op == "cutp":                 # a cut of the physical write log (not a model operation)
            return self._cut(int(w[1]), int(w[2]), phys=self.phys_snapshot)
        if op == "uncut":
            return self._uncut()
        if op == "loglen":
            return "ok %d" % len(FULL_LOG)
        if op == "hash":
            tb, lb = self.images()
            return "#T %d %d #L %d %d" % (fnv(tb), len(tb) // 128, fnv(lb), len(lb) // 16)
        if op == "dump":
            tb, lb = self.images()
            return "T=%s L=%s" % (hx(tb), hx(lb))
        return "bad-op"

    # -- C16: generators advanced one yield at a time
    def _co(self, w):
        t = ArgStyle(self.t)
        if not hasattr(self, "cos"):
            self.cos = {}
        if w[0] == "new":
            cid, kind, args = int(w[1]), w[2], w[3:]
            if kind == "batch":
                data = {}
                if args[0] != "-":
                    for e in args[0].split(";"):
                        a, ts = e.split(">")
                        data[unx_arg(a)] = as_iterable([unx_arg(x) for x in ts.split(",")] if ts else [])
                g, render = t.index_batch_crawl_iter(data, 1), render_report
            elif kind == "rule":
                g, render = t.add_webentity_creation_rule_iter(unx_arg(args[0]), RULES[args[1]]), render_report
            elif kind == "pages":
                g = t.get_webentity_pages_iter(int(args[0]), unx_arg_iter(args[1]))
                render = lambda r: "ok " + brack([hx(p["lru"]) + ":" + b01(p["crawled"]) for p in r])  # noqa
            elif kind == "net":
                self.net_calls = getattr(self, "net_calls", 0) + 1
                if self.net_calls % 2:           # the direction-named generator wrappers are the same request
                    f = t.get_webentities_outlinks_iter if args[0] == "1" else t.get_webentities_inlinks_iter
                    g = f(**kw("get_webentities_outlinks", include_auto=(args[1] == "1")))
                else:
                    g = t.get_webentities_links_iter(**kw("get_webentities_links_iter", out=(args[0] == "1"), include_auto=(args[1] == "1")))
                render = render_graph
            elif kind == "crawled":
                g = t.get_webentity_crawled_pages_iter(int(args[0]), unx_arg_iter(args[1]))
                render = lambda r: "ok " + brack([hx(p["lru"]) + ":" + b01(p["crawled"]) for p in r])  # noqa
            elif kind == "mostlinked":
                g = t.get_webentity_most_linked_pages_iter(int(args[0]), unx_arg_list(args[1]), **kw(
                    "get_webentity_most_linked_pages_iter", pages_count=int(args[2]), max_depth=opt_nat(args[3])))
                render = lambda r: "ok " + brack(["%s:%d" % (hx(p["lru"]), p["indegree"]) for p in r])  # noqa
            elif kind == "children":
                g = t.get_webentity_child_webentities_iter(int(args[0]), unx_arg_list(args[1]))
                render = lambda r: "ok " + brack([str(x) for x in sorted(r)])  # noqa
            elif kind == "pagelinks":
                g = t.get_webentity_pagelinks_iter(int(args[0]), unx_arg_list(args[1]), **kw(
                    "get_webentity_pagelinks_iter", include_inbound=(args[2] == "1"), include_internal=(args[3] == "1"),
                    include_outbound=(args[4] == "1")))
                render = lambda r: "ok " + render_links(r)  # noqa
            elif kind in ("weout", "wein"):
                f = t.get_webentity_outlinks_iter if kind == "weout" else t.get_webentity_inlinks_iter
                g = f(int(args[0]), unx_arg_list(args[1]))
                render = lambda r: "ok " + brack([str(x) for x in sorted(0 if x is None else x for x in r)])  # noqa
            elif kind == "netslow":
                g = t.get_webentities_links_slow_iter(**kw("get_webentities_links_slow_iter", out=(args[0] == "1"), include_auto=(args[1] == "1")))
                render = render_graph
            else:
                return "bad-op"
            self.cos[cid] = (g, render)
            return "ok"
        if w[0] == "step":
            g, render = self.cos[int(w[1])]
            st = next(g)
            if st.done:
                return "done " + render(st.result)
            return "yield"
        return "bad-op"

    # -- C18: rebuild both files from a prefix of the real write log and reopen them with the real code
    def cut_files(self, k, j):
        tb, lb = bytearray(), bytearray()
        def put(kind, off, data, nbytes=None):
            if kind in (4, 5):
                del (tb if kind == 4 else lb)[:]
                return
            buf = tb if kind in (0, 1) else lb
            if nbytes is not None:
                data = data[:nbytes]
            if kind in (1, 3):
                buf.extend(data)
            else:
                if off > len(buf):
                    buf.extend(b"\0" * (off - len(buf)))
                buf[off:off + len(data)] = data
        for kind, off, data in FULL_LOG[:k]:
            put(kind, off, data)
        if j and k < len(FULL_LOG):
            kind, off, data = FULL_LOG[k]
            buf = tb if kind in (0, 1) else lb
            if kind in (1, 3) or off >= len(buf):          # only an append can be torn
                put(kind, off, data, j)
        return bytes(tb), bytes(lb)

    def _cut(self, k, j, phys=None):
        assert self.backend == "file" and getattr(self, "saved", None) is None
        tb, lb = self.cut_files(k, j) if phys is None else phys_cut_files(phys, k, j)
        folder = tempfile.mkdtemp(dir=self.scratch)
        with open(os.path.join(folder, "lru_trie.dat"), "wb") as f:
            f.write(tb)
        with open(os.path.join(folder, "link_store.dat"), "wb") as f:
            f.write(lb)
        rules = {a: rx.pattern for a, rx in self.t.webentity_creation_rules.items()}
        dflt = self.t.default_webentity_creation_rule.pattern
        saved_log = list(FULL_LOG)
        try:
            t2 = Traph(folder=folder, default_webentity_creation_rule=dflt, webentity_creation_rules=rules, **self.enc_kw())
        except TraphException:
            FULL_LOG[:] = saved_log
            shutil.rmtree(folder, ignore_errors=True)
            return "err traph"
        except Exception:
            FULL_LOG[:] = saved_log
            shutil.rmtree(folder, ignore_errors=True)
            raise
        self.saved = (self.t, self.folder, saved_log)
        self.t, self.folder = t2, folder
        del WRITE_LOG[:]        # header writes of the reopening belong to the harness action, not to the history
        return "ok"

    def _uncut(self):
        if getattr(self, "saved", None) is None:
            return "ok"
        try:
            self.t.close()
        except Exception:
            pass
        shutil.rmtree(self.folder, ignore_errors=True)
        self.t, self.folder, saved_log = self.saved
        FULL_LOG[:] = saved_log
        self.saved = None
        return "ok"

    def _drain(self, g, nested):
        """advance a query generator one yield at a time, asking other read-only questions in between"""
        for k, st in enumerate(g):
            if st.done:
                return st.result
            if k < 25:
                try:
                    nested(k)
                except TraphException:
                    pass
        return None

    def _other_walks(self, weid, prefixes):
        t = self.t

        def nested(k):
            if k % 3 == 0:
                t.get_webentity_pages(weid, list(prefixes))
            elif k % 3 == 1:
                for j, (node, lru) in enumerate(t.pages_iter()):
                    if node.has_outlinks():
                        t.get_page_links(lru)
                        break
                    if j > 6:
                        break
            else:
                t.get_webentity_outlinks(weid, list(prefixes))
        return nested

    def _query(self, w):
        t = ArgStyle(self.t)
        q = w[0]
        self.gen_calls = getattr(self, "gen_calls", 0) + 1
        by_hand = self.gen_calls % 3 == 0
        if q == "retrieveprefix":
            return "ok " + hx(t.retrieve_prefix(unx_arg(w[1])))
        if q == "potential":
            r = t.get_potential_prefix(unx_arg(w[1]))
            return "ok false" if r is False else "ok " + hx(r)
        if q == "retrievewe":
            return "ok %d" % t.retrieve_webentity(unx_arg(w[1]))
        if q == "webyprefix":
            return "ok %d" % t.get_webentity_by_prefix(unx_arg(w[1]))
        if q == "pages" and by_hand:
            # the public node walk consumed lazily, with another webentity request in the middle
            ps = list(unx_arg_list(w[2]))
            r = []
            for k, (node, lru) in enumerate(self.t.webentity_page_nodes_iter(int(w[1]), ps)):
                r.append({"lru": lru, "crawled": node.is_crawled()})
                if k < 20 and k % 2 == 0:
                    try:
                        self.t.get_webentity_crawled_pages(int(w[1]), ps[:1])
                    except TraphException:
                        pass
            return "ok " + brack([hx(p["lru"]) + ":" + b01(p["crawled"]) for p in r])
        if q == "pages":
            r = t.get_webentity_pages(int(w[1]), unx_arg_iter(w[2]))
            return "ok " + brack([hx(p["lru"]) + ":" + b01(p["crawled"]) for p in r])
        if q == "crawledpages":
            r = t.get_webentity_crawled_pages(int(w[1]), unx_arg_iter(w[2]))
            return "ok " + brack([hx(p["lru"]) + ":" + b01(p["crawled"]) for p in r])
        if q == "paginate":
            r = t.paginate_webentity_pages(int(w[1]), unx_arg_list(w[2]), **kw(
                "paginate_webentity_pages", page_count=opt_nat(w[3]), pagination_token=None if w[4] == "-" else w[4],
                crawled_only=(w[5] == "1")))
            return "ok done=%s count=%d crawled=%d pages=%s token=%s" % (
                b01(r["done"]), r["count"], r["count_crawled"],
                brack([hx(p["lru"]) + ":" + b01(p["crawled"]) for p in r["pages"]]), r.get("token", "-"))
        if q == "mostlinked" and by_hand:
            ps = list(unx_arg_list(w[2]))
            r = self._drain(self.t.get_webentity_most_linked_pages_iter(int(w[1]), ps, pages_count=int(w[3]), max_depth=opt_nat(w[4])),
                            self._other_walks(int(w[1]), ps))
            return "ok " + brack(["%s:%d" % (hx(p["lru"]), p["indegree"]) for p in r])
        if q == "mostlinked":
            r = t.get_webentity_most_linked_pages(int(w[1]), unx_arg_list(w[2]), **kw(
                "get_webentity_most_linked_pages", pages_count=int(w[3]), max_depth=opt_nat(w[4])))
            return "ok " + brack(["%s:%d" % (hx(p["lru"]), p["indegree"]) for p in r])
        if q == "parents":
            return "ok " + brack([str(x) for x in sorted(t.get_webentity_parent_webentities(int(w[1]), unx_arg_list(w[2])))])
        if q == "children":
            self.child_calls = getattr(self, "child_calls", 0) + 1
            if self.child_calls % 2 == 0:
                # the same request through its generator, advanced one yield at a time with other traversals in between
                g = t.get_webentity_child_webentities_iter(int(w[1]), unx_arg_list(w[2]))
                res = None
                for k, st in enumerate(g):
                    if st.done:
                        res = st.result
                        break
                    if k < 30:
                        for j, _ in enumerate(t.lru_trie.dfs_iter()):
                            if j > 3:
                                break
                return "ok " + brack([str(x) for x in sorted(res)])
            return "ok " + brack([str(x) for x in sorted(t.get_webentity_child_webentities(int(w[1]), unx_arg_list(w[2])))])
        if q == "pagelinks" and by_hand:
            ps = list(unx_arg_list(w[2]))
            r = self._drain(self.t.get_webentity_pagelinks_iter(int(w[1]), ps, include_inbound=(w[3] == "1"), include_internal=(w[4] == "1"),
                                                                include_outbound=(w[5] == "1")), self._other_walks(int(w[1]), ps))
            return "ok " + render_links(r)
        if q == "pagelinks":
            r = t.get_webentity_pagelinks(int(w[1]), unx_arg_list(w[2]), **kw(
                "get_webentity_pagelinks", include_inbound=(w[3] == "1"), include_internal=(w[4] == "1"),
                include_outbound=(w[5] == "1")))
            return "ok " + render_links(r)
        if q == "paginatelinks":
            r = t.paginate_webentity_pagelinks(int(w[1]), unx_arg_list(w[2]), **kw(
                "paginate_webentity_pagelinks", include_internal=(w[3] == "1"), include_outbound=(w[4] == "1"),
                source_page_count=opt_nat(w[5]), pagination_token=None if w[6] == "-" else w[6]))
            return "ok done=%s sources=%d links=%s token=%s" % (
                b01(r["done"]), r["count_sourcepages"], render_links(r["pagelinks"]), r.get("token", "-"))
        if q in ("weout", "wein") and by_hand:
            ps = list(unx_arg_list(w[2]))
            f = self.t.get_webentity_outlinks_iter if q == "weout" else self.t.get_webentity_inlinks_iter
            r = self._drain(f(int(w[1]), ps), self._other_walks(int(w[1]), ps))
            return "ok " + brack([str(x) for x in sorted(0 if x is None else x for x in r)])
        if q in ("weout", "wein"):
            f = t.get_webentity_outlinks if q == "weout" else t.get_webentity_inlinks
            r = f(int(w[1]), unx_arg_list(w[2]))
            return "ok " + brack([str(x) for x in sorted(0 if x is None else x for x in r)])
        if q == "wedeg":
            ps = unx_arg_list(w[2])
            return "ok " + brack([str(t.get_webentity_indegree(int(w[1]), ps)), str(t.get_webentity_outdegree(int(w[1]), ps)),
                                  str(t.get_webentity_degree(int(w[1]), ps))])
        if q == "pagelinksof":
            r = t.get_page_links(unx_arg(w[1]), **kw("get_page_links", include_inbound=(w[2] == "1"), include_internal=(w[3] == "1"),
                                                       include_outbound=(w[4] == "1")))
            return "ok " + render_links(r)
        if q == "pagedeg":
            f = {"in": t.get_page_indegree, "out": t.get_page_outdegree, "deg": t.get_page_degree}[w[2]]
            return "ok %d" % f(unx_arg(w[1]), **kw("get_page_degree", weighted=(w[3] == "1")))
        if q == "network":
            out, auto, slow = w[1] == "1", w[2] == "1", w[3] == "1"
            self.net_calls = getattr(self, "net_calls", 0) + 1
            if slow:
                g = t.get_webentities_links_slow(**kw("get_webentities_links_slow", out=out, include_auto=auto))
            elif self.net_calls % 2:           # the direction-named wrappers are the same request
                g = (t.get_webentities_outlinks if out else t.get_webentities_inlinks)(**kw("get_webentities_outlinks", include_auto=auto))
            else:
                g = t.get_webentities_links(**kw("get_webentities_links", out=out, include_auto=auto))
            return render_graph(g)
        if q == "expand":
            res = t.expand_prefix(unx_arg(w[1]))
            out = "ok " + brack([hx(x) for x in res])
            if isinstance(res, list):        # the answer is the caller's to keep: what a caller does to it must not reach the index
                res.sort(reverse=True)
                del res[1:]
            return out
        if q == "variations":
            res = H.lru_variations(unx(w[1]))
            out = "ok " + brack([hx(x) for x in res])
            if isinstance(res, list):
                res.sort(reverse=True)
                del res[1:]
            return out
        # The enumerations are plain generators: a caller consumes them lazily and may ask other read-only questions
        # in between.  Every other call does so (the answers must not depend on it).
        self.lazy_calls = getattr(self, "lazy_calls", 0) + 1
        nest = self.lazy_calls % 2 == 0
        if q == "linksiter":
            out = []
            for k, (a, b) in enumerate(t.links_iter(**kw("links_iter", out=(w[1] == "1")))):
                out.append(hx(a) + ">" + hx(b))
                if nest and k < 40:
                    t.get_page_links(a if k % 2 else b)
                    if k % 3 == 0:
                        next(iter(t.links_iter(out=(w[1] != "1"))), None)
            return "ok " + brack(sorted(out))
        if q == "pagesiter":
            out = []
            for k, (node, lru) in enumerate(t.pages_iter()):
                out.append(hx(lru) + ":" + b01(node.is_crawled()))
                if nest and k < 25 and k % 2 == 0:
                    for _ in t.webentity_prefix_iter():
                        pass
            return "ok " + brack(out)
        if q == "prefixiter":
            out = []
            for k, (node, lru) in enumerate(t.webentity_prefix_iter()):
                out.append("%s:%d" % (hx(lru), node.webentity()))
                if nest and k < 25 and k % 2 == 0:
                    for j, _ in enumerate(t.pages_iter()):
                        if j > 5:
                            break
            return "ok " + brack(out)
        if q == "counts":
            return "ok pages=%d crawled=%d links2=%d" % (t.count_pages(), t.count_crawled_pages(),
                                                         int(round(t.count_links() * 2)))
        if q == "metrics":
            m = t.metrics()
            lt, lm = m["lru_trie"], m["links"]
            # the derived figures are functions of the counted ones (floats of integer ratios: compared exactly)
            ls = m["link_store"]
            derived_ok = (ls["nb_outlinks"] * 2 == ls["nb_links"] and
                          lt["ratio_fragmented_stems"] == lt["nb_fragmented_nodes"] / float(lt["nb_stems"]) and
                          lt["page_block_density"] == lt["nb_pages"] / float(lt["nb_nodes"]))
            if not derived_ok:
                return "ok metrics-derived-figures-inconsistent %r" % ({k: lt[k] for k in sorted(lt)},)
            o = lambda x: "none" if x is None else hx(x)  # noqa
            return ("ok nodes=%d pages=%d crawled=%d tail=%d frag=%d stems=%d maxtail=%d links2=%d maxin=%d:%s maxout=%d:%s"
                    % (lt["nb_nodes"], lt["nb_pages"], lt["nb_crawled_pages"], lt["nb_tail_nodes"],
                       lt["nb_fragmented_nodes"], lt["nb_stems"], lt["max_tail"],
                       int(round(m["link_store"]["nb_links"] * 2)),
                       lm["max_inlinks_len"], o(lm["max_inlinks_lru"]), lm["max_outlinks_len"], o(lm["max_outlinks_lru"])))
        if q == "token":
            tok = H.build_pagination_token(int(w[1]), int(w[2]))
            i, p = H.parse_pagination_token(tok)
            return "ok %s %d %d" % (tok, i, p)
        if q == "chunks":
            return "ok " + brack([hx(c) for c in H.chunks_iter(int(w[1]), unx(w[2]))])
        if q == "rule":
            m = re.compile(RULES[w[1]], re.I).search(unx(w[2]))
            return "ok " + (hx(m.group()) if m else "none")
        if q == "lrunode":
            n = t.lru_trie.lru_node(unx(w[1]))
            return "ok " + ("none" if n is None else str(n.block))
        if q == "windup":
            return "ok " + hx(t.lru_trie.windup_lru(int(w[1])))
        if q == "dfs":
            return "ok " + brack(["%d:%s" % (node.block, hx(lru)) for node, lru in t.lru_trie.dfs_iter()])
        return "bad-op"

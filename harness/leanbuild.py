"""Step 1 of every check: regenerate the layout from the sources, build model + proofs + driver, audit."""
import json, os, re, subprocess, time

HERE = os.path.dirname(os.path.abspath(__file__))
ROOT = os.path.abspath(os.path.join(HERE, ".."))
LEAN = os.path.join(ROOT, "lean")
ALLOWED_AXIOMS = {"propext", "Classical.choice", "Quot.sound"}
FORBIDDEN = re.compile(r"\b(sorry|admit|native_decide|bv_decide|implemented_by)\b|^\s*axiom\s|\bunsafe\s|maxHeartbeats\s+0")


def sh(cmd, cwd=None, timeout=3600, env=None):
    p = subprocess.run(cmd, cwd=cwd, stdout=subprocess.PIPE, stderr=subprocess.STDOUT, timeout=timeout, env=env)
    return p.returncode, p.stdout.decode(errors="replace")


def strip_comments(text):
    text = re.sub(r"/-.*?-/", "", text, flags=re.S)
    return re.sub(r"--.*", "", text)


def forbidden_hits():
    hits = []
    for base, _, files in os.walk(LEAN):
        if ".lake" in base:
            continue
        for f in files:
            if f.endswith(".lean"):
                p = os.path.join(base, f)
                for i, line in enumerate(strip_comments(open(p).read()).split("\n")):
                    if FORBIDDEN.search(line):
                        hits.append("%s:%d: %s" % (os.path.relpath(p, ROOT), i + 1, line.strip()[:120]))
    return hits


def property_theorems():
    """{Cxx: [fully qualified theorem names]} from Props/*.lean"""
    out = {}
    pdir = os.path.join(LEAN, "Props")
    for f in sorted(os.listdir(pdir)) if os.path.isdir(pdir) else []:
        if not f.endswith(".lean"):
            continue
        text = strip_comments(open(os.path.join(pdir, f)).read())
        ns = re.search(r"^namespace\s+(\S+)", text, flags=re.M)
        prefix = (ns.group(1) + ".") if ns else ""
        for m in re.finditer(r"^theorem\s+(C\d\d\w*)", text, flags=re.M):
            out.setdefault(m.group(1)[:3], []).append(prefix + m.group(1))
    return out


def source_hash():
    import hashlib
    h = hashlib.sha256()
    for base, dirs, files in sorted(os.walk(LEAN)):
        dirs[:] = sorted(d for d in dirs if d != ".lake")
        for f in sorted(files):
            if f.endswith((".lean", ".toml", ".json")) and f != "ast_hashes.json":
                p = os.path.join(base, f)
                h.update(os.path.relpath(p, LEAN).encode() + b"\0" + open(p, "rb").read() + b"\0")
    return h.hexdigest()[:20]


def clean_room(mods):
    """thorough tier: build everything from clean in a private copy of the sources (the shared incremental build, whose
    driver other checks may be running, is left alone) and re-check the compiled property modules with leanchecker.
    The result is cached per source hash, so twenty thorough checks pay for it once."""
    import shutil
    room = os.path.join(ROOT, ".cleanroom")
    stamp = os.path.join(room, "stamp-%s.json" % source_hash())
    if os.path.exists(stamp):
        return json.load(open(stamp))
    shutil.rmtree(room, ignore_errors=True)
    os.makedirs(room)
    dst = os.path.join(room, "lean")
    shutil.copytree(LEAN, dst, ignore=shutil.ignore_patterns(".lake"))
    rc, out = sh(["lake", "build", "Traph", "driver", "Proofs", "Props", "Gen"], cwd=dst, timeout=6000)
    r = {"build_rc": rc, "build_out": out[-3000:] if rc != 0 else "", "checker_rc": -1, "checker_out": ""}
    if rc == 0:
        allmods = list(mods) + ["Proofs." + x[:-5] for x in sorted(os.listdir(os.path.join(dst, "Proofs"))) if x.endswith(".lean")] + \
            ["Gen." + x[:-5] for x in sorted(os.listdir(os.path.join(dst, "Gen"))) if x.endswith(".lean")]
        rc3, out3 = sh(["lake", "env", "leanchecker"] + allmods, cwd=dst, timeout=6000)
        r["checker_rc"], r["checker_out"] = rc3, (out3[-2000:] if rc3 != 0 else "")
    shutil.rmtree(os.path.join(dst, ".lake"), ignore_errors=True)
    if r["build_rc"] == 0 and r["checker_rc"] == 0:      # failures are not cached: the next run tries again
        with open(stamp, "w") as f:
            json.dump(r, f)
    return r


def build(tier="quick"):
    """returns a dict: ok_model (driver usable), ok_proofs, theorems {name: axioms}, log, forbidden, layout.
    Serialised by a lock on the Lean project so that checks started in parallel do not rebuild under each other."""
    import fcntl
    os.makedirs(os.path.join(LEAN, ".lake"), exist_ok=True)
    with open(os.path.join(LEAN, ".lake", "verif.lock"), "w") as lock:
        fcntl.flock(lock, fcntl.LOCK_EX)
        try:
            res = _build(tier)
        finally:
            fcntl.flock(lock, fcntl.LOCK_UN)
    if tier == "thorough" and res["ok_proofs"] and os.environ.get("VERIF_NO_CLEAN") != "1":
        # from-clean build + leanchecker in a private copy, under its own lock (quick checks are not held up by it)
        with open(os.path.join(ROOT, ".cleanroom.lock"), "w") as lock:
            fcntl.flock(lock, fcntl.LOCK_EX)
            try:
                cr = clean_room(res["audit_mods"])
            finally:
                fcntl.flock(lock, fcntl.LOCK_UN)
        res["clean_build"] = "ok" if cr["build_rc"] == 0 else cr["build_out"]
        res["leanchecker"] = "ok" if cr["checker_rc"] == 0 else cr["checker_out"]
        if cr["build_rc"] != 0 or cr["checker_rc"] != 0:
            res["ok_proofs"] = False
            res["log"] += "\nCLEAN ROOM:\n" + cr["build_out"] + "\n" + cr["checker_out"]
    return res


def _build(tier):
    t0 = time.time()
    res = {"ok_model": False, "ok_proofs": False, "theorems": {}, "log": "", "forbidden": [], "failed_modules": []}
    py = "/venv/bin/python"
    rc, out = sh([py, os.path.join(ROOT, "gen", "gen_layout.py")])
    res["layout"] = out.strip()
    if rc != 0:
        res["log"] = "gen_layout failed:\n" + out
        return res
    rc, out = sh(["lake", "build", "Traph", "driver"], cwd=LEAN)
    res["log"] += out[-4000:]
    if rc != 0:
        return res
    res["ok_model"] = True
    rc, out = sh(["lake", "build", "Proofs", "Props"], cwd=LEAN)
    res["log"] += out[-6000:]
    res["failed_modules"] = re.findall(r"^- (\S+)$", out, flags=re.M)
    proofs_built = rc == 0
    res["gen"] = gen = build_gen(py) if proofs_built else {"ok": False, "status": {}, "theorems": {}, "log": "proofs did not build"}
    res["forbidden"] = forbidden_hits()
    thms = property_theorems()
    res["by_property"] = thms
    # audit: #print axioms on every property theorem (only those whose module built)
    names = [n for l in thms.values() for n in l]
    audit = os.path.join(LEAN, ".lake", "Audit-%d.lean" % os.getpid())
    mods = sorted(set("Props." + f[:-5] for f in os.listdir(os.path.join(LEAN, "Props")) if f.endswith(".lean")))
    mods = [m for m in mods if m not in res["failed_modules"]]
    built_names = []
    for m in mods:
        text = strip_comments(open(os.path.join(LEAN, m.replace(".", "/") + ".lean")).read())
        ns = re.search(r"^namespace\s+(\S+)", text, flags=re.M)
        prefix = (ns.group(1) + ".") if ns else ""
        built_names += [prefix + x for x in re.findall(r"^theorem\s+(C\d\d\w*)", text, flags=re.M)]
    with open(audit, "w") as f:
        f.write("".join("import %s\n" % m for m in mods))
        if proofs_built:     # every proof module in one environment: a name declared twice anywhere is an error here
            f.write("".join("import Proofs.%s\n" % x[:-5] for x in sorted(os.listdir(os.path.join(LEAN, "Proofs"))) if x.endswith(".lean")))
        if gen.get("built"):
            f.write("import Gen.Lifted\n" + "".join("import Gen.%s\n" % m for m in ("StorageEq", "StorageRun") if os.path.exists(os.path.join(LEAN, "Gen", m + ".lean"))))
        f.write("".join("#print axioms %s\n" % n for n in built_names))
        if gen.get("built"):
            f.write("".join("#print axioms Traph.Gen.%s\n" % n for n in gen["names"]))
    rc2, out2 = sh(["lake", "env", "lean", audit], cwd=LEAN)
    for m in re.finditer(r"'([^']+)' depends on axioms: \[([^\]]*)\]", out2):
        res["theorems"][m.group(1)] = [a.strip() for a in m.group(2).split(",") if a.strip()]
    for m in re.finditer(r"'([^']+)' does not depend on any axioms", out2):
        res["theorems"][m.group(1)] = []
    res["audit_rc"] = rc2
    try:
        os.unlink(audit)
    except OSError:
        pass
    if rc2 != 0:
        res["log"] += "\nAUDIT:\n" + out2[-3000:]
    for n in gen.get("names", []):
        full = "Traph.Gen." + n
        if full in res["theorems"]:
            gen["theorems"][n] = res["theorems"].pop(full)
    gen["ok"] = bool(gen.get("built")) and all(v == "translated" for v in gen.get("status", {}).values()) and bool(gen.get("names")) and \
        all(n in gen["theorems"] and set(gen["theorems"][n]) <= ALLOWED_AXIOMS for n in gen.get("names", []))
    bad_axioms = {n: a for n, a in res["theorems"].items() if not set(a) <= ALLOWED_AXIOMS}
    res["bad_axioms"] = bad_axioms
    res["missing"] = [n for n in names if n not in res["theorems"]]
    res["ok_proofs"] = proofs_built and rc2 == 0 and not res["forbidden"] and not bad_axioms and not res["missing"]
    res["audit_mods"] = mods
    res["wall_s"] = round(time.time() - t0, 2)
    try:
        res["ast_hashes"] = json.load(open(os.path.join(LEAN, "ast_hashes.json")))
    except Exception:
        res["ast_hashes"] = {}
    return res


def build_gen(py):
    """the translation tie for traph/helpers.py: regenerate lean/Gen/Helpers.lean from the source, re-check the equivalence
    with the hand-written model (Gen/HelpersEq.lean) and the property theorems restated on the generated functions
    (Gen/Lifted.lean).  Never fatal for the build as a whole: when it is unavailable the correspondence check carries
    the tie alone, and the check says so."""
    gen = {"ok": False, "built": False, "status": {}, "theorems": {}, "names": []}
    rc, out = sh([py, os.path.join(ROOT, "gen", "gen_helpers.py")])
    try:
        gen["status"] = json.loads(out.strip().split("\n")[-1])
    except Exception:
        gen["log"] = "gen_helpers failed:\n" + out[-1200:]
        return gen
    rc2, out2 = sh([py, os.path.join(ROOT, "gen", "gen_storage.py")])
    try:
        gen["status"].update(json.loads(out2.strip().split("\n")[-1]))
    except Exception:
        gen["log"] = "gen_storage failed:\n" + out2[-1200:]
        return gen
    rc, out = sh(["lake", "build", "Gen"], cwd=LEAN)
    gen["built"] = rc == 0
    if rc != 0:
        gen["log"] = "\n".join(l for l in out.split("\n") if not l.startswith(("info:", "ℹ", "✔")))[-2500:]
        return gen
    for f in ("HelpersEq.lean", "Lifted.lean", "StorageEq.lean", "StorageRun.lean"):
        if not os.path.exists(os.path.join(LEAN, "Gen", f)):
            continue
        text = strip_comments(open(os.path.join(LEAN, "Gen", f)).read())
        gen["names"] += re.findall(r"^theorem\s+((?:C\d\d_source\w*)|(?:[\w.]+_eq)|(?:chunks_iter_zero))(?=[\s({\[:])", text, flags=re.M)
    return gen


def lean_version():
    rc, out = sh(["lean", "--version"])
    return out.strip()

"""Known findings (DESIGN §9): open entries of known_findings.json are re-demonstrated from their stored
witness on every run; a line is printed only while the witness still fails."""
import json, os, sys

from .impl import Impl, hx
from .props import known_findings, ROOT


def demonstrate(prop, scratch, out):
    for k in known_findings():
        if k.get("status") != "open" or prop not in k.get("properties", []):
            continue
        fn = globals().get("witness_" + k["id"])
        if fn is None:
            continue
        try:
            failing = fn(scratch, k)
        except Exception as e:  # noqa
            failing = None
            out.notes.append("witness %s could not be run: %r" % (k["id"], e))
        if failing:
            line = "%s (%s)" % (k["text"], k["id"])
            if line not in out.known:
                out.known.append(line)
        out.extra.setdefault("known_findings", {})[k["id"]] = "still fails" if failing else "witness passes (no line printed)"


def _run_lines(scratch, lines):
    im = Impl(scratch)
    try:
        return [im.exec(l)[0] for l in lines]
    finally:
        im.close()


def witness_D4(scratch, k):
    """a page nobody links to is reported with indegree 1"""
    w = json.load(open(os.path.join(ROOT, k["witness"])))
    ans = _run_lines(scratch, w["lines"])
    return ans[-1] == w["failing_answer"]


def witness_F09(scratch, k):
    """~1000 pages in ascending order under one prefix: RecursionError in the paginated traversal"""
    im = Impl(scratch)
    try:
        im.exec("init mem never [] 111")
        im.exec("create [%s]" % hx(b"s:http|h:com|h:a|"))
        old = sys.getrecursionlimit()
        for i in range(0, 1100, 50):
            im.exec("addpages [%s] 0" % ",".join(hx(b"s:http|h:com|h:a|p:%05d|" % j) for j in range(i, i + 50)))
        a = im.exec("? paginate 1 [%s] - - 0" % hx(b"s:http|h:com|h:a|"))[0]
        assert sys.getrecursionlimit() == old
        return a == "err other RecursionError"
    finally:
        im.close()


def witness_F16(scratch, k):
    """page query interleaved with a crawl batch reports a page that never belonged to the webentity"""
    ok = True
    for wf in [k["witness"]] + list(k.get("more_witnesses", [])):
        w = json.load(open(os.path.join(ROOT, wf)))
        ans = _run_lines(scratch, w["lines"])
        final = [a for l, a in zip(w["lines"], ans) if l.startswith("co step ") and a.startswith("done ") and w["phantom"] in a]
        probes = [a for l, a in zip(w["lines"], ans) if l.startswith("? ")]
        ok = ok and bool(final) and bool(probes) and not any(w["phantom"] in p for p in probes)
    return ok


def witness_F16c(scratch, k):
    """page-link query interleaved with a rule installation misses a link that every atomic probe lists"""
    w = json.load(open(os.path.join(ROOT, k["witness"])))
    ans = _run_lines(scratch, w["lines"])
    final = [a for l, a in zip(w["lines"], ans) if l.startswith("co step 0") and a.startswith("done ")]
    probes = [a for l, a in zip(w["lines"], ans) if l.startswith("? ")]
    return bool(final) and bool(probes) and all(w["missed"] in p for p in probes) and w["missed"] not in final[0]

"""bin/replay <file>: re-executes a replay file against the tree under test and says whether it still fails."""
import json, os, shutil, sys, tempfile
from . import corr, oracle, model


def main(argv):
    o = json.load(open(argv[1]))
    scratch = tempfile.mkdtemp(prefix="traph-replay-")
    try:
        prop = o.get("property")
        lines = o.get("lines") or []
        kind = o.get("kind")
        print("property:", prop, "| kind:", kind, "| backend:", o.get("backend", "file"))
        if kind == "no-failing-input-found":
            print("no failing input was found; what no longer checks:")
            for x in o.get("no_longer_checks", []):
                print("  -", x[:500])
            if lines and o.get("disagreement"):
                be = o["disagreement"].get("backend")
                res = corr.replay_impl(scratch, lines, backend=be if be == "mem" else None)
                try:
                    mres = model.run_lines(lines)
                    print("  implementation:", res[-1][0][:300]); print("  model         :", mres[-1][0][:300])
                    print("STILL-DISAGREES" if res[-1] != mres[-1] else "AGREES-NOW")
                    return 1 if res[-1] != mres[-1] else 0
                except Exception as e:  # noqa
                    print("  model driver not available:", e)
            return 1
        be = o.get("backend")
        if kind in ("oracle", "oracle-after-broken-tie"):
            res = corr.replay_impl(scratch, lines, backend=be if be == "mem" else None)
            j = oracle.judge(lines, [a[0] for a in res])
            fs = [f for f in j.findings if prop in f.props or prop == "C15"]
            for l, a in zip(lines, res):
                print("  ", l[:200]); print("      ->", a[0][:300])
            if fs:
                print("FAILS:", fs[0].reason); print("  expected:", (fs[0].expected or "")[:400]); print("  got     :", (fs[0].got or "")[:400])
                return 1
            print("PASSES")
            return 0
        from . import extra_replay
        return extra_replay.replay(o, scratch)
    finally:
        shutil.rmtree(scratch, ignore_errors=True)


if __name__ == "__main__":
    sys.exit(main(sys.argv))

#!/usr/bin/env python3
"""Helper used while writing lean/Props/*.lean: re-states a theorem proved in lean/Proofs under the property's name
(namespace Traph.Props), so that the property file shows the full statement and the audit prints its axioms.
usage: mkwrap.py Proofs/File.lean theoremName [newName]   -> prints the wrapper"""
import re, sys


def wrap(path, name, new=None, doc=None):
    src = open(path).read()
    m = re.search(r"^theorem\s+%s\b" % re.escape(name), src, flags=re.M)
    assert m, (path, name)
    i = m.end()
    depth, j, colon = 0, i, None
    while True:                                   # first top-level ':' ends the binders
        c = src[j]
        if c in "([{⟨": depth += 1
        elif c in ")]}⟩": depth -= 1
        elif c == ":" and depth == 0 and src[j + 1] != "=":
            colon = j; break
        j += 1
    k = src.index(":= by", colon) if ":= by" in src[colon:colon + 20000] else None
    k2 = re.search(r":=\s*\n", src[colon:])
    ends = [x for x in [k, (colon + k2.start()) if k2 else None] if x is not None]
    # the statement ends at the first ':=' at depth 0 after the colon
    depth, j, pending = 0, colon + 1, 0
    while True:
        c = src[j]
        if c in "([{⟨": depth += 1
        elif c in ")]}⟩": depth -= 1
        elif depth == 0 and src[j:j + 4] == "let " and not src[j - 1].isalnum():
            pending += 1                          # a `let x := …` inside the statement
        elif c == ":" and src[j + 1] == "=" and depth == 0:
            if pending == 0:
                break
            pending -= 1
        j += 1
    binders, concl = src[i:colon], src[colon + 1:j]
    args, depth, cur, kind = [], 0, "", None
    for c in binders:
        if c in "([{":
            if depth == 0: kind, cur = c, ""
            else: cur += c
            depth += 1
        elif c in ")]}":
            depth -= 1
            if depth == 0:
                if kind == "(":
                    names = cur.split(":")[0].split()
                    args += names
            else: cur += c
        elif depth > 0:
            cur += c
    out = ""
    if doc:
        out += "/-- %s -/\n" % doc
    out += "theorem %s%s:%s:=\n  Traph.%s %s\n" % (new or name, binders, concl, name, " ".join(args))
    return out


if __name__ == "__main__":
    print(wrap(sys.argv[1], sys.argv[2], sys.argv[3] if len(sys.argv) > 3 else None))

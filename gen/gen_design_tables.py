#!/usr/bin/env python3
"""Rewrites the generated blocks of DESIGN.md (between <!-- BEGIN x --> / <!-- END x -->): the seeded-change table
from seeded/results.json + meta.json, the theorem inventory from lean/Props/*.lean."""
import json, os, re

ROOT = os.path.abspath(os.path.join(os.path.dirname(os.path.abspath(__file__)), ".."))


def seeded_table():
    res = json.load(open(os.path.join(ROOT, "seeded", "results.json")))
    rows = ["| seeded change | breaks | needs to manifest | detected by (quick tier) |", "|---|---|---|---|"]
    for sid in sorted(res):
        meta = json.load(open(os.path.join(ROOT, "seeded", sid, "meta.json")))
        det = []
        for p, v in res[sid].items():
            if v["detected"]:
                det.append(p + ("" if v["with_failing_input"] else " (tie broken, no failing input in the quick budget)"))
        miss = [p for p, v in res[sid].items() if not v["detected"]]
        needs = (meta.get("needs_to_manifest") or meta.get("needs") or "")
        needs = re.sub(r"\s+", " ", str(needs))[:170]
        rows.append("| `%s` | %s | %s | %s%s |" % (sid, meta.get("property"), needs, ", ".join(det) or "—",
                                                  ("; not by " + ", ".join(miss)) if miss else ""))
    n = len(res)
    hit = sum(1 for r in res.values() if any(v["detected"] for v in r.values()))
    own = sum(1 for sid, r in res.items() if r.get(json.load(open(os.path.join(ROOT, "seeded", sid, "meta.json")))["property"], {}).get("detected"))
    rows.append("")
    rows.append("%d seeded changes kept; %d detected by the check of the property they were written against, %d by at least one check." % (n, own, hit))
    return "\n".join(rows)


def theorem_table():
    rows = ["| property | theorems in `lean/Props` (all audited with `#print axioms` on every run) |", "|---|---|"]
    pdir = os.path.join(ROOT, "lean", "Props")
    for f in sorted(os.listdir(pdir)):
        if f.endswith(".lean"):
            text = open(os.path.join(pdir, f)).read()
            names = re.findall(r"^theorem\s+(C\d\d\w*)", text, flags=re.M)
            rows.append("| %s | %s |" % (f[:-5], ", ".join("`%s`" % n for n in names)))
    return "\n".join(rows)


def main():
    p = os.path.join(ROOT, "DESIGN.md")
    s = open(p).read()
    for key, fn in (("SEEDED", seeded_table), ("THEOREMS", theorem_table)):
        b, e = "<!-- BEGIN %s -->" % key, "<!-- END %s -->" % key
        if b in s and e in s:
            s = s[: s.index(b) + len(b)] + "\n" + fn() + "\n" + s[s.index(e):]
    open(p, "w").write(s)


if __name__ == "__main__":
    main()

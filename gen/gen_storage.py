#!/venv/bin/python
"""Translator for the three storage classes (traph/storage/file.py, memory.py, memmap.py of $TRAPH_REPO, default /repo):
writes lean/Gen/Storage.lean — each class as a Lean structure (its attributes) and each method as a function
`self → args → Py.M (self' × result)` in do-notation (the object is threaded through: `self.file.seek(..)` becomes an
update of the `file` field, `self.array.extend(..)` of the `array` field).  lean/Gen/StorageEq.lean PROVES the
generated methods equal to the three storage machines of the model (Traph/Storage.lean: FileSt, MemSt, mmapRead) that
`C15_equiv`, `C15_mmap` and the open-time check of C11/C18 are about.

Python subset: assignments to locals, `if` / `if … is not None` / `if … is None` (narrowing an optional argument),
`return`, calls `self.file.seek(n)`, `self.file.seek(0, os.SEEK_END)`, `self.file.tell()`, `self.file.read(n)`,
`self.file.write(d)`, `self.array.extend(d)`, `len(self.array)`, slices of `self.array` / `self.map`, slice assignment,
`x or None`, `self.__len__()`, `a % b`, `a - b`, `a + b`, truth value of ints/bytes, and `try: <return> except
IndexError/…` around an expression that cannot raise (slicing): the handlers are unreachable and dropped, which is
checked (the body must be a single return of a slice expression).  Anything else: the method is reported untranslatable.
`count_blocks` (float division) and `map()` / `release()` / `clear()`-style lifecycle methods are not translated."""
import ast, json, os, sys

REPO = os.environ.get("TRAPH_REPO", "/repo")
HERE = os.path.dirname(os.path.abspath(__file__))
OUT = os.path.join(HERE, "..", "lean", "Gen", "Storage.lean")

CLASSES = {
    "FileStorage": {"file": "traph/storage/file.py", "fields": {"block_size": "int", "file": "File"},
                    "methods": {"__len__": ([], "int"), "check_for_corruption": ([], "bool"),
                                "read": ([("block", "opt[int]")], "opt[bytes]"), "write": ([("data", "bytes"), ("block", "opt[int]")], "int")}},
    "MemoryStorage": {"file": "traph/storage/memory.py", "fields": {"block_size": "int", "array": "bytes"},
                      "methods": {"__len__": ([], "int"), "read": ([("block", "int")], "opt[bytes]"),
                                  "write": ([("data", "bytes"), ("block", "opt[int]")], "int")}},
    "MemMapStorage": {"file": "traph/storage/memmap.py", "fields": {"block_size": "int", "map": "bytes"},
                      "methods": {"read": ([("block", "int")], "opt[bytes]")}},
}
LT = {"int": "Nat", "bool": "Bool", "bytes": "Bytes", "File": "Py.File", "opt[int]": "Option Nat", "opt[bytes]": "Option Bytes"}
DFLT = {"int": "0", "bool": "false", "bytes": "[]", "opt[int]": "none", "opt[bytes]": "none"}


class Untranslatable(Exception):
    pass


class Method(object):
    def __init__(self, cls, spec, node):
        self.cls, self.spec, self.node = cls, spec, node
        self.args, self.ret = spec["methods"][node.name]
        self.env = {a: t for a, t in self.args}
        self.narrow = {}
        self.locals = []
        self.fresh = 0

    def lname(self):
        return "len" if self.node.name == "__len__" else self.node.name

    def is_self_attr(self, e, name=None):
        return isinstance(e, ast.Attribute) and isinstance(e.value, ast.Name) and e.value.id == "self" and (name is None or e.attr == name)

    # expressions without effect on self: (code, type)
    def expr(self, e):
        if isinstance(e, ast.Constant):
            if isinstance(e.value, bool):
                return ("true" if e.value else "false"), "bool"
            if isinstance(e.value, int) and e.value >= 0:
                return str(e.value), "int"
            if e.value is None:
                return "none", "none"
            raise Untranslatable("constant")
        if isinstance(e, ast.Name):
            if e.id in self.narrow:
                return self.narrow[e.id], self.env[e.id][4:-1]
            if e.id in self.env:
                return e.id + "_", self.env[e.id]
            raise Untranslatable("name " + e.id)
        if self.is_self_attr(e):
            if e.attr in self.spec["fields"]:
                return "self_." + e.attr, self.spec["fields"][e.attr]
            raise Untranslatable("attribute " + e.attr)
        if isinstance(e, ast.Call):
            f = e.func
            if isinstance(f, ast.Name) and f.id == "len" and len(e.args) == 1:
                a, t = self.expr(e.args[0])
                if t != "bytes":
                    raise Untranslatable("len of " + t)
                return a + ".length", "int"
            if isinstance(f, ast.Attribute) and self.is_self_attr(f.value, "file") and f.attr == "tell" and not e.args:
                return "(Py.File.tell self_.file)", "int"
            raise Untranslatable("call in expression")
        if isinstance(e, ast.BinOp):
            a, ta = self.expr(e.left)
            b, tb = self.expr(e.right)
            if ta == tb == "int":
                if isinstance(e.op, ast.Add):
                    return "(%s + %s)" % (a, b), "int"
                if isinstance(e.op, ast.Sub):
                    return "(← Py.sub %s %s)" % (a, b), "int"
                if isinstance(e.op, ast.Mod):
                    return "(← Py.mod %s %s)" % (a, b), "int"
            raise Untranslatable("binary operator")
        if isinstance(e, ast.Subscript) and isinstance(e.slice, ast.Slice) and e.slice.step is None and e.slice.lower is not None and e.slice.upper is not None:
            v, tv = self.expr(e.value)
            lo, tl = self.expr(e.slice.lower)
            hi, th = self.expr(e.slice.upper)
            if tv != "bytes" or tl != "int" or th != "int":
                raise Untranslatable("slice types")
            return "(Py.slice %s %s %s)" % (v, lo, hi), "bytes"
        if isinstance(e, ast.BoolOp) and isinstance(e.op, ast.Or) and len(e.values) == 2 and isinstance(e.values[1], ast.Constant) and e.values[1].value is None:
            a, ta = self.expr(e.values[0])
            if ta != "bytes":
                raise Untranslatable("or None of " + ta)
            return "(Py.orNone %s)" % a, "opt[bytes]"
        raise Untranslatable("expression " + type(e).__name__)

    def truthy(self, e):
        c, t = self.expr(e)
        if t == "bool":
            return c
        if t == "int":
            return "(%s != 0)" % c
        if t == "bytes":
            return "(!%s.isEmpty)" % c
        raise Untranslatable("truth value of " + t)

    def declare(self, n, t):
        if n not in self.env:
            self.env[n] = t
            self.locals.append((n, t))
            return False
        return self.env[n] != t

    def ret_stmt(self, e):
        c, t = self.expr(e)
        want = self.ret
        if t == want:
            return "return (self_, %s)" % c
        if want.startswith("opt[") and t == want[4:-1]:
            return "return (self_, some %s)" % c
        if want.startswith("opt[") and t == "none":
            return "return (self_, none)"
        raise Untranslatable("return type %s for %s" % (t, want))

    def block(self, stmts, ind):
        out = []
        for s in stmts:
            out += self.stmt(s, ind)
        return out or [ind + "pure ()"]

    def file_call(self, call):
        """statement-level call on self.file / self.array; returns lines or None"""
        f = call.func
        if not isinstance(f, ast.Attribute):
            return None
        if self.is_self_attr(f.value, "file"):
            if f.attr == "seek" and len(call.args) == 1:
                n, t = self.expr(call.args[0])
                if t != "int":
                    raise Untranslatable("seek argument")
                return ["self_ := { self_ with file := Py.File.seek self_.file %s }" % n]
            if (f.attr == "seek" and len(call.args) == 2 and isinstance(call.args[0], ast.Constant) and call.args[0].value == 0
                    and isinstance(call.args[1], ast.Attribute) and call.args[1].attr == "SEEK_END"):
                return ["self_ := { self_ with file := Py.File.seekEnd self_.file }"]
            if f.attr == "write" and len(call.args) == 1:
                d, t = self.expr(call.args[0])
                if t != "bytes":
                    raise Untranslatable("write argument")
                return ["self_ := { self_ with file := Py.File.write self_.file %s }" % d]
        if self.is_self_attr(f.value, "array") and f.attr == "extend" and len(call.args) == 1:
            d, t = self.expr(call.args[0])
            if t != "bytes":
                raise Untranslatable("extend argument")
            return ["self_ := { self_ with array := self_.array ++ %s }" % d]
        return None

    def stmt(self, s, ind):
        if isinstance(s, ast.Expr) and isinstance(s.value, ast.Constant):
            return []
        if isinstance(s, ast.Return):
            if s.value is None:
                raise Untranslatable("bare return")
            # return self.file.tell()
            return [ind + self.ret_stmt(s.value)]
        if isinstance(s, ast.Expr) and isinstance(s.value, ast.Call):
            lines = self.file_call(s.value)
            if lines is None:
                raise Untranslatable("call statement")
            return [ind + l for l in lines]
        if isinstance(s, ast.Assign) and len(s.targets) == 1 and isinstance(s.targets[0], ast.Name):
            n = s.targets[0].id
            v = s.value
            # x = self.file.read(k)
            if isinstance(v, ast.Call) and isinstance(v.func, ast.Attribute) and self.is_self_attr(v.func.value, "file") and v.func.attr == "read" and len(v.args) == 1:
                k, t = self.expr(v.args[0])
                if t != "int":
                    raise Untranslatable("read argument")
                self.declare(n, "bytes")
                self.fresh += 1
                r = "r%d_" % self.fresh
                return [ind + "let %s := Py.File.read self_.file %s" % (r, k), ind + "self_ := { self_ with file := %s.1 }" % r, ind + "%s_ := %s.2" % (n, r)]
            # x = self.__len__()
            if isinstance(v, ast.Call) and isinstance(v.func, ast.Attribute) and self.is_self_attr(v.func, "__len__") and not v.args:
                if "__len__" not in self.spec["methods"]:
                    raise Untranslatable("__len__ not translated")
                self.declare(n, "int")
                self.fresh += 1
                r = "r%d_" % self.fresh
                return [ind + "let %s ← len self_" % r, ind + "self_ := %s.1" % r, ind + "%s_ := %s.2" % (n, r)]
            c, t = self.expr(v)
            if n in self.env and self.env[n].startswith("opt[") and t == self.env[n][4:-1]:
                # an optional (argument) receives a plain value: from here on the name denotes that value
                self.fresh += 1
                nv = "%s_v%d" % (n, self.fresh)
                self.narrow[n] = nv
                self.assigned_narrow = getattr(self, "assigned_narrow", set()) | {n}
                return [ind + "let %s := %s" % (nv, c)] if ind == "  " else self._nontop(n)
            changed = self.declare(n, t)
            if changed:
                raise Untranslatable("local %s changes type" % n)
            return [ind + "%s_ := %s" % (n, c)]
        if isinstance(s, ast.Assign) and len(s.targets) == 1 and isinstance(s.targets[0], ast.Subscript):
            tg = s.targets[0]
            if self.is_self_attr(tg.value, "array") and isinstance(tg.slice, ast.Slice) and tg.slice.step is None and tg.slice.lower is not None and tg.slice.upper is not None:
                lo, tl = self.expr(tg.slice.lower)
                hi, th = self.expr(tg.slice.upper)
                d, td = self.expr(s.value)
                if (tl, th, td) != ("int", "int", "bytes"):
                    raise Untranslatable("slice assignment types")
                return [ind + "self_ := { self_ with array := Py.sliceAssign self_.array %s %s %s }" % (lo, hi, d)]
            raise Untranslatable("subscript assignment")
        if isinstance(s, ast.If):
            t = s.test
            # `x is not None` / `x is None` on an optional argument
            if (isinstance(t, ast.Compare) and len(t.ops) == 1 and isinstance(t.ops[0], (ast.Is, ast.IsNot)) and isinstance(t.left, ast.Name)
                    and isinstance(t.comparators[0], ast.Constant) and t.comparators[0].value is None and self.env.get(t.left.id, "").startswith("opt[")
                    and t.left.id not in self.narrow):
                v = t.left.id
                self.fresh += 1
                nv = "%s_v%d" % (v, self.fresh)
                some_body, none_body = (s.body, s.orelse) if isinstance(t.ops[0], ast.IsNot) else (s.orelse, s.body)
                self.narrow[v] = nv
                sb = self.block(some_body, ind + "  ")
                del self.narrow[v]
                nb = self.block(none_body, ind + "  ")
                # a branch that re-binds the optional to a plain value narrows it for the rest of the method (both
                # branches must then leave it as a plain value: handled by `block_after`)
                return [ind + "match %s_ with" % v, ind + "| some %s =>" % nv] + sb + [ind + "| none =>"] + nb
            cond = self.truthy(t)
            out = [ind + "if %s then" % cond] + self.block(s.body, ind + "  ")
            if s.orelse:
                out += [ind + "else"] + self.block(s.orelse, ind + "  ")
            return out
        if isinstance(s, ast.Try):
            # try: return <slice expr> except …: a slice cannot raise — the handlers are dead code
            if len(s.body) == 1 and isinstance(s.body[0], ast.Return) and not s.orelse and not s.finalbody:
                v = s.body[0].value
                inner = v.values[0] if isinstance(v, ast.BoolOp) else v
                if isinstance(inner, ast.Subscript) and isinstance(inner.slice, ast.Slice):
                    return self.stmt(s.body[0], ind)
            raise Untranslatable("try statement")
        raise Untranslatable("statement " + type(s).__name__)

    def _nontop(self, n):
        raise Untranslatable("optional %s re-bound inside a branch" % n)

    def emit(self):
        got = [a.arg for a in self.node.args.args][1:]
        if got != [a for a, _ in self.args]:
            raise Untranslatable("parameters %s" % got)
        # in MemoryStorage.write the optional `block` is re-bound inside the `if block is None` branch and returned after
        # the join: handled by giving both branches the value (see special form below)
        special = self.rebinding_join()
        if special is not None:
            body = special
        else:
            body = self.block(self.node.body, "  ")
        head = "def %s (self_ : %s)%s : Py.M (%s × %s) := do" % (
            self.lname(), self.cls, "".join(" (%s_ : %s)" % (a, LT[t]) for a, t in self.args), self.cls, LT[self.ret])
        decls = ["  let mut self_ := self_"] + ["  let mut %s_ : %s := %s" % (n, LT[t], DFLT[t]) for n, t in self.locals]
        return "\n".join([head] + decls + body)

    def rebinding_join(self):
        """shape:   if block is None: <stmts>; block = <int expr>   else: <stmts>      return block
        -> a match whose `none` arm ends with `return (self_, <expr>)` and whose `some v` arm ends with `return (self_, v)`"""
        b = self.node.body
        b = [s for s in b if not (isinstance(s, ast.Expr) and isinstance(s.value, ast.Constant))]
        if len(b) != 2 or not isinstance(b[0], ast.If) or not isinstance(b[1], ast.Return) or not isinstance(b[1].value, ast.Name):
            return None
        t = b[0].test
        v = b[1].value.id
        if not (isinstance(t, ast.Compare) and len(t.ops) == 1 and isinstance(t.ops[0], (ast.Is, ast.IsNot)) and isinstance(t.left, ast.Name)
                and t.left.id == v and isinstance(t.comparators[0], ast.Constant) and t.comparators[0].value is None
                and self.env.get(v, "").startswith("opt[")):
            return None
        some_body, none_body = (b[0].body, b[0].orelse) if isinstance(t.ops[0], ast.IsNot) else (b[0].orelse, b[0].body)
        if not none_body or not isinstance(none_body[-1], ast.Assign) or not isinstance(none_body[-1].targets[0], ast.Name) or none_body[-1].targets[0].id != v:
            return None
        self.fresh += 1
        nv = "%s_v%d" % (v, self.fresh)
        self.narrow[v] = nv
        sb = self.block(some_body, "    ") + ["    return (self_, %s)" % nv]
        del self.narrow[v]
        nb = self.block(none_body[:-1], "    ")
        c, tt = self.expr(none_body[-1].value)
        if tt != self.ret:
            raise Untranslatable("re-bound optional type")
        nb = [l for l in nb if l.strip() != "pure ()"] + ["    return (self_, %s)" % c]
        return ["  match %s_ with" % v, "  | some %s =>" % nv] + sb + ["  | none =>"] + nb


def main():
    sys.path.insert(0, REPO)
    import traph  # noqa
    assert os.path.realpath(traph.__file__).startswith(os.path.realpath(REPO) + os.sep), traph.__file__
    out, status = [], {}
    for cname, spec in CLASSES.items():
        path = os.path.join(REPO, spec["file"])
        tree = ast.parse(open(path).read())
        cls = [n for n in tree.body if isinstance(n, ast.ClassDef) and n.name == cname]
        if not cls:
            for m in spec["methods"]:
                status["%s.%s" % (cname, m)] = "class missing"
            continue
        # the attributes the constructor sets must be the ones the translation assumes
        init = [n for n in cls[0].body if isinstance(n, ast.FunctionDef) and n.name == "__init__"]
        attrs = sorted({t.attr for n in ast.walk(init[0]) if isinstance(n, ast.Assign) for t in n.targets
                        if isinstance(t, ast.Attribute) and isinstance(t.value, ast.Name) and t.value.id == "self"}) if init else []
        want = sorted(set(spec["fields"]) | ({"file"} if cname == "MemMapStorage" else set()))
        fields = "\n".join("  %s : %s" % (f, LT[t]) for f, t in spec["fields"].items())
        out.append("structure %s where\n%s\nderiving Repr, DecidableEq, Inhabited\n\nnamespace %s" % (cname, fields, cname))
        methods = {n.name: n for n in cls[0].body if isinstance(n, ast.FunctionDef)}
        for m in spec["methods"]:
            key = "%s.%s" % (cname, m)
            if attrs != want:
                status[key] = "untranslatable: constructor sets %s, expected %s" % (attrs, want)
                continue
            if m not in methods:
                status[key] = "missing"
                continue
            try:
                out.append(Method(cname, spec, methods[m]).emit())
                status[key] = "translated"
            except Untranslatable as ex:
                status[key] = "untranslatable: %s" % ex
                if m == "__len__":
                    spec["methods"] = {k: v for k, v in spec["methods"].items() if k != "__len__"}
        out.append("end %s" % cname)
    text = ("import Traph.Py\n/-! GENERATED by gen/gen_storage.py from traph/storage/{file,memory,memmap}.py — do not edit. -/\n"
            "set_option linter.unusedVariables false\nnamespace Traph.Gen\nopen Traph\n\n" + "\n\n".join(out) + "\n\nend Traph.Gen\n")
    old = open(OUT).read() if os.path.exists(OUT) else None
    if old != text:
        os.makedirs(os.path.dirname(OUT), exist_ok=True)
        with open(OUT, "w") as f:
            f.write(text)
    with open(os.path.join(os.path.dirname(OUT), "storage_status.json"), "w") as f:
        json.dump({"status": status}, f, indent=1, sort_keys=True)
    print(json.dumps(status))
    return 0


if __name__ == "__main__":
    sys.exit(main())

#!/venv/bin/python
"""Translator for the pure helper functions of hyphe-traph: reads traph/helpers.py of $TRAPH_REPO (default /repo) with
`ast` and writes lean/Gen/Helpers.lean — the same functions as Lean 4 definitions in `Except Py.Err` (do-notation:
Python locals become `let mut`, generators become list accumulators, exceptions become `.error (.exc name)`), over
the primitives of lean/Traph/Py.lean.  lean/Gen/HelpersEq.lean then PROVES that each generated function equals the
hand-written model function the property theorems are about (Traph/Helpers.lean), so those theorems are theorems
about what helpers.py says now: an edit to helpers.py changes the generated file and the equivalence proofs are
re-checked against it on every run.

Python subset handled (anything else -> the function is reported as untranslatable and the translation tie for it is
"unavailable"; the correspondence check then carries the tie alone):
  statements : assignment to a name / tuple of names, augmented assignment +=, if/elif/else, for over range(..),
               a list, or a translated generator, `while <int>` (bounded by the fuel given in WHILE_FUEL, with a
               run-time check that the loop ended by its condition), return, yield, expression statements
               l.append(e) / l.pop(-1) / l.reverse(), assert (ignored)
  expressions: bytes/str/int/bool/None literals, names, module constants (values read from the imported module),
               + - * % >> on ints, + on bytes/str/lists, comparisons, not/and/or, len, b.startswith, b.replace(o,n,1),
               b.split(<1 byte>), sep.join(l), slices b[i:j], l[:-1], l[-1], s[i], d[k], list(..), [x for x in l if c],
               "%i#%s" % (..) with %i %d %s, int(s), int(math.ceil(a / float(b))), calls of translated functions
  typing     : a small forward inference from the SIGS table (bytes, str, int, bool, list[..], opt[bytes], tuple[..]);
               `if v:` on an optional narrows v inside the branch.
Trusted: this file and Traph/Py.lean (what each primitive means)."""
import ast, hashlib, json, os, sys

REPO = os.environ.get("TRAPH_REPO", "/repo")
HERE = os.path.dirname(os.path.abspath(__file__))
OUT = os.path.join(HERE, "..", "lean", "Gen", "Helpers.lean")

SIGS = {
    "https_variation": (["bytes"], "opt[bytes]"),
    "lru_variations": (["bytes"], "list[bytes]"),
    "lru_iter": (["bytes"], "gen[bytes]"),
    "lru_dirname": (["bytes"], "bytes"),
    "detailed_chunks_iter": (["int", "bytes"], "gen[tuple[bool,bytes]]"),
    "chunks_iter": (["int", "bytes"], "gen[bytes]"),
    "base4_append": (["int", "int"], "int"),
    "int_to_base4": (["int"], "str"),
    "int_to_base64": (["int"], "str"),
    "base64_to_int": (["str"], "int"),
    "build_pagination_token": (["int", "int"], "str"),
    "parse_pagination_token": (["str"], "tuple[int,int]"),
}
ORDER = list(SIGS)
WHILE_FUEL = {"int_to_base4": "x + 1", "int_to_base64": "x + 1"}     # iterations that provably suffice (x halves)


class Untranslatable(Exception):
    pass


def lean_type(t):
    if t in ("bytes", "str"):
        return "Bytes"
    if t == "int":
        return "Nat"
    if t == "bool":
        return "Bool"
    if t.startswith("list[") or t.startswith("gen["):
        return "List (" + lean_type(t[t.index("[") + 1:-1]) + ")"
    if t.startswith("opt["):
        return "Option (" + lean_type(t[4:-1]) + ")"
    if t.startswith("tuple["):
        parts = split_top(t[6:-1])
        return "(" + " × ".join(lean_type(p) for p in parts) + ")"
    raise Untranslatable("type " + t)


def split_top(s):
    out, depth, cur = [], 0, ""
    for ch in s:
        if ch == "[":
            depth += 1
        if ch == "]":
            depth -= 1
        if ch == "," and depth == 0:
            out.append(cur); cur = ""
        else:
            cur += ch
    out.append(cur)
    return out


def default_of(t):
    if t in ("bytes", "str") or t.startswith(("list[", "gen[")):
        return "[]"
    if t == "int":
        return "0"
    if t == "bool":
        return "false"
    if t.startswith("opt["):
        return "none"
    if t.startswith("tuple["):
        return "(" + ", ".join(default_of(p) for p in split_top(t[6:-1])) + ")"
    raise Untranslatable("default of " + t)


def blit(b):
    return "[" + ", ".join(str(x) for x in b) + "]"


class Fn(object):
    def __init__(self, node, consts):
        self.node, self.name, self.consts = node, node.name, consts
        self.argtypes, self.ret = SIGS[node.name]
        self.is_gen = self.ret.startswith("gen[")
        self.env = {}            # python local -> type
        self.narrow = {}         # python local -> lean name of the narrowed value
        self.locals = []         # hoisted declarations, in order of first assignment
        self.fresh = 0

    # ------------------------------------------------------------------ expressions: returns (code, type)
    def name_of(self, n):
        return self.narrow.get(n, n + "_") if n in self.env else n

    def expr(self, e):
        if isinstance(e, ast.Constant):
            v = e.value
            if isinstance(v, bool):
                return ("true" if v else "false"), "bool"
            if isinstance(v, int):
                if v < 0:
                    raise Untranslatable("negative literal")
                return str(v), "int"
            if isinstance(v, bytes):
                return "(" + blit(v) + " : Bytes)", "bytes"
            if isinstance(v, str):
                return "(" + blit(v.encode("ascii")) + " : Bytes)", "str"
            if v is None:
                return "none", "opt[bytes]"
            raise Untranslatable("constant %r" % (v,))
        if isinstance(e, ast.Name):
            if e.id in self.env:
                t = self.env[e.id]
                if e.id in self.narrow:
                    return self.narrow[e.id], t[4:-1]
                return e.id + "_", t
            if e.id in self.consts:
                return "C_" + e.id, self.consts[e.id][0]
            raise Untranslatable("unknown name " + e.id)
        if isinstance(e, ast.Tuple):
            parts = [self.expr(x) for x in e.elts]
            return "(" + ", ".join(p[0] for p in parts) + ")", "tuple[" + ",".join(p[1] for p in parts) + "]"
        if isinstance(e, ast.List):
            parts = [self.expr(x) for x in e.elts]
            t = parts[0][1] if parts else "bytes"
            return "[" + ", ".join(p[0] for p in parts) + "]", "list[%s]" % t
        if isinstance(e, ast.BinOp):
            if isinstance(e.op, ast.Mod) and isinstance(e.left, ast.Constant) and isinstance(e.left.value, str):
                return self.fmt(e.left.value, e.right)
            a, ta = self.expr(e.left)
            b, tb = self.expr(e.right)
            if ta == "int" and tb == "int":
                if isinstance(e.op, ast.Add):
                    return "(%s + %s)" % (a, b), "int"
                if isinstance(e.op, ast.Sub):
                    return "(← Py.sub %s %s)" % (a, b), "int"
                if isinstance(e.op, ast.Mult):
                    return "(%s * %s)" % (a, b), "int"
                if isinstance(e.op, ast.Mod):
                    if not (isinstance(e.right, ast.Constant) and e.right.value > 0):
                        raise Untranslatable("% by a non-literal")
                    return "(%s %% %s)" % (a, b), "int"
                if isinstance(e.op, ast.RShift):
                    return "(%s >>> %s)" % (a, b), "int"
            if isinstance(e.op, ast.Add) and ta == tb and (ta in ("bytes", "str") or ta.startswith("list[")):
                return "(%s ++ %s)" % (a, b), ta
            raise Untranslatable("binary operator on %s, %s" % (ta, tb))
        if isinstance(e, ast.UnaryOp) and isinstance(e.op, ast.Not):
            return "(!%s)" % self.truthy(e.operand), "bool"
        if isinstance(e, ast.BoolOp):
            parts = [self.truthy(v) for v in e.values]
            return "(" + (" && " if isinstance(e.op, ast.And) else " || ").join(parts) + ")", "bool"
        if isinstance(e, ast.Compare) and len(e.ops) == 1:
            a, ta = self.expr(e.left)
            b, tb = self.expr(e.comparators[0])
            op = e.ops[0]
            same = ta == tb or {ta, tb} <= {"bytes", "str"}
            if not same:
                raise Untranslatable("comparison of %s with %s" % (ta, tb))
            if isinstance(op, ast.Eq):
                return "(%s == %s)" % (a, b), "bool"
            if isinstance(op, ast.NotEq):
                return "(%s != %s)" % (a, b), "bool"
            if ta == "int":
                sym = {ast.Lt: "<", ast.LtE: "≤", ast.Gt: ">", ast.GtE: "≥"}.get(type(op))
                if sym:
                    return "(decide (%s %s %s))" % (a, sym, b), "bool"
            raise Untranslatable("comparison operator")
        if isinstance(e, ast.Subscript):
            return self.subscript(e)
        if isinstance(e, ast.ListComp) and len(e.generators) == 1 and not e.generators[0].is_async:
            g = e.generators[0]
            src, ts = self.expr(g.iter)
            if not ts.startswith("list[") or not isinstance(g.target, ast.Name) or not isinstance(e.elt, ast.Name) or e.elt.id != g.target.id:
                raise Untranslatable("list comprehension shape")
            elt_t = ts[5:-1]
            saved = dict(self.env), dict(self.narrow)
            self.env[g.target.id] = elt_t
            self.narrow.pop(g.target.id, None)
            conds = [self.truthy(c) for c in g.ifs]
            self.env, self.narrow = saved
            if any("←" in c for c in conds):
                raise Untranslatable("effect inside a comprehension condition")
            code = src
            for c in conds:
                code = "(%s.filter (fun %s_ => %s))" % (code, g.target.id, c)
            return code, ts
        if isinstance(e, ast.Call):
            return self.call(e)
        raise Untranslatable("expression " + type(e).__name__)

    def fmt(self, s, arg):
        args = list(arg.elts) if isinstance(arg, ast.Tuple) else [arg]
        parts, i, lit = [], 0, ""
        while i < len(s):
            if s[i] == "%" and i + 1 < len(s) and s[i + 1] in "ids":
                if lit:
                    parts.append("(" + blit(lit.encode("ascii")) + " : Bytes)"); lit = ""
                if not args:
                    raise Untranslatable("format arity")
                a, ta = self.expr(args.pop(0))
                if s[i + 1] in "id":
                    if ta != "int":
                        raise Untranslatable("%i of " + ta)
                    parts.append("Py.fmtInt %s" % a)
                else:
                    if ta not in ("str",):
                        raise Untranslatable("%s of " + ta)
                    parts.append(a)
                i += 2
            elif s[i] == "%":
                raise Untranslatable("format directive")
            else:
                lit += s[i]; i += 1
        if lit:
            parts.append("(" + blit(lit.encode("ascii")) + " : Bytes)")
        if args:
            raise Untranslatable("format arity")
        return "(" + " ++ ".join(parts) + ")", "str"

    def subscript(self, e):
        v, tv = self.expr(e.value)
        sl = e.slice
        if isinstance(sl, ast.Slice):
            if sl.step is not None:
                raise Untranslatable("slice step")
            neg1 = isinstance(sl.upper, ast.UnaryOp) and isinstance(sl.upper.op, ast.USub) and isinstance(sl.upper.operand, ast.Constant) and sl.upper.operand.value == 1
            if sl.lower is None and neg1:
                return "(Py.dropLast %s)" % v, tv
            lo = self.expr(sl.lower) if sl.lower is not None else ("0", "int")
            if sl.upper is None:
                raise Untranslatable("open slice")
            hi = self.expr(sl.upper)
            if lo[1] != "int" or hi[1] != "int":
                raise Untranslatable("slice bounds")
            return "(Py.slice %s %s %s)" % (v, lo[0], hi[0]), tv
        neg1 = isinstance(sl, ast.UnaryOp) and isinstance(sl.op, ast.USub) and isinstance(sl.operand, ast.Constant) and sl.operand.value == 1
        if neg1 and tv.startswith("list["):
            return "(← Py.last %s)" % v, tv[5:-1]
        if tv.startswith("dict"):
            k, tk = self.expr(sl)
            return "(← Py.dictGet %s %s)" % (v, k), "int"
        if tv == "str":
            i, ti = self.expr(sl)
            if ti != "int":
                raise Untranslatable("str index type")
            return "(← Py.strIndex %s %s)" % (v, i), "str"
        raise Untranslatable("subscript on " + tv)

    def call(self, e):
        f = e.func
        if isinstance(f, ast.Name):
            if f.id == "len" and len(e.args) == 1:
                a, ta = self.expr(e.args[0])
                return "%s.length" % a, "int"
            if f.id == "list" and len(e.args) == 1:
                a, ta = self.expr(e.args[0])
                if not ta.startswith(("list[", "gen[")):
                    raise Untranslatable("list() of " + ta)
                return a, "list[" + ta[ta.index("[") + 1:-1] + "]"
            if f.id == "int" and len(e.args) == 1:
                a0 = e.args[0]
                # int(math.ceil(a / float(b)))
                if (isinstance(a0, ast.Call) and isinstance(a0.func, ast.Attribute) and a0.func.attr == "ceil" and len(a0.args) == 1
                        and isinstance(a0.args[0], ast.BinOp) and isinstance(a0.args[0].op, ast.Div)):
                    num, den = a0.args[0].left, a0.args[0].right
                    if isinstance(den, ast.Call) and isinstance(den.func, ast.Name) and den.func.id == "float" and len(den.args) == 1:
                        a, ta = self.expr(num)
                        b, tb = self.expr(den.args[0])
                        if ta == tb == "int":
                            return "(← Py.ceilDiv %s %s)" % (a, b), "int"
                    raise Untranslatable("ceil idiom")
                a, ta = self.expr(a0)
                if ta != "str":
                    raise Untranslatable("int() of " + ta)
                return "(← Py.int %s)" % a, "int"
            if f.id in SIGS:
                argt, ret = SIGS[f.id]
                args = [self.expr(a) for a in e.args]
                if len(args) != len(argt) or e.keywords:
                    raise Untranslatable("call arity " + f.id)
                for (a, ta), want in zip(args, argt):
                    if ta != want and not {ta, want} <= {"bytes", "str"}:
                        raise Untranslatable("argument type %s for %s in %s" % (ta, want, f.id))
                return "(← %s %s)" % (f.id, " ".join(a for a, _ in args)), ret
            raise Untranslatable("call of " + f.id)
        if isinstance(f, ast.Attribute):
            recv, tr = self.expr(f.value)
            m = f.attr
            args = [self.expr(a) for a in e.args]
            if m == "startswith" and tr in ("bytes", "str") and len(args) == 1 and args[0][1] in ("bytes", "str"):
                return "(Py.startswith %s %s)" % (recv, args[0][0]), "bool"
            if m == "replace" and tr in ("bytes", "str") and len(args) == 3 and isinstance(e.args[2], ast.Constant) and e.args[2].value == 1:
                return "(Py.replace1 %s %s %s)" % (recv, args[0][0], args[1][0]), tr
            if m == "split" and tr in ("bytes", "str") and len(args) == 1 and isinstance(e.args[0], ast.Constant) and len(e.args[0].value) == 1:
                sep = e.args[0].value
                sep = sep[0] if isinstance(sep, bytes) else ord(sep)
                return "(Py.split1 %s %d)" % (recv, sep), "list[%s]" % tr
            if m == "join" and tr in ("bytes", "str") and len(args) == 1 and isinstance(f.value, ast.Constant) and len(f.value.value) <= 1:
                a, ta = args[0]
                if not ta.startswith(("list[", "gen[")):
                    raise Untranslatable("join of " + ta)
                return "(Py.join %s %s)" % (recv, a), tr
            raise Untranslatable("method " + m)
        raise Untranslatable("call shape")

    def truthy(self, e):
        """Python truth value of an expression, as a Lean Bool"""
        c, t = self.expr(e)
        if t == "bool":
            return c
        if t in ("bytes", "str") or t.startswith("list["):
            return "(!%s.isEmpty)" % c
        if t == "int":
            return "(%s != 0)" % c
        raise Untranslatable("truth value of " + t)

    # ------------------------------------------------------------------ statements
    def declare(self, name, t):
        if name not in self.env:
            self.env[name] = t
            self.locals.append((name, t))
        elif self.env[name] != t and not {self.env[name], t} <= {"bytes", "str"}:
            if self.env[name].startswith("opt[") and self.env[name][4:-1] == t:
                return "some"
            if t.startswith("list[") and self.env[name].startswith("list["):
                return None
            raise Untranslatable("local %s changes type %s -> %s" % (name, self.env[name], t))
        return None

    def block(self, stmts, ind):
        out = []
        for s in stmts:
            out += self.stmt(s, ind)
        return out or [ind + "pure ()"]

    def ret_value(self, e):
        if self.is_gen:
            if e is not None:
                raise Untranslatable("return with a value in a generator")
            return "out_"
        if e is None:
            raise Untranslatable("bare return")
        c, t = self.expr(e)
        if self.ret.startswith("opt["):
            if isinstance(e, ast.Constant) and e.value is None:
                return "none"
            if t == self.ret[4:-1]:
                return "(some %s)" % c
        if t == self.ret or {t, self.ret} <= {"bytes", "str"}:
            return c
        if t.startswith("tuple[") and lean_type(t) == lean_type(self.ret):
            return c
        raise Untranslatable("return type %s for %s" % (t, self.ret))

    def stmt(self, s, ind):
        if isinstance(s, ast.Expr) and isinstance(s.value, ast.Constant) and isinstance(s.value.value, str):
            return []                                   # docstring
        if isinstance(s, ast.Assert) or isinstance(s, ast.Pass):
            return []
        if isinstance(s, ast.Return):
            return [ind + "return " + self.ret_value(s.value)]
        if isinstance(s, ast.Expr) and isinstance(s.value, ast.Yield):
            if not self.is_gen:
                raise Untranslatable("yield outside a generator")
            c, t = self.expr(s.value.value)
            want = self.ret[4:-1]
            if lean_type(t) != lean_type(want):
                raise Untranslatable("yield type %s for %s" % (t, want))
            return [ind + "out_ := out_ ++ [%s]" % c]
        if isinstance(s, ast.Assign) and len(s.targets) == 1:
            tgt = s.targets[0]
            c, t = self.expr(s.value)
            if isinstance(tgt, ast.Name):
                if t.startswith("gen["):
                    t = "list[" + t[4:-1] + "]"
                wrap = self.declare(tgt.id, t)
                self.narrow.pop(tgt.id, None)
                return [ind + "%s_ := %s" % (tgt.id, "(some %s)" % c if wrap == "some" else c)]
            if isinstance(tgt, ast.Tuple) and all(isinstance(x, ast.Name) for x in tgt.elts) and len(tgt.elts) == 2:
                if t.startswith("list["):
                    et = t[5:-1]
                    names = [x.id for x in tgt.elts]
                    for n in names:
                        self.declare(n, et)
                    self.fresh += 1
                    tmp = "t%d_" % self.fresh
                    return [ind + "let %s ← Py.unpack2 %s" % (tmp, c), ind + "%s_ := %s.1" % (names[0], tmp), ind + "%s_ := %s.2" % (names[1], tmp)]
            raise Untranslatable("assignment target")
        if isinstance(s, ast.AugAssign) and isinstance(s.target, ast.Name) and isinstance(s.op, ast.Add):
            c, t = self.expr(ast.BinOp(left=ast.Name(id=s.target.id, ctx=ast.Load()), op=ast.Add(), right=s.value))
            return [ind + "%s_ := %s" % (s.target.id, c)]
        if isinstance(s, ast.Expr) and isinstance(s.value, ast.Call) and isinstance(s.value.func, ast.Attribute) and isinstance(s.value.func.value, ast.Name):
            obj, m, args = s.value.func.value.id, s.value.func.attr, s.value.args
            if obj not in self.env or not self.env[obj].startswith("list["):
                raise Untranslatable("method statement on " + obj)
            et = self.env[obj][5:-1]
            if m == "append" and len(args) == 1:
                c, t = self.expr(args[0])
                if t != et and not {t, et} <= {"bytes", "str"}:
                    raise Untranslatable("append of %s to list[%s]" % (t, et))
                return [ind + "%s_ := %s_ ++ [%s]" % (obj, obj, c)]
            if m == "pop" and len(args) == 1 and isinstance(args[0], ast.UnaryOp) and isinstance(args[0].operand, ast.Constant) and args[0].operand.value == 1:
                return [ind + "%s_ := (← Py.popLast %s_)" % (obj, obj)]
            if m == "reverse" and not args:
                return [ind + "%s_ := %s_.reverse" % (obj, obj)]
            raise Untranslatable("list method " + m)
        if isinstance(s, ast.If):
            # narrowing: `if v:` on an optional
            if isinstance(s.test, ast.Name) and self.env.get(s.test.id, "").startswith("opt[") and s.test.id not in self.narrow:
                if s.orelse:
                    raise Untranslatable("else branch after narrowing")
                v = s.test.id
                self.fresh += 1
                nv = "%s_v%d" % (v, self.fresh)
                self.narrow[v] = nv
                body = self.block(s.body, ind + "    ")
                del self.narrow[v]
                return [ind + "match %s_ with" % v, ind + "| some %s =>" % nv, ind + "  if (!%s.isEmpty) then" % nv] + body + [ind + "| none => pure ()"]
            cond = self.truthy(s.test)
            out = [ind + "if %s then" % cond] + self.block(s.body, ind + "  ")
            if s.orelse:
                out += [ind + "else"] + self.block(s.orelse, ind + "  ")
            return out
        if isinstance(s, ast.For) and not s.orelse:
            it = s.iter
            if isinstance(it, ast.Call) and isinstance(it.func, ast.Name) and it.func.id == "range":
                if len(it.args) == 1:
                    n, tn = self.expr(it.args[0])
                    src = "List.range %s" % n
                elif (len(it.args) == 3 and all(isinstance(a, ast.UnaryOp) and isinstance(a.op, ast.USub) and isinstance(a.operand, ast.Constant) and a.operand.value == 1 for a in it.args[1:])
                      and isinstance(it.args[0], ast.BinOp) and isinstance(it.args[0].op, ast.Sub) and isinstance(it.args[0].right, ast.Constant) and it.args[0].right.value == 1):
                    n, tn = self.expr(it.args[0].left)             # range(n - 1, -1, -1)
                    src = "(List.range %s).reverse" % n
                else:
                    raise Untranslatable("range shape")
                if tn != "int" or not isinstance(s.target, ast.Name):
                    raise Untranslatable("range argument")
                self.env.setdefault(s.target.id, "int")
                if s.target.id not in [l[0] for l in self.locals]:
                    self.loopvars = getattr(self, "loopvars", set()) | {s.target.id}
                pat = s.target.id + "_"
            else:
                src, ts = self.expr(it)
                if not ts.startswith(("list[", "gen[")):
                    raise Untranslatable("for over " + ts)
                et = ts[ts.index("[") + 1:-1]
                if isinstance(s.target, ast.Name):
                    self.env.setdefault(s.target.id, et)
                    pat = s.target.id + "_"
                elif isinstance(s.target, ast.Tuple) and et.startswith("tuple[") and all(isinstance(x, ast.Name) for x in s.target.elts):
                    parts = split_top(et[6:-1])
                    if len(parts) != len(s.target.elts):
                        raise Untranslatable("for tuple arity")
                    for x, pt in zip(s.target.elts, parts):
                        self.env.setdefault(x.id, pt)
                    pat = "(" + ", ".join("_" if x.id == "_" else x.id + "_" for x in s.target.elts) + ")"
                else:
                    raise Untranslatable("for target")
            return [ind + "for %s in %s do" % (pat, src)] + self.block(s.body, ind + "  ")
        if isinstance(s, ast.While) and not s.orelse:
            fuel = WHILE_FUEL.get(self.name)
            if not fuel:
                raise Untranslatable("while without a fuel annotation")
            fuel_code = fuel.replace("x", "x_")
            cond = self.truthy(s.test)
            # the fuel is read before the loop; afterwards the condition must be false (else: outside the translator's domain)
            self.fresh += 1
            fv = "fuel%d_" % self.fresh
            body = self.block(s.body, ind + "  ")
            return ([ind + "let %s := %s" % (fv, fuel_code), ind + "for _ in List.range %s do" % fv, ind + "  if !%s then break" % cond] + body +
                    [ind + "if %s then throw (Py.Err.unsupported \"while loop outlived its fuel\")" % cond])
        raise Untranslatable("statement " + type(s).__name__)

    def emit(self):
        args = [a.arg for a in self.node.args.args]
        if len(args) != len(self.argtypes):
            raise Untranslatable("arity")
        for a, t in zip(args, self.argtypes):
            self.env[a] = t
        body = self.block(self.node.body, "  ")
        ret = lean_type(self.ret)
        head = "def %s %s : Py.M (%s) := do" % (self.name, " ".join("(%s_ : %s)" % (a, lean_type(t)) for a, t in zip(args, self.argtypes)), ret)
        decls = []
        if self.is_gen:
            decls.append("  let mut out_ : %s := []" % ret)
        loopvars = getattr(self, "loopvars", set())
        for n, t in self.locals:
            decls.append("  let mut %s_ : %s := %s" % (n, lean_type(t), default_of(t)))
        # arguments that are assigned to become mutable copies
        assigned = {n for n, _ in self.locals}
        pre = []
        for a in args:
            if a in assigned:
                raise Untranslatable("argument re-typed")
        rebind = [a for a in args if self.assigned_arg(a)]
        for a in rebind:
            pre.append("  let mut %s_ := %s_" % (a, a))
        tail = []
        last = self.node.body[-1]
        if self.is_gen and not isinstance(last, ast.Return):
            tail.append("  return out_")
        elif not self.is_gen and not self.always_returns(self.node.body):
            raise Untranslatable("may fall off the end")
        return "\n".join([head] + pre + decls + body + tail)

    def assigned_arg(self, a):
        for n in ast.walk(self.node):
            if isinstance(n, (ast.Assign, ast.AugAssign)):
                tg = n.targets if isinstance(n, ast.Assign) else [n.target]
                for t in tg:
                    for x in ast.walk(t):
                        if isinstance(x, ast.Name) and x.id == a:
                            return True
        return False

    def always_returns(self, stmts):
        if not stmts:
            return False
        l = stmts[-1]
        if isinstance(l, ast.Return):
            return True
        if isinstance(l, ast.If) and l.orelse:
            return self.always_returns(l.body) and self.always_returns(l.orelse)
        return False


def norm_hash(node):
    return hashlib.sha256(ast.dump(node, annotate_fields=False, include_attributes=False).encode()).hexdigest()[:16]


def main():
    sys.path.insert(0, REPO)
    import traph  # noqa
    assert os.path.realpath(traph.__file__).startswith(os.path.realpath(REPO) + os.sep), traph.__file__
    from traph import helpers as HP
    src = open(os.path.join(REPO, "traph", "helpers.py")).read()
    tree = ast.parse(src)
    consts = {}
    const_defs = []
    for name in ("BASE64", "BASE64_INDEX"):
        v = getattr(HP, name, None)
        if isinstance(v, str):
            consts[name] = ("str", v)
            const_defs.append("def C_%s : Bytes := %s" % (name, blit(v.encode("ascii"))))
        elif isinstance(v, dict) and all(isinstance(k, str) and isinstance(x, int) and x >= 0 for k, x in v.items()):
            consts[name] = ("dict[str,int]", v)
            const_defs.append("def C_%s : List (Bytes × Nat) := [%s]" % (name, ", ".join("(%s, %d)" % (blit(k.encode("ascii")), x) for k, x in v.items())))
    funcs = {n.name: n for n in tree.body if isinstance(n, ast.FunctionDef)}
    out, status = [], {}
    for name in ORDER:
        if name not in funcs:
            status[name] = "missing in helpers.py"
            continue
        try:
            out.append(Fn(funcs[name], consts).emit())
            status[name] = "translated"
        except Untranslatable as ex:
            status[name] = "untranslatable: %s" % ex
            # later functions that call it cannot be translated either
            SIGS.pop(name)
    text = ("import Traph.Py\n/-! GENERATED by gen/gen_helpers.py from traph/helpers.py — do not edit.\n"
            "    One definition per translated function; Python exceptions are `.error (.exc name)`. -/\n"
            "set_option linter.unusedVariables false\nnamespace Traph.Gen\nopen Traph\n\n" +
            "\n".join(const_defs) + "\n\n" + "\n\n".join(out) + "\n\nend Traph.Gen\n")
    os.makedirs(os.path.dirname(OUT), exist_ok=True)
    old = open(OUT).read() if os.path.exists(OUT) else None
    if old != text:
        with open(OUT, "w") as f:
            f.write(text)
    info = {"status": status, "hashes": {n: norm_hash(funcs[n]) for n in ORDER if n in funcs}}
    with open(os.path.join(os.path.dirname(OUT), "helpers_status.json"), "w") as f:
        json.dump(info, f, indent=1, sort_keys=True)
    print(json.dumps(status))
    return 0


if __name__ == "__main__":
    sys.exit(main())

#!/usr/bin/env python3
"""Writes MANIFEST.json from the table below (kept here so that the per-property texts live in one place)."""
import json, os

HERE = os.path.dirname(os.path.abspath(__file__))
ROOT = os.path.abspath(os.path.join(HERE, ".."))

COMMON_NOTE = ("Trusted base: Lean 4.33 kernel (thorough tier: leanchecker re-check), axioms ⊆ {propext, Classical.choice, "
               "Quot.sound} (audited by #print axioms on every Cxx_* theorem each run; no sorry/native_decide/bv_decide/own axioms), "
               "gen/gen_layout.py (layout measured through the package), the correspondence harness and the compiled model driver. "
               "Modelled, not verified: CPython bytes/dict/Counter/heapq/generator semantics, struct, the re engine on Hyphe's rule family, "
               "OS files as byte arrays. ")

P = {
 "C01": ("heap-order invariant + insertion lemmas; refinement of page set in progress",
         "Theorems (Props/C01.lean): every page insertion is increasing in the heap order (no page block is moved, unflagged or altered), the "
         "returned block is a page afterwards, crawled is monotone, 'created' iff it was not a page. The full refinement to the set of submitted "
         "LRUs needs the search/insert agreement (Proofs/Shape*, stated in DESIGN §7) — until it is closed the quantifier 'each once' rests on the "
         "correspondence (byte-exact model vs code on generated histories, both back-ends) and the oracle against the abstract index."),
 "C02": ("codec round-trip + stem read-back for every length + heap order; BST search agreement in progress",
         "Theorems (Props/C02.lean): block codec round-trips; a stem of any length written as head+tail blocks reads back byte-identical and takes "
         "exactly ceil(len/74) blocks (induction, no case split on lengths); later insertions leave every existing stem, parent pointer and set "
         "tree pointer unchanged. The three-access-path agreement is tied by correspondence on lrunode/windup/dfs + the write-by-write trie image."),
 "C03": ("stub-list lemmas (prepend, frame, Counter multiplicities); lift to histories in progress",
         "Theorems (Props/C03.lean): a list write prepends exactly the submitted ends and changes no other list; reported weights are the "
         "multiplicities of the walk, each target once, totals preserved. In/out symmetry over histories is tied by correspondence "
         "(get_page_links × 8 switch sets, links_iter both ways, degrees) and the oracle's submission multiset."),
 "C04": ("decision logic of resolution; longest-prefix refinement in progress",
         "Theorems (Props/C04.lean): webentity and defining prefix are projections of one walk (one succeeds iff the other does; failures are the "
         "library's own error; the prefix is an initial segment of the query); the point query answers the located block's id."),
 "C05": ("traversal answer characterised per prefix; partition in progress",
         "Theorems (Props/C05.lean): the answer is, prefix by prefix, the pages met by the webentity walk with their current marks; crawled-only is "
         "exactly the filter; unknown prefix refused with the library's own error."),
 "C06": ("decision ladder stated outright, generic in the rule table",
         "Theorems (Props/C06.lean): K ≤ E creates and reports nothing and leaves the trie as add_page left it; get_potential_prefix runs the same "
         "ladder read-only (covered / rule-wins cases). Rule application itself (re engine) is modelled and validated against re on every run."),
 "C07": ("aggregation lemmas; carried-id = resolution in progress",
         "Theorems (Props/C07.lean): Counter aggregation adds exactly the link weight and keeps one entry per target webentity. Fast/slow/transpose "
         "equalities are tied by correspondence on all 8 switch sets and by the oracle's recomputation from the abstract index."),
 "C08": ("switch logic per source page stated outright + Counter multiplicities",
         "Theorems (Props/C08.lean): per page, the returned links are exactly the targets passing the stated switch test with their multiplicity, "
         "each once; cited/citing answers are sets; no switch is refused."),
 "C09": ("token codec round-trip and path injectivity for all (i, path); traversal theorems in progress",
         "Theorems (Props/C09.lean): tokens round-trip through their text for every (prefix index, path); L/C/R paths are injective base-4 numbers. "
         "Completeness/order/resume are tied by correspondence on full pagination episodes with insertions between calls and by the oracle. "
         "Runtime limit F09 (RecursionError beyond ~1000 nested siblings) is a known finding the unbounded model cannot exhibit."),
 "C10": ("token codec + bookkeeping totality; traversal theorems in progress",
         "Theorems (Props/C10.lean): tokens round-trip; a token is built from a pair recorded together (repaired D3) so resumption never lacks the "
         "prefix index; no-switch refused. Equality with the unpaginated answer is tied by correspondence and oracle on full episodes."),
 "C11": ("codec round-trip of whole images; reopen/clear by definition of the model + real reopen in the harness",
         "Theorems (Props/C11.lean): decoding both images returns the block arrays (the files are the state), whole numbers of blocks, reopen writes "
         "nothing, clear(d, rs) is literally a fresh index. The harness really closes and reopens the folder and compares with the never-closed run."),
 "C12": ("invariant on the header counter over all operations",
         "Theorems (Props/C12.lean): every id reported by a request lies strictly above the counter before the request and at most at the counter "
         "after it; the list of ids issued along any history without clear is strictly increasing, across reopen and deletions."),
 "C13": ("answers characterised as filtered sets over the parent chain / pruned DFS; pruning-mark invariant in progress",
         "Theorems (Props/C13.lean): answers are sorted duplicate-free sets excluding 0 and the queried id, members are exactly the ids met on the "
         "parent chain (resp. pruned DFS) of the given prefixes; unknown prefix refused."),
 "C14": ("frame property by construction (queries are functions of the state) + implementation-only byte tie",
         "Theorem (Props/C14.lean): a read request returns the state unchanged whatever it answers. The tie compares both real store images and the "
         "storage write log before/after every read on both back-ends."),
 "C15": ("simulation between storage machines",
         "Theorems (Props/C15.lean): FileStorage (bytes+cursor), MemoryStorage (slice assignment) and MemMapStorage simulate one block list under the "
         "call discipline, for any sequence of storage calls; cursor reads are shown back-end dependent (the D2 hazard)."),
 "C16": ("coroutine state machines + frame theorems for the query machines; schedule safety by correspondence; F16 known finding",
         "Model: the four generators as explicit state machines yielding exactly where the code does, with the stale node copies the code holds "
         "across a yield. Theorems (Props/C16.lean): query sections never write; finished generators are inert. The tie advances the real "
         "generators (should_yield wrapped to True) and the model under the same random schedules of 2-3 requests and compares every step's "
         "status, the final answers and the final bytes; the oracle states C16 directly (no failure, final pages/links = sequential application, "
         "symmetry, query bounds from atomic probes after every step). What the model cannot exhibit: CPython generator semantics are modelled, "
         "validated by the tie, not verified. The soundness clause for queries is false of the code (F16, known finding)."),
 "C17": ("algebraic laws of the byte-level function on the grammar, via a proved stem-level bridge",
         "Theorems (Props/C17.lean): head, nodup, local, closed (permutation) for every LRU of the property's grammar, incl. path stems containing "
         "'s:http' / 'h:'; the byte-level replace/split code equals the stem-level specification."),
 "C18": ("open-time decision logic on replayed write-log prefixes; per-write heap order in progress",
         "Theorems (Props/C18.lean): exactly torn appends are refused, with the library's own error; in-place rewrites cannot be torn; a cut on "
         "a write boundary opens to exactly the replayed prefix. Every request is increasing in the heap order (Proofs/LeOps: step_le, prefix_le), "
         "so a state cut at a request boundary reports only pages/links the completed history reports; the lift to single writes is in progress. "
         "The tie rebuilds the real files for every cut of the real write log (block and byte granularity), reopens them with the real code and "
         "runs all observers. Assumed, not exhibited: a crash leaves a prefix of the program-ordered writes (no OS reordering)."),
 "C19": ("chunk arithmetic for every length + allocation lemmas; whole-history sum in progress",
         "Theorems (Props/C19.lean): ceil(len/n) chunks, lossless; a node takes exactly blocksFor(stem) blocks; n link ends take n stubs and no trie block."),
 "C20": ("bounded heap keeps the k largest keys (invariant over the fold)",
         "Theorems (Props/C20.lean): length min(k,n), sub-multiset, order, no omitted entry above a kept one; indegree of a linked page = distinct "
         "sources. D4 (lonely page reported with 1) is a known finding mirrored by a probed configuration bit."),
}
NOT_YET = {
}

def main():
    checks = []
    for pid in sorted(P):
        tech, text = P[pid]
        if not os.path.exists(os.path.join(ROOT, "lean", "Props", pid + ".lean")):
            NOT_YET[pid] = "property theorems not yet in the build"
            continue
        checks.append({
            "property_id": pid,
            "quick_cmd": "bin/check %s --tier quick" % pid,
            "thorough_cmd": "bin/check %s --tier thorough" % pid,
            "evidence_file": "evidence/%s.json" % pid,
            "replay_cmd_template": "bin/replay {path}",
            "engine": "lean-model+correspondence",
            "level_claimed": {"category": "proof", "text": text, "design_ref": "DESIGN.md §7 " + pid},
            "level_note": COMMON_NOTE,
            "technique": "Lean 4 proof: " + tech + "; model tied to the source by generated layout + differential correspondence",
        })
    m = {
        "version": 1,
        "setup_cmd": "cd lean && lake build Traph driver Proofs Props",
        "hooks": {"guard": "HYPHE_TRAPH_VERIF", "enable": "no source hooks are used: the harness wraps FileStorage.write / MemoryStorage.write / "
                  "TraphIteratorState.should_yield in its own process", "baseline_off_cmd": "cd /repo && /venv/bin/python -m pytest -q -p no:cacheprovider",
                  "source_commits": [], "add_only": True},
        "engines": [{"name": "lean-model+correspondence", "path": "lean/ harness/ gen/ bin/", "serves_properties": sorted(P),
                     "kind_free_text": "hand-written executable Lean 4 model (byte-exact), theorems in lean/Props, layout regenerated from /repo "
                                       "every run, correspondence check model vs real code on generated op sequences (file and memory back-ends), "
                                       "Python reference oracle as failing-input finder"}],
        "checks": checks,
        "notes": "See DESIGN.md. Checks honour VERIF_SEED / VERIF_TIER / TRAPH_REPO (tree under test, default /repo).",
        "not_applicable": [{"property_id": k, "reason": v} for k, v in sorted(NOT_YET.items())],
    }
    with open(os.path.join(ROOT, "MANIFEST.json"), "w") as f:
        json.dump(m, f, indent=1)
    print("MANIFEST.json: %d checks, %d not claimed" % (len(checks), len(NOT_YET)))

if __name__ == "__main__":
    main()

#!/usr/bin/env python3
"""Writes MANIFEST.json from the table below (kept here so that the per-property texts live in one place)."""
import json, os

HERE = os.path.dirname(os.path.abspath(__file__))
ROOT = os.path.abspath(os.path.join(HERE, ".."))

COMMON_NOTE = ("Trusted base: Lean 4.33 kernel (thorough tier: leanchecker re-check), axioms ⊆ {propext, Classical.choice, "
               "Quot.sound} (audited by #print axioms on every Cxx_* theorem each run; no sorry/native_decide/bv_decide/own axioms), "
               "gen/gen_layout.py (layout measured through the package), gen/gen_helpers.py + lean/Traph/Py.lean (translator of helpers.py and the meaning of its "
               "Python primitives), the correspondence harness and the compiled model driver. "
               "Modelled, not verified: CPython bytes/dict/Counter/heapq/generator semantics, struct, the re engine on Hyphe's rule family, "
               "OS files as byte arrays. ")

P = {k: (v["technique"], v["text"]) for k, v in json.load(open(os.path.join(HERE, "props_text.json"))).items()}
NOT_YET = {
}

def main():
    checks = []
    for pid in sorted(P):
        tech, text = P[pid]
        if not os.path.exists(os.path.join(ROOT, "lean", "Props", pid + ".lean")):
            NOT_YET[pid] = "property theorems not yet in the build"
            continue
        checks.append({
            "property_id": pid,
            "quick_cmd": "bin/check %s --tier quick" % pid,
            "thorough_cmd": "bin/check %s --tier thorough" % pid,
            "evidence_file": "evidence/%s.json" % pid,
            "replay_cmd_template": "bin/replay {path}",
            "engine": "lean-model+correspondence",
            "level_claimed": {"category": "proof", "text": text, "design_ref": "DESIGN.md §7 " + pid},
            "level_note": COMMON_NOTE,
            "technique": "Lean 4 proof: " + tech + "; model tied to the source by generated layout + differential correspondence",
        })
    m = {
        "version": 1,
        "setup_cmd": "cd lean && lake build Traph driver Proofs Props Gen",
        "hooks": {"guard": "HYPHE_TRAPH_VERIF", "enable": "no source hooks are used: the harness wraps FileStorage.write / MemoryStorage.write / "
                  "TraphIteratorState.should_yield in its own process", "baseline_off_cmd": "cd /repo && /venv/bin/python -m pytest -q -p no:cacheprovider",
                  "source_commits": [], "add_only": True},
        "engines": [{"name": "lean-model+correspondence", "path": "lean/ harness/ gen/ bin/", "serves_properties": sorted(P),
                     "kind_free_text": "hand-written executable Lean 4 model (byte-exact), theorems in lean/Props, layout regenerated from /repo "
                                       "every run, helpers.py translated to Lean every run and proved equal to the model (lean/Gen), correspondence check model vs real code on generated op sequences (file and memory back-ends), "
                                       "Python reference oracle as failing-input finder"}],
        "checks": checks,
        "notes": "See DESIGN.md. Checks honour VERIF_SEED / VERIF_TIER / TRAPH_REPO (tree under test, default /repo).",
        "not_applicable": [{"property_id": k, "reason": v} for k, v in sorted(NOT_YET.items())],
    }
    with open(os.path.join(ROOT, "MANIFEST.json"), "w") as f:
        json.dump(m, f, indent=1)
    print("MANIFEST.json: %d checks, %d not claimed" % (len(checks), len(NOT_YET)))

if __name__ == "__main__":
    main()

#!/usr/bin/env python3
"""Writes MANIFEST.json from the table below (kept here so that the per-property texts live in one place)."""
import json, os

HERE = os.path.dirname(os.path.abspath(__file__))
ROOT = os.path.abspath(os.path.join(HERE, ".."))

COMMON_NOTE = ("Trusted base: Lean 4.33 kernel (thorough tier: leanchecker re-check), axioms ⊆ {propext, Classical.choice, "
               "Quot.sound} (audited by #print axioms on every Cxx_* theorem each run; no sorry/native_decide/bv_decide/own axioms), "
               "gen/gen_layout.py (layout measured through the package), the correspondence harness and the compiled model driver. "
               "Modelled, not verified: CPython bytes/dict/Counter/heapq/generator semantics, struct, the re engine on Hyphe's rule family, "
               "OS files as byte arrays. ")

P = {
 "C01": ('refinement: Shape (ghost search tree) is an invariant of every request; the page set is exactly the submitted LRUs',
         "Theorems (Props/C01.lean): for every history from a fresh index (any rules, any configuration) the state represents a ghost ternary search tree (C01_shape_invariant); an LRU is a page iff some earlier request submitted it (as a page, link end or batch member), it is crawled iff some request submitted it as crawled (C01_pages, C01_crawled); the full enumeration lists exactly those, each once, with the current mark (C01_enumeration); a report counts exactly the pages that were not pages before (C01_report); re-submission changes nothing (C01_resubmit). Proved by induction over request lists with per-loop-iteration lemmas (Proofs/ShapeOps, PageSet). Requests that abort with the library's KeyError mid-way are described by their partial effect (hypothesis NoKeyErr names them)."),
 "C02": ('codec round-trip, stem read-back for every length, ghost search tree: locate / wind up / traverse agree in every reachable state',
         "Theorems (Props/C02.lean): block codec round-trips; a stem of any length written as head+tail blocks reads back byte-identical in ceil(len/74) blocks; in every reachable state descent by stems finds exactly the tree's entry (C02_locate), no LRU is stored twice (C02_no_duplicates), the full traversal lists exactly the entries (C02_traversal, _covers_map), winding a block up returns the LRU under which descent finds it (C02_windup, C02_insert_then_windup); the invariant holds initially and after every insertion (C02_inv, C02_inv_init)."),
 "C03": ("stub-list lemmas (prepend, frame, Counter multiplicities); lift to histories in progress",
         "Theorems (Props/C03.lean): a list write prepends exactly the submitted ends and changes no other list; reported weights are the "
         "multiplicities of the walk, each target once, totals preserved. In/out symmetry over histories is tied by correspondence "
         "(get_page_links × 8 switch sets, links_iter both ways, degrees) and the oracle's submission multiset."),
 "C04": ('refinement: resolution = longest stem-prefix entry carrying a webentity, in every reachable state',
         "Theorems (Props/C04.lean): in every state representing a search tree (all reachable ones, C01_shape_invariant) retrieve_webentity / retrieve_prefix return the id and LRU of the longest stem-prefix of the query whose block carries a webentity, for indexed, partially indexed and absent queries, and fail with the library's own error iff there is none (C04_resolve, C04_errors, C04_indexed, C04_prefix_of_query); both are projections of one walk (C04_consistent); the point query answers the located block (C04_point_query). The 'net effect of the edits' half (which blocks carry which id after a history of edits) is tied by correspondence + oracle; its proof is in progress (DESIGN §12.2)."),
 "C05": ('traversal answer characterised exactly per prefix (membership iff not cut by a foreign webentity), in every reachable state',
         'Theorems (Props/C05.lean): per prefix, the answer is exactly the pages below the prefix not separated from it by a block carrying another webentity, with current marks (C05_walk_exact, C05_pages_sound, C05_nested_excluded); crawled-only is exactly the filter; unknown prefix refused.'),
 "C06": ("decision ladder stated outright, generic in the rule table",
         "Theorems (Props/C06.lean): K ≤ E creates and reports nothing and leaves the trie as add_page left it; get_potential_prefix runs the same "
         "ladder read-only (covered / rule-wins cases). Rule application itself (re engine) is modelled and validated against re on every run."),
 "C07": ('carried webentity = resolution for every block met by the network traversal; Counter aggregation lemmas',
         "Theorems (Props/C07.lean): the webentity the network traversal carries down to a page equals the resolution of that page (C07_carried_is_resolution, _unique, _sound); Counter aggregation adds exactly the link weight, one entry per target webentity. Fast/slow/transpose equalities and the sums over link lists are tied by correspondence on all switch sets and by the oracle's recomputation from the abstract index."),
 "C08": ("switch logic per source page stated outright + Counter multiplicities",
         "Theorems (Props/C08.lean): per page, the returned links are exactly the targets passing the stated switch test with their multiplicity, "
         "each once; cited/citing answers are sets; no switch is refused."),
 "C09": ('token codec, in-order traversal theorems: ascending, resume, no repeat / no skip for every chunk size and every tree',
         'Theorems (Props/C09.lean): tokens round-trip for every (prefix index, path); L/C/R paths are injective; the paginated traversal emits pages in ascending path order (C09_ascending), a token denotes exactly the page it was issued for (C09_token_denotes), resuming from a token continues with the in-order successor, so chunks concatenate to the unpaginated answer with no repeat and no skip (C09_resume, C09_no_repeat_no_skip), also when pages were inserted between calls (the heap order keeps paths valid). Runtime limit F09 (RecursionError beyond ~1000 nested siblings) is a known finding the unbounded model cannot exhibit.'),
 "C10": ('token codec + bookkeeping totality + resume theorem shared with C09',
         'Theorems (Props/C10.lean): tokens round-trip; a token is built from a pair recorded together (repaired D3) so resumption never lacks the prefix index (C10_tokenOf_total); resumption continues with the in-order successor page (C10_resume); no-switch refused. Equality of the concatenated link chunks with the unpaginated answer is tied by correspondence and oracle on full episodes.'),
 "C11": ("codec round-trip of whole images; reopen/clear by definition of the model + real reopen in the harness",
         "Theorems (Props/C11.lean): decoding both images returns the block arrays (the files are the state), whole numbers of blocks, reopen writes "
         "nothing, clear(d, rs) is literally a fresh index. The harness really closes and reopens the folder and compares with the never-closed run."),
 "C12": ("invariant on the header counter over all operations",
         "Theorems (Props/C12.lean): every id reported by a request lies strictly above the counter before the request and at most at the counter "
         "after it; the list of ids issued along any history without clear is strictly increasing, across reopen and deletions."),
 "C13": ('pruning-mark invariant for every request; children answer exact in every reachable state',
         'Theorems (Props/C13.lean): in every reachable state a block that has a webentity strictly below it carries the can-have-child-webentities mark (C13_mark_invariant, an invariant of every request incl. deletions, which may leave marks set but never clear a needed one: C13_unmarks), hence the pruned DFS omits nothing: the children answer is exactly the set of ids of webentity blocks strictly below the given prefixes, minus 0 and the queried id (C13_children); parents are exactly the ids on the parent chain (C13_parents_sound); answers are sorted duplicate-free sets; unknown prefix refused.'),
 "C14": ("frame property by construction (queries are functions of the state) + implementation-only byte tie",
         "Theorem (Props/C14.lean): a read request returns the state unchanged whatever it answers. The tie compares both real store images and the "
         "storage write log before/after every read on both back-ends."),
 "C15": ("simulation between storage machines",
         "Theorems (Props/C15.lean): FileStorage (bytes+cursor), MemoryStorage (slice assignment) and MemMapStorage simulate one block list under the "
         "call discipline, for any sequence of storage calls; cursor reads are shown back-end dependent (the D2 hazard)."),
 "C16": ("coroutine state machines + frame theorems for the query machines; schedule safety by correspondence; F16 known finding",
         "Model: the four generators as explicit state machines yielding exactly where the code does, with the stale node copies the code holds "
         "across a yield. Theorems (Props/C16.lean): query sections never write; finished generators are inert. The tie advances the real "
         "generators (should_yield wrapped to True) and the model under the same random schedules of 2-3 requests and compares every step's "
         "status, the final answers and the final bytes; the oracle states C16 directly (no failure, final pages/links = sequential application, "
         "symmetry, query bounds from atomic probes after every step). What the model cannot exhibit: CPython generator semantics are modelled, "
         "validated by the tie, not verified. The soundness clause for queries is false of the code (F16, known finding)."),
 "C17": ("algebraic laws of the byte-level function on the grammar, via a proved stem-level bridge",
         "Theorems (Props/C17.lean): head, nodup, local, closed (permutation) for every LRU of the property's grammar, incl. path stems containing "
         "'s:http' / 'h:'; the byte-level replace/split code equals the stem-level specification."),
 "C18": ('per-write heap order: every prefix of the write log is below the completed state; open-time decision logic',
         "Theorems (Props/C18.lean): every single storage write of every request is increasing in the heap order, so the files rebuilt from ANY prefix of the write log (block granularity) are below every later state (C18_subset, C18_cut_opens_below, C18_log_faithful) and report only pages/links the completed history reports (C18_reports_subset); exactly torn appends are refused with the library's own error, in-place rewrites cannot be torn, a cut on a write boundary opens to exactly the replayed prefix (C18_refuse, C18_rewrite_atomic, C18_boundary_opens, C18_opens_prefix). The tie rebuilds the real files for cuts of the real write log (block and byte granularity, forced multi-block stems), reopens them with the real code and runs all observers. Assumed, not exhibited: a crash leaves a prefix of the program-ordered writes (no OS reordering)."),
 "C19": ('accounting invariant: trie size = 1 + Σ blocksFor(stem) over entries, in every reachable state; exact growth; two stubs per link',
         "Theorems (Props/C19.lean): ceil(len/n) chunks, lossless, for every length; SizeOk (trie blocks = header + Σ over the ghost tree's entries of blocksFor(last stem)) holds initially and is preserved by insertion (C19_trie, C19_trie_init), an insertion grows the file by exactly the blocks of the new stems (C19_growth) and by nothing if the LRU is known (C19_idempotent, _page); n link ends take n stubs and no trie block (C19_stubs, C19_links)."),
 "C20": ("bounded heap keeps the k largest keys (invariant over the fold)",
         "Theorems (Props/C20.lean): length min(k,n), sub-multiset, order, no omitted entry above a kept one; indegree of a linked page = distinct "
         "sources. D4 (lonely page reported with 1) is a known finding mirrored by a probed configuration bit."),
}
NOT_YET = {
}

def main():
    checks = []
    for pid in sorted(P):
        tech, text = P[pid]
        if not os.path.exists(os.path.join(ROOT, "lean", "Props", pid + ".lean")):
            NOT_YET[pid] = "property theorems not yet in the build"
            continue
        checks.append({
            "property_id": pid,
            "quick_cmd": "bin/check %s --tier quick" % pid,
            "thorough_cmd": "bin/check %s --tier thorough" % pid,
            "evidence_file": "evidence/%s.json" % pid,
            "replay_cmd_template": "bin/replay {path}",
            "engine": "lean-model+correspondence",
            "level_claimed": {"category": "proof", "text": text, "design_ref": "DESIGN.md §7 " + pid},
            "level_note": COMMON_NOTE,
            "technique": "Lean 4 proof: " + tech + "; model tied to the source by generated layout + differential correspondence",
        })
    m = {
        "version": 1,
        "setup_cmd": "cd lean && lake build Traph driver Proofs Props",
        "hooks": {"guard": "HYPHE_TRAPH_VERIF", "enable": "no source hooks are used: the harness wraps FileStorage.write / MemoryStorage.write / "
                  "TraphIteratorState.should_yield in its own process", "baseline_off_cmd": "cd /repo && /venv/bin/python -m pytest -q -p no:cacheprovider",
                  "source_commits": [], "add_only": True},
        "engines": [{"name": "lean-model+correspondence", "path": "lean/ harness/ gen/ bin/", "serves_properties": sorted(P),
                     "kind_free_text": "hand-written executable Lean 4 model (byte-exact), theorems in lean/Props, layout regenerated from /repo "
                                       "every run, correspondence check model vs real code on generated op sequences (file and memory back-ends), "
                                       "Python reference oracle as failing-input finder"}],
        "checks": checks,
        "notes": "See DESIGN.md. Checks honour VERIF_SEED / VERIF_TIER / TRAPH_REPO (tree under test, default /repo).",
        "not_applicable": [{"property_id": k, "reason": v} for k, v in sorted(NOT_YET.items())],
    }
    with open(os.path.join(ROOT, "MANIFEST.json"), "w") as f:
        json.dump(m, f, indent=1)
    print("MANIFEST.json: %d checks, %d not claimed" % (len(checks), len(NOT_YET)))

if __name__ == "__main__":
    main()

import Traph.Basic
/-! struct.pack / struct.unpack for the four block formats, with offsets and widths taken from the
    generated `Layout`. Encoders are concatenations with explicit padding so that round-trip proofs are
    list reasoning; `Proofs/LayoutOk` shows by `decide` that the pads are what the offsets say. -/
namespace Traph
open Layout

def toLE : Nat → Nat → Bytes
  | _, 0 => []
  | n, k + 1 => n % 256 :: toLE (n / 256) k

def ofLE : Bytes → Nat
  | [] => 0
  | b :: bs => b + 256 * ofLE bs

def zeros (n : Nat) : Bytes := List.replicate n 0

def b2n (b : Bool) : Nat := if b then 1 else 0

def Flags.encode (f : Flags) : Nat :=
  b2n f.page * 2 ^ fPage + b2n f.crawled * 2 ^ fCrawled + b2n f.linked * 2 ^ fLinked +
  b2n f.deleted * 2 ^ fDeleted + b2n f.rule * 2 ^ fRule + b2n f.hasTail * 2 ^ fHasTail +
  b2n f.isTail * 2 ^ fIsTail + b2n f.noChild * 2 ^ fNoChild

def bitAt (n i : Nat) : Bool := (n / 2 ^ i) % 2 == 1

def Flags.decode (n : Nat) : Flags :=
  { page := bitAt n fPage, crawled := bitAt n fCrawled, linked := bitAt n fLinked,
    deleted := bitAt n fDeleted, rule := bitAt n fRule, hasTail := bitAt n fHasTail,
    isTail := bitAt n fIsTail, noChild := bitAt n fNoChild }

/-- a Pascal string field of `field` bytes: length byte, payload, zero padding -/
def encodePascal (field : Nat) (s : Bytes) : Bytes :=
  let p := s.take (field - 1)
  p.length :: p ++ zeros (field - 1 - p.length)

def decodePascal (field : Nat) (b : Bytes) : Bytes :=
  match b with
  | [] => []
  | n :: rest => (rest.take (field - 1)).take n

/-- 128-byte image of a trie block; pointers are stored as byte offsets -/
def encodeCell (c : Cell) : Bytes :=
  encodePascal stemField c.chunk ++ zeros (offFlags - (offStem + stemField)) ++
  [c.flags.encode] ++ zeros (offWe - (offFlags + 1)) ++
  toLE c.we widthWe ++ zeros (offLeft - (offWe + widthWe)) ++
  toLE (c.left * trieBlock) widthLeft ++ toLE (c.right * trieBlock) widthRight ++
  toLE (c.child * trieBlock) widthChild ++ toLE (c.parent * trieBlock) widthParent ++
  toLE (c.out * linkBlock) widthOut ++ toLE (c.inn * linkBlock) widthInn

def slice (b : Bytes) (off width : Nat) : Bytes := (b.drop off).take width

def decodeCell (b : Bytes) : Cell :=
  { chunk  := decodePascal stemField (b.drop offStem)
    flags  := Flags.decode ((b.drop offFlags).headD 0)
    we     := ofLE (slice b offWe widthWe)
    left   := ofLE (slice b offLeft widthLeft) / trieBlock
    right  := ofLE (slice b offRight widthRight) / trieBlock
    child  := ofLE (slice b offChild widthChild) / trieBlock
    parent := ofLE (slice b offParent widthParent) / trieBlock
    out    := ofLE (slice b offOut widthOut) / linkBlock
    inn    := ofLE (slice b offInn widthInn) / linkBlock }

def encodeTrieHeader (id : Nat) : Bytes :=
  zeros hdrOffId ++ toLE id hdrWidthId ++ zeros (hdrOffVer - (hdrOffId + hdrWidthId)) ++
  encodePascal hdrVerField version ++ zeros (hdrBlock - (hdrOffVer + hdrVerField))

def decodeTrieHeaderId (b : Bytes) : Nat := ofLE (slice b hdrOffId hdrWidthId)

def encodeStub (s : Stub) : Bytes :=
  toLE (s.target * trieBlock) widthTarget ++ toLE (s.prev * linkBlock) widthPrev

def decodeStub (b : Bytes) : Stub :=
  { target := ofLE (slice b offTarget widthTarget) / trieBlock
    prev   := ofLE (slice b offPrev widthPrev) / linkBlock }

def encodeLinkHeader : Bytes :=
  zeros linkHdrOffVer ++ encodePascal linkHdrVerField version ++
  zeros (linkHdrBlock - (linkHdrOffVer + linkHdrVerField))

/-- the link header decoded with the *stub* format, raw numbers (what `LinkStoreNode.read(0)` sees).
    Only `prev` (is it non-zero?) is ever observable. -/
def headerStubRaw : Nat × Nat :=
  (ofLE (slice encodeLinkHeader offTarget widthTarget), ofLE (slice encodeLinkHeader offPrev widthPrev))

/-- whole file images -/
def encodeTrie (s : State) : Bytes :=
  if s.trie.size = 0 then [] else
  encodeTrieHeader s.hdrId ++ ((s.trie.toList.drop 1).map encodeCell).flatten

def encodeLinks (s : State) : Bytes :=
  if s.links.size = 0 then [] else
  encodeLinkHeader ++ ((s.links.toList.drop 1).map encodeStub).flatten

/-- cut a byte list into blocks of `n` bytes (the last may be short) -/
def blocksGo (n : Nat) : Nat → Bytes → List Bytes
  | 0, _ => []
  | fuel + 1, b => if b.isEmpty then [] else b.take n :: blocksGo n fuel (b.drop n)

def blocks (n : Nat) (b : Bytes) : List Bytes := blocksGo n (b.length + 1) b

def decodeTrieImage (b : Bytes) : Nat × Array Cell :=
  match blocks trieBlock b with
  | [] => (0, #[])
  | h :: rest => (decodeTrieHeaderId h, (({} : Cell) :: rest.map decodeCell).toArray)

def decodeLinksImage (b : Bytes) : Array Stub :=
  match blocks linkBlock b with
  | [] => #[]
  | _ :: rest => (({} : Stub) :: rest.map decodeStub).toArray

/-- FNV-1a 64 over a byte list (driver ⇄ harness image comparison) -/
def fnv64 (b : Bytes) : Nat :=
  b.foldl (fun h x => ((h ^^^ x) * 1099511628211) % 18446744073709551616) 14695981039346656037

end Traph

import Traph.Helpers
import Traph.Storage
/-! Semantics of the Python primitives that `gen/gen_helpers.py` emits when it translates `traph/helpers.py`.
    Hand-written and trusted (like the rest of "CPython `bytes`/`list` semantics"); the byte-string primitives are the
    ones of `Traph/Helpers.lean`, so the generated code and the hand-written model share one reading of `bytes`.

    A translated function runs in `Except Py.Err`: `.exc name` is a Python exception the real code would raise there,
    `.unsupported why` marks an execution that leaves the translator's domain (a negative integer, a `while` loop that
    outlives its fuel).  The equivalence theorems show that neither happens where the model answers. -/
namespace Traph.Py

inductive Err where
  | exc (name : String)
  | unsupported (why : String)
deriving Repr, DecidableEq, Inhabited

abbrev M := Except Err

/-- `b.startswith(p)` -/
def startswith (b p : Bytes) : Bool := startsWith b p

/-- `b.replace(old, new, 1)` -/
def replace1 (b old new : Bytes) : Bytes := if old.isEmpty then new ++ b else replaceFirst old new b

/-- `b.split(sep)` for a one-byte separator -/
def split1 (b : Bytes) (sep : Nat) : List Bytes := splitOn sep b

/-- `sep.join(parts)` for a separator of at most one byte -/
def join (sep : Bytes) (parts : List Bytes) : Bytes :=
  match sep with
  | [] => parts.flatten
  | c :: _ => joinWith c parts

/-- `b[i:j]` for `0 ≤ i`, `0 ≤ j` -/
def slice {α} (b : List α) (i j : Nat) : List α := (b.drop i).take (j - i)

/-- `l[:-1]` -/
def dropLast {α} (l : List α) : List α := l.dropLast

/-- `l[-1]` -/
def last {α} (l : List α) : M α :=
  match l.getLast? with
  | some x => .ok x
  | none => .error (.exc "IndexError")

/-- `l.pop(-1)` as a statement: the list afterwards -/
def popLast {α} (l : List α) : M (List α) :=
  if l.isEmpty then .error (.exc "IndexError") else .ok l.dropLast

/-- `s[i]` on a string: the one-character string -/
def strIndex (s : Bytes) (i : Nat) : M Bytes :=
  match s[i]? with
  | some c => .ok [c]
  | none => .error (.exc "IndexError")

/-- `d[k]` -/
def dictGet (d : List (Bytes × Nat)) (k : Bytes) : M Nat :=
  match d.find? (fun kv => kv.1 == k) with
  | some kv => .ok kv.2
  | none => .error (.exc "KeyError")

/-- `a - b` on integers known to the translator as naturals -/
def sub (a b : Nat) : M Nat := if b ≤ a then .ok (a - b) else .error (.unsupported "negative integer")

/-- `int(math.ceil(a / float(b)))` (exact below 2^53) -/
def ceilDiv (a b : Nat) : M Nat := if b = 0 then .error (.exc "ZeroDivisionError") else .ok ((a + b - 1) / b)

/-- `"%i" % n` -/
def fmtInt (n : Nat) : Bytes := natToDec n

/-- `int(s)` on a string of ASCII decimal digits (Python's `int` also accepts signs, blanks and underscores: not modelled) -/
def int (s : Bytes) : M Nat :=
  match decToNat? s with
  | some n => .ok n
  | none => .error (.exc "ValueError")

/-- `a, b = l` -/
def unpack2 {α} (l : List α) : M (α × α) :=
  match l with
  | [a, b] => .ok (a, b)
  | _ => .error (.exc "ValueError")

/-- `a % b` -/
def mod (a b : Nat) : M Nat := if b = 0 then .error (.exc "ZeroDivisionError") else .ok (a % b)

/-- a Python file object opened in binary read/write mode: the file's bytes and the cursor (an OS file as a byte array,
    as everywhere in this development; writing past the end zero-fills the gap, `overwriteAt`) -/
structure File where
  data : Bytes := []
  pos  : Nat := 0
deriving Repr, DecidableEq, Inhabited

namespace File
/-- `f.seek(n)` -/
def seek (f : File) (n : Nat) : File := { f with pos := n }
/-- `f.seek(0, os.SEEK_END)` -/
def seekEnd (f : File) : File := { f with pos := f.data.length }
/-- `f.tell()` -/
def tell (f : File) : Nat := f.pos
/-- `f.read(n)` -/
def read (f : File) (n : Nat) : File × Bytes :=
  let d := (f.data.drop f.pos).take n
  ({ f with pos := f.pos + d.length }, d)
/-- `f.write(data)` -/
def write (f : File) (data : Bytes) : File :=
  { data := overwriteAt f.data f.pos data, pos := f.pos + data.length }
end File

/-- `a[i:j] = data` on a bytearray (slice bounds are clamped to the length) -/
def sliceAssign (a : Bytes) (i j : Nat) (data : Bytes) : Bytes := a.take i ++ data ++ a.drop (max i j)

/-- `x or None` -/
def orNone (b : Bytes) : Option Bytes := if b.isEmpty then none else some b

end Traph.Py

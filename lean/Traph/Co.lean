import Traph.Step
/-! C16 — the long-running requests (all eleven `*_iter` generators) as explicit coroutine state machines, with `should_yield`
    always true. A *section* is what runs between two `yield`s; `resume` runs one section. The machines
    hold the same stale node copies the Python generators hold across a yield (a traversal pushes the
    pointers of the copy it read *before* it yielded). -/
namespace Traph
open State

/-- status of a generator after one `next()` -/
inductive CoOut where
  | yielded
  | done (a : Ans)
  | failed (e : Err)
deriving Repr, DecidableEq, Inhabited

/-! ### index_batch_crawl_iter -/

structure BatchSt where
  data     : List (Bytes × List Bytes) := []           -- sources not started yet
  cur      : Option (Bytes × List Bytes × List Nat) := none   -- source in progress: lru, targets left, target_blocks
  pendIn   : Option Bytes := none                       -- after the yield: `inlinks[target].append(source)` first
  pages    : List (Bytes × Nat × Bool) := []            -- lru ↦ (block, crawled bit of the cached node copy)
  inl      : List (Bytes × List Bytes) := []
  flush    : Option (List (Bytes × List Bytes)) := none -- second phase: in-lists still to write
  rep      : Report := {}
deriving Repr, Inhabited

def pagesGet (p : List (Bytes × Nat × Bool)) (l : Bytes) : Option (Nat × Bool) := dictGet? p l
def pagesSet (p : List (Bytes × Nat × Bool)) (l : Bytes) (v : Nat × Bool) : List (Bytes × Nat × Bool) := dictSet p l v
def pageBlock (p : List (Bytes × Nat × Bool)) (l : Bytes) : Nat := ((pagesGet p l).map (·.1)).getD 0

/-- one section of the crawl batch (fuel bounds the number of loop iterations inside the section) -/
def batchResume : Nat → State → BatchSt → State × BatchSt × CoOut
  | 0, s, b => (s, b, .failed (.other "fuel"))
  | fuel + 1, s, b =>
    match b.flush with
    | some [] => (s, b, .done (.report b.rep))
    | some ((t, srcs) :: rest) =>
      -- target_node.refresh(); store.add_inlinks(...); yield
      let s1 := s.addStubs (pageBlock b.pages t) (srcs.map (pageBlock b.pages)) false
      (s1, { b with flush := some rest }, .yielded)
    | none =>
      match b.cur with
      | none =>
        match b.data with
        | [] => batchResume fuel s { b with flush := some b.inl }     -- first loop over: start the in-list pass
        | (src, tgts) :: more =>
          match pagesGet b.pages src with
          | none =>
            (match s.addPageCore src true with
             | (s1, _, .error e) => (s1, b, .failed e)
             | (s1, n, .ok r) =>
               batchResume fuel s1 { b with data := more, cur := some (src, tgts, []),
                                            pages := pagesSet b.pages src (n, (s1.cell n).flags.crawled), rep := b.rep.add r })
          | some (n, cachedCrawled) =>
            if !cachedCrawled then
              let s1 := s.modCell n (fun c => { c with flags := { c.flags with crawled := true } })
              batchResume fuel s1 { b with data := more, cur := some (src, tgts, []), pages := pagesSet b.pages src (n, true) }
            else batchResume fuel s { b with data := more, cur := some (src, tgts, []) }
      | some (src, tgts, tb) =>
        let inl := match b.pendIn with | some t => multiAdd b.inl t src | none => b.inl
        let b := { b with inl := inl, pendIn := none }
        match tgts with
        | [] =>
          -- source_node.refresh(); store.add_outlinks(source_node, target_blocks)
          let n := pageBlock b.pages src
          let s1 := s.addStubs n tb true
          batchResume fuel s1 { b with cur := none, pages := pagesSet b.pages src (n, (s.cell n).flags.crawled) }
        | t :: ts =>
          match pagesGet b.pages t with
          | none =>
            (match s.addPageCore t false with
             | (s1, _, .error e) => (s1, b, .failed e)
             | (s1, n, .ok r) =>
               -- new target: block recorded, then the generator yields *before* recording the in-link
               (s1, { b with cur := some (src, ts, tb ++ [n]), pendIn := some t,
                             pages := pagesSet b.pages t (n, (s1.cell n).flags.crawled), rep := b.rep.add r }, .yielded))
          | some (n, _) =>
            batchResume fuel s { b with cur := some (src, ts, tb ++ [n]), inl := multiAdd b.inl t src }

/-! ### add_webentity_creation_rule_iter -/

structure RuleSt where
  started : Bool := false
  anchor  : Bytes := []
  rule    : Rule := .never
  start   : Nat := 0
  stack   : List (Nat × Bytes) := []
  pend    : Option (Nat × Bytes × Bytes × Cell) := none   -- (block, lru prefix, current lru, copy read before the yield)
  rep     : Report := {}
deriving Repr, Inhabited

def dfsPush (startBlock : Nat) (b : Nat) (lru cur : Bytes) (c : Cell) (stack : List (Nat × Bytes)) : List (Nat × Bytes) :=
  let stack := if b ≠ startBlock then
      (let st := if c.right ≠ 0 then (c.right, lru) :: stack else stack
       if c.left ≠ 0 then (c.left, lru) :: st else st) else stack
  if c.child ≠ 0 then (c.child, cur) :: stack else stack

/-- one section of the rule installation: (first: register + flag), expand the node of the previous
    section from its stale copy, pop the next node, re-insert it if it is a page, yield -/
def ruleResume (s : State) (r : RuleSt) : State × RuleSt × CoOut :=
  let (s, r) :=
    if r.started then (s, r) else
    let s0 := { s with rules := dictSet s.rules r.anchor r.rule }
    let (s1, n, _) := s0.addLru (lruIter r.anchor) false
    let s2 := s1.modCell n (fun c => { c with flags := { c.flags with rule := true } })
    (s2, { r with started := true, start := n, stack := [(n, lruDirname r.anchor)] })
  let stack := match r.pend with
    | some (b, lru, cur, c) => dfsPush r.start b lru cur c r.stack
    | none => r.stack
  match stack with
  | [] => (s, { r with stack := [], pend := none }, .done (.report r.rep))
  | (b, lru) :: rest =>
    let c := s.cell b
    let cur := lru ++ s.stemAt b
    if c.flags.page then
      match s.addPageCore cur false with
      | (s1, _, .error e) => (s1, { r with stack := rest, pend := none }, .failed e)
      | (s1, _, .ok r1) => (s1, { r with stack := rest, pend := some (b, lru, cur, c), rep := r.rep.add r1 }, .yielded)
    else (s, { r with stack := rest, pend := some (b, lru, cur, c) }, .yielded)

/-! ### get_webentity_pages_iter -/

structure PagesSt where
  prefixes : List Bytes := []
  start    : Nat := 0
  stack    : List (Nat × Bytes × Nat) := []
  pend     : Option (Nat × Bytes × Bytes × Nat × Cell) := none    -- (block, lru prefix, current lru, level, stale copy)
  pages    : List (Bytes × Bool) := []
deriving Repr, Inhabited

def weDfsPush (startBlock : Nat) (b : Nat) (lru cur : Bytes) (level : Nat) (c : Cell)
    (stack : List (Nat × Bytes × Nat)) : List (Nat × Bytes × Nat) :=
  let relevant := b = startBlock || c.we = 0
  let stack := if b ≠ startBlock then
      (let st := if c.right ≠ 0 then (c.right, lru, level) :: stack else stack
       if c.left ≠ 0 then (c.left, lru, level) :: st else st) else stack
  if relevant && c.child ≠ 0 then (c.child, cur, level + 1) :: stack else stack

def pagesResume : Nat → State → PagesSt → PagesSt × CoOut
  | 0, _, p => (p, .failed (.other "fuel"))
  | fuel + 1, s, p =>
    let stack := match p.pend with
      | some (b, lru, cur, level, c) => weDfsPush p.start b lru cur level c p.stack
      | none => p.stack
    let p := { p with stack := stack, pend := none }
    match p.stack with
    | [] =>
      (match p.prefixes with
       | [] => (p, .done (.pages p.pages))
       | pf :: more =>
         match s.lruNode (lruIter pf) with
         | none => (p, .failed .traph)
         | some n => pagesResume fuel s { p with prefixes := more, start := n, stack := [(n, lruDirname pf, 0)] })
    | (b, lru, level) :: rest =>
      let c := s.cell b
      let cur := lru ++ s.stemAt b
      let relevant := b = p.start || c.we = 0
      if relevant && c.flags.page then
        ({ p with stack := rest, pend := some (b, lru, cur, level, c), pages := p.pages ++ [(cur, c.flags.crawled)] }, .yielded)
      else
        pagesResume fuel s { p with stack := weDfsPush p.start b lru cur level c rest }

/-! ### get_webentities_links_iter -/

structure NetSt where
  out      : Bool := true
  auto     : Bool := false
  started  : Bool := false
  stack    : List (Nat × Nat) := []
  pend     : Option (Nat × Nat × Nat × Cell) := none      -- (block, incoming we, current we, stale copy)
  pageWe   : List (Nat × Nat) := []
  pointers : List (Nat × Nat) := []
  phase2   : Option (List (Nat × Nat)) := none             -- pointers still to process
  curSrc   : Nat := 0
  curList  : List (Nat × Nat) := []                         -- Counter snapshot of the list in progress
  graph    : List NetRow := []
deriving Repr, Inhabited

def dfsWePush (b we cur : Nat) (c : Cell) (stack : List (Nat × Nat)) : List (Nat × Nat) :=
  let _ := b
  let st := if c.right ≠ 0 then (c.right, we) :: stack else stack
  let st := if c.left ≠ 0 then (c.left, we) :: st else st
  if c.child ≠ 0 then (c.child, cur) :: st else st

def netResume : Nat → State → NetSt → NetSt × CoOut
  | 0, _, n => (n, .failed (.other "fuel"))
  | fuel + 1, s, n =>
    match n.phase2 with
    | some ptrs =>
      (match n.curList with
       | (t, w) :: more =>
         (match dictGet? n.pageWe t with
          | none => netResume fuel s { n with curList := more }
          | some tWe =>
            if !n.auto && n.curSrc = tWe then netResume fuel s { n with curList := more }
            else ({ n with curList := more,
                           graph := netTouch n.graph n.curSrc (fun r => { r with targets := counterAdd r.targets tWe w }) }, .yielded))
       | [] =>
         match ptrs with
         | [] => (n, .done (.net n.graph))
         | (src, head) :: rest => netResume fuel s { n with phase2 := some rest, curSrc := src, curList := s.weighted head })
    | none =>
      let n := if n.started then n else { n with started := true, stack := if s.trie.size ≤ 1 then [] else [(1, 0)] }
      let stack := match n.pend with
        | some (b, we, cur, c) => dfsWePush b we cur c n.stack
        | none => n.stack
      let n := { n with stack := stack, pend := none }
      match n.stack with
      | [] => netResume fuel s { n with phase2 := some n.pointers }
      | (b, we) :: rest =>
        let c := s.cell b
        let cur := if c.we ≠ 0 then c.we else we
        if c.flags.page && cur ≠ 0 then
          let g := netTouch n.graph cur (fun r => if c.flags.crawled then { r with crawled := r.crawled + 1 }
                                                   else { r with uncrawled := r.uncrawled + 1 })
          let head := if n.out then c.out else c.inn
          ({ n with stack := rest, pend := some (b, we, cur, c), graph := g, pageWe := dictSet n.pageWe b cur,
                    pointers := if head ≠ 0 then n.pointers ++ [(cur, head)] else n.pointers }, .yielded)
        else netResume fuel s { n with stack := dfsWePush b we cur c rest }

/-! ### the seven remaining generators (read-only queries)

    They share three traversal cursors. A cursor is the suspended Python traversal generator: the stack of
    block numbers, and `pend` = the node object it yielded last together with the locals computed before
    the `yield` (the children of that node are pushed from this *stale* copy when the traversal is resumed).
    `next` runs the traversal to its next `yield`. -/

/-- `weDfsPush` with the `max_depth` cut of `webentity_dfs_iter` -/
def weDfsPushD (maxDepth : Option Nat) (startBlock : Nat) (b : Nat) (lru cur : Bytes) (level : Nat) (c : Cell)
    (stack : List (Nat × Bytes × Nat)) : List (Nat × Bytes × Nat) :=
  let relevant := b = startBlock || c.we = 0
  let stack := if b ≠ startBlock then
      (let st := if c.right ≠ 0 then (c.right, lru, level) :: stack else stack
       if c.left ≠ 0 then (c.left, lru, level) :: st else st) else stack
  if relevant && c.child ≠ 0 then
    (match maxDepth with
     | some d => if level ≥ d then stack else (c.child, cur, level + 1) :: stack
     | none => (c.child, cur, level + 1) :: stack)
  else stack

/-- what `next()` on a traversal returns -/
inductive CurOut where
  | item (b : Nat) (lru : Bytes) (c : Cell)     -- the node object (block, copy read at pop time) and its LRU
  | stop
  | fail (e : Err)
deriving Repr, Inhabited

/-- `for prefix in prefixes: starting_node = lru_node(prefix) …; for node, lru in webentity_dfs_iter(starting_node, prefix, max_depth)`,
    suspended -/
structure WeCur where
  prefixes : List Bytes := []
  depth    : Option Nat := none
  start    : Nat := 0
  stack    : List (Nat × Bytes × Nat) := []
  pend     : Option (Nat × Bytes × Bytes × Nat × Cell) := none    -- (block, lru prefix, current lru, level, stale copy)
deriving Repr, Inhabited, DecidableEq

def WeCur.next : Nat → State → WeCur → WeCur × CurOut
  | 0, _, w => (w, .fail (.other "fuel"))
  | fuel + 1, s, w =>
    let stack := match w.pend with
      | some (b, lru, cur, level, c) => weDfsPushD w.depth w.start b lru cur level c w.stack
      | none => w.stack
    let w := { w with stack := stack, pend := none }
    match w.stack with
    | [] =>
      (match w.prefixes with
       | [] => (w, .stop)
       | pf :: more =>
         match s.lruNode (lruIter pf) with
         | none => (w, .fail .traph)
         | some n => WeCur.next fuel s { w with prefixes := more, start := n, stack := [(n, lruDirname pf, 0)] })
    | (b, lru, level) :: rest =>
      let c := s.cell b
      let cur := lru ++ s.stemAt b
      if b = w.start || c.we = 0 then
        ({ w with stack := rest, pend := some (b, lru, cur, level, c) }, .item b cur c)
      else WeCur.next fuel s { w with stack := weDfsPushD w.depth w.start b lru cur level c rest }

/-- enough for one `next()`: every iteration pops a block or opens a prefix -/
def WeCur.fuel (s : State) (w : WeCur) : Nat := (s.trie.size + 2) * (w.prefixes.length + 2) + w.stack.length + 2

/-- `dfs_iter(starting_node, prefix, skip_childless_paths)` under the same loop over prefixes -/
structure DfsCur where
  prefixes : List Bytes := []
  skip     : Bool := false
  start    : Nat := 0
  stack    : List (Nat × Bytes) := []
  pend     : Option (Nat × Bytes × Bytes × Cell) := none          -- (block, lru prefix, current lru, stale copy)
deriving Repr, Inhabited, DecidableEq

def dfsPushSkip (skip : Bool) (startBlock : Nat) (b : Nat) (lru cur : Bytes) (c : Cell)
    (stack : List (Nat × Bytes)) : List (Nat × Bytes) :=
  let stack := if b ≠ startBlock then
      (let st := if c.right ≠ 0 then (c.right, lru) :: stack else stack
       if c.left ≠ 0 then (c.left, lru) :: st else st) else stack
  if skip && c.flags.noChild then stack
  else if c.child ≠ 0 then (c.child, cur) :: stack else stack

def DfsCur.next : Nat → State → DfsCur → DfsCur × CurOut
  | 0, _, w => (w, .fail (.other "fuel"))
  | fuel + 1, s, w =>
    let stack := match w.pend with
      | some (b, lru, cur, c) => dfsPushSkip w.skip w.start b lru cur c w.stack
      | none => w.stack
    let w := { w with stack := stack, pend := none }
    match w.stack with
    | [] =>
      (match w.prefixes with
       | [] => (w, .stop)
       | pf :: more =>
         match s.lruNode (lruIter pf) with
         | none => (w, .fail .traph)
         | some n => DfsCur.next fuel s { w with prefixes := more, start := n, stack := [(n, lruDirname pf)] })
    | (b, lru) :: rest =>
      let c := s.cell b
      let cur := lru ++ s.stemAt b
      ({ w with stack := rest, pend := some (b, lru, cur, c) }, .item b cur c)

def DfsCur.fuel (_s : State) (w : DfsCur) : Nat := w.prefixes.length + 3

/-! #### get_webentity_crawled_pages_iter: one yield per PAGE node of `webentity_page_nodes_iter` -/

structure CrawledSt where
  cur   : WeCur := {}
  pages : List (Bytes × Bool) := []
deriving Repr, Inhabited, DecidableEq

def crawledResume : Nat → State → CrawledSt → CrawledSt × CoOut
  | 0, _, q => (q, .failed (.other "fuel"))
  | fuel + 1, s, q =>
    match q.cur.next (q.cur.fuel s) s with
    | (w, .fail e) => ({ q with cur := w }, .failed e)
    | (w, .stop) => ({ q with cur := w }, .done (.pages q.pages))
    | (w, .item _ lru c) =>
      if c.flags.page then
        ({ cur := w, pages := if c.flags.crawled then q.pages ++ [(lru, true)] else q.pages }, .yielded)
      else crawledResume fuel s { q with cur := w }

/-! #### get_webentity_most_linked_pages_iter: one yield per node of the webentity DFS (page or not); the
    in-list of a page is counted in the section that popped it -/

structure MostSt where
  cur   : WeCur := {}
  k     : Nat := 10
  count : Nat := 0
  heap  : List (Nat × Nat × Bytes) := []
deriving Repr, Inhabited, DecidableEq

def mostResume (s : State) (q : MostSt) : MostSt × CoOut :=
  match q.cur.next (q.cur.fuel s) s with
  | (w, .fail e) => ({ q with cur := w }, .failed e)
  | (w, .stop) => ({ q with cur := w }, .done (.ranked (q.heap.reverse.map (fun x => (x.2.2, x.1)))))
  | (w, .item _ lru c) =>
    if c.flags.page then
      ({ q with cur := w, count := q.count + 1,
                heap := State.boundedPush q.k q.heap (s.indegreeEntries c.inn, q.count + 1, lru) }, .yielded)
    else ({ q with cur := w }, .yielded)

/-! #### get_webentity_child_webentities_iter: one yield per node of `dfs_iter(skip_childless_paths=True)` -/

structure ChildSt where
  cur   : DfsCur := { skip := true }
  weid  : Nat := 0
  weids : List Nat := []                -- the set, kept sorted
deriving Repr, Inhabited, DecidableEq

def childResume (s : State) (q : ChildSt) : ChildSt × CoOut :=
  match q.cur.next (q.cur.fuel s) s with
  | (w, .fail e) => ({ q with cur := w }, .failed e)
  | (w, .stop) => ({ q with cur := w }, .done (.nats q.weids))
  | (w, .item _ _ c) =>
    ({ q with cur := w, weids := if c.we ≠ 0 && c.we ≠ q.weid then State.insertSorted c.we q.weids else q.weids }, .yielded)

/-! #### get_webentity_pagelinks_iter: one yield per entry of the out-list Counter, then one per entry of the
    in-list Counter, of every page; no yield for a node that is not a page. `weighted_link_nodes_iter` reads the
    whole list when its first item is asked for; the in-list is read, from the head pointer of the page's copy
    taken at pop time, when the out-list loop is over. -/

structure PlSt where
  cur     : WeCur := {}
  weid    : Nat := 0
  incIn   : Bool := false
  incInt  : Bool := true
  incOut  : Bool := false
  node    : Option (Bytes × Cell) := none            -- the page in progress: its LRU, the copy read at pop time
  outQ    : List (Nat × Nat) := []                   -- entries of the out-list Counter still to come
  innTodo : Bool := false                            -- the in-list loop of `node` has not started
  innQ    : List (Nat × Nat) := []
  links   : List State.PageLink := []
deriving Repr, Inhabited, DecidableEq

def plResume : Nat → State → PlSt → PlSt × CoOut
  | 0, _, q => (q, .failed (.other "fuel"))
  | fuel + 1, s, q =>
    if !q.incInt && !q.incOut && !q.incIn then (q, .failed .traph) else
    let lru := (q.node.map (·.1)).getD []
    match q.outQ with
    | (t, w) :: more =>
      let tWe := s.windupWe t
      let links := if (q.incOut && tWe ≠ q.weid) || (q.incInt && tWe = q.weid)
                   then q.links ++ [(lru, s.windup t, w)] else q.links
      ({ q with outQ := more, links := links }, .yielded)
    | [] =>
      if q.innTodo then
        let c := (q.node.map (·.2)).getD {}
        plResume fuel s { q with innTodo := false, innQ := if c.inn ≠ 0 && q.incIn then s.weighted c.inn else [] }
      else
        match q.innQ with
        | (t, w) :: more =>
          let links := if s.windupWe t ≠ q.weid then q.links ++ [(s.windup t, lru, w)] else q.links
          ({ q with innQ := more, links := links }, .yielded)
        | [] =>
          match q.cur.next (q.cur.fuel s) s with
          | (w, .fail e) => ({ q with cur := w }, .failed e)
          | (w, .stop) => ({ q with cur := w }, .done (.links q.links))
          | (w, .item _ l c) =>
            if c.flags.page then
              plResume fuel s { q with cur := w, node := some (l, c), innTodo := true,
                                       outQ := if c.out ≠ 0 && (q.incOut || q.incInt) then s.weighted c.out else [] }
            else plResume fuel s { q with cur := w, node := none }

/-! #### get_webentity_outlinks_iter / get_webentity_inlinks_iter: one yield per target of
    `deduped_link_nodes_iter`, which is lazy: suspended, it holds the stub it read last (its `previous`
    pointer) and `already_seen`. -/

/-- run `deduped_link_nodes_iter` to its next `yield`: from the stub at `p` (0: the list is over) back to the
    first target not seen yet; returns it with the pointer to go on from and the enlarged `already_seen` -/
def State.dedupNext (s : State) : Nat → Nat → List Nat → Option (Nat × Nat × List Nat)
  | 0, _, _ => none
  | fuel + 1, p, seen =>
    if p = 0 then none else
    match s.links[p]? with
    | none => none
    | some st => if seen.contains st.target then s.dedupNext fuel st.prev seen
                 else some (st.target, st.prev, seen ++ [st.target])

structure CitedSt where
  cur        : WeCur := {}
  out        : Bool := true
  lnk        : Option (Nat × List Nat) := none       -- inside the link loop: (next stub to read, already_seen)
  doneBlocks : List Nat := []
  weids      : List Nat := []                        -- the set, kept sorted; 0 is the `None` member
deriving Repr, Inhabited, DecidableEq

def citedResume : Nat → State → CitedSt → CitedSt × CoOut
  | 0, _, q => (q, .failed (.other "fuel"))
  | fuel + 1, s, q =>
    match q.lnk with
    | some (p, seen) =>
      (match s.dedupNext (s.links.size + 1) p seen with
       | none => citedResume fuel s { q with lnk := none }
       | some (t, p', seen') =>
         if q.doneBlocks.contains t then ({ q with lnk := some (p', seen') }, .yielded)
         else ({ q with lnk := some (p', seen'), doneBlocks := q.doneBlocks ++ [t],
                        weids := State.insertSorted (s.windupWe t) q.weids }, .yielded))
    | none =>
      match q.cur.next (q.cur.fuel s) s with
      | (w, .fail e) => ({ q with cur := w }, .failed e)
      | (w, .stop) => ({ q with cur := w }, .done (.nats q.weids))
      | (w, .item _ _ c) =>
        let head := if q.out then c.out else c.inn
        if c.flags.page && head ≠ 0 then citedResume fuel s { q with cur := w, lnk := some (head, []) }
        else citedResume fuel s { q with cur := w }

/-! #### get_webentities_links_slow_iter: one yield per Counter entry that ADDS to the graph (the three
    `continue`s skip the yield); the Counter of a page is read in the section that popped the page -/

structure SlowSt where
  out      : Bool := true
  auto     : Bool := false
  started  : Bool := false
  stack    : List (Nat × Nat) := []
  pend     : Option (Nat × Nat × Nat × Cell) := none      -- (block, incoming we, current we, stale copy)
  cache    : List (Nat × Nat) := []                        -- page_to_webentity
  curSrc   : Nat := 0
  curList  : List (Nat × Nat) := []                        -- Counter entries still to come
  graph    : List State.NetRow := []
deriving Repr, Inhabited, DecidableEq

def slowResume : Nat → State → SlowSt → SlowSt × CoOut
  | 0, _, n => (n, .failed (.other "fuel"))
  | fuel + 1, s, n =>
    match n.curList with
    | (t, w) :: more =>
      let (tWe, cache) := match dictGet? n.cache t with
        | some x => (x, n.cache)
        | none => let x := s.windupWe t; (x, if x = 0 then n.cache else dictSet n.cache t x)
      if tWe = 0 then slowResume fuel s { n with curList := more, cache := cache }
      else if !n.auto && n.curSrc = tWe then slowResume fuel s { n with curList := more, cache := cache }
      else ({ n with curList := more, cache := cache,
                     graph := State.netTouch n.graph n.curSrc (fun r => { r with targets := State.counterAdd r.targets tWe w }) },
            .yielded)
    | [] =>
      let n := if n.started then n else { n with started := true, stack := if s.trie.size ≤ 1 then [] else [(1, 0)] }
      let stack := match n.pend with
        | some (b, we, cur, c) => dfsWePush b we cur c n.stack
        | none => n.stack
      let n := { n with stack := stack, pend := none }
      match n.stack with
      | [] => (n, .done (.net n.graph))
      | (b, we) :: rest =>
        let c := s.cell b
        let cur := if c.we ≠ 0 then c.we else we
        let head := if n.out then c.out else c.inn
        if c.flags.page && head ≠ 0 && cur ≠ 0 then
          slowResume fuel s { n with stack := rest, pend := some (b, we, cur, c), cache := dictSet n.cache b cur,
                                     curSrc := cur, curList := s.weighted head }
        else slowResume fuel s { n with stack := dfsWePush b we cur c rest }

/-! #### the seven under one roof -/

inductive QSt where
  | crawled (q : CrawledSt)
  | mostLinked (q : MostSt)
  | children (q : ChildSt)
  | pagelinks (q : PlSt)
  | cited (q : CitedSt)
  | netSlow (q : SlowSt)
deriving Repr, Inhabited, DecidableEq

/-- iterations one section can take: every one pops a block, opens a prefix, ends a list or consumes an entry -/
def qFuel (s : State) (prefixes extra : Nat) : Nat := 2 * (s.trie.size + 2) * (prefixes + 2) + extra + 4

/-- one section of a read-only generator: a function of the index, which it cannot change -/
def QSt.resume (s : State) : QSt → QSt × CoOut
  | .crawled q => let (q1, o) := crawledResume (qFuel s q.cur.prefixes.length q.cur.stack.length) s q; (.crawled q1, o)
  | .mostLinked q => let (q1, o) := mostResume s q; (.mostLinked q1, o)
  | .children q => let (q1, o) := childResume s q; (.children q1, o)
  | .pagelinks q => let (q1, o) := plResume (qFuel s q.cur.prefixes.length q.cur.stack.length) s q; (.pagelinks q1, o)
  | .cited q => let (q1, o) := citedResume (qFuel s q.cur.prefixes.length q.cur.stack.length) s q; (.cited q1, o)
  | .netSlow q => let (q1, o) := slowResume ((s.trie.size + 2) * (s.links.size + 3) + q.stack.length + q.curList.length + 4) s q; (.netSlow q1, o)

/-- drain a read-only generator on a fixed index (`run_iterator`) -/
def QSt.drain (s : State) : Nat → QSt → Ans
  | 0, _ => .err (.other "fuel")
  | n + 1, q =>
    match q.resume s with
    | (q1, .yielded) => QSt.drain s n q1
    | (_, .done a) => a
    | (_, .failed e) => .err e

/-! ### the scheduler's view -/

inductive CoSt where
  | batch (b : BatchSt)
  | rule (r : RuleSt)
  | pages (p : PagesSt)
  | net (n : NetSt)
  | query (q : QSt)
  | finished
deriving Repr, Inhabited

/-- advance one generator to its next yield -/
def CoSt.resume (s : State) : CoSt → State × CoSt × CoOut
  | .batch b => let (s1, b1, o) := batchResume (1000000) s b; (s1, match o with | .yielded => .batch b1 | _ => .finished, o)
  | .rule r => let (s1, r1, o) := ruleResume s r; (s1, match o with | .yielded => .rule r1 | _ => .finished, o)
  | .pages p => let (p1, o) := pagesResume ((s.trie.size + 1) * (p.prefixes.length + 1)) s p; (s, match o with | .yielded => .pages p1 | _ => .finished, o)
  | .net n => let (n1, o) := netResume (s.trie.size + s.links.size + n.pointers.length + 3) s n; (s, match o with | .yielded => .net n1 | _ => .finished, o)
  | .query q => let (q1, o) := q.resume s; (s, match o with | .yielded => .query q1 | _ => .finished, o)
  | .finished => (s, .finished, .failed (.other "StopIteration"))

/-- a schedule names which generator runs its next section -/
def runSched (s : State) (cos : List CoSt) : List Nat → State × List CoSt × List CoOut
  | [] => (s, cos, [])
  | i :: rest =>
    match cos[i]? with
    | none => runSched s cos rest
    | some c =>
      let (s1, c1, o) := c.resume s
      let (s2, cos2, os) := runSched s1 (cos.set i c1) rest
      (s2, cos2, o :: os)

end Traph

import Traph.Step
/-! C16 — the four long-running requests as explicit coroutine state machines, with `should_yield`
    always true. A *section* is what runs between two `yield`s; `resume` runs one section. The machines
    hold the same stale node copies the Python generators hold across a yield (a traversal pushes the
    pointers of the copy it read *before* it yielded). -/
namespace Traph
open State

/-- status of a generator after one `next()` -/
inductive CoOut where
  | yielded
  | done (a : Ans)
  | failed (e : Err)
deriving Repr, DecidableEq, Inhabited

/-! ### index_batch_crawl_iter -/

structure BatchSt where
  data     : List (Bytes × List Bytes) := []           -- sources not started yet
  cur      : Option (Bytes × List Bytes × List Nat) := none   -- source in progress: lru, targets left, target_blocks
  pendIn   : Option Bytes := none                       -- after the yield: `inlinks[target].append(source)` first
  pages    : List (Bytes × Nat × Bool) := []            -- lru ↦ (block, crawled bit of the cached node copy)
  inl      : List (Bytes × List Bytes) := []
  flush    : Option (List (Bytes × List Bytes)) := none -- second phase: in-lists still to write
  rep      : Report := {}
deriving Repr, Inhabited

def pagesGet (p : List (Bytes × Nat × Bool)) (l : Bytes) : Option (Nat × Bool) := dictGet? p l
def pagesSet (p : List (Bytes × Nat × Bool)) (l : Bytes) (v : Nat × Bool) : List (Bytes × Nat × Bool) := dictSet p l v
def pageBlock (p : List (Bytes × Nat × Bool)) (l : Bytes) : Nat := ((pagesGet p l).map (·.1)).getD 0

/-- one section of the crawl batch (fuel bounds the number of loop iterations inside the section) -/
def batchResume : Nat → State → BatchSt → State × BatchSt × CoOut
  | 0, s, b => (s, b, .failed (.other "fuel"))
  | fuel + 1, s, b =>
    match b.flush with
    | some [] => (s, b, .done (.report b.rep))
    | some ((t, srcs) :: rest) =>
      -- target_node.refresh(); store.add_inlinks(...); yield
      let s1 := s.addStubs (pageBlock b.pages t) (srcs.map (pageBlock b.pages)) false
      (s1, { b with flush := some rest }, .yielded)
    | none =>
      match b.cur with
      | none =>
        match b.data with
        | [] => batchResume fuel s { b with flush := some b.inl }     -- first loop over: start the in-list pass
        | (src, tgts) :: more =>
          match pagesGet b.pages src with
          | none =>
            (match s.addPageCore src true with
             | (s1, _, .error e) => (s1, b, .failed e)
             | (s1, n, .ok r) =>
               batchResume fuel s1 { b with data := more, cur := some (src, tgts, []),
                                            pages := pagesSet b.pages src (n, (s1.cell n).flags.crawled), rep := b.rep.add r })
          | some (n, cachedCrawled) =>
            if !cachedCrawled then
              let s1 := s.modCell n (fun c => { c with flags := { c.flags with crawled := true } })
              batchResume fuel s1 { b with data := more, cur := some (src, tgts, []), pages := pagesSet b.pages src (n, true) }
            else batchResume fuel s { b with data := more, cur := some (src, tgts, []) }
      | some (src, tgts, tb) =>
        let inl := match b.pendIn with | some t => multiAdd b.inl t src | none => b.inl
        let b := { b with inl := inl, pendIn := none }
        match tgts with
        | [] =>
          -- source_node.refresh(); store.add_outlinks(source_node, target_blocks)
          let n := pageBlock b.pages src
          let s1 := s.addStubs n tb true
          batchResume fuel s1 { b with cur := none, pages := pagesSet b.pages src (n, (s.cell n).flags.crawled) }
        | t :: ts =>
          match pagesGet b.pages t with
          | none =>
            (match s.addPageCore t false with
             | (s1, _, .error e) => (s1, b, .failed e)
             | (s1, n, .ok r) =>
               -- new target: block recorded, then the generator yields *before* recording the in-link
               (s1, { b with cur := some (src, ts, tb ++ [n]), pendIn := some t,
                             pages := pagesSet b.pages t (n, (s1.cell n).flags.crawled), rep := b.rep.add r }, .yielded))
          | some (n, _) =>
            batchResume fuel s { b with cur := some (src, ts, tb ++ [n]), inl := multiAdd b.inl t src }

/-! ### add_webentity_creation_rule_iter -/

structure RuleSt where
  started : Bool := false
  anchor  : Bytes := []
  rule    : Rule := .never
  start   : Nat := 0
  stack   : List (Nat × Bytes) := []
  pend    : Option (Nat × Bytes × Bytes × Cell) := none   -- (block, lru prefix, current lru, copy read before the yield)
  rep     : Report := {}
deriving Repr, Inhabited

def dfsPush (startBlock : Nat) (b : Nat) (lru cur : Bytes) (c : Cell) (stack : List (Nat × Bytes)) : List (Nat × Bytes) :=
  let stack := if b ≠ startBlock then
      (let st := if c.right ≠ 0 then (c.right, lru) :: stack else stack
       if c.left ≠ 0 then (c.left, lru) :: st else st) else stack
  if c.child ≠ 0 then (c.child, cur) :: stack else stack

/-- one section of the rule installation: (first: register + flag), expand the node of the previous
    section from its stale copy, pop the next node, re-insert it if it is a page, yield -/
def ruleResume (s : State) (r : RuleSt) : State × RuleSt × CoOut :=
  let (s, r) :=
    if r.started then (s, r) else
    let s0 := { s with rules := dictSet s.rules r.anchor r.rule }
    let (s1, n, _) := s0.addLru (lruIter r.anchor) false
    let s2 := s1.modCell n (fun c => { c with flags := { c.flags with rule := true } })
    (s2, { r with started := true, start := n, stack := [(n, lruDirname r.anchor)] })
  let stack := match r.pend with
    | some (b, lru, cur, c) => dfsPush r.start b lru cur c r.stack
    | none => r.stack
  match stack with
  | [] => (s, { r with stack := [], pend := none }, .done (.report r.rep))
  | (b, lru) :: rest =>
    let c := s.cell b
    let cur := lru ++ s.stemAt b
    if c.flags.page then
      match s.addPageCore cur false with
      | (s1, _, .error e) => (s1, { r with stack := rest, pend := none }, .failed e)
      | (s1, _, .ok r1) => (s1, { r with stack := rest, pend := some (b, lru, cur, c), rep := r.rep.add r1 }, .yielded)
    else (s, { r with stack := rest, pend := some (b, lru, cur, c) }, .yielded)

/-! ### get_webentity_pages_iter -/

structure PagesSt where
  prefixes : List Bytes := []
  start    : Nat := 0
  stack    : List (Nat × Bytes × Nat) := []
  pend     : Option (Nat × Bytes × Bytes × Nat × Cell) := none    -- (block, lru prefix, current lru, level, stale copy)
  pages    : List (Bytes × Bool) := []
deriving Repr, Inhabited

def weDfsPush (startBlock : Nat) (b : Nat) (lru cur : Bytes) (level : Nat) (c : Cell)
    (stack : List (Nat × Bytes × Nat)) : List (Nat × Bytes × Nat) :=
  let relevant := b = startBlock || c.we = 0
  let stack := if b ≠ startBlock then
      (let st := if c.right ≠ 0 then (c.right, lru, level) :: stack else stack
       if c.left ≠ 0 then (c.left, lru, level) :: st else st) else stack
  if relevant && c.child ≠ 0 then (c.child, cur, level + 1) :: stack else stack

def pagesResume : Nat → State → PagesSt → PagesSt × CoOut
  | 0, _, p => (p, .failed (.other "fuel"))
  | fuel + 1, s, p =>
    let stack := match p.pend with
      | some (b, lru, cur, level, c) => weDfsPush p.start b lru cur level c p.stack
      | none => p.stack
    let p := { p with stack := stack, pend := none }
    match p.stack with
    | [] =>
      (match p.prefixes with
       | [] => (p, .done (.pages p.pages))
       | pf :: more =>
         match s.lruNode (lruIter pf) with
         | none => (p, .failed .traph)
         | some n => pagesResume fuel s { p with prefixes := more, start := n, stack := [(n, lruDirname pf, 0)] })
    | (b, lru, level) :: rest =>
      let c := s.cell b
      let cur := lru ++ s.stemAt b
      let relevant := b = p.start || c.we = 0
      if relevant && c.flags.page then
        ({ p with stack := rest, pend := some (b, lru, cur, level, c), pages := p.pages ++ [(cur, c.flags.crawled)] }, .yielded)
      else
        pagesResume fuel s { p with stack := weDfsPush p.start b lru cur level c rest }

/-! ### get_webentities_links_iter -/

structure NetSt where
  out      : Bool := true
  auto     : Bool := false
  started  : Bool := false
  stack    : List (Nat × Nat) := []
  pend     : Option (Nat × Nat × Nat × Cell) := none      -- (block, incoming we, current we, stale copy)
  pageWe   : List (Nat × Nat) := []
  pointers : List (Nat × Nat) := []
  phase2   : Option (List (Nat × Nat)) := none             -- pointers still to process
  curSrc   : Nat := 0
  curList  : List (Nat × Nat) := []                         -- Counter snapshot of the list in progress
  graph    : List NetRow := []
deriving Repr, Inhabited

def dfsWePush (b we cur : Nat) (c : Cell) (stack : List (Nat × Nat)) : List (Nat × Nat) :=
  let _ := b
  let st := if c.right ≠ 0 then (c.right, we) :: stack else stack
  let st := if c.left ≠ 0 then (c.left, we) :: st else st
  if c.child ≠ 0 then (c.child, cur) :: st else st

def netResume : Nat → State → NetSt → NetSt × CoOut
  | 0, _, n => (n, .failed (.other "fuel"))
  | fuel + 1, s, n =>
    match n.phase2 with
    | some ptrs =>
      (match n.curList with
       | (t, w) :: more =>
         (match dictGet? n.pageWe t with
          | none => netResume fuel s { n with curList := more }
          | some tWe =>
            if !n.auto && n.curSrc = tWe then netResume fuel s { n with curList := more }
            else ({ n with curList := more,
                           graph := netTouch n.graph n.curSrc (fun r => { r with targets := counterAdd r.targets tWe w }) }, .yielded))
       | [] =>
         match ptrs with
         | [] => (n, .done (.net n.graph))
         | (src, head) :: rest => netResume fuel s { n with phase2 := some rest, curSrc := src, curList := s.weighted head })
    | none =>
      let n := if n.started then n else { n with started := true, stack := if s.trie.size ≤ 1 then [] else [(1, 0)] }
      let stack := match n.pend with
        | some (b, we, cur, c) => dfsWePush b we cur c n.stack
        | none => n.stack
      let n := { n with stack := stack, pend := none }
      match n.stack with
      | [] => netResume fuel s { n with phase2 := some n.pointers }
      | (b, we) :: rest =>
        let c := s.cell b
        let cur := if c.we ≠ 0 then c.we else we
        if c.flags.page && cur ≠ 0 then
          let g := netTouch n.graph cur (fun r => if c.flags.crawled then { r with crawled := r.crawled + 1 }
                                                   else { r with uncrawled := r.uncrawled + 1 })
          let head := if n.out then c.out else c.inn
          ({ n with stack := rest, pend := some (b, we, cur, c), graph := g, pageWe := dictSet n.pageWe b cur,
                    pointers := if head ≠ 0 then n.pointers ++ [(cur, head)] else n.pointers }, .yielded)
        else netResume fuel s { n with stack := dfsWePush b we cur c rest }

/-! ### the scheduler's view -/

inductive CoSt where
  | batch (b : BatchSt)
  | rule (r : RuleSt)
  | pages (p : PagesSt)
  | net (n : NetSt)
  | finished
deriving Repr, Inhabited

/-- advance one generator to its next yield -/
def CoSt.resume (s : State) : CoSt → State × CoSt × CoOut
  | .batch b => let (s1, b1, o) := batchResume (1000000) s b; (s1, match o with | .yielded => .batch b1 | _ => .finished, o)
  | .rule r => let (s1, r1, o) := ruleResume s r; (s1, match o with | .yielded => .rule r1 | _ => .finished, o)
  | .pages p => let (p1, o) := pagesResume (s.trie.size + p.prefixes.length + 2) s p; (s, match o with | .yielded => .pages p1 | _ => .finished, o)
  | .net n => let (n1, o) := netResume (s.trie.size + s.links.size + n.pointers.length + 3) s n; (s, match o with | .yielded => .net n1 | _ => .finished, o)
  | .finished => (s, .finished, .failed (.other "StopIteration"))

/-- a schedule names which generator runs its next section -/
def runSched (s : State) (cos : List CoSt) : List Nat → State × List CoSt × List CoOut
  | [] => (s, cos, [])
  | i :: rest =>
    match cos[i]? with
    | none => runSched s cos rest
    | some c =>
      let (s1, c1, o) := c.resume s
      let (s2, cos2, os) := runSched s1 (cos.set i c1) rest
      (s2, cos2, o :: os)

end Traph

import Traph.Helpers
/-! traph/lru_trie/{node,lru_trie}.py — the ternary search tree over 128-byte blocks, mirrored
    write by write. All heap walks take fuel (`trie.size + 1`) and are structurally recursive. -/
namespace Traph
open Layout

namespace State

/-- tail chunks starting at block `i`: read while HAS_TAIL, stop at end of storage (repaired D7) -/
def readTail (s : State) : Nat → Nat → Bytes
  | 0, _ => []
  | fuel + 1, i =>
    match s.trie[i]? with
    | none => []
    | some c => c.chunk ++ (if c.flags.hasTail then readTail s fuel (i + 1) else [])

/-- `LRUTrieNode.read(i).stem()`: head chunk + tail chunks read at explicit offsets (repaired D2) -/
def stemAt (s : State) (i : Nat) : Stem :=
  match s.trie[i]? with
  | none => []
  | some c => c.chunk ++ (if c.flags.hasTail then s.readTail s.trie.size (i + 1) else [])

/-- the tail blocks of a freshly written long stem: flagged IS_TAIL, all but the last HAS_TAIL -/
def tailCells : List Bytes → List Cell
  | [] => []
  | [ck] => [{ chunk := ck, flags := { isTail := true } }]
  | ck :: rest => { chunk := ck, flags := { isTail := true, hasTail := true } } :: tailCells rest

def appendCells (s : State) : List Cell → State
  | [] => s
  | c :: cs => appendCells (s.appendCell c).1 cs

/-- `LRUTrieNode(stem=…)` + `set_parent` (+ `flag_can_have_child_webentities`) + first `write()`:
    head block, then each tail chunk as its own append. Returns the head's index. -/
def writeNew (s : State) (stem : Stem) (parent : Nat) (canHave : Bool) : State × Nat :=
  let long := decide (stem.length > stemCap)
  let head : Cell := { chunk := stem.take stemCap,
                       flags := { hasTail := long, noChild := !canHave }, parent := parent }
  let (s1, idx) := s.appendCell head
  let tails := if long then tailCells (chunks stemCap (stem.drop stemCap)) else []
  (s1.appendCells tails, idx)

end State

inductive Slot | L | C | R deriving DecidableEq, Repr

def Cell.slot (c : Cell) : Slot → Nat
  | .L => c.left | .C => c.child | .R => c.right

def Cell.setSlot (c : Cell) (sl : Slot) (v : Nat) : Cell :=
  match sl with
  | .L => { c with left := v } | .C => { c with child := v } | .R => { c with right := v }

inductive Find where
  | found (i : Nat)
  | missing (last : Nat) (sl : Slot)
  | corrupt
deriving Repr, DecidableEq

namespace State

/-- the `while True` sibling search shared by `__ensure_stem_from_siblings`, `lru_node`, `follow_lru` -/
def findSib (s : State) (stem : Stem) : Nat → Nat → Find
  | 0, _ => .corrupt
  | fuel + 1, p =>
    match s.trie[p]? with
    | none => .corrupt
    | some c =>
      let cur := s.stemAt p
      if cur = stem then .found p
      else if lexLt stem cur then
        (if c.left ≠ 0 then findSib s stem fuel c.left else .missing p .L)
      else
        (if c.right ≠ 0 then findSib s stem fuel c.right else .missing p .R)

/-- `__ensure_stem_from_siblings(node at start, stem)`; `ex` = `node.exists` (false only for the
    absent root of an empty trie) -/
def ensureStem (s : State) (start : Nat) (ex : Bool) (stem : Stem) : State × Nat :=
  if !ex then s.writeNew stem 0 false
  else
    match s.findSib stem (s.trie.size + 1) start with
    | .found i => (s, i)
    | .corrupt => (s, 0)
    | .missing last sl =>
      let par := (s.cell last).parent
      let (s1, sib) := s.writeNew stem par false
      (s1.modCell last (fun c => c.setSlot sl sib), sib)

end State

/-- `LRUTrieWalkHistory` (positions are byte lengths of the prefix walked so far) -/
structure Hist where
  we      : Nat := 0               -- 0 = None
  wePos   : Option Nat := none     -- none = -1
  rules   : List Nat := []         -- in walk order
  created : Bool := false
deriving Repr, DecidableEq, Inhabited

def Hist.visit (h : Hist) (c : Cell) (pos : Nat) : Hist :=
  let h := if c.we ≠ 0 then { h with we := c.we, wePos := some pos } else h
  if c.flags.rule then { h with rules := h.rules ++ [pos] } else h

namespace State

/-- `node.flag_can_have_child_webentities(); node.write()` when `b` -/
def markCanHave (s : State) (n : Nat) (b : Bool) : State :=
  if b then s.modCell n (fun c => { c with flags := { c.flags with noChild := false } }) else s

/-- `add_lru`, first loop: descend through existing levels, creating missing siblings -/
def addLruDescend (flag : Bool) : State → List Stem → Nat → Bool → Nat → Hist →
    State × Nat × List Stem × Hist
  | s, [], node, _, _, h => (s, node, [], h)
  | s, stem :: rest, node, ex, pos, h =>
    let (s1, n) := s.ensureStem node ex stem
    let pos := pos + stem.length
    let c := s1.cell n
    let h := h.visit c pos
    let s2 := s1.markCanHave n (!rest.isEmpty && flag && c.flags.noChild)
    if !rest.isEmpty && c.child ≠ 0 then addLruDescend flag s2 rest c.child true pos h
    else (s2, n, rest, h)

/-- `add_lru`, second loop: the chain of fresh children below the point where the walk fell off -/
def addLruCreate (flag : Bool) : State → List Stem → Nat → State × Nat
  | s, [], node => (s, node)
  | s, stem :: rest, node =>
    let (s1, ch) := s.writeNew stem node (!rest.isEmpty && flag)
    let s2 := s1.modCell node (fun c => { c with child := ch })
    addLruCreate flag s2 rest ch

/-- `LRUTrie.add_lru(lru, flag_can_have_child_webentities)` -/
def addLru (s : State) (stems : LRU) (flag : Bool) : State × Nat × Hist :=
  let (s1, node, rest, h) := addLruDescend flag s stems 1 (s.trie.size > 1) 0 {}
  let (s2, node) := addLruCreate flag s1 rest node
  (s2, node, h)

/-- `LRUTrie.add_page(lru, crawled)` -/
def addPageTrie (s : State) (stems : LRU) (crawled : Bool) : State × Nat × Hist :=
  let (s1, n, h) := s.addLru stems false
  let c := s1.cell n
  if !c.flags.page then
    (s1.modCell n (fun c => { c with flags := { c.flags with page := true, crawled := c.flags.crawled || crawled } }),
     n, { h with created := true })
  else if crawled && !c.flags.crawled then
    (s1.modCell n (fun c => { c with flags := { c.flags with crawled := true } }), n, h)
  else (s1, n, h)

/-! ### look-ups -/

/-- `lru_node` : `none` = not in the trie -/
def lruNodeGo (s : State) : List Stem → Nat → Option Nat
  | [], node => some node
  | stem :: rest, node =>
    match s.findSib stem (s.trie.size + 1) node with
    | .found i =>
      if rest.isEmpty then some i
      else let c := s.cell i; if c.child = 0 then none else lruNodeGo s rest c.child
    | _ => none

def lruNode (s : State) (stems : LRU) : Option Nat :=
  if s.trie.size ≤ 1 then none else s.lruNodeGo stems 1

/-- `follow_lru` : the node if the whole LRU is in the trie, and the history of the part that is -/
def followLruGo (s : State) : List Stem → Nat → Nat → Hist → Option Nat × Hist
  | [], node, _, h => (some node, h)
  | stem :: rest, node, pos, h =>
    match s.findSib stem (s.trie.size + 1) node with
    | .found i =>
      let pos := pos + stem.length
      let c := s.cell i
      let h := h.visit c pos
      if rest.isEmpty then (some i, h)
      else if c.child = 0 then (none, h) else followLruGo s rest c.child pos h
    | _ => (none, h)

def followLru (s : State) (stems : LRU) : Option Nat × Hist :=
  if s.trie.size ≤ 1 then (none, {}) else s.followLruGo stems 1 0 {}

/-- ancestors of block `b`, nearest first (`node_parents_iter`) -/
def parentsGo (s : State) : Nat → Nat → List Nat
  | 0, _ => []
  | fuel + 1, b =>
    let p := (s.cell b).parent
    if p = 0 then [] else p :: parentsGo s fuel p

def parents (s : State) (b : Nat) : List Nat := s.parentsGo (s.trie.size + 1) b

/-- `windup_lru(block)` -/
def windup (s : State) (b : Nat) : Bytes :=
  (s.parents b).foldl (fun acc p => s.stemAt p ++ acc) (s.stemAt b)

/-- `windup_lru_for_webentity(node)`: 0 = None -/
def windupWe (s : State) (b : Nat) : Nat :=
  let c := s.cell b
  if c.we ≠ 0 then c.we else
  match (s.parents b).find? (fun p => (s.cell p).we ≠ 0) with
  | some p => (s.cell p).we
  | none => 0

/-! ### traversals (explicit stacks as in the code; a popped block is read at pop time) -/

/-- `dfs_iter`; `start = none` from the root; otherwise from a node whose siblings are not followed -/
def dfsGo (s : State) (fromRoot : Bool) (startBlock : Nat) (skipChildless : Bool) :
    Nat → List (Nat × Bytes) → List (Nat × Bytes)
  | 0, _ => []
  | _, [] => []
  | fuel + 1, (b, lru) :: stack =>
    let c := s.cell b
    let cur := lru ++ s.stemAt b
    let stack := if fromRoot || b ≠ startBlock then
        (let st := if c.right ≠ 0 then (c.right, lru) :: stack else stack
         if c.left ≠ 0 then (c.left, lru) :: st else st) else stack
    let stack := if skipChildless && c.flags.noChild then stack
                 else if c.child ≠ 0 then (c.child, cur) :: stack else stack
    (b, cur) :: dfsGo s fromRoot startBlock skipChildless fuel stack

def dfsIter (s : State) (start : Option (Nat × Bytes)) (skipChildless : Bool) : List (Nat × Bytes) :=
  match start with
  | none => if s.trie.size ≤ 1 then [] else s.dfsGo true 1 skipChildless (s.trie.size + 1) [(1, [])]
  | some (b, lru) => s.dfsGo false b skipChildless (s.trie.size + 1) [(b, lruDirname lru)]

/-- `webentity_dfs_iter(starting_node, starting_lru, max_depth)` -/
def weDfsGo (s : State) (startBlock : Nat) (maxDepth : Option Nat) :
    Nat → List (Nat × Bytes × Nat) → List (Nat × Bytes)
  | 0, _ => []
  | _, [] => []
  | fuel + 1, (b, lru, level) :: stack =>
    let c := s.cell b
    let relevant := b = startBlock || c.we = 0
    let cur := lru ++ s.stemAt b
    let stack := if b ≠ startBlock then
        (let st := if c.right ≠ 0 then (c.right, lru, level) :: stack else stack
         if c.left ≠ 0 then (c.left, lru, level) :: st else st) else stack
    let stack := if relevant && c.child ≠ 0 then
        (match maxDepth with
         | some d => if level ≥ d then stack else (c.child, cur, level + 1) :: stack
         | none => (c.child, cur, level + 1) :: stack) else stack
    let rest := weDfsGo s startBlock maxDepth fuel stack
    if relevant then (b, cur) :: rest else rest

def weDfs (s : State) (start : Nat) (startLru : Bytes) (maxDepth : Option Nat) : List (Nat × Bytes) :=
  s.weDfsGo start maxDepth (s.trie.size + 1) [(start, lruDirname startLru, 0)]

/-- `dfs_with_webentity_iter`: (block, nearest webentity at or above, 0 = None) -/
def dfsWeGo (s : State) : Nat → List (Nat × Nat) → List (Nat × Nat)
  | 0, _ => []
  | _, [] => []
  | fuel + 1, (b, we) :: stack =>
    let c := s.cell b
    let cur := if c.we ≠ 0 then c.we else we
    let st := if c.right ≠ 0 then (c.right, we) :: stack else stack
    let st := if c.left ≠ 0 then (c.left, we) :: st else st
    let st := if c.child ≠ 0 then (c.child, cur) :: st else st
    (b, cur) :: dfsWeGo s fuel st

def dfsWe (s : State) : List (Nat × Nat) :=
  if s.trie.size ≤ 1 then [] else s.dfsWeGo (s.trie.size + 1) [(1, 0)]

/-- `follow_path` of `webentity_inorder_iter`: `none` = LRUTrieNodeTraversalException -/
def followPath (s : State) : List Nat → Nat → Bytes → Option Bytes
  | [], n, lru => some (lru ++ s.stemAt n)
  | op :: ops, n, lru =>
    let c := s.cell n
    if op = base4L then (if c.left = 0 then none else followPath s ops c.left lru)
    else if op = base4C then (if c.child = 0 then none else followPath s ops c.child (lru ++ s.stemAt n))
    else (if c.right = 0 then none else followPath s ops c.right lru)

/-- `can_follow_path` -/
def canFollowPath (cmp : Bytes) (cur : Nat) : Bool :=
  if cur = 0 then true else
  let cp := intToBase4 cur
  !lexLt cp (cmp.take cp.length)

/-- `inorder_traversal(node, lru, path)`; `pag = some (comparison_path, pagination_lru)` -/
def inorderGo (s : State) (startBlock : Nat) (pag : Option (Bytes × Bytes)) :
    Nat → Nat → Bytes → Nat → List (Nat × Bytes × Nat)
  | 0, _, _, _ => []
  | fuel + 1, b, lru, path =>
    let pruned := match pag with | some (cmp, _) => !canFollowPath cmp path | none => false
    if pruned then [] else
    let c := s.cell b
    let lft := if b ≠ startBlock && c.left ≠ 0 then
        inorderGo s startBlock pag fuel c.left lru (base4Append path 1) else []
    let cur := lru ++ s.stemAt b
    let relevant := b = startBlock || c.we = 0
    let self := if relevant then
        (let ok := match pag with | some (_, plru) => lexLt plru cur | none => true
         if ok then [(b, cur, path)] else []) else []
    let chl := if relevant && c.child ≠ 0 then
        inorderGo s startBlock pag fuel c.child cur (base4Append path 2) else []
    let rgt := if b ≠ startBlock && c.right ≠ 0 then
        inorderGo s startBlock pag fuel c.right lru (base4Append path 3) else []
    lft ++ self ++ chl ++ rgt

/-- `webentity_inorder_iter(starting_node, starting_lru, pagination_path)`;
    outer `none` = traversal exception from `follow_path` -/
def weInorder (s : State) (start : Nat) (startLru : Bytes) (pagPath : Option Nat) :
    Option (List (Nat × Bytes × Nat)) :=
  let dir := lruDirname startLru
  match pagPath with
  | none => some (s.inorderGo start none (s.trie.size + 1) start dir 0)
  | some p =>
    let cmp := if p = 0 then [] else intToBase4 p
    match s.followPath cmp start dir with
    | none => none
    | some plru => some (s.inorderGo start (some (cmp, plru)) (s.trie.size + 1) start dir 0)

/-- `nodes_iter`: every block after the header, in file order (tail blocks included) -/
def allBlocks (s : State) : List Nat := (List.range s.trie.size).drop 1

end State
end Traph

import Traph.Trie
/-! traph/link_store/{link_store,node}.py — singly linked stub lists threaded newest-first. -/
namespace Traph
namespace State

/-- `LinkStore.add_links(source_node, target_blocks, out)`; the page node has just been refreshed.
    New stubs are chained behind the current head; the page block is rewritten once at the end;
    nothing at all happens for an empty list. -/
def addStubsGo : State → Nat → List Nat → State × Nat
  | s, tail, [] => (s, tail)
  | s, tail, t :: ts =>
    let (s1, idx) := s.appendStub { target := t, prev := tail }
    addStubsGo s1 idx ts

def addStubs (s : State) (page : Nat) (targets : List Nat) (out : Bool) : State :=
  if targets.isEmpty then s else
  let c := s.cell page
  let head := if out then c.out else c.inn
  let (s1, newHead) := addStubsGo s head targets
  s1.modCell page (fun c => if out then { c with out := newHead } else { c with inn := newHead })

/-- `link_nodes_iter(block)`: targets from the head stub back through `previous` -/
def walkGo (s : State) : Nat → Nat → List Nat
  | 0, _ => []
  | fuel + 1, i =>
    match s.links[i]? with
    | none => []
    | some st => st.target :: (if st.prev ≠ 0 then walkGo s fuel st.prev else [])

def walk (s : State) (head : Nat) : List Nat := s.walkGo (s.links.size + 1) head

/-- Counter semantics: first-seen order, multiplicities -/
def countInto : List (Nat × Nat) → Nat → List (Nat × Nat)
  | [], t => [(t, 1)]
  | (k, n) :: rest, t => if k = t then (k, n + 1) :: rest else (k, n) :: countInto rest t

/-- `weighted_link_nodes_iter(block)` -/
def weighted (s : State) (head : Nat) : List (Nat × Nat) := (s.walk head).foldl countInto []

/-- `deduped_link_nodes_iter(block)` -/
def deduped (s : State) (head : Nat) : List Nat := (s.weighted head).map (·.1)

/-- number of entries `weighted_link_nodes_iter(node.inlinks())` yields in
    `get_webentity_most_linked_pages` — for a page without in-list the code walks block 0, the header,
    and counts one entry (D4), unless the probed configuration says that has been repaired -/
def indegreeEntries (s : State) (head : Nat) : Nat :=
  if head = 0 then (if s.cfg.lonelyIndegreeOne then 1 else 0) else (s.weighted head).length

end State
end Traph

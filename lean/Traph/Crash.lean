import Traph.Step
import Traph.Bytes
/-! C18 — a torn or truncated write history. The ghost log of a state is the program-ordered list of
    storage writes; `replay` rebuilds the two stores from any prefix of it; `openCut` is what the
    constructor's open-time checks and header `__ensure` make of the rebuilt files. -/
namespace Traph

/-- the decoded contents of the two files; size 0 = empty file -/
structure Files where
  hdrId : Nat := 0
  trie  : Array Cell := #[]
  links : Array Stub := #[]
deriving Repr, Inhabited

def Files.apply (f : Files) : Write → Files
  | .hdr id => { f with hdrId := id, trie := if f.trie.size = 0 then #[{}] else f.trie }
  | .trieAppend c => { f with trie := f.trie.push c }
  | .trieSet i c => { f with trie := f.trie.setIfInBounds i c }
  | .linkHdr => { f with links := if f.links.size = 0 then #[{}] else f.links }
  | .linkAppend s => { f with links := f.links.push s }

/-- the files after the writes `ws` (oldest first) -/
def replay (ws : List Write) : Files := ws.foldl Files.apply {}

/-- does this write make its file longer (so that a byte-granular cut can fall inside it)? -/
def Write.isAppend (f : Files) : Write → Bool
  | .hdr _ => f.trie.size = 0
  | .trieAppend _ => true
  | .trieSet _ _ => false
  | .linkHdr => f.links.size = 0
  | .linkAppend _ => true

/-- `Traph(folder=…)` on the rebuilt files: a partial block is refused with the library's own error;
    an empty store gets its header written; the RAM part is whatever the caller supplies again -/
def openCut (ram : State) (f : Files) (partialBytes : Nat) : Except Err State :=
  if partialBytes ≠ 0 then .error .traph else
  .ok { ram with
        hdrId := if f.trie.size = 0 then 0 else f.hdrId
        trie := if f.trie.size = 0 then #[{}] else f.trie
        links := if f.links.size = 0 then #[{}] else f.links
        log := [] }

/-- cut after the first `k` writes plus `j` bytes of the next one (only an append can be torn) -/
def cutOpen (ram : State) (full : List Write) (k j : Nat) : Except Err State :=
  let f := replay (full.take k)
  let torn := match full[k]? with
    | some w => if w.isAppend f then j else 0
    | none => 0
  openCut ram f torn

/-! ### `clear` on a live folder: the two truncations are crash points too

    `Traph.clear` empties the trie file first and the link file second (`open(path, "wb+")`, in memory the two
    `storage.clear()` calls), then writes the two headers. The events a crash can separate are therefore the
    storage writes plus these two truncations. -/

inductive Event where
  | write (w : Write)
  | truncTrie
  | truncLinks
deriving DecidableEq, Repr, Inhabited

/-- the order in which `clear` empties the two stores: pointers (trie) first, pointees (links) second -/
def clearTruncations : List Event := [.truncTrie, .truncLinks]

def Files.applyE (f : Files) : Event → Files
  | .write w => f.apply w
  | .truncTrie => { f with hdrId := 0, trie := #[] }
  | .truncLinks => { f with links := #[] }

/-- the files after the events `es` (oldest first) -/
def replayE (es : List Event) : Files := es.foldl Files.applyE {}

def Event.isAppend (f : Files) : Event → Bool
  | .write w => w.isAppend f
  | _ => false

/-- the events of one request: `clear` truncates before it writes anything -/
def opEvents (isClear : Bool) (ws : List Write) : List Event :=
  (if isClear then clearTruncations else []) ++ ws.map .write

/-- cut after the first `k` events plus `j` bytes of the next one (only an append can be torn) -/
def cutOpenE (ram : State) (full : List Event) (k j : Nat) : Except Err State :=
  let f := replayE (full.take k)
  let torn := match full[k]? with
    | some e => if e.isAppend f then j else 0
    | none => 0
  openCut ram f torn

/-- how a ghost write reaches the storage layer: (kind, byte offset, bytes) with kind 0 = trie write at an offset,
    1 = trie append, 2 = link-store write at an offset, 3 = link-store append. The driver fingerprints exactly these
    and the harness compares them with the real `FileStorage.write` / `MemoryStorage.write` calls; Proofs/StorageBridge
    proves that the calls are disciplined and leave both back-ends with the codec image of the state. -/
def writeBytes : Write → Nat × Nat × Bytes
  | .hdr id => (0, 0, encodeTrieHeader id)
  | .trieAppend c => (1, 0, encodeCell c)
  | .trieSet i c => (0, i * Layout.trieBlock, encodeCell c)
  | .linkHdr => (2, 0, encodeLinkHeader)
  | .linkAppend s => (3, 0, encodeStub s)

end Traph

import Traph.Links
import Traph.Rules
/-! traph/traph.py — the public API. Write requests are `State → State × …` (the state returned on an
    error is the partially written one, as in Python where an exception leaves earlier writes in place);
    queries are pure functions of the state, so "queries never modify the index" is visible in their
    types. Arguments are already-encoded byte strings. -/
namespace Traph
open Layout

/-- `TraphWriteReport`: `created_webentities` is an insertion-ordered dict; key `none` is Python `None` -/
structure Report where
  pages : Nat := 0
  we    : List (Option Nat × List Bytes) := []
deriving Repr, DecidableEq, Inhabited

def dictSet {α β} [DecidableEq α] : List (α × β) → α → β → List (α × β)
  | [], k, v => [(k, v)]
  | (k', v') :: rest, k, v => if k' = k then (k', v) :: rest else (k', v') :: dictSet rest k v

def dictGet? {α β} [DecidableEq α] (d : List (α × β)) (k : α) : Option β :=
  (d.find? (fun p => p.1 = k)).map (·.2)

/-- `defaultdict(list)[k].append(v)` -/
def multiAdd {α β} [DecidableEq α] : List (α × List β) → α → β → List (α × List β)
  | [], k, v => [(k, [v])]
  | (k', vs) :: rest, k, v => if k' = k then (k', vs ++ [v]) :: rest else (k', vs) :: multiAdd rest k v

/-- `report += other` -/
def Report.add (r o : Report) : Report :=
  { pages := r.pages + o.pages, we := o.we.foldl (fun d kv => dictSet d kv.1 kv.2) r.we }

namespace State

/-! ### internal write helpers -/

/-- `__generated_web_entity_id`: increment, write the header, return -/
def genId (s : State) : State × Nat := (s.setHdr (s.hdrId + 1), s.hdrId + 1)

def addPrefixesScan : State → List Bytes → List (Bytes × Nat) → Nat → State × List (Bytes × Nat) × Nat
  | s, [], valid, nInvalid => (s, valid, nInvalid)
  | s, p :: ps, valid, nInvalid =>
    let (s1, n, _) := s.addLru (lruIter p) true
    if (s1.cell n).we ≠ 0 then addPrefixesScan s1 ps valid (nInvalid + 1)
    else addPrefixesScan s1 ps (dictSet valid p n) nInvalid

/-- `__add_prefixes(prefixes, use_best_case)` -/
def addPrefixes (s : State) (prefixes : List Bytes) (best : Bool) :
    State × Except Err (Option Nat × List Bytes) :=
  let (s1, valid, nInvalid) := addPrefixesScan s prefixes [] 0
  if nInvalid > 0 && !best then (s1, .error .traph)
  else if nInvalid = prefixes.length then (s1, .ok (none, []))
  else
    let (s2, id) := s1.genId
    let s3 := valid.foldl (fun st pn => st.modCell pn.2 (fun c => { c with we := id })) s2
    (s3, .ok (some id, valid.map (·.1)))

/-- `__create_webentity(prefix, expand=True, use_best_case=True)` -/
def createWebentityAuto (s : State) (pfx : Bytes) : State × Report :=
  match s.addPrefixes (lruVariations pfx) true with
  | (s1, .ok (some id, ps)) => (s1, { we := [(some id, ps)] })
  | (s1, _) => (s1, {})

/-- longest candidate over the anchored rules, deepest anchor first; `none` in the outer option is
    the KeyError of a flagged anchor that is missing from the RAM dict -/
def longestCandidate (s : State) (lru : Bytes) (h : Hist) : Option Bytes :=
  h.rules.reverse.foldl (fun acc pos =>
    match acc with
    | none => none
    | some best =>
      match dictGet? s.rules (lru.take pos) with
      | none => none
      | some r =>
        match r.search lru with
        | some cand => if !cand.isEmpty && cand.length > best.length then some cand else some best
        | none => some best) (some [])

/-- `__add_page(lru, crawled)`; returns the page's block -/
def addPageCore (s : State) (lru : Bytes) (crawled : Bool) : State × Nat × Except Err Report :=
  let (s1, n, h) := s.addPageTrie (lruIter lru) crawled
  let rep : Report := { pages := if h.created then 1 else 0 }
  match s1.longestCandidate lru h with
  | none => (s1, n, .error (.other "KeyError"))
  | some cand =>
    let covered := match h.wePos with | some p => decide (cand.length ≤ p) | none => false
    if covered then (s1, n, .ok rep)
    else if !cand.isEmpty then
      let (s2, r2) := s1.createWebentityAuto cand
      (s2, n, .ok (rep.add r2))
    else
      match s1.dflt.search lru with
      | none => (s1, n, .ok rep)
      | some k =>
        if k.isEmpty then (s1, n, .ok rep) else
        let (s2, r2) := s1.createWebentityAuto k
        (s2, n, .ok (rep.add r2))

/-! ### write requests -/

def addPage (s : State) (lru : Bytes) (crawled : Bool) : State × Except Err Report :=
  let (s1, _, r) := s.addPageCore lru crawled
  (s1, r)

def addPagesGo (always : Bool) : State → List Bytes → Bool → Report → State × Except Err Report
  | s, [], _, rep => (s, .ok rep)
  | s, l :: ls, crawled, rep =>
    match s.addPageCore l crawled with
    | (s1, _, .error e) => (s1, .error e)
    | (s1, n, .ok r) =>
      let s2 := if always then s1.modCell n (fun c => { c with flags := { c.flags with crawled := true } }) else s1
      addPagesGo always s2 ls crawled (rep.add r)

/-- `add_pages(lrus, crawled)`: the code flags and rewrites every page as crawled afterwards -/
def addPages (s : State) (lrus : List Bytes) (crawled : Bool) : State × Except Err Report :=
  addPagesGo s.cfg.addPagesAlwaysCrawled s lrus crawled {}

structure LinkAcc where
  pages : List (Bytes × Nat) := []
  outl  : List (Bytes × List Bytes) := []
  inl   : List (Bytes × List Bytes) := []
  rep   : Report := {}

def ensurePageCached (s : State) (acc : LinkAcc) (l : Bytes) (crawled : Bool) :
    State × Except Err LinkAcc :=
  match dictGet? acc.pages l with
  | some _ => (s, .ok acc)
  | none =>
    match s.addPageCore l crawled with
    | (s1, _, .error e) => (s1, .error e)
    | (s1, n, .ok r) => (s1, .ok { acc with pages := acc.pages ++ [(l, n)], rep := acc.rep.add r })

def blocksOf (pages : List (Bytes × Nat)) (ls : List Bytes) : List Nat :=
  ls.map (fun l => (dictGet? pages l).getD 0)

def flushLists (out : Bool) (pages : List (Bytes × Nat)) : State → List (Bytes × List Bytes) → State
  | s, [] => s
  | s, (p, others) :: rest =>
    flushLists out pages (s.addStubs ((dictGet? pages p).getD 0) (blocksOf pages others) out) rest

def addLinksScan : State → List (Bytes × Bytes) → LinkAcc → State × Except Err LinkAcc
  | s, [], acc => (s, .ok acc)
  | s, (src, tgt) :: rest, acc =>
    match s.ensurePageCached acc src false with
    | (s1, .error e) => (s1, .error e)
    | (s1, .ok acc1) =>
      match s1.ensurePageCached acc1 tgt false with
      | (s2, .error e) => (s2, .error e)
      | (s2, .ok acc2) =>
        addLinksScan s2 rest { acc2 with outl := multiAdd acc2.outl src tgt, inl := multiAdd acc2.inl tgt src }

/-- `add_links(links)` -/
def addLinks (s : State) (links : List (Bytes × Bytes)) : State × Except Err Report :=
  match addLinksScan s links {} with
  | (s1, .error e) => (s1, .error e)
  | (s1, .ok acc) =>
    let s2 := flushLists true acc.pages s1 acc.outl
    let s3 := flushLists false acc.pages s2 acc.inl
    (s3, .ok acc.rep)

def batchTargets : State → Bytes → List Bytes → LinkAcc → List Nat → State × Except Err (LinkAcc × List Nat)
  | s, _, [], acc, tb => (s, .ok (acc, tb))
  | s, src, t :: ts, acc, tb =>
    match s.ensurePageCached acc t false with
    | (s1, .error e) => (s1, .error e)
    | (s1, .ok acc1) =>
      batchTargets s1 src ts { acc1 with inl := multiAdd acc1.inl t src }
        (tb ++ [(dictGet? acc1.pages t).getD 0])

def batchSources : State → List (Bytes × List Bytes) → LinkAcc → State × Except Err LinkAcc
  | s, [], acc => (s, .ok acc)
  | s, (src, tgts) :: rest, acc =>
    let r1 : State × Except Err LinkAcc :=
      match dictGet? acc.pages src with
      | none => s.ensurePageCached acc src true
      | some n =>
        if !(s.cell n).flags.crawled then
          (s.modCell n (fun c => { c with flags := { c.flags with crawled := true } }), .ok acc)
        else (s, .ok acc)
    match r1 with
    | (s1, .error e) => (s1, .error e)
    | (s1, .ok acc1) =>
      match batchTargets s1 src tgts acc1 [] with
      | (s2, .error e) => (s2, .error e)
      | (s2, .ok (acc2, tb)) =>
        let s3 := s2.addStubs ((dictGet? acc2.pages src).getD 0) tb true
        batchSources s3 rest acc2

/-- `index_batch_crawl(data)` run to completion -/
def batch (s : State) (data : List (Bytes × List Bytes)) : State × Except Err Report :=
  match batchSources s data {} with
  | (s1, .error e) => (s1, .error e)
  | (s1, .ok acc) => (flushLists false acc.pages s1 acc.inl, .ok acc.rep)

/-- the DFS of `add_webentity_creation_rule_iter`, interleaved with `__add_page`: the block is read at
    pop time and its pointers are pushed from that copy *after* the page has been re-inserted -/
def addRuleLoop (startBlock : Nat) : Nat → State → List (Nat × Bytes) → Report → State × Except Err Report
  | 0, s, _, rep => (s, .ok rep)
  | _, s, [], rep => (s, .ok rep)
  | fuel + 1, s, (b, lru) :: stack, rep =>
    let c := s.cell b
    let cur := lru ++ s.stemAt b
    let r : State × Except Err Report :=
      if c.flags.page then
        (match s.addPageCore cur false with
         | (s1, _, .error e) => (s1, .error e)
         | (s1, _, .ok r1) => (s1, .ok (rep.add r1)))
      else (s, .ok rep)
    match r with
    | (s1, .error e) => (s1, .error e)
    | (s1, .ok rep1) =>
      let stack := if b ≠ startBlock then
          (let st := if c.right ≠ 0 then (c.right, lru) :: stack else stack
           if c.left ≠ 0 then (c.left, lru) :: st else st) else stack
      let stack := if c.child ≠ 0 then (c.child, cur) :: stack else stack
      addRuleLoop startBlock fuel s1 stack rep1

/-- `add_webentity_creation_rule(prefix, pattern, write_in_trie)` -/
def addRule (s : State) (anchor : Bytes) (r : Rule) (writeInTrie : Bool) : State × Except Err Report :=
  let s0 := { s with rules := dictSet s.rules anchor r }
  if !writeInTrie then (s0, .ok {}) else
  let (s1, n, _) := s0.addLru (lruIter anchor) false
  let s2 := s1.modCell n (fun c => { c with flags := { c.flags with rule := true } })
  addRuleLoop n (8 * (s2.trie.size + 2) * (s2.trie.size + 2)) s2 [(n, lruDirname anchor)] {}

/-- `remove_webentity_creation_rule(prefix)` -/
def removeRule (s : State) (anchor : Bytes) : State × Except Err Unit :=
  match dictGet? s.rules anchor with
  | none => (s, .error (.other "KeyError"))
  | some _ =>
    let s0 := { s with rules := s.rules.filter (fun p => p.1 ≠ anchor) }
    match s0.lruNode (lruIter anchor) with
    | none => (s0, .error .traph)
    | some n => (s0.modCell n (fun c => { c with flags := { c.flags with rule := false } }), .ok ())

/-- `create_webentity(prefixes)` -/
def createWebentity (s : State) (prefixes : List Bytes) : State × Except Err Report :=
  match s.addPrefixes prefixes false with
  | (s1, .error e) => (s1, .error e)
  | (s1, .ok (id, ps)) => (s1, .ok { we := [(id, ps)] })

def deleteScanChecked (s : State) (weid : Nat) : List Bytes → List (Bytes × Nat) → Except Err (List (Bytes × Nat))
  | [], idx => .ok idx
  | p :: ps, idx =>
    match s.lruNode (lruIter p) with
    | none => .error .traph
    | some n => if (s.cell n).we = 0 || (s.cell n).we ≠ weid then .error .traph
                else deleteScanChecked s weid ps (dictSet idx p n)

/-- `delete_webentity(weid, prefixes, check_for_corruption=True)` -/
def deleteWebentity (s : State) (weid : Nat) (prefixes : List Bytes) : State × Except Err Unit :=
  match deleteScanChecked s weid prefixes [] with
  | .error e => (s, .error e)
  | .ok idx => (idx.foldl (fun st pn => st.modCell pn.2 (fun c => { c with we := 0 })) s, .ok ())

/-- the look-ups of `delete_webentity(…, check_for_corruption=False)`: prefix ↦ node or `None`, in a dict -/
def deleteScanUnchecked (s : State) : List Bytes → List (Bytes × Option Nat) → List (Bytes × Option Nat)
  | [], idx => idx
  | p :: ps, idx => deleteScanUnchecked s ps (dictSet idx p (s.lruNode (lruIter p)))

/-- its write loop: a prefix that is not in the trie stops it (`None.unset_webentity()` is an AttributeError) after
    the prefixes before it — in the order of the dict — have been detached -/
def deleteWrites : State → List (Bytes × Option Nat) → State × Except Err Unit
  | s, [] => (s, .ok ())
  | s, (_, none) :: _ => (s, .error (.other "AttributeError"))
  | s, (_, some n) :: rest => deleteWrites (s.modCell n (fun c => { c with we := 0 })) rest

/-- `delete_webentity(weid, prefixes, check_for_corruption=False)` (the id is ignored) -/
def deleteUnchecked (s : State) (prefixes : List Bytes) : State × Except Err Unit :=
  deleteWrites s (deleteScanUnchecked s prefixes [])

/-- `add_prefix_to_webentity(prefix, weid)` -/
def addPrefix (s : State) (pfx : Bytes) (weid : Nat) : State × Except Err Unit :=
  let (s1, n, _) := s.addLru (lruIter pfx) true
  if (s1.cell n).we ≠ 0 then (s1, .error .traph)
  else (s1.modCell n (fun c => { c with we := weid }), .ok ())

/-- `remove_prefix_from_webentity(prefix, weid=False)`; `weid = none` is the default `False` -/
def removePrefix (s : State) (pfx : Bytes) (weid : Option Nat) : State × Except Err Unit :=
  let (s1, n, _) := s.addLru (lruIter pfx) false
  let ok := match weid with | none => true | some w => w = 0 || (s1.cell n).we = w
  if ok then (s1.modCell n (fun c => { c with we := 0 }), .ok ()) else (s1, .error .traph)

/-- `move_prefix_to_webentity(prefix, weid_target, weid_source=False)` -/
def movePrefix (s : State) (pfx : Bytes) (target : Nat) (source : Option Nat) : State × Except Err Unit :=
  match s.removePrefix pfx source with
  | (s1, .error e) => (s1, .error e)
  | (s1, .ok _) => s1.addPrefix pfx target

def installRules : State → List (Bytes × Rule) → Bool → State × Except Err Unit
  | s, [], _ => (s, .ok ())
  | s, (a, r) :: rest, w =>
    match s.addRule a r w with
    | (s1, .error e) => (s1, .error e)
    | (s1, .ok _) => installRules s1 rest w

/-- a fresh index (`Traph(folder=fresh or None, …)`, or `overwrite=True`): both headers, then the
    constructor's rules written into the trie (repaired D8: also for the memory back-end) -/
def fresh (cfg : Config) (dflt : Rule) (rules : List (Bytes × Rule)) (log : List Write := []) : State × Except Err Unit :=
  let s : State := { cfg := cfg, dflt := dflt, log := .linkHdr :: .hdr 0 :: log }
  installRules s rules true

/-- close + `Traph(folder=existing, …)`: the files are the state; rules go to RAM only -/
def reopen (s : State) (dflt : Rule) (rules : List (Bytes × Rule)) : State :=
  { s with dflt := dflt, rules := rules.foldl (fun d ar => dictSet d ar.1 ar.2) [] }

/-- `clear(default_rule, rules)`; absent arguments keep the RAM values -/
def clear (s : State) (dflt : Option Rule) (rules : Option (List (Bytes × Rule))) : State × Except Err Unit :=
  let s0 : State := { cfg := s.cfg, dflt := dflt.getD s.dflt, rules := s.rules,
                      log := .linkHdr :: .hdr 0 :: s.log }
  match rules with
  | none => (s0, .ok ())
  | some rs => installRules { s0 with rules := [] } rs true

/-! ### queries (pure) -/

def retrievePrefix (s : State) (lru : Bytes) : Except Err Bytes :=
  let (_, h) := s.followLru (lruIter lru)
  match h.wePos with
  | some p => if p = 0 then .error .traph else .ok (lru.take p)
  | none => .error .traph

def retrieveWebentity (s : State) (lru : Bytes) : Except Err Nat :=
  let (_, h) := s.followLru (lruIter lru)
  if h.we = 0 then .error .traph else .ok h.we

/-- `get_potential_prefix`: `ok none` is the `False` answer -/
def potentialPrefix (s : State) (lru : Bytes) : Except Err (Option Bytes) :=
  let (_, h) := s.followLru (lruIter lru)
  match s.longestCandidate lru h with
  | none => .error (.other "KeyError")
  | some cand =>
    match h.wePos with
    | some p => if cand.length ≤ p then .ok (some (lru.take p)) else .ok (some cand)
    | none =>
      if !cand.isEmpty then .ok (some cand) else
      match s.dflt.search lru with
      | some k => if k.isEmpty then .ok none else .ok (some k)
      | none => .ok none

def webentityByPrefix (s : State) (pfx : Bytes) : Except Err Nat :=
  match s.lruNode (lruIter pfx) with
  | none => .error .traph
  | some n => if (s.cell n).we = 0 then .error .traph else .ok (s.cell n).we

def forPrefixesStep {α} (s : State) (f : Nat → Bytes → List α) (acc : Except Err (List α)) (p : Bytes) :
    Except Err (List α) :=
  match acc with
  | .error e => .error e
  | .ok xs => match s.lruNode (lruIter p) with
    | none => .error .traph
    | some n => .ok (xs ++ f n p)

/-- run `f` on the start block of every prefix in turn, failing with the library's error on the first
    prefix that is not in the trie -/
def forPrefixes {α} (s : State) (prefixes : List Bytes) (f : Nat → Bytes → List α) : Except Err (List α) :=
  prefixes.foldl (s.forPrefixesStep f) (.ok [])

/-- `get_webentity_pages(weid, prefixes)` : (lru, crawled) -/
def webentityPages (s : State) (prefixes : List Bytes) : Except Err (List (Bytes × Bool)) :=
  s.forPrefixes prefixes (fun n p =>
    ((s.weDfs n p none).filter (fun bl => (s.cell bl.1).flags.page)).map
      (fun bl => (bl.2, (s.cell bl.1).flags.crawled)))

def webentityCrawledPages (s : State) (prefixes : List Bytes) : Except Err (List (Bytes × Bool)) :=
  (s.webentityPages prefixes).map (fun l => l.filter (·.2))

structure PageChunk where
  done    : Bool
  count   : Nat
  crawled : Nat
  pages   : List (Bytes × Bool)
  token   : Option Bytes
deriving Repr, DecidableEq, Inhabited

structure PagAcc where
  n : Nat := 0
  c : Nat := 0
  pages : List (Bytes × Bool) := []
  lastPath : Option Nat := none
  lastI : Option Nat := none

/-- token text; a `None` index makes `"%i" % None` raise TypeError -/
def tokenOf (i path : Option Nat) : Except Err Bytes :=
  match i, path with
  | some i, some p => .ok (buildToken i p)
  | _, _ => .error (.other "TypeError")

/-- inner loop of `paginate_webentity_pages` over the in-order items of one prefix;
    `inl` = early return value -/
def paginatePagesItems (s : State) (k : Option Nat) (crawledOnly : Bool) (i : Nat) :
    List (Nat × Bytes × Nat) → PagAcc → Sum (Except Err PageChunk) PagAcc
  | [], acc => .inr acc
  | (b, lru, path) :: rest, acc =>
    let c := s.cell b
    if !c.flags.page then paginatePagesItems s k crawledOnly i rest acc
    else if crawledOnly && !c.flags.crawled then paginatePagesItems s k crawledOnly i rest acc
    else
      let n := acc.n + 1
      let stop := match k with | some k => decide (n ≥ k) | none => false
      if stop then
        .inl (match tokenOf acc.lastI acc.lastPath with
              | .error e => .error e
              | .ok t => .ok { done := false, count := n - 1, crawled := acc.c,
                               pages := acc.pages.take (n - 1), token := some t })
      else
        paginatePagesItems s k crawledOnly i rest
          { n := n, c := if c.flags.crawled then acc.c + 1 else acc.c,
            pages := acc.pages ++ [(lru, c.flags.crawled)], lastPath := some path, lastI := some i }

def paginatePagesPrefixes (s : State) (k : Option Nat) (crawledOnly : Bool) :
    List (Nat × Bytes) → Option Nat → PagAcc → Except Err PageChunk
  | [], _, acc => .ok { done := true, count := acc.n, crawled := acc.c, pages := acc.pages, token := none }
  | (i, p) :: rest, pagPath, acc =>
    match s.lruNode (lruIter p) with
    | none => .error .traph
    | some n =>
      match s.weInorder n p pagPath with
      | none => .error (.other "LRUTrieNodeTraversalException")
      | some items =>
        match paginatePagesItems s k crawledOnly i items acc with
        | .inl r => r
        | .inr acc1 => paginatePagesPrefixes s k crawledOnly rest none acc1

def enumFrom {α} (i : Nat) : List α → List (Nat × α)
  | [] => []
  | x :: xs => (i, x) :: enumFrom (i + 1) xs

/-- `paginate_webentity_pages(weid, prefixes, page_count, pagination_token, crawled_only)` -/
def paginatePages (s : State) (prefixes : List Bytes) (pageCount : Option Nat) (token : Option Bytes)
    (crawledOnly : Bool) : Except Err PageChunk :=
  let k := pageCount.map (· + 1)
  match (match token with
         | none => some (0, none)
         | some t => if t.isEmpty then some (0, none) else (parseToken t).map (fun ip => (ip.1, some ip.2))) with
  | none => .error (.other "ValueError")
  | some (startI, pagPath) =>
    paginatePagesPrefixes s k crawledOnly ((enumFrom 0 prefixes).drop startI) pagPath {}

/-- sorted insert on (indegree, arrival) ascending; keys are unique -/
def heapInsert (x : Nat × Nat × Bytes) : List (Nat × Nat × Bytes) → List (Nat × Nat × Bytes)
  | [] => [x]
  | y :: ys => if x.1 < y.1 || (x.1 = y.1 && x.2.1 < y.2.1) then x :: y :: ys else y :: heapInsert x ys

/-- `heappush` then `heappop` when the heap exceeds `k` entries -/
def boundedPush (k : Nat) (h : List (Nat × Nat × Bytes)) (x : Nat × Nat × Bytes) : List (Nat × Nat × Bytes) :=
  let h1 := heapInsert x h
  if h1.length > k then h1.drop 1 else h1

/-- the bounded heap after all pushes, ascending -/
def topK (k : Nat) (xs : List (Nat × Nat × Bytes)) : List (Nat × Nat × Bytes) := xs.foldl (boundedPush k) []

/-- `get_webentity_most_linked_pages(weid, prefixes, pages_count, max_depth)` : (lru, indegree), best first.
    The bounded `heapq` is modelled by what it computes: the `k` largest keys. -/
def mostLinked (s : State) (prefixes : List Bytes) (k : Nat) (maxDepth : Option Nat) :
    Except Err (List (Bytes × Nat)) :=
  (s.forPrefixes prefixes (fun n p =>
      ((s.weDfs n p maxDepth).filter (fun bl => (s.cell bl.1).flags.page)).map
        (fun bl => (bl.2, s.indegreeEntries (s.cell bl.1).inn)))).map (fun pages =>
    let heap := topK k ((enumFrom 1 pages).map (fun ip => (ip.2.2, ip.1, ip.2.1)))
    heap.reverse.map (fun x => (x.2.2, x.1)))

def insertSorted (x : Nat) : List Nat → List Nat
  | [] => [x]
  | y :: ys => if x < y then x :: y :: ys else if x = y then y :: ys else y :: insertSorted x ys

def sortDedup (l : List Nat) : List Nat := l.foldl (fun acc x => insertSorted x acc) []

/-- `get_webentity_parent_webentities` (as a sorted set) -/
def parentWebentities (s : State) (weid : Nat) (prefixes : List Bytes) : Except Err (List Nat) :=
  (s.forPrefixes prefixes (fun n _ =>
      ((s.parents n).map (fun p => (s.cell p).we)).filter (fun w => w ≠ 0 && w ≠ weid))).map sortDedup

/-- `get_webentity_child_webentities` (as a sorted set) -/
def childWebentities (s : State) (weid : Nat) (prefixes : List Bytes) : Except Err (List Nat) :=
  (s.forPrefixes prefixes (fun n p =>
      ((s.dfsIter (some (n, p)) true).map (fun bl => (s.cell bl.1).we)).filter
        (fun w => w ≠ 0 && w ≠ weid))).map sortDedup

abbrev PageLink := Bytes × Bytes × Nat

/-- links of one source page, filtered as `get_webentity_pagelinks_iter` does -/
def outLinksOfPage (s : State) (weid : Nat) (b : Nat) (lru : Bytes) (incInt incOut : Bool) : List PageLink :=
  let c := s.cell b
  if c.out ≠ 0 && (incOut || incInt) then
    (s.weighted c.out).filterMap (fun tw =>
      let tWe := s.windupWe tw.1
      if (incOut && tWe ≠ weid) || (incInt && tWe = weid) then some (lru, s.windup tw.1, tw.2) else none)
  else []

def inLinksOfPage (s : State) (weid : Nat) (b : Nat) (lru : Bytes) (incIn : Bool) : List PageLink :=
  let c := s.cell b
  if c.inn ≠ 0 && incIn then
    (s.weighted c.inn).filterMap (fun sw =>
      if s.windupWe sw.1 ≠ weid then some (s.windup sw.1, lru, sw.2) else none)
  else []

/-- `get_webentity_pagelinks(weid, prefixes, include_inbound, include_internal, include_outbound)` -/
def webentityPagelinks (s : State) (weid : Nat) (prefixes : List Bytes) (incIn incInt incOut : Bool) :
    Except Err (List PageLink) :=
  if !incInt && !incOut && !incIn then .error .traph else
  s.forPrefixes prefixes (fun n p =>
    ((s.weDfs n p none).filter (fun bl => (s.cell bl.1).flags.page)).flatMap (fun bl =>
      s.outLinksOfPage weid bl.1 bl.2 incInt incOut ++ s.inLinksOfPage weid bl.1 bl.2 incIn))

structure LinkChunk where
  done        : Bool
  sourcePages : Nat
  links       : List PageLink
  token       : Option Bytes
deriving Repr, DecidableEq, Inhabited

structure PlAcc where
  n : Nat := 0
  links : List PageLink := []
  lastPath : Option Nat := none
  lastI : Option Nat := none

/-- inner loop of `paginate_webentity_pagelinks` (repaired D3: the link-less branch records the
    prefix index together with the path) -/
def paginateLinksItems (s : State) (weid : Nat) (incInt incOut : Bool) (count : Option Nat) (i : Nat) :
    List (Nat × Bytes × Nat) → PlAcc → Sum (Except Err LinkChunk) PlAcc
  | [], acc => .inr acc
  | (b, lru, path) :: rest, acc =>
    let c := s.cell b
    if !c.flags.page then paginateLinksItems s weid incInt incOut count i rest acc
    else if c.out = 0 then
      paginateLinksItems s weid incInt incOut count i rest { acc with lastPath := some path, lastI := some i }
    else
      let newlinks := s.outLinksOfPage weid b lru incInt incOut
      if !newlinks.isEmpty then
        let n := acc.n + 1
        let stop := match count with | some k => decide (n > k) | none => false
        if stop then
          .inl (match tokenOf acc.lastI acc.lastPath with
                | .error e => .error e
                | .ok t => .ok { done := false, sourcePages := n - 1, links := acc.links, token := some t })
        else
          paginateLinksItems s weid incInt incOut count i rest
            { n := n, links := acc.links ++ newlinks, lastPath := some path, lastI := some i }
      else
        paginateLinksItems s weid incInt incOut count i rest { acc with lastPath := some path, lastI := some i }

def paginateLinksPrefixes (s : State) (weid : Nat) (incInt incOut : Bool) (count : Option Nat) :
    List (Nat × Bytes) → Option Nat → PlAcc → Except Err LinkChunk
  | [], _, acc => .ok { done := true, sourcePages := acc.n, links := acc.links, token := none }
  | (i, p) :: rest, pagPath, acc =>
    match s.lruNode (lruIter p) with
    | none => .error .traph
    | some n =>
      match s.weInorder n p pagPath with
      | none => .error (.other "LRUTrieNodeTraversalException")
      | some items =>
        match paginateLinksItems s weid incInt incOut count i items acc with
        | .inl r => r
        | .inr acc1 => paginateLinksPrefixes s weid incInt incOut count rest none acc1

/-- `paginate_webentity_pagelinks(weid, prefixes, include_internal, include_outbound, source_page_count, token)` -/
def paginateLinks (s : State) (weid : Nat) (prefixes : List Bytes) (incInt incOut : Bool)
    (count : Option Nat) (token : Option Bytes) : Except Err LinkChunk :=
  if !incInt && !incOut then .error .traph else
  match (match token with
         | none => some (0, none)
         | some t => if t.isEmpty then some (0, none) else (parseToken t).map (fun ip => (ip.1, some ip.2))) with
  | none => .error (.other "ValueError")
  | some (startI, pagPath) =>
    paginateLinksPrefixes s weid incInt incOut count ((enumFrom 0 prefixes).drop startI) pagPath {}

/-- `get_webentity_outlinks` / `get_webentity_inlinks`: the set of webentities at the other ends
    (0 stands for Python's `None` member) -/
def citedWebentities (s : State) (prefixes : List Bytes) (out : Bool) : Except Err (List Nat) :=
  (s.forPrefixes prefixes (fun n p =>
    ((s.weDfs n p none).filter (fun bl => (s.cell bl.1).flags.page)).flatMap (fun bl =>
      let c := s.cell bl.1
      let head := if out then c.out else c.inn
      if head ≠ 0 then (s.deduped head).map (fun t => s.windupWe t) else []))).map sortDedup

/-- `get_webentity_indegree / outdegree / degree`: sizes of the citing / cited sets (the `None` member counts) -/
def webentityDegrees (s : State) (prefixes : List Bytes) : Except Err (List Nat) :=
  match s.citedWebentities prefixes false, s.citedWebentities prefixes true with
  | .ok i, .ok o => .ok [i.length, o.length, i.length + o.length]
  | .error e, _ => .error e
  | _, .error e => .error e

/-- `get_page_links(lru, include_inbound, include_internal, include_outbound)` -/
def pageLinks (s : State) (lru : Bytes) (incIn incInt incOut : Bool) : List PageLink :=
  match s.lruNode (lruIter lru) with
  | none => []
  | some n =>
    let c := s.cell n
    if !c.flags.page then [] else
    let outs := if c.out ≠ 0 && (incOut || incInt) then
        (s.weighted c.out).filterMap (fun tw =>
          let tl := s.windup tw.1
          if (incOut && tl ≠ lru) || (incInt && tl = lru) then some (lru, tl, tw.2) else none) else []
    let ins := if c.inn ≠ 0 && incIn then
        (s.weighted c.inn).filterMap (fun sw =>
          let sl := s.windup sw.1
          if sl ≠ lru then some (sl, lru, sw.2) else none) else []
    outs ++ ins

inductive DegKind | indeg | outdeg | deg deriving DecidableEq, Repr

/-- `get_page_indegree / outdegree / degree (lru, weighted)` -/
def pageDegree (s : State) (lru : Bytes) (kind : DegKind) (weighted : Bool) : Nat :=
  let ls := match kind with
    | .indeg => s.pageLinks lru true false false
    | .outdeg => s.pageLinks lru false false true
    | .deg => s.pageLinks lru true true true
  if weighted then (ls.map (·.2.2)).sum else ls.length

structure NetRow where
  src : Nat
  targets : List (Nat × Nat)       -- insertion order
  crawled : Nat := 0
  uncrawled : Nat := 0
deriving Repr, DecidableEq, Inhabited

def netTouch (g : List NetRow) (src : Nat) (f : NetRow → NetRow) : List NetRow :=
  match g with
  | [] => [f { src := src, targets := [] }]
  | r :: rest => if r.src = src then f r :: rest else r :: netTouch rest src f

def counterAdd (d : List (Nat × Nat)) (k w : Nat) : List (Nat × Nat) :=
  match d with
  | [] => [(k, w)]
  | (k', w') :: rest => if k' = k then (k', w' + w) :: rest else (k', w') :: counterAdd rest k w

/-- `get_webentities_links(out, include_auto)` (two passes) -/
def network (s : State) (out auto : Bool) : List NetRow :=
  let pagesWe := (s.dfsWe.filter (fun bw => (s.cell bw.1).flags.page && bw.2 ≠ 0))
  let g0 := pagesWe.foldl (fun g bw =>
      netTouch g bw.2 (fun r => if (s.cell bw.1).flags.crawled then { r with crawled := r.crawled + 1 }
                                else { r with uncrawled := r.uncrawled + 1 })) []
  let pointers := pagesWe.filterMap (fun bw =>
      let c := s.cell bw.1
      let head := if out then c.out else c.inn
      if head ≠ 0 then some (bw.2, head) else none)
  pointers.foldl (fun g sh =>
    (s.weighted sh.2).foldl (fun g tw =>
      match dictGet? pagesWe tw.1 with
      | none => g
      | some tWe =>
        if !auto && sh.1 = tWe then g
        else netTouch g sh.1 (fun r => { r with targets := counterAdd r.targets tWe tw.2 })) g) g0

/-- `get_webentities_links_slow(out, include_auto)` -/
def networkSlow (s : State) (out auto : Bool) : List NetRow :=
  let step := fun (acc : List NetRow × List (Nat × Nat)) (bw : Nat × Nat) =>
    let c := s.cell bw.1
    let head := if out then c.out else c.inn
    if !c.flags.page || head = 0 || bw.2 = 0 then acc else
    let cache := dictSet acc.2 bw.1 bw.2
    (s.weighted head).foldl (fun (acc : List NetRow × List (Nat × Nat)) tw =>
      let (tWe, cache) := match dictGet? acc.2 tw.1 with
        | some w => (w, acc.2)
        | none => let w := s.windupWe tw.1; (w, if w = 0 then acc.2 else dictSet acc.2 tw.1 w)
      if tWe = 0 then (acc.1, cache)
      else if !auto && bw.2 = tWe then (acc.1, cache)
      else (netTouch acc.1 bw.2 (fun r => { r with targets := counterAdd r.targets tWe tw.2 }), cache))
      (acc.1, cache)
  (s.dfsWe.foldl step ([], [])).1

/-- `pages_iter` : (lru, crawled) in DFS order -/
def pagesIter (s : State) : List (Bytes × Bool) :=
  ((s.dfsIter none false).filter (fun bl => (s.cell bl.1).flags.page)).map
    (fun bl => (bl.2, (s.cell bl.1).flags.crawled))

/-- `webentity_prefix_iter` : (lru, weid) -/
def prefixIter (s : State) : List (Bytes × Nat) :=
  ((s.dfsIter none false).filter (fun bl => (s.cell bl.1).we ≠ 0)).map (fun bl => (bl.2, (s.cell bl.1).we))

/-- `links_iter(out)` : (page lru, other end's lru) -/
def linksIter (s : State) (out : Bool) : List (Bytes × Bytes) :=
  ((s.dfsIter none false).filter (fun bl => (s.cell bl.1).flags.page)).flatMap (fun bl =>
    let c := s.cell bl.1
    let head := if out then c.out else c.inn
    if head = 0 then [] else (s.deduped head).map (fun t => (bl.2, s.windup t)))

def countPages (s : State) : Nat := (s.allBlocks.filter (fun b => (s.cell b).flags.page)).length
def countCrawledPages (s : State) : Nat :=
  (s.allBlocks.filter (fun b => (s.cell b).flags.page && (s.cell b).flags.crawled)).length
/-- `count_links` is `(blocks - 1) / 2` as a float; the model reports twice that value (an integer) -/
def countLinks2 (s : State) : Nat := s.links.size - 1

structure Metrics where
  nbNodes : Nat := 0
  nbPages : Nat := 0
  nbCrawled : Nat := 0
  nbTail : Nat := 0
  nbFragmented : Nat := 0
  nbStems : Nat := 0
  maxTail : Nat := 0
  curTail : Nat := 0
deriving Repr, DecidableEq, Inhabited

/-- integer figures of `LRUTrie.metrics()` -/
def metrics (s : State) : Metrics :=
  s.allBlocks.foldl (fun m b =>
    let c := s.cell b
    let m := { m with nbNodes := m.nbNodes + 1 }
    let nc := if c.flags.crawled then m.nbCrawled + 1 else m.nbCrawled
    let m := if c.flags.page then { m with nbPages := m.nbPages + 1, nbCrawled := nc } else m
    let m := if c.flags.hasTail then { m with nbFragmented := m.nbFragmented + 1 } else m
    if c.flags.isTail then
      let cur := m.curTail + 1
      { m with nbTail := m.nbTail + 1, curTail := cur, maxTail := if cur > m.maxTail then cur else m.maxTail }
    else { m with curTail := 0, nbStems := m.nbStems + 1 }) {}

/-- `links_metrics()` : (max_inlinks_len, lru?, max_outlinks_len, lru?) -/
def linksMetrics (s : State) : Nat × Option Bytes × Nat × Option Bytes :=
  s.allBlocks.foldl (fun (acc : Nat × Option Bytes × Nat × Option Bytes) b =>
    let c := s.cell b
    let il := if c.inn ≠ 0 then (s.deduped c.inn).length else 0
    let ol := if c.out ≠ 0 then (s.deduped c.out).length else 0
    let acc := if il > acc.1 then (il, some (s.windup b), acc.2.2.1, acc.2.2.2) else acc
    if ol > acc.2.2.1 then (acc.1, acc.2.1, ol, some (s.windup b)) else acc) (0, none, 0, none)

end State
end Traph

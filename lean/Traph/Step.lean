import Traph.Api
/-! The request language: every public write request is an `Op`, every read-only request a `Query`.
    `State.step` / `State.ask` are what the driver executes and what the "for every history"
    theorems quantify over. -/
namespace Traph

/-- write requests (arguments already encoded to bytes) -/
inductive Op where
  | addPage (lru : Bytes) (crawled : Bool)
  | addPages (lrus : List Bytes) (crawled : Bool)
  | addLinks (links : List (Bytes × Bytes))
  | batch (data : List (Bytes × List Bytes))
  | create (prefixes : List Bytes)
  | delete (weid : Nat) (prefixes : List Bytes)
  | addPrefix (pfx : Bytes) (weid : Nat)
  | removePrefix (pfx : Bytes) (weid : Option Nat)
  | movePrefix (pfx : Bytes) (target : Nat) (source : Option Nat)
  | addRule (anchor : Bytes) (r : Rule)
  | removeRule (anchor : Bytes)
  | reopen (dflt : Rule) (rules : List (Bytes × Rule))
  | clear (dflt : Option Rule) (rules : Option (List (Bytes × Rule)))
deriving Repr, DecidableEq, Inhabited

/-- read-only requests -/
inductive Query where
  | retrievePrefix (lru : Bytes)
  | potentialPrefix (lru : Bytes)
  | retrieveWebentity (lru : Bytes)
  | webentityByPrefix (pfx : Bytes)
  | pages (prefixes : List Bytes)
  | crawledPages (prefixes : List Bytes)
  | paginatePages (prefixes : List Bytes) (count : Option Nat) (token : Option Bytes) (crawledOnly : Bool)
  | mostLinked (prefixes : List Bytes) (k : Nat) (depth : Option Nat)
  | parents (weid : Nat) (prefixes : List Bytes)
  | children (weid : Nat) (prefixes : List Bytes)
  | pagelinks (weid : Nat) (prefixes : List Bytes) (incIn incInt incOut : Bool)
  | paginateLinks (weid : Nat) (prefixes : List Bytes) (incInt incOut : Bool) (count : Option Nat) (token : Option Bytes)
  | cited (prefixes : List Bytes) (out : Bool)
  | weDegrees (prefixes : List Bytes)
  | pageLinks (lru : Bytes) (incIn incInt incOut : Bool)
  | pageDegree (lru : Bytes) (kind : State.DegKind) (weighted : Bool)
  | network (out auto slow : Bool)
  | expand (pfx : Bytes)
  | linksIter (out : Bool)
  | pagesIter
  | prefixIter
  | counts
  | metrics
  | lruNode (lru : Bytes)
  | windup (block : Nat)
  | dfs
deriving Repr, DecidableEq, Inhabited

open State in
/-- answers, structured (the driver renders them) -/
inductive Ans where
  | unit
  | report (r : Report)
  | bytes (b : Bytes)
  | optBytes (b : Option Bytes)
  | nat (n : Nat)
  | optNat (n : Option Nat)
  | nats (l : List Nat)
  | pages (l : List (Bytes × Bool))
  | pageChunk (c : PageChunk)
  | ranked (l : List (Bytes × Nat))
  | links (l : List PageLink)
  | linkChunk (c : LinkChunk)
  | net (g : List NetRow)
  | bytesList (l : List Bytes)
  | pairs (l : List (Bytes × Bytes))
  | prefixes (l : List (Bytes × Nat))
  | counts (pages crawled links2 : Nat)
  | metrics (m : Metrics) (links2 : Nat) (lm : Nat × Option Bytes × Nat × Option Bytes)
  | blocks (l : List (Nat × Bytes))
  | err (e : Err)
deriving Repr, DecidableEq, Inhabited

def Ans.ofExcept {α} (f : α → Ans) : Except Err α → Ans
  | .ok a => f a
  | .error e => .err e

namespace State

/-- one write request -/
def step (s : State) : Op → State × Ans
  | .addPage l c => let r := s.addPage l c; (r.1, .ofExcept .report r.2)
  | .addPages ls c => let r := s.addPages ls c; (r.1, .ofExcept .report r.2)
  | .addLinks ls => let r := s.addLinks ls; (r.1, .ofExcept .report r.2)
  | .batch d => let r := s.batch d; (r.1, .ofExcept .report r.2)
  | .create ps => let r := s.createWebentity ps; (r.1, .ofExcept .report r.2)
  | .delete w ps => let r := s.deleteWebentity w ps; (r.1, .ofExcept (fun _ => .unit) r.2)
  | .addPrefix p w => let r := s.addPrefix p w; (r.1, .ofExcept (fun _ => .unit) r.2)
  | .removePrefix p w => let r := s.removePrefix p w; (r.1, .ofExcept (fun _ => .unit) r.2)
  | .movePrefix p t f => let r := s.movePrefix p t f; (r.1, .ofExcept (fun _ => .unit) r.2)
  | .addRule a r => let x := s.addRule a r true; (x.1, .ofExcept .report x.2)
  | .removeRule a => let r := s.removeRule a; (r.1, .ofExcept (fun _ => .unit) r.2)
  | .reopen d rs => (s.reopen d rs, .unit)
  | .clear d rs => let r := s.clear d rs; (r.1, .ofExcept (fun _ => .unit) r.2)

/-- one read-only request: a function of the state alone -/
def ask (s : State) : Query → Ans
  | .retrievePrefix l => .ofExcept .bytes (s.retrievePrefix l)
  | .potentialPrefix l => .ofExcept .optBytes (s.potentialPrefix l)
  | .retrieveWebentity l => .ofExcept .nat (s.retrieveWebentity l)
  | .webentityByPrefix p => .ofExcept .nat (s.webentityByPrefix p)
  | .pages ps => .ofExcept .pages (s.webentityPages ps)
  | .crawledPages ps => .ofExcept .pages (s.webentityCrawledPages ps)
  | .paginatePages ps k t co => .ofExcept .pageChunk (s.paginatePages ps k t co)
  | .mostLinked ps k d => .ofExcept .ranked (s.mostLinked ps k d)
  | .parents w ps => .ofExcept .nats (s.parentWebentities w ps)
  | .children w ps => .ofExcept .nats (s.childWebentities w ps)
  | .pagelinks w ps i n o => .ofExcept .links (s.webentityPagelinks w ps i n o)
  | .paginateLinks w ps n o k t => .ofExcept .linkChunk (s.paginateLinks w ps n o k t)
  | .cited ps o => .ofExcept .nats (s.citedWebentities ps o)
  | .weDegrees ps => .ofExcept .nats (s.webentityDegrees ps)
  | .pageLinks l i n o => .links (s.pageLinks l i n o)
  | .pageDegree l k w => .nat (s.pageDegree l k w)
  | .network o a slow => .net (if slow then s.networkSlow o a else s.network o a)
  | .expand p => .bytesList (lruVariations p)
  | .linksIter o => .pairs (s.linksIter o)
  | .pagesIter => .pages s.pagesIter
  | .prefixIter => .prefixes s.prefixIter
  | .counts => .counts s.countPages s.countCrawledPages s.countLinks2
  | .metrics => if s.metrics.nbStems = 0 then .err (.other "ZeroDivisionError")
                else .metrics s.metrics s.countLinks2 s.linksMetrics
  | .lruNode l => .optNat (s.lruNode (lruIter l))
  | .windup b => .bytes (s.windup b)
  | .dfs => .blocks (s.dfsIter none false)

/-- any request -/
inductive Request where
  | write (op : Op)
  | read (q : Query)

def handle (s : State) : Request → State × Ans
  | .write op => s.step op
  | .read q => (s, s.ask q)

/-- a history of write requests from a fresh index -/
def run (s : State) (ops : List Op) : State := ops.foldl (fun st op => (st.step op).1) s

end State
end Traph

import Traph.Helpers
/-! `re.compile(pattern, re.I).search(lru).group()` for Hyphe's rule family (test/config.py), as a
    structural matcher on the stem list. The regex engine itself is *modelled, not verified*; this
    function is validated against Python's `re` by the correspondence check (`rulecheck` slice). -/
namespace Traph

def lowerByte (c : Nat) : Nat := if 65 ≤ c ∧ c ≤ 90 then c + 32 else c
def isAlphaB (c : Nat) : Bool := (65 ≤ c && c ≤ 90) || (97 ≤ c && c ≤ 122)
def isDigitB (c : Nat) : Bool := 48 ≤ c && c ≤ 57
def isHexB (c : Nat) : Bool := isDigitB c || (97 ≤ lowerByte c && lowerByte c ≤ 102)

/-- body of a stem `x:BODY|` -/
def stemBody (s : Stem) : Bytes := (s.drop 2).dropLast

/-- stem starts with the given letter (case-insensitively, `re.I`) followed by ':' and is closed -/
def hasKind (k : Nat) (s : Stem) : Bool :=
  match s with
  | a :: 58 :: _ => lowerByte a == k && s.getLast? == some Layout.sep && s.length ≥ 3
  | _ => false

def isScheme (s : Stem) : Bool := hasKind 115 s && (stemBody s).all isAlphaB && !(stemBody s).isEmpty
def isPort   (s : Stem) : Bool := hasKind 116 s && (stemBody s).all isDigitB && !(stemBody s).isEmpty
def isHost   (s : Stem) : Bool := hasKind 104 s && !(stemBody s).isEmpty
def isPath   (s : Stem) : Bool := hasKind 112 s && !(stemBody s).isEmpty

def isIPv4 (b : Bytes) : Bool :=
  let parts := splitOn 46 b
  parts.length == 4 && parts.all (fun p => 1 ≤ p.length && p.length ≤ 3 && p.all isDigitB)

/-- `\[[\da-f]*:[\da-f:]*\]` -/
def isIPv6 (b : Bytes) : Bool :=
  match b with
  | 91 :: rest =>
    if rest.getLast? != some 93 then false else
    let inner := rest.dropLast
    let afterHex := inner.dropWhile isHexB
    match afterHex with
    | 58 :: tl => tl.all (fun c => isHexB c || c == 58)
    | _ => false
  | _ => false

def localhostB : Bytes := [108, 111, 99, 97, 108, 104, 111, 115, 116]

def isSpecialHost (s : Stem) : Bool :=
  hasKind 104 s &&
  (let b := stemBody s; b.map lowerByte == localhostB || isIPv4 b || isIPv6 b)

/-- number of path stems a rule demands after the host part -/
def Rule.npath : Rule → Nat
  | .path n => n
  | _ => 0

/-- after scheme (+port): the host alternatives, then the path stems. Returns how many stems match. -/
def matchAfter (r : Rule) (st : List Stem) (i : Nat) : Option Nat :=
  let hostRun := ((st.drop i).takeWhile isHost).length
  let c1 : List Nat :=
    if hostRun ≥ 2 then (match r with | .domain => [i + 2] | _ => [i + hostRun]) else []
  let c2 : List Nat := match st[i]? with
    | some s => if isSpecialHost s then [i + 1] else []
    | none => []
  let np := r.npath
  ((c1 ++ c2).find? (fun j => (List.range np).all (fun k => match st[j + k]? with
      | some s => isPath s | none => false))).map (· + np)

/-- match anchored at offset 0 of `b` (the result is then a stem-prefix of `b`) -/
def Rule.matchAt0 (r : Rule) (b : Bytes) : Option Bytes :=
  match r with
  | .never => none
  | _ =>
    let st := lruIter b
    match st with
    | [] => none
    | s0 :: _ =>
      if !isScheme s0 then none else
      let res := match st[1]? with
        | some s1 => if isPort s1 then matchAfter r st 2 else matchAfter r st 1
        | none => matchAfter r st 1
      res.map (fun n => flatten (st.take n))

def Rule.searchGo (r : Rule) : Nat → Bytes → Option Bytes
  | 0, _ => none
  | fuel + 1, b =>
    match r.matchAt0 b with
    | some m => some m
    | none => match b with
      | [] => none
      | _ :: bs => r.searchGo fuel bs

/-- `regexp.search(lru).group()`: leftmost match = `matchAt0` of the first suffix that matches -/
def Rule.search (r : Rule) (b : Bytes) : Option Bytes := r.searchGo (b.length + 1) b

def Rule.ofName : String → Option Rule
  | "never" => some .never
  | "domain" => some .domain
  | "subdomain" => some .subdomain
  | "path1" => some (.path 1)
  | "path2" => some (.path 2)
  | "path3" => some (.path 3)
  | "path4" => some (.path 4)
  | _ => none

end Traph

import Traph.Basic
/-! traph/storage/{file,memory,memmap}.py as three small state machines over one byte list.
    `FileSt` has the OS cursor; `MemSt` has Python slice semantics; `mmapRead` is `MemMapStorage.read`. -/
namespace Traph

/-- `FileStorage`: the file's bytes and the cursor of the file object -/
structure FileSt where
  data : Bytes := []
  pos  : Nat := 0
deriving Repr, DecidableEq, Inhabited

/-- `MemoryStorage`: a bytearray -/
structure MemSt where
  data : Bytes := []
deriving Repr, DecidableEq, Inhabited

/-- overwrite `d` at offset `off` with `new` (a file write at `off`; zero-fills a gap past the end) -/
def overwriteAt (d : Bytes) (off : Nat) (new : Bytes) : Bytes :=
  (d.take off ++ List.replicate (off - d.length) 0) ++ new ++ d.drop (off + new.length)

namespace FileSt

/-- `FileStorage.__len__` (seeks to the end) -/
def len (f : FileSt) : FileSt × Nat := ({ f with pos := f.data.length }, f.data.length)

/-- `FileStorage.read(block)`: optional seek, then read `bs` bytes at the cursor; `none` = EOF -/
def read (f : FileSt) (bs : Nat) (block : Option Nat) : FileSt × Option Bytes :=
  let p := block.getD f.pos
  let d := (f.data.drop p).take bs
  ({ f with pos := p + d.length }, if d.isEmpty then none else some d)

/-- `FileStorage.write(data, block)`: seek to `block` or to the end, write, return `tell() - bs` -/
def write (f : FileSt) (bs : Nat) (data : Bytes) (block : Option Nat) : FileSt × Nat :=
  let p := block.getD f.data.length
  let d := overwriteAt f.data p data
  ({ data := d, pos := p + data.length }, p + data.length - bs)

end FileSt

namespace MemSt

/-- `MemoryStorage.read(block)`: `array[block : block + bs] or None` -/
def read (m : MemSt) (bs : Nat) (block : Nat) : Option Bytes :=
  let d := (m.data.drop block).take bs
  if d.isEmpty then none else some d

/-- `MemoryStorage.write(data, block)`: `extend`, or the slice assignment `array[block:block+bs] = data`
    (which splices: the slice bounds are clamped to the length) -/
def write (m : MemSt) (bs : Nat) (data : Bytes) (block : Option Nat) : MemSt × Nat :=
  match block with
  | none => ({ data := m.data ++ data }, (m.data ++ data).length - bs)
  | some b => ({ data := m.data.take b ++ data ++ m.data.drop (b + bs) }, b)

end MemSt

/-- `MemMapStorage.read(block)` on the same bytes as the file -/
def mmapRead (data : Bytes) (bs : Nat) (block : Nat) : Option Bytes :=
  let d := (data.drop block).take bs
  if d.isEmpty then none else some d

/-- the abstract view both back-ends implement under the call discipline of the trie / link code:
    a list of whole blocks; `none` block = append -/
structure Blocks where
  bs : Nat
  blocks : List Bytes
deriving Repr, DecidableEq, Inhabited

namespace Blocks
def bytes (b : Blocks) : Bytes := b.blocks.flatten
def read (b : Blocks) (block : Nat) : Option Bytes := b.blocks[block / b.bs]?
def write (b : Blocks) (data : Bytes) (block : Option Nat) : Blocks × Nat :=
  match block with
  | none => ({ b with blocks := b.blocks ++ [data] }, b.blocks.length * b.bs)
  | some off =>
    if off / b.bs < b.blocks.length then ({ b with blocks := b.blocks.set (off / b.bs) data }, off)
    else ({ b with blocks := b.blocks ++ [data] }, off)
/-- all blocks have the block size -/
def Wf (b : Blocks) : Prop := 0 < b.bs ∧ ∀ x ∈ b.blocks, x.length = b.bs
/-- the discipline: block-sized data; explicit offsets are block-aligned and inside the store, or
    exactly at its end (the header `__ensure` writes block 0 of an empty store) -/
def Disciplined (b : Blocks) (data : Bytes) (block : Option Nat) : Prop :=
  data.length = b.bs ∧ ∀ off, block = some off → off % b.bs = 0 ∧ off / b.bs ≤ b.blocks.length
end Blocks

end Traph

import Traph.Basic
/-! traph/helpers.py, byte level. Strings of the token functions are byte lists of ASCII codes. -/
namespace Traph
open Layout

/-! ### byte-string utilities (Python `bytes` semantics) -/

def startsWith : Bytes → Bytes → Bool
  | _, [] => true
  | [], _ :: _ => false
  | a :: as, p :: ps => a == p && startsWith as ps

/-- `p in b` -/
def isInfix (p : Bytes) : Bytes → Bool
  | [] => p.isEmpty
  | b@(_ :: bs) => startsWith b p || isInfix p bs

/-- `b.replace(old, new, 1)` for non-empty `old` -/
def replaceFirst (old new : Bytes) : Bytes → Bytes
  | [] => []
  | b@(x :: xs) => if startsWith b old then new ++ b.drop old.length else x :: replaceFirst old new xs

/-- `b.split(b"|")` -/
def splitOnGo (sep : Nat) : Bytes → Bytes → List Bytes
  | [], cur => [cur.reverse]
  | x :: xs, cur => if x == sep then cur.reverse :: splitOnGo sep xs [] else splitOnGo sep xs (x :: cur)

def splitOn (sep : Nat) (b : Bytes) : List Bytes := splitOnGo sep b []

/-- `sep.join(parts)` -/
def joinWith (sep : Nat) : List Bytes → Bytes
  | [] => []
  | [p] => p
  | p :: ps => p ++ sep :: joinWith sep ps

/-- Python `bytes` `<` -/
def lexLt : Bytes → Bytes → Bool
  | [], [] => false
  | [], _ :: _ => true
  | _ :: _, [] => false
  | a :: as, b :: bs => a < b || (a == b && lexLt as bs)

/-! ### lru_iter / lru_dirname -/

def lruIterGo : Bytes → Bytes → List Stem
  | [], _ => []
  | x :: xs, cur => if x == sep then (cur.reverse ++ [x]) :: lruIterGo xs [] else lruIterGo xs (x :: cur)

/-- `helpers.lru_iter`: cut after every separator; bytes after the last one are dropped -/
def lruIter (b : Bytes) : LRU := lruIterGo b []

def flatten (l : LRU) : Bytes := l.flatten

/-- `helpers.lru_dirname` -/
def lruDirname (b : Bytes) : Bytes := flatten (lruIter b).dropLast

/-! ### scheme / www variations (repaired code: D5 anchors the scheme test, D6 guards zero hosts) -/

def sHttp  : Bytes := [115, 58, 104, 116, 116, 112, 124]        -- "s:http|"
def sHttps : Bytes := [115, 58, 104, 116, 116, 112, 115, 124]   -- "s:https|"
def hPrefix : Bytes := [104, 58]                                -- "h:"
def hWww : Bytes := [104, 58, 119, 119, 119]                    -- "h:www"

/-- `helpers.https_variation` -/
def httpsVariation (lru : Bytes) : Option Bytes :=
  if startsWith lru sHttp then some (replaceFirst sHttp sHttps lru)
  else if startsWith lru sHttps then some (replaceFirst sHttps sHttp lru)
  else none

/-- `helpers.lru_variations` -/
def lruVariations (lru : Bytes) : List Bytes :=
  if lru.isEmpty then [lru] else
  let hv := httpsVariation lru
  let vars := match hv with | some v => [lru, v] | none => [lru]
  let stems := splitOn sep lru
  let hosts := stems.filter (fun s => startsWith s hPrefix)
  let hostsStr := joinWith sep hosts ++ [sep]
  if hosts.length ≤ 1 then vars else
  let hosts' := if hosts.getLast? == some hWww then hosts.dropLast else hosts ++ [hWww]
  if hosts'.length == 1 then vars else
  let www := joinWith sep hosts' ++ [sep]
  let vars := vars ++ [replaceFirst hostsStr www lru]
  match hv with
  | some v => vars ++ [replaceFirst hostsStr www v]
  | none => vars

/-! ### chunks (repaired code: D1 returns after the early yield) -/

def chunksGo (n : Nat) : Nat → Bytes → List Bytes
  | 0, _ => []
  | fuel + 1, s => if s.isEmpty then [] else s.take n :: chunksGo n fuel (s.drop n)

/-- `helpers.chunks_iter(n, s)`: for `len(s) ≤ n` exactly `[s]` (also for the empty string),
    otherwise `ceil(len/n)` slices -/
def chunks (n : Nat) (s : Bytes) : List Bytes :=
  if s.length ≤ n then [s] else chunksGo n (s.length + 1) s

/-! ### base-4 / base-64 / pagination tokens -/

def digitChar (d : Nat) : Nat := base64.getD d 0

/-- digits of `x` in base `b`, most significant first, prepended to `acc` (the `while x:` loops) -/
def toBaseGo (b : Nat) : Nat → Nat → Bytes → Bytes
  | 0, _, acc => acc
  | fuel + 1, x, acc => if x = 0 then acc else toBaseGo b fuel (x / b) (digitChar (x % b) :: acc)

def toBase (b x : Nat) : Bytes := if x = 0 then [digitChar 0] else toBaseGo b (x + 1) x []

/-- `helpers.int_to_base4` -/
def intToBase4 (x : Nat) : Bytes := toBase 4 x

/-- `helpers.int_to_base64` -/
def intToBase64 (x : Nat) : Bytes := toBase 64 x

def base64Index (c : Nat) : Option Nat :=
  let i := base64.idxOf c
  if i < base64.length then some i else none

/-- `helpers.base64_to_int` (`none` = KeyError) -/
def base64ToInt (s : Bytes) : Option Nat :=
  s.foldl (fun acc c => match acc, base64Index c with
    | some x, some v => some (x * 64 + v)
    | _, _ => none) (some 0)

def base4Append (p n : Nat) : Nat := p * 4 + n

/-- decimal rendering (`"%i"`); the decimal digits are the first ten characters of the base-64 alphabet -/
def natToDec (n : Nat) : Bytes := toBase 10 n

def decToNat? (b : Bytes) : Option Nat :=
  if b.isEmpty then none else
  b.foldl (fun acc c => match acc with
    | some x => if 48 ≤ c ∧ c ≤ 57 then some (x * 10 + (c - 48)) else none
    | none => none) (some 0)

/-- `helpers.build_pagination_token` -/
def buildToken (i path : Nat) : Bytes := natToDec i ++ [35] ++ intToBase64 path

/-- `helpers.parse_pagination_token` (`none` = ValueError / KeyError) -/
def parseToken (t : Bytes) : Option (Nat × Nat) :=
  match splitOn 35 t with
  | [a, b] => match decToNat? a, base64ToInt b with
    | some i, some p => some (i, p)
    | _, _ => none
  | _ => none

end Traph

import Traph.Layout
/-! Basic types of the executable model: bytes, decoded blocks, the state of an index (two block arrays
    plus the RAM part), and the four primitive writes through which *every* mutation goes. -/
namespace Traph

abbrev Bytes := List Nat
abbrev Stem  := Bytes          -- includes its closing separator
abbrev LRU   := List Stem

/-- the flag byte of a trie block, one Bool per allocated bit (positions come from `Layout`) -/
structure Flags where
  page     : Bool := false
  crawled  : Bool := false
  linked   : Bool := false
  deleted  : Bool := false
  rule     : Bool := false
  hasTail  : Bool := false
  isTail   : Bool := false
  noChild  : Bool := true     -- DEFAULT_FLAGS_VALUE has only this bit (checked in LayoutOk)
deriving DecidableEq, Repr, Inhabited

/-- one decoded trie block (node head or tail chunk). Pointers are BLOCK INDICES (offset / blockSize). -/
structure Cell where
  chunk  : Bytes := []
  flags  : Flags := {}
  we     : Nat := 0
  left   : Nat := 0
  right  : Nat := 0
  child  : Nat := 0
  parent : Nat := 0
  out    : Nat := 0            -- link-store block index of the newest out stub
  inn    : Nat := 0
deriving DecidableEq, Repr, Inhabited

/-- one decoded link block. `target` is a trie block index, `prev` a link block index. Block 0 of the
    link store (the header) is also kept decoded *as a stub*, `raw` = true meaning "fields are raw
    numbers, not indices" (needed for D4: the code reads it as a stub). -/
structure Stub where
  target : Nat := 0
  prev   : Nat := 0
deriving DecidableEq, Repr, Inhabited

/-- Hyphe's family of creation rules (test/config.py) plus a never-matching pattern -/
inductive Rule where
  | never
  | domain
  | subdomain
  | path (n : Nat)
deriving DecidableEq, Repr, Inhabited

/-- probed switches (DESIGN §5.3) -/
structure Config where
  lonelyIndegreeOne     : Bool := true
  addPagesAlwaysCrawled : Bool := true
  noneInCitedSets       : Bool := true
deriving DecidableEq, Repr, Inhabited

/-- program-ordered storage writes (ghost; never read by the model's operations) -/
inductive Write where
  | hdr (id : Nat)                    -- trie header block rewritten (or first written)
  | trieAppend (c : Cell)
  | trieSet (i : Nat) (c : Cell)
  | linkHdr                           -- link header block written
  | linkAppend (s : Stub)
deriving DecidableEq, Repr, Inhabited

structure State where
  hdrId  : Nat := 0
  trie   : Array Cell := #[{}]         -- trie[0] = header slot (contents unused)
  links  : Array Stub := #[{}]         -- links[0] = header slot; see `Links.headerStub`
  rules  : List (Bytes × Rule) := []   -- RAM dict
  dflt   : Rule := .never
  cfg    : Config := {}
  log    : List Write := []            -- newest first
deriving Repr, Inhabited

namespace State

def appendCell (s : State) (c : Cell) : State × Nat :=
  ({ s with trie := s.trie.push c, log := .trieAppend c :: s.log }, s.trie.size)

def setCell (s : State) (i : Nat) (c : Cell) : State :=
  { s with trie := s.trie.setIfInBounds i c, log := .trieSet i c :: s.log }

def appendStub (s : State) (b : Stub) : State × Nat :=
  ({ s with links := s.links.push b, log := .linkAppend b :: s.log }, s.links.size)

def setHdr (s : State) (id : Nat) : State :=
  { s with hdrId := id, log := .hdr id :: s.log }

/-- cell at index `i`, default cell when out of range (Python: `read` past EOF resets to defaults) -/
def cell (s : State) (i : Nat) : Cell := (s.trie[i]?).getD {}

def cellExists (s : State) (i : Nat) : Bool := i < s.trie.size

/-- rewrite block `i` with `f` applied to its *current* contents (a `refresh(); …; write()`) -/
def modCell (s : State) (i : Nat) (f : Cell → Cell) : State :=
  match s.trie[i]? with
  | none => s
  | some c => s.setCell i (f c)

end State

/-- errors are values -/
inductive Err where
  | traph                      -- the library's own `TraphException`
  | other (name : String)      -- any other Python exception
deriving DecidableEq, Repr, Inhabited

end Traph

import Traph.Layout
import Traph.Basic
import Traph.Bytes
import Traph.Helpers
import Traph.Rules
import Traph.Trie
import Traph.Links
import Traph.Api

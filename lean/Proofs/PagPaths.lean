import Proofs.PagOrder
/-! Pagination, part 3: the path numbers of the in-order traversal are the base-4 numbers of the routes
    (L=1 / C=2 / R=3 steps), they are pairwise distinct, and `follow_path` walks a route back to its item. -/
namespace Traph
open State Layout

/-- a route: the L=1 / C=2 / R=3 steps from the start node -/
def Digits (ds : List Nat) : Prop := ∀ d ∈ ds, d = 1 ∨ d = 2 ∨ d = 3

theorem Digits.nil : Digits [] := by intro d hd; simp at hd

theorem Digits.cons {d : Nat} {ds : List Nat} (hd : d = 1 ∨ d = 2 ∨ d = 3) (h : Digits ds) : Digits (d :: ds) := by
  intro e he; simp only [List.mem_cons] at he
  rcases he with rfl | he
  · exact hd
  · exact h e he

theorem Digits.tail {d : Nat} {ds : List Nat} (h : Digits (d :: ds)) : Digits ds :=
  fun e he => h e (by simp [he])

theorem Digits.append {d₁ d₂ : List Nat} (h₁ : Digits d₁) (h₂ : Digits d₂) : Digits (d₁ ++ d₂) := by
  intro e he
  rcases List.mem_append.mp he with he | he
  · exact h₁ e he
  · exact h₂ e he

/-- the comparison path computed by `webentity_inorder_iter` from the token's path number -/
def cmpOf (p : Nat) : Bytes := if p = 0 then [] else intToBase4 p

theorem cmpOf_path (ds : List Nat) (h : Digits ds) : cmpOf (ds.foldl base4Append 0) = ds.map digitChar := by
  cases ds with
  | nil => simp [cmpOf]
  | cons d rest =>
    have hne : (d :: rest).foldl base4Append 0 ≠ 0 := by
      rw [path_eq_fromDigits]
      have := h d (by simp)
      exact fromDigits_pos 4 (by omega) d rest (by omega)
    rw [cmpOf, if_neg hne]
    exact intToBase4_path _ h (by simp)

/-! ### every path number is the number of a route -/

theorem weInorder_route {s : State} (start : Nat) : ∀ (t : T) (lru : Bytes) (path : Nat),
    ∀ it ∈ t.weInorder s start lru path, ∃ ds, Digits ds ∧ it.2.2 = ds.foldl base4Append path := by
  intro t
  induction t with
  | nil => intro _ _ it h; simp [T.weInorder] at h
  | node a l c r ihl ihc ihr =>
    intro lru path it h
    simp only [T.weInorder, List.mem_append] at h
    rcases h with (h | h) | h
    · split at h
      · simp at h
      · obtain ⟨ds, hd, he⟩ := ihl _ _ it h
        exact ⟨1 :: ds, hd.cons (by simp), he⟩
    · split at h
      · simp only [List.mem_cons] at h
        rcases h with rfl | h
        · exact ⟨[], Digits.nil, rfl⟩
        · obtain ⟨ds, hd, he⟩ := ihc _ _ it h
          exact ⟨2 :: ds, hd.cons (by simp), he⟩
      · simp at h
    · split at h
      · simp at h
      · obtain ⟨ds, hd, he⟩ := ihr _ _ it h
        exact ⟨3 :: ds, hd.cons (by simp), he⟩

/-! ### routes are determined by their numbers, from any starting number -/

theorem exists_digits (path : Nat) : ∃ E : List Nat, fromDigits 4 E = path ∧ (∀ d ∈ E, d < 4) ∧
    (∀ d rest, E = d :: rest → d ≠ 0) := by
  by_cases hp : path = 0
  · exact ⟨[], by simp [fromDigits, hp], by simp, by simp⟩
  · obtain ⟨d, rest, he, hd⟩ := digitsGo_head 4 (by omega) (path + 1) path (by omega) hp
    refine ⟨digitsGo 4 (path + 1) path, fromDigits_digitsGo 4 (by omega) _ _ (by omega),
      digitsGo_lt 4 (by omega) _ _, ?_⟩
    intro d' rest' he'
    rw [he] at he'
    cases he'
    exact hd

theorem foldl_eq_fromDigits (E ds : List Nat) :
    ds.foldl base4Append (fromDigits 4 E) = fromDigits 4 (E ++ ds) := by
  simp only [fromDigits, List.foldl_append]
  rfl

theorem foldl_base4_inj (path : Nat) (d₁ d₂ : List Nat) (h₁ : Digits d₁) (h₂ : Digits d₂)
    (he : d₁.foldl base4Append path = d₂.foldl base4Append path) : d₁ = d₂ := by
  obtain ⟨E, hE, hlt, hhead⟩ := exists_digits path
  rw [← hE, foldl_eq_fromDigits, foldl_eq_fromDigits] at he
  have ok : ∀ ds, Digits ds → (∀ d ∈ E ++ ds, d < 4) ∧ (∀ d rest, E ++ ds = d :: rest → d ≠ 0) := by
    intro ds hds
    refine ⟨?_, ?_⟩
    · intro d hd
      rcases List.mem_append.mp hd with hd | hd
      · exact hlt d hd
      · have := hds d hd; omega
    · intro d rest hdr
      cases E with
      | nil =>
        have := hds d (by simp at hdr; simp [hdr]); omega
      | cons e E' =>
        simp only [List.cons_append, List.cons.injEq] at hdr
        exact hdr.1 ▸ hhead e E' rfl
  have e1 := digitsGo_fromDigits 4 (by omega) (fromDigits 4 (E ++ d₁) + 1) (E ++ d₁) (ok d₁ h₁).1 (ok d₁ h₁).2 (by omega)
  have e2 := digitsGo_fromDigits 4 (by omega) (fromDigits 4 (E ++ d₁) + 1) (E ++ d₂) (ok d₂ h₂).1 (ok d₂ h₂).2 (by omega)
  rw [← he] at e2
  exact List.append_cancel_left (e1.symm.trans e2)

/-- path numbers of distinct items are distinct -/
theorem weInorder_paths_nodup {s : State} (start : Nat) : ∀ (t : T) (lru : Bytes) (path : Nat),
    ((t.weInorder s start lru path).map (·.2.2)).Nodup := by
  intro t
  induction t with
  | nil => intro _ _; simp [T.weInorder]
  | node a l c r ihl ihc ihr =>
    intro lru path
    -- paths below the slot reached by digit `d`
    have R : ∀ (d : Nat) (u : T) (x : Bytes), (d = 1 ∨ d = 2 ∨ d = 3) →
        ∀ p ∈ (u.weInorder s start x (base4Append path d)).map (·.2.2),
          ∃ ds, Digits (d :: ds) ∧ p = (d :: ds).foldl base4Append path := by
      intro d u x hd p hp
      obtain ⟨it, hit, rfl⟩ := List.mem_map.mp hp
      obtain ⟨ds, hds, he⟩ := weInorder_route start u x _ it hit
      exact ⟨ds, hds.cons hd, he⟩
    have ne : ∀ (d₁ d₂ : Nat) (ds₁ ds₂ : List Nat), Digits (d₁ :: ds₁) → Digits (d₂ :: ds₂) → d₁ ≠ d₂ →
        (d₁ :: ds₁).foldl base4Append path ≠ (d₂ :: ds₂).foldl base4Append path := by
      intro d₁ d₂ ds₁ ds₂ h₁ h₂ hne he
      have := foldl_base4_inj path _ _ h₁ h₂ he
      simp only [List.cons.injEq] at this
      exact hne this.1
    have ne0 : ∀ (d : Nat) (ds : List Nat), Digits (d :: ds) → path ≠ (d :: ds).foldl base4Append path := by
      intro d ds h he
      have := foldl_base4_inj path [] _ Digits.nil h he
      simp at this
    simp only [T.weInorder, List.map_append]
    rw [List.nodup_append, List.nodup_append]
    refine ⟨⟨?_, ?_, ?_⟩, ?_, ?_⟩
    · split
      · simp
      · exact ihl _ _
    · split
      · rw [List.map_cons, List.nodup_cons]
        refine ⟨?_, ihc _ _⟩
        intro hm
        obtain ⟨ds, hd, he⟩ := R 2 c _ (by simp) _ hm
        exact ne0 2 ds hd he
      · simp
    · intro p hp q hq
      split at hp
      · simp at hp
      · obtain ⟨ds, hd, rfl⟩ := R 1 l _ (by simp) p hp
        split at hq
        · rw [List.map_cons, List.mem_cons] at hq
          rcases hq with rfl | hq
          · exact (ne0 1 ds hd).symm
          · obtain ⟨ds', hd', rfl⟩ := R 2 c _ (by simp) q hq
            exact ne 1 2 ds ds' hd hd' (by omega)
        · simp at hq
    · split
      · simp
      · exact ihr _ _
    · intro p hp q hq
      split at hq
      · simp at hq
      · obtain ⟨ds', hd', rfl⟩ := R 3 r _ (by simp) q hq
        rcases List.mem_append.mp hp with hp | hp
        · split at hp
          · simp at hp
          · obtain ⟨ds, hd, rfl⟩ := R 1 l _ (by simp) p hp
            exact ne 1 3 ds ds' hd hd' (by omega)
        · split at hp
          · rw [List.map_cons, List.mem_cons] at hp
            rcases hp with rfl | hp
            · exact ne0 3 ds' hd'
            · obtain ⟨ds, hd, rfl⟩ := R 2 c _ (by simp) p hp
              exact ne 2 3 ds ds' hd hd' (by omega)
          · simp at hp

/-! ### `follow_path` walks a route back to its item -/

theorem digitChar_123 : digitChar 1 = 49 ∧ digitChar 2 = 50 ∧ digitChar 3 = 51 := by decide

theorem T.ne_nil_of_mem {s : State} {start : Nat} {t : T} {lru : Bytes} {path : Nat} {it : Nat × Bytes × Nat}
    (h : it ∈ t.weInorder s start lru path) : t ≠ .nil := by
  intro e; subst e; simp [T.weInorder] at h

theorem followPath_route {s : State} (start : Nat) : ∀ (t : T) (lru : Bytes) (path : Nat), Rep s t →
    ∀ it ∈ t.weInorder s start lru path, ∃ ds, Digits ds ∧ it.2.2 = ds.foldl base4Append path ∧
      s.followPath (ds.map digitChar) t.root lru = some it.2.1 := by
  intro t
  induction t with
  | nil => intro _ _ _ it h; simp [T.weInorder] at h
  | node a l c r ihl ihc ihr =>
    intro lru path hr it h
    obtain ⟨h1, h2, h3⟩ := hr.cell_eq
    obtain ⟨ha, _, rl, rc, rr⟩ := hr
    obtain ⟨d1, d2, d3⟩ := digitChar_123
    simp only [T.weInorder, List.mem_append] at h
    rcases h with (h | h) | h
    · split at h
      · simp at h
      · obtain ⟨ds, hd, he, hf⟩ := ihl _ _ rl it h
        have hne : l.root ≠ 0 := rl.root_ne_zero (T.ne_nil_of_mem h)
        refine ⟨1 :: ds, hd.cons (by simp), he, ?_⟩
        simp [followPath, base4L, d1, h1, hne, hf]
    · split at h
      · simp only [List.mem_cons] at h
        rcases h with rfl | h
        · exact ⟨[], Digits.nil, rfl, by simp [followPath]⟩
        · obtain ⟨ds, hd, he, hf⟩ := ihc _ _ rc it h
          have hne : c.root ≠ 0 := rc.root_ne_zero (T.ne_nil_of_mem h)
          refine ⟨2 :: ds, hd.cons (by simp), he, ?_⟩
          simp [followPath, base4L, base4C, d2, h2, hne, hf]
      · simp at h
    · split at h
      · simp at h
      · obtain ⟨ds, hd, he, hf⟩ := ihr _ _ rr it h
        have hne : r.root ≠ 0 := rr.root_ne_zero (T.ne_nil_of_mem h)
        refine ⟨3 :: ds, hd.cons (by simp), he, ?_⟩
        simp [followPath, base4L, base4C, d3, h3, hne, hf]

/-- `follow_path` inverts the path numbers of the traversal from the start node -/
theorem followPath_weInorder {s : State} {a : Nat} {l c r : T} (hr : Rep s (.node a l c r)) (lru : Bytes)
    {b : Nat} {cur : Bytes} {p : Nat} (h : (b, cur, p) ∈ (T.node a l c r).weInorder s a lru 0) :
    s.followPath (if p = 0 then [] else intToBase4 p) a lru = some cur := by
  obtain ⟨ds, hd, he, hf⟩ := followPath_route a _ lru 0 hr _ h
  simp only [T.root_node] at hf he
  have := cmpOf_path ds hd
  rw [← he, cmpOf] at this
  rw [this]; exact hf

end Traph

section
open Traph
#print axioms weInorder_paths_nodup
#print axioms followPath_weInorder
end

import Proofs.LinkBagOps
/-! C03, the two list-writing requests. `add_links(links)` adds to the bags — on the out side of the
    source block and on the in side of the target block — exactly the submitted pairs, and
    `index_batch_crawl(data)` exactly the pairs (source, target) of every row (`LinkStep`); blocks are
    the ones the model's own look-up (`lru_node`) gives for the submitted LRUs. -/
namespace Traph
open State

/-! ### the page cache, seen through `lru_node` -/

/-- every cached byte string cuts into at least one stem and is cached with its own node -/
def CacheNode (s : State) (pages : List (Bytes × Nat)) : Prop :=
  ∀ l n, dictGet? pages l = some n → lruIter l ≠ [] ∧ s.lruNode (lruIter l) = some n

/-- the cache only grows: a cached key keeps its block -/
def PagesLe (p p' : List (Bytes × Nat)) : Prop := ∀ l n, dictGet? p l = some n → dictGet? p' l = some n

theorem PagesLe.refl (p : List (Bytes × Nat)) : PagesLe p p := fun _ _ h => h
theorem PagesLe.trans {a b c : List (Bytes × Nat)} (h1 : PagesLe a b) (h2 : PagesLe b c) : PagesLe a c :=
  fun l n h => h2 l n (h1 l n h)

theorem PagesLe.blk {p p' : List (Bytes × Nat)} (h : PagesLe p p') {l : Bytes} {n : Nat}
    (hc : dictGet? p l = some n) : blkOf p' l = blkOf p l := by
  unfold blkOf; rw [hc, h l n hc]

theorem lruNode_ext {s s' : State} {t t' : T} (h : Shape s t) (x : Ext s t s' t') {p : LRU} (hne : p ≠ [])
    {n : Nat} (hn : s.lruNode p = some n) : s'.lruNode p = some n :=
  (lruNode_iff_entries x.shape p hne n).mpr (x.keep p n ((lruNode_iff_entries h p hne n).mp hn))

theorem lruNode_lt_size {s : State} {t : T} (h : Shape s t) {p : LRU} (hne : p ≠ []) {n : Nat}
    (hn : s.lruNode p = some n) : n < s.trie.size :=
  entry_lt h ((lruNode_iff_entries h p hne n).mp hn)

theorem CacheNode.mono {s s' : State} {t t' : T} {pages : List (Bytes × Nat)} (h : Shape s t)
    (x : Ext s t s' t') (hc : CacheNode s pages) : CacheNode s' pages :=
  fun l n hl => ⟨(hc l n hl).1, lruNode_ext h x (hc l n hl).1 (hc l n hl).2⟩

theorem CacheNode.lt {s : State} {t : T} {pages : List (Bytes × Nat)} (h : Shape s t)
    (hc : CacheNode s pages) {l : Bytes} {n : Nat} (hl : dictGet? pages l = some n) :
    blkOf pages l < s.trie.size := by
  have : blkOf pages l = n := by unfold blkOf; rw [hl]; rfl
  rw [this]
  exact lruNode_lt_size h (hc l n hl).1 (hc l n hl).2

theorem CacheNode.node {s : State} {pages : List (Bytes × Nat)} (hc : CacheNode s pages) {l : Bytes} {n : Nat}
    (hl : dictGet? pages l = some n) : s.lruNode (lruIter l) = some (blkOf pages l) := by
  have : blkOf pages l = n := by unfold blkOf; rw [hl]; rfl
  rw [this]; exact (hc l n hl).2

theorem cacheNode_nil (s : State) : CacheNode s [] := fun l n h => by simp [dictGet?] at h

theorem dictGet?_append_of_some {α β : Type} [DecidableEq α] (d e : List (α × β)) (k : α) (x : β)
    (h : dictGet? d k = some x) : dictGet? (d ++ e) k = some x := by
  unfold dictGet? at h ⊢
  rw [List.find?_append]
  cases hf : d.find? (fun p => p.1 = k) with
  | none => rw [hf] at h; simp at h
  | some p => rw [hf] at h; simpa using h

theorem dictGet?_append_single_cases {α β : Type} [DecidableEq α] (d : List (α × β)) (k : α) (v : β) (k' : α)
    (x : β) (h : dictGet? (d ++ [(k, v)]) k' = some x) :
    dictGet? d k' = some x ∨ (dictGet? d k' = none ∧ k = k' ∧ v = x) := by
  unfold dictGet? at h ⊢
  rw [List.find?_append] at h
  cases hf : d.find? (fun p => p.1 = k') with
  | some p => rw [hf] at h; left; simpa using h
  | none =>
    rw [hf] at h
    right
    refine ⟨rfl, ?_⟩
    by_cases e : k = k'
    · subst e; simp at h; exact ⟨rfl, h⟩
    · simp [e] at h

theorem dictGet?_append_single_self {α β : Type} [DecidableEq α] (d : List (α × β)) (k : α) (v : β)
    (h : dictGet? d k = none) : dictGet? (d ++ [(k, v)]) k = some v := by
  unfold dictGet? at h ⊢
  rw [List.find?_append]
  cases hf : d.find? (fun p => p.1 = k) with
  | some p => rw [hf] at h; simp at h
  | none => simp

/-- one page through the cache: the cache stays sound, only grows, now knows `l`; no list is filed -/
theorem ensurePageCached_cache {s : State} {t : T} (h : Shape s t) (acc : LinkAcc) (l : Bytes) (c : Bool)
    (hne : lruIter l ≠ []) (hc : CacheNode s acc.pages) :
    ∃ t', Ext s t (s.ensurePageCached acc l c).1 t' ∧
      ∀ acc', (s.ensurePageCached acc l c).2 = .ok acc' →
        CacheNode (s.ensurePageCached acc l c).1 acc'.pages ∧ PagesLe acc.pages acc'.pages ∧
        (∃ n, dictGet? acc'.pages l = some n) ∧ acc'.outl = acc.outl ∧ acc'.inl = acc.inl := by
  obtain ⟨t1, x1, f1⟩ := addPageCore_step h l c
  unfold ensurePageCached
  split
  · rename_i n heq
    refine ⟨t, Ext.refl h, fun acc' he => ?_⟩
    cases he
    exact ⟨hc, PagesLe.refl _, ⟨n, heq⟩, rfl, rfl⟩
  · rename_i heq
    split
    · rename_i s1 _ e heq2
      rw [heq2] at x1
      exact ⟨t1, x1, fun acc' he => by cases he⟩
    · rename_i s1 n r heq2
      rw [heq2] at x1 f1
      simp only at x1 f1
      refine ⟨t1, x1, fun acc' he => ?_⟩
      cases he
      obtain ⟨g1, _, _⟩ := f1 hne
      refine ⟨?_, fun l' n' hl' => dictGet?_append_of_some _ _ _ _ hl',
        ⟨n, dictGet?_append_single_self _ _ _ heq⟩, rfl, rfl⟩
      intro l' n' hl'
      rcases dictGet?_append_single_cases _ _ _ _ _ hl' with h1 | ⟨_, rfl, rfl⟩
      · exact hc.mono h x1 l' n' h1
      · exact ⟨hne, (lruNode_iff_entries x1.shape _ hne _).mpr g1⟩

/-! ### `add_links`: the scan -/

theorem ptrEq_addLinksScan : ∀ (links : List (Bytes × Bytes)) (s : State) (acc : LinkAcc),
    PtrEq s (addLinksScan s links acc).1
  | [], s, acc => by simp only [addLinksScan]; exact PtrEq.refl s
  | (src, tgt) :: rest, s, acc => by
    have h1 := ptrEq_ensurePageCached s acc src false
    rw [addLinksScan]
    split
    · rename_i heq; rw [heq] at h1; exact h1
    · rename_i s1 acc1 heq
      rw [heq] at h1
      simp only at h1
      have h2 := ptrEq_ensurePageCached s1 acc1 tgt false
      split
      · rename_i heq2; rw [heq2] at h2; exact h1.trans h2
      · rename_i s2 acc2 heq2
        rw [heq2] at h2
        simp only at h2
        exact h1.trans (h2.trans (ptrEq_addLinksScan rest s2 _))

/-- the scan files every submitted pair once under its source and once under its target, and caches
    both ends -/
theorem addLinksScan_link : ∀ (links : List (Bytes × Bytes)) (s : State) (t : T) (acc : LinkAcc), Shape s t →
    (∀ st ∈ links, lruIter st.1 ≠ [] ∧ lruIter st.2 ≠ []) → CacheNode s acc.pages →
    ∀ acc', (addLinksScan s links acc).2 = .ok acc' →
      (∃ t', Shape (addLinksScan s links acc).1 t') ∧
      CacheNode (addLinksScan s links acc).1 acc'.pages ∧ PagesLe acc.pages acc'.pages ∧
      (∀ st ∈ links, (∃ n, dictGet? acc'.pages st.1 = some n) ∧ (∃ n, dictGet? acc'.pages st.2 = some n)) ∧
      (∀ blk a b, mcount blk acc'.outl a b = mcount blk acc.outl a b + pcount blk links a b) ∧
      (∀ blk a b, mcount blk acc'.inl b a = mcount blk acc.inl b a + pcount blk links a b) ∧
      (∀ P : Bytes → Prop, (∀ kv ∈ acc.outl, P kv.1) → (∀ st ∈ links, P st.1) → ∀ kv ∈ acc'.outl, P kv.1) ∧
      (∀ P : Bytes → Prop, (∀ kv ∈ acc.inl, P kv.1) → (∀ st ∈ links, P st.2) → ∀ kv ∈ acc'.inl, P kv.1)
  | [], s, t, acc, h, _, hc, acc', he => by
    simp only [addLinksScan] at he ⊢
    cases he
    exact ⟨⟨t, h⟩, hc, PagesLe.refl _, fun _ hm => by simp at hm, fun _ _ _ => by simp,
      fun _ _ _ => by simp, fun _ h1 _ => h1, fun _ h1 _ => h1⟩
  | (src, tgt) :: rest, s, t, acc, h, hwf, hc, acc', he => by
    obtain ⟨hn1, hn2⟩ := hwf (src, tgt) (by simp)
    obtain ⟨t1, x1, f1⟩ := ensurePageCached_cache h acc src false hn1 hc
    rw [addLinksScan] at he ⊢
    split at he
    · cases he
    · rename_i s1 acc1 heq
      rw [heq] at x1 f1
      simp only at x1 f1
      obtain ⟨c1, p1, ⟨m1, k1⟩, o1, i1⟩ := f1 acc1 rfl
      obtain ⟨t2, x2, f2⟩ := ensurePageCached_cache x1.shape acc1 tgt false hn2 c1
      split at he
      · cases he
      · rename_i s2 acc2 heq2
        rw [heq2] at x2 f2
        simp only at x2 f2
        obtain ⟨c2, p2, ⟨m2, k2⟩, o2, i2⟩ := f2 acc2 rfl
        obtain ⟨g1, g2, g3, g4, g5, g6, g7, g8⟩ := addLinksScan_link rest s2 t2
          { acc2 with outl := multiAdd acc2.outl src tgt, inl := multiAdd acc2.inl tgt src } x2.shape
          (fun st hst => hwf st (by simp [hst])) c2 acc' he
        refine ⟨g1, g2, p1.trans (p2.trans g3), ?_, ?_, ?_, ?_, ?_⟩
        · intro st hst
          rcases List.mem_cons.mp hst with rfl | hst
          · exact ⟨⟨m1, g3 _ _ (p2 _ _ k1)⟩, ⟨m2, g3 _ _ k2⟩⟩
          · exact g4 st hst
        · intro blk a b
          rw [g5, pcount_cons]
          simp only [mcount_multiAdd, o2, o1]
          omega
        · intro blk a b
          rw [g6, pcount_cons]
          simp only [mcount_multiAdd, i2, i1]
          by_cases e1 : blk src = a <;> by_cases e2 : blk tgt = b <;> simp [e1, e2] <;> omega
        · intro P hP hL kv hkv
          refine g7 P ?_ (fun st hst => hL st (by simp [hst])) kv hkv
          simp only
          refine lbKeys_multiAdd P _ _ _ ?_ (hL (src, tgt) (by simp))
          rw [o2, o1]; exact hP
        · intro P hP hL kv hkv
          refine g8 P ?_ (fun st hst => hL st (by simp [hst])) kv hkv
          simp only
          refine lbKeys_multiAdd P _ _ _ ?_ (hL (src, tgt) (by simp))
          rw [i2, i1]; exact hP

/-! ### what a list-writing request does to the bags -/

/-- `new` are the submitted pairs, `blk` the block of each submitted end -/
structure LinkStep (s s' : State) (blk : Bytes → Nat) (new : List (Bytes × Bytes)) : Prop where
  ok   : LinksOk s'
  out  : ∀ a b, count b (s'.bag true a) = count b (s.bag true a) + pcount blk new a b
  inn  : ∀ a b, count a (s'.bag false b) = count a (s.bag false b) + pcount blk new a b
  size : s'.links.size = s.links.size + 2 * new.length
  node : ∀ st ∈ new, s'.lruNode (lruIter st.1) = some (blk st.1) ∧ s'.lruNode (lruIter st.2) = some (blk st.2)

/-- MAIN (`add_links`): a successful request adds exactly the submitted pairs, on both sides -/
theorem addLinks_link {s : State} {t : T} (h : Shape s t) (hl : LinksOk s) (links : List (Bytes × Bytes))
    (hwf : ∀ st ∈ links, lruIter st.1 ≠ [] ∧ lruIter st.2 ≠ []) (r : Report)
    (hok : (s.addLinks links).2 = .ok r) :
    ∃ blk, LinkStep s (s.addLinks links).1 blk links := by
  have hsz := addLinks_links_size s links r hok
  have hp := ptrEq_addLinksScan links s {}
  have hscan := addLinksScan_link links s t {} h hwf (cacheNode_nil s)
  unfold addLinks at hok hsz ⊢
  split at hok
  · cases hok
  · rename_i s1 acc heq
    rw [heq] at hp hscan hsz
    simp only at hp hscan hsz ⊢
    obtain ⟨⟨t1, h1⟩, c1, _, m1, o1, i1, ko, ki⟩ := hscan acc rfl
    have l1 : LinksOk s1 := hp.linksOk hl
    have kout : ∀ kv ∈ acc.outl, blkOf acc.pages kv.1 < s1.trie.size :=
      ko (fun l => blkOf acc.pages l < s1.trie.size) (fun _ hm => by simp at hm)
        (fun st hst => by obtain ⟨⟨n, hn⟩, _⟩ := m1 st hst; exact c1.lt h1 hn)
    have kin : ∀ kv ∈ acc.inl, blkOf acc.pages kv.1 < s1.trie.size :=
      ki (fun l => blkOf acc.pages l < s1.trie.size) (fun _ hm => by simp at hm)
        (fun st hst => by obtain ⟨_, ⟨n, hn⟩⟩ := m1 st hst; exact c1.lt h1 hn)
    obtain ⟨l2, b2⟩ := flushLists_bag true acc.pages acc.outl s1 l1 kout
    obtain ⟨l3, b3⟩ := flushLists_bag false acc.pages acc.inl _ l2
      (fun kv hkv => by rw [flushLists_trie_size]; exact kin kv hkv)
    have k2 := keeps_flushLists true acc.pages acc.outl s1 t1 h1
    have k3 := keeps_flushLists false acc.pages acc.inl _ t1 k2.shape
    refine ⟨blkOf acc.pages, l3, fun a b => ?_, fun a b => ?_, hsz, fun st hst => ?_⟩
    · rw [b3, b2, hp.bag, o1]
      simp [mcount]
    · rw [b3, b2, hp.bag, i1]
      simp [mcount]
    · obtain ⟨⟨n1, hn1⟩, ⟨n2, hn2⟩⟩ := m1 st hst
      have x := k2.ext.trans k3.ext
      exact ⟨lruNode_ext h1 x (c1 _ _ hn1).1 (c1.node hn1), lruNode_ext h1 x (c1 _ _ hn2).1 (c1.node hn2)⟩

#print axioms addLinks_link

/-! ### `index_batch_crawl` -/

/-- the pairs a crawl batch submits: every row's source with each of its targets (an empty target
    list submits nothing) -/
def batchLinks (data : List (Bytes × List Bytes)) : List (Bytes × Bytes) :=
  data.flatMap (fun d => d.2.map (fun x => (d.1, x)))

theorem batchLinks_cons (src : Bytes) (tgts : List Bytes) (rest : List (Bytes × List Bytes)) :
    batchLinks ((src, tgts) :: rest) = tgts.map (fun x => (src, x)) ++ batchLinks rest := by
  unfold batchLinks; rw [List.flatMap_cons]

theorem ptrEq_batchTargets : ∀ (ts : List Bytes) (s : State) (src : Bytes) (acc : LinkAcc) (tb : List Nat),
    PtrEq s (batchTargets s src ts acc tb).1
  | [], s, src, acc, tb => by simp only [batchTargets]; exact PtrEq.refl s
  | t :: ts, s, src, acc, tb => by
    have h1 := ptrEq_ensurePageCached s acc t false
    rw [batchTargets]
    split
    · rename_i heq; rw [heq] at h1; exact h1
    · rename_i s1 acc1 heq
      rw [heq] at h1
      simp only at h1
      exact h1.trans (ptrEq_batchTargets ts s1 src _ _)

/-- the targets of one row: cached, filed under themselves with the source as value, their blocks
    collected in submission order -/
theorem batchTargets_link : ∀ (ts : List Bytes) (s : State) (t : T) (src : Bytes) (acc : LinkAcc) (tb : List Nat),
    Shape s t → (∀ x ∈ ts, lruIter x ≠ []) → CacheNode s acc.pages →
    ∀ r, (batchTargets s src ts acc tb).2 = .ok r →
      (∃ t', Shape (batchTargets s src ts acc tb).1 t') ∧
      CacheNode (batchTargets s src ts acc tb).1 r.1.pages ∧ PagesLe acc.pages r.1.pages ∧
      (∀ x ∈ ts, ∃ n, dictGet? r.1.pages x = some n) ∧
      r.1.outl = acc.outl ∧
      (∀ blk a b, mcount blk r.1.inl b a =
        mcount blk acc.inl b a + pcount blk (ts.map (fun x => (src, x))) a b) ∧
      (∀ P : Bytes → Prop, (∀ kv ∈ acc.inl, P kv.1) → (∀ x ∈ ts, P x) → ∀ kv ∈ r.1.inl, P kv.1) ∧
      multiTotal r.1.inl = multiTotal acc.inl + ts.length ∧
      r.2 = tb ++ ts.map (blkOf r.1.pages)
  | [], s, t, src, acc, tb, h, _, hc, r, he => by
    simp only [batchTargets] at he ⊢
    cases he
    exact ⟨⟨t, h⟩, hc, PagesLe.refl _, fun _ hm => by simp at hm, rfl, fun _ _ _ => by simp,
      fun _ h1 _ => h1, rfl, by simp⟩
  | x :: ts, s, t, src, acc, tb, h, hwf, hc, r, he => by
    obtain ⟨t1, x1, f1⟩ := ensurePageCached_cache h acc x false (hwf x (by simp)) hc
    rw [batchTargets] at he ⊢
    split at he
    · cases he
    · rename_i s1 acc1 heq
      rw [heq] at x1 f1
      simp only at x1 f1
      obtain ⟨c1, p1, ⟨m1, k1⟩, o1, i1⟩ := f1 acc1 rfl
      obtain ⟨g1, g2, g3, g4, g5, g6, g7, g8, g9⟩ := batchTargets_link ts s1 t1 src
        { acc1 with inl := multiAdd acc1.inl x src } (tb ++ [(dictGet? acc1.pages x).getD 0]) x1.shape
        (fun y hy => hwf y (by simp [hy])) c1 r he
      refine ⟨g1, g2, p1.trans g3, ?_, g5.trans o1, ?_, ?_, ?_, ?_⟩
      · intro y hy
        rcases List.mem_cons.mp hy with rfl | hy
        · exact ⟨m1, g3 _ _ k1⟩
        · exact g4 y hy
      · intro blk a b
        rw [g6, List.map_cons, pcount_cons]
        simp only [mcount_multiAdd, i1]
        by_cases e1 : blk src = a <;> by_cases e2 : blk x = b <;> simp [e1, e2] <;> omega
      · intro P hP hL kv hkv
        refine g7 P ?_ (fun y hy => hL y (by simp [hy])) kv hkv
        simp only
        refine lbKeys_multiAdd P _ _ _ ?_ (hL x (by simp))
        rw [i1]; exact hP
      · rw [g8]
        simp only [multiAdd_total, i1, List.length_cons]
        omega
      · rw [g9, List.map_cons, List.append_assoc]
        have e : (dictGet? acc1.pages x).getD 0 = blkOf r.1.pages x := (PagesLe.blk g3 k1).symm
        rw [e]; rfl

theorem ptrEq_sourceStep (s : State) (acc : LinkAcc) (src : Bytes) : PtrEq s (sourceStep s acc src).1 := by
  unfold sourceStep
  split
  · exact ptrEq_ensurePageCached s acc src true
  · split
    · exact ptrEq_modCell _ _ _ (fun _ => ⟨rfl, rfl⟩)
    · exact PtrEq.refl s

theorem sourceStep_link {s : State} {t : T} (h : Shape s t) (acc : LinkAcc) (src : Bytes)
    (hne : lruIter src ≠ []) (hc : CacheNode s acc.pages) :
    ∃ t', Ext s t (sourceStep s acc src).1 t' ∧
      ∀ acc', (sourceStep s acc src).2 = .ok acc' →
        CacheNode (sourceStep s acc src).1 acc'.pages ∧ PagesLe acc.pages acc'.pages ∧
        (∃ n, dictGet? acc'.pages src = some n) ∧ acc'.outl = acc.outl ∧ acc'.inl = acc.inl := by
  unfold sourceStep
  split
  · exact ensurePageCached_cache h acc src true hne hc
  · rename_i n heq
    split
    · refine ⟨t, ext_markCrawled h n, fun acc' he => ?_⟩
      cases he
      exact ⟨hc.mono h (ext_markCrawled h n), PagesLe.refl _, ⟨n, heq⟩, rfl, rfl⟩
    · refine ⟨t, Ext.refl h, fun acc' he => ?_⟩
      cases he
      exact ⟨hc, PagesLe.refl _, ⟨n, heq⟩, rfl, rfl⟩

/-- the rows of a batch: each source's out-list is written at once, the in-lists are only filed -/
theorem batchSources_link : ∀ (data : List (Bytes × List Bytes)) (s : State) (t : T) (acc : LinkAcc),
    Shape s t → LinksOk s → (∀ d ∈ data, lruIter d.1 ≠ [] ∧ ∀ x ∈ d.2, lruIter x ≠ []) →
    CacheNode s acc.pages →
    ∀ acc', (batchSources s data acc).2 = .ok acc' →
      (∃ t', Shape (batchSources s data acc).1 t') ∧ LinksOk (batchSources s data acc).1 ∧
      CacheNode (batchSources s data acc).1 acc'.pages ∧ PagesLe acc.pages acc'.pages ∧
      (∀ d ∈ data, (∃ n, dictGet? acc'.pages d.1 = some n) ∧ ∀ x ∈ d.2, ∃ n, dictGet? acc'.pages x = some n) ∧
      (∀ a b, count b ((batchSources s data acc).1.bag true a) =
        count b (s.bag true a) + pcount (blkOf acc'.pages) (batchLinks data) a b) ∧
      (∀ a x, count x ((batchSources s data acc).1.bag false a) = count x (s.bag false a)) ∧
      (∀ blk a b, mcount blk acc'.inl b a = mcount blk acc.inl b a + pcount blk (batchLinks data) a b) ∧
      (∀ P : Bytes → Prop, (∀ kv ∈ acc.inl, P kv.1) → (∀ d ∈ data, ∀ x ∈ d.2, P x) → ∀ kv ∈ acc'.inl, P kv.1) ∧
      multiTotal acc'.inl = multiTotal acc.inl + (batchLinks data).length ∧
      (batchSources s data acc).1.links.size = s.links.size + (batchLinks data).length
  | [], s, t, acc, h, hl, _, hc, acc', he => by
    simp only [batchSources] at he ⊢
    cases he
    exact ⟨⟨t, h⟩, hl, hc, PagesLe.refl _, fun _ hm => by simp at hm, fun _ _ => by simp [batchLinks],
      fun _ _ => trivial, fun _ _ _ => by simp [batchLinks], fun _ h1 _ => h1, by simp [batchLinks],
      by simp [batchLinks]⟩
  | (src, tgts) :: rest, s, t, acc, h, hl, hwf, hc, acc', he => by
    obtain ⟨hn1, hn2⟩ := hwf (src, tgts) (by simp)
    obtain ⟨t1, x1, f1⟩ := sourceStep_link h acc src hn1 hc
    have q1 := ptrEq_sourceStep s acc src
    rw [batchSources_cons_ps] at he ⊢
    split at he
    · cases he
    · rename_i s1 acc1 heq
      rw [heq] at x1 f1 q1
      simp only at x1 f1 q1
      obtain ⟨c1, p1, ⟨m1, k1⟩, o1, i1⟩ := f1 acc1 rfl
      have q2 := ptrEq_batchTargets tgts s1 src acc1 []
      have f2 := batchTargets_link tgts s1 t1 src acc1 [] x1.shape hn2 c1
      split at he
      · cases he
      · rename_i s2 acc2 tb heq2
        rw [heq2] at q2 f2
        simp only at q2 f2
        obtain ⟨⟨t2, h2⟩, c2, p2, m2, o2, i2, ki2, mt2, etb⟩ := f2 (acc2, tb) rfl
        simp only at c2 p2 m2 o2 i2 ki2 mt2 etb
        have hl2 : LinksOk s2 := (q1.trans q2).linksOk hl
        have k2 : dictGet? acc2.pages src = some m1 := p2 _ _ k1
        have hlt : blkOf acc2.pages src < s2.trie.size := c2.lt h2 k2
        have e3 : (dictGet? acc2.pages src).getD 0 = blkOf acc2.pages src := rfl
        rw [e3] at he ⊢
        obtain ⟨hl3, _⟩ := addStubs_bag hl2 (blkOf acc2.pages src) hlt tb true
        have cnt3 := addStubs_count hl2 (blkOf acc2.pages src) hlt tb true
        have k3 := keeps_addStubs h2 (blkOf acc2.pages src) tb true
        have c3 : CacheNode (s2.addStubs (blkOf acc2.pages src) tb true) acc2.pages := c2.mono h2 k3.ext
        obtain ⟨g1, g2, g3, g4, g5, g6, g7, g8, g9, g10, g11⟩ :=
          batchSources_link rest _ t2 acc2 k3.shape hl3 (fun d hd => hwf d (by simp [hd])) c3 acc' he
        have esrc : blkOf acc'.pages src = blkOf acc2.pages src := PagesLe.blk g4 k2
        have etg : tgts.map (blkOf acc2.pages) = tgts.map (blkOf acc'.pages) := by
          apply List.map_congr_left
          intro x hx
          obtain ⟨n, hn⟩ := m2 x hx
          exact (PagesLe.blk g4 hn).symm
        have etb' : tb = tgts.map (blkOf acc'.pages) := by rw [etb, List.nil_append, etg]
        refine ⟨g1, g2, g3, p1.trans (p2.trans g4), ?_, ?_, ?_, ?_, ?_, ?_, ?_⟩
        · intro d hd
          rcases List.mem_cons.mp hd with rfl | hd
          · exact ⟨⟨m1, g4 _ _ k2⟩, fun x hx => by obtain ⟨n, hn⟩ := m2 x hx; exact ⟨n, g4 _ _ hn⟩⟩
          · exact g5 d hd
        · intro a b
          rw [g6, cnt3, (q1.trans q2).bag, batchLinks_cons, pcount_append, pcount_row, esrc, etb']
          by_cases e : a = blkOf acc2.pages src
          · rw [if_pos ⟨rfl, e⟩, if_pos e.symm]; omega
          · rw [if_neg (fun h => e h.2), if_neg (fun h => e h.symm)]; omega
        · intro a x
          rw [g7, cnt3, (q1.trans q2).bag]
          simp
        · intro blk a b
          rw [g8, i2, i1, batchLinks_cons, pcount_append]; omega
        · intro P hP hL kv hkv
          refine g9 P ?_ (fun d hd => hL d (by simp [hd])) kv hkv
          exact ki2 P (by rw [i1]; exact hP) (hL (src, tgts) (by simp))
        · rw [g10, mt2, i1, batchLinks_cons, List.length_append, List.length_map]; omega
        · rw [g11, addStubs_size, (q1.trans q2).size, batchLinks_cons, List.length_append, List.length_map,
            etb', List.length_map]
          omega

/-- MAIN (`index_batch_crawl`): a successful request adds exactly the pairs (source, target) of its
    rows, on both sides; a row with an empty target list adds nothing -/
theorem batch_link {s : State} {t : T} (h : Shape s t) (hl : LinksOk s) (data : List (Bytes × List Bytes))
    (hwf : ∀ d ∈ data, lruIter d.1 ≠ [] ∧ ∀ x ∈ d.2, lruIter x ≠ []) (r : Report)
    (hok : (s.batch data).2 = .ok r) :
    ∃ blk, LinkStep s (s.batch data).1 blk (batchLinks data) := by
  have hsrc := batchSources_link data s t {} h hl hwf (cacheNode_nil s)
  unfold batch at hok ⊢
  split at hok
  · cases hok
  · rename_i s1 acc heq
    rw [heq] at hsrc
    simp only at hsrc ⊢
    obtain ⟨⟨t1, h1⟩, l1, c1, _, m1, o1, i1, ml, ki, mt, sz⟩ := hsrc acc rfl
    have kin : ∀ kv ∈ acc.inl, blkOf acc.pages kv.1 < s1.trie.size :=
      ki (fun l => blkOf acc.pages l < s1.trie.size) (fun _ hm => by simp at hm)
        (fun d hd x hx => by obtain ⟨n, hn⟩ := (m1 d hd).2 x hx; exact c1.lt h1 hn)
    obtain ⟨l2, b2⟩ := flushLists_bag false acc.pages acc.inl s1 l1 kin
    have k2 := keeps_flushLists false acc.pages acc.inl s1 t1 h1
    refine ⟨blkOf acc.pages, l2, fun a b => ?_, fun a b => ?_, ?_, fun st hst => ?_⟩
    · rw [b2, o1]; simp
    · rw [b2, i1, ml]; simp [mcount]
    · rw [flushLists_size, sz, mt]; simp only [multiTotal_nil]; omega
    · unfold batchLinks at hst
      obtain ⟨d, hd, hst⟩ := List.mem_flatMap.mp hst
      obtain ⟨x, hx, rfl⟩ := List.mem_map.mp hst
      obtain ⟨⟨n1, hn1⟩, hm⟩ := m1 d hd
      obtain ⟨n2, hn2⟩ := hm x hx
      exact ⟨lruNode_ext h1 k2.ext (c1 _ _ hn1).1 (c1.node hn1),
        lruNode_ext h1 k2.ext (c1 _ _ hn2).1 (c1.node hn2)⟩

#print axioms batch_link

end Traph

import Proofs.CoRulesOps
import Proofs.KnownRun
/-! The API's own discipline implies that no request is aborted by `KeyError`.

    `__add_page` raises `KeyError` iff the walk meets a trie block flagged as a rule anchor whose LRU is not a key
    of the RAM dictionary of rules; `RulesOk s` (Proofs/CoRules) says this cannot happen. Proofs/CoRulesOps shows
    that the ten requests which never take a rule away keep `RulesOk`. Here the three remaining requests:

    * `removeRule a` ALWAYS keeps `RulesOk` (in a state with `Shape` and well-formed stems): the RAM entry and the
      flag of the block of `a` go together, and a block whose LRU spells `a` is the block of `lruIter a`;
    * `reopen d rs` keeps `RulesOk` IFF `Covers s rs`: every flagged anchor of the trie is a key of `rs`;
    * `clear d rs` always establishes `RulesOk` (no flag at all with `rs = none`; a fresh index with `rs = some _`,
      its anchors being complete LRUs).

    `Disciplined s ops` asks exactly: anchors of installed rules (by `addRule` or by `clear … (some rs)`) are
    complete non-empty LRUs; every `reopen` re-supplies (at least) the rules whose anchors are flagged in the trie
    at that moment; every `removeRule` names a rule that is currently in RAM (otherwise the *dictionary* look-up
    of `remove_webentity_creation_rule` itself raises `KeyError`, a refusal that changes nothing — see
    `removeRule_absent`). Then `disciplined_noKeyErr`: no request of the history answers `KeyError`. -/
namespace Traph
open State Layout

/-! ### dictionaries: keys -/

theorem ua_dictGet?_isSome_iff {β : Type} : ∀ (d : List (Bytes × β)) (k : Bytes),
    (dictGet? d k).isSome ↔ k ∈ d.map (·.1)
  | [], k => by simp [dictGet?]
  | (k', v') :: d, k => by
    rw [Co.dictGet?_cons]
    by_cases e : k' = k
    · rw [if_pos e]; simp [e]
    · rw [if_neg e, ua_dictGet?_isSome_iff d k]
      simp only [List.map_cons, List.mem_cons]
      constructor
      · exact Or.inr
      · rintro (h | h)
        · exact absurd h.symm e
        · exact h

theorem ua_keys_dictSet {β : Type} (d : List (Bytes × β)) (k : Bytes) (v : β) (k0 : Bytes) :
    k0 ∈ (dictSet d k v).map (·.1) ↔ k0 = k ∨ k0 ∈ d.map (·.1) := by
  rw [← ua_dictGet?_isSome_iff, ← ua_dictGet?_isSome_iff]
  by_cases e : k0 = k
  · subst e; rw [Co.dictGet?_dictSet_self]; simp
  · rw [Co.dictGet?_dictSet_ne d k v k0 e]; simp [e]

theorem ua_keys_foldl_dictSet {β : Type} : ∀ (rs d : List (Bytes × β)) (k0 : Bytes),
    k0 ∈ (rs.foldl (fun d ar => dictSet d ar.1 ar.2) d).map (·.1) ↔ k0 ∈ d.map (·.1) ∨ k0 ∈ rs.map (·.1)
  | [], d, k0 => by simp
  | (a, r) :: rs, d, k0 => by
    rw [List.foldl_cons, ua_keys_foldl_dictSet rs, ua_keys_dictSet]
    simp only [List.map_cons, List.mem_cons]
    constructor
    · rintro ((h | h) | h)
      · exact Or.inr (Or.inl h)
      · exact Or.inl h
      · exact Or.inr (Or.inr h)
    · rintro (h | h | h)
      · exact Or.inl (Or.inr h)
      · exact Or.inl (Or.inl h)
      · exact Or.inr h

theorem ua_dictGet?_filter_ne {β : Type} : ∀ (d : List (Bytes × β)) (a k : Bytes), k ≠ a →
    dictGet? (d.filter (fun p => p.1 ≠ a)) k = dictGet? d k
  | [], _, _, _ => rfl
  | (k', v') :: d, a, k, h => by
    rw [List.filter_cons]
    by_cases e : k' = a
    · have : ¬ (decide ((k', v').1 ≠ a) = true) := by simp [e]
      rw [if_neg this, Co.dictGet?_cons, if_neg (by rw [e]; exact fun e' => h e'.symm)]
      exact ua_dictGet?_filter_ne d a k h
    · have : decide ((k', v').1 ≠ a) = true := by simp [e]
      rw [if_pos this, Co.dictGet?_cons, Co.dictGet?_cons, ua_dictGet?_filter_ne d a k h]

/-! ### flagged anchors of a state; states with the same trie -/

/-- the look-up and the flags only read the trie -/
theorem ua_lruNode_of_trie_eq {s s' : State} {t : T} (h : Shape s t) (e : s'.trie = s.trie) (p : LRU) (hne : p ≠ [])
    (b : Nat) : s'.lruNode p = some b ↔ s.lruNode p = some b := by
  have k : Keeps s t s' t := Keeps.of_trie_eq h e
  rw [lruNode_iff_entries k.shape p hne b, lruNode_iff_entries h p hne b,
    (noStruct_of_trie_eq (s := s) (s' := s') e).entries]

/-- `rs` re-supplies every rule whose anchor is flagged in the trie of `s` -/
def Covers (s : State) (rs : List (Bytes × Rule)) : Prop :=
  ∀ (p : LRU) (b : Nat), p ≠ [] → s.lruNode p = some b → (s.cell b).flags.rule = true →
    p.flatten ∈ rs.map (·.1)

theorem rulesOk_iff_covers (s : State) : RulesOk s ↔ Covers s s.rules := by
  unfold RulesOk Covers
  constructor
  · intro h p b hne hn hr; exact (ua_dictGet?_isSome_iff _ _).mp (h p b hne hn hr)
  · intro h p b hne hn hr; exact (ua_dictGet?_isSome_iff _ _).mpr (h p b hne hn hr)

/-- reopening with the rules that are in RAM (or any list with at least their keys) is covered -/
theorem covers_of_keys {s : State} (ok : RulesOk s) (rs : List (Bytes × Rule))
    (hk : ∀ k ∈ s.rules.map (·.1), k ∈ rs.map (·.1)) : Covers s rs :=
  fun p b hne hn hr => hk _ ((rulesOk_iff_covers s).mp ok p b hne hn hr)

theorem covers_self {s : State} (ok : RulesOk s) : Covers s s.rules := (rulesOk_iff_covers s).mp ok

/-! ### `reopen` -/

/-- **`reopen d rs` keeps `RulesOk` exactly when `rs` covers the flagged anchors** (whether or not `RulesOk` held
    before: reopening with the right rules repairs an index opened with too few) -/
theorem rulesOk_reopen_iff {s : State} {t : T} (h : Shape s t) (d : Rule) (rs : List (Bytes × Rule)) :
    RulesOk (s.reopen d rs) ↔ Covers s rs := by
  have e : (s.reopen d rs).trie = s.trie := rfl
  unfold RulesOk Covers
  constructor
  · intro ok p b hne hn hr
    have := ok p b hne ((ua_lruNode_of_trie_eq h e p hne b).mpr hn) (by rw [co_rule_of_trie_eq e]; exact hr)
    rw [ua_dictGet?_isSome_iff] at this
    rcases (ua_keys_foldl_dictSet rs [] _).mp this with h0 | h0
    · simp at h0
    · exact h0
  · intro cov p b hne hn hr
    rw [ua_dictGet?_isSome_iff]
    refine (ua_keys_foldl_dictSet rs [] _).mpr (Or.inr ?_)
    exact cov p b hne ((ua_lruNode_of_trie_eq h e p hne b).mp hn) (by rw [← co_rule_of_trie_eq e]; exact hr)

theorem rulesOk_reopen {s : State} {t : T} (h : Shape s t) (d : Rule) (rs : List (Bytes × Rule))
    (hc : Covers s rs) : RulesOk (s.reopen d rs) := (rulesOk_reopen_iff h d rs).mpr hc

/-- in particular: reopening with the current RAM rules -/
theorem rulesOk_reopen_same {s : State} {t : T} (h : Shape s t) (ok : RulesOk s) (d : Rule) :
    RulesOk (s.reopen d s.rules) := rulesOk_reopen h d s.rules (covers_self ok)

/-! ### `removeRule` -/

/-- `remove_webentity_creation_rule` on an anchor that is not in RAM: the dictionary look-up raises `KeyError`,
    nothing is changed -/
theorem removeRule_absent (s : State) (a : Bytes) (h : dictGet? s.rules a = none) :
    s.removeRule a = (s, .error (.other "KeyError")) := by
  unfold removeRule; rw [h]

/-- …and on an anchor that is in RAM the answer is never `KeyError` -/
theorem removeRule_present (s : State) (a : Bytes) (h : (dictGet? s.rules a).isSome) :
    (s.removeRule a).2 = .ok () ∨ (s.removeRule a).2 = .error .traph := by
  unfold removeRule
  cases hd : dictGet? s.rules a with
  | none => rw [hd] at h; cases h
  | some r =>
    simp only
    split
    · exact Or.inr rfl
    · exact Or.inl rfl

/-- **`removeRule` always keeps `RulesOk`**: a flagged block whose LRU spells the removed key is the block the
    request unflags (stems of the tree are well formed, so the LRU of a block is `lruIter` of its spelling) -/
theorem rulesOk_removeRule {s : State} {t : T} (h : Shape s t) (hw : WfStems s t) (a : Bytes) (ok : RulesOk s) :
    RulesOk (s.removeRule a).1 := by
  unfold removeRule
  cases hd : dictGet? s.rules a with
  | none => exact ok
  | some r =>
    simp only
    have e0 : ({ s with rules := s.rules.filter (fun p => p.1 ≠ a) } : State).trie = s.trie := rfl
    have k0 : Keeps s t { s with rules := s.rules.filter (fun p => p.1 ≠ a) } t := Keeps.of_trie_eq h e0
    -- a flagged block spelling `a` is the block of `lruIter a`
    have key : ∀ (p : LRU) (b : Nat), p ≠ [] → s.lruNode p = some b → p.flatten = a →
        ({ s with rules := s.rules.filter (fun p => p.1 ≠ a) } : State).lruNode (lruIter a) = some b := by
      intro p b hne hn hpa
      have hent := (lruNode_iff_entries h p hne b).mp hn
      have hp : lruIter a = p := by rw [← hpa]; exact lruIter_flatten p (hw p b hent)
      rw [hp]
      exact (ua_lruNode_of_trie_eq h e0 p hne b).mpr hn
    cases hn : ({ s with rules := s.rules.filter (fun p => p.1 ≠ a) } : State).lruNode (lruIter a) with
    | none =>
      simp only
      intro p b hne hnode hr
      have hnode' := (ua_lruNode_of_trie_eq h e0 p hne b).mp hnode
      have hr' : (s.cell b).flags.rule = true := by rw [← co_rule_of_trie_eq e0]; exact hr
      have hpa : p.flatten ≠ a := by
        intro hpa
        have := key p b hne hnode' hpa
        rw [hn] at this; cases this
      show (dictGet? (s.rules.filter (fun p => p.1 ≠ a)) p.flatten).isSome
      rw [ua_dictGet?_filter_ne _ _ _ hpa]
      exact ok p b hne hnode' hr'
    | some n =>
      simp only
      have ns := noStruct_modCell ({ s with rules := s.rules.filter (fun p => p.1 ≠ a) } : State) n
        (fun c => { c with flags := { c.flags with rule := false } }) (fun _ => ⟨rfl, rfl, rfl, rfl, rfl⟩)
      intro p b hne hnode hr
      have hent1 := (lruNode_iff_entries (ns.shape k0.shape) p hne b).mp hnode
      rw [ns.entries] at hent1
      have hnode0 := (lruNode_iff_entries k0.shape p hne b).mpr hent1
      have hnode' := (ua_lruNode_of_trie_eq h e0 p hne b).mp hnode0
      rw [cell_modCell] at hr
      have hbn : b ≠ n := by
        intro hbn
        subst hbn
        rw [if_pos ⟨rfl, entry_lt k0.shape hent1⟩] at hr
        simp at hr
      rw [if_neg (fun hh => hbn hh.1.symm)] at hr
      have hr' : (s.cell b).flags.rule = true := by rw [← co_rule_of_trie_eq e0]; exact hr
      have hpa : p.flatten ≠ a := by
        intro hpa
        have := key p b hne hnode' hpa
        rw [hn] at this
        exact hbn (Option.some.inj this).symm
      rw [rules_modCell]
      show (dictGet? (s.rules.filter (fun p => p.1 ≠ a)) p.flatten).isSome
      rw [ua_dictGet?_filter_ne _ _ _ hpa]
      exact ok p b hne hnode' hr'

/-! ### `clear` -/

/-- an anchor that is a complete, non-empty LRU (ends with the separator): its stems spell it entirely -/
def Canon (a : Bytes) : Prop := lruIter a ≠ [] ∧ (lruIter a).flatten = a

/-- constructor rules (and the rules given to `clear`) with complete LRUs as anchors -/
def rulesCanonical (rules : List (Bytes × Rule)) : Prop := ∀ ar ∈ rules, Canon ar.1

/-- **`clear` establishes `RulesOk`**: with `rules = None` the RAM rules are kept and the trie has no flag at all;
    with rules given, the index is the fresh index of the constructor -/
theorem rulesOk_clear (s : State) (d : Option Rule) (rs : Option (List (Bytes × Rule)))
    (hc : ∀ l, rs = some l → rulesCanonical l) : RulesOk (s.clear d rs).1 := by
  cases rs with
  | none => exact rulesOk_of_trie_init _ rfl
  | some l =>
    exact rulesOk_installRules l _ .nil (shape_of_trie_init _ rfl) (hc l rfl) (rulesOk_of_trie_init _ rfl)

/-! ### the discipline -/

/-- what the API asks of one request, in the state it is applied to -/
def StepOk (s : State) : Op → Prop
  | .addRule a _ => Canon a
  | .removeRule a => (dictGet? s.rules a).isSome
  | .reopen _ rs => Covers s rs
  | .clear _ (some rs) => rulesCanonical rs
  | _ => True

/-- the discipline along a history: rule anchors are complete LRUs, every `reopen` re-supplies the rules whose
    anchors are flagged in the trie at that moment, every `removeRule` names a rule that is in RAM -/
def Disciplined : State → List Op → Prop
  | _, [] => True
  | s, op :: ops => StepOk s op ∧ Disciplined (s.step op).1 ops

theorem disciplined_append : ∀ (a b : List Op) (s : State),
    Disciplined s (a ++ b) ↔ Disciplined s a ∧ Disciplined (s.run a) b
  | [], b, s => by simp [Disciplined, State.run]
  | op :: a, b, s => by
    rw [List.cons_append]
    simp only [Disciplined]
    rw [disciplined_append a b, run_cons, and_assoc]

/-! ### no `KeyError` -/

theorem ua_ofExcept_ok_ne {α : Type} {f : α → Ans} {x : Except Err α} (hf : ∀ a, f a ≠ .err (.other "KeyError"))
    (h : ∃ a, x = .ok a) : Ans.ofExcept f x ≠ .err (.other "KeyError") := by
  obtain ⟨a, rfl⟩ := h; exact hf a

theorem ua_ofExcept_traph_ne {α : Type} {f : α → Ans} {x : Except Err α} (hf : ∀ a, f a ≠ .err (.other "KeyError"))
    (h : ∀ e, x = .error e → e = .traph) : Ans.ofExcept f x ≠ .err (.other "KeyError") := by
  cases x with
  | ok a => exact hf a
  | error e =>
    rw [h e rfl]
    simp [Ans.ofExcept]

theorem ua_addPagesGo_ok (always : Bool) : ∀ (ls : List Bytes) (s : State) (t : T) (c : Bool) (rep : Report),
    Shape s t → RulesOk s → ∃ r, (addPagesGo always s ls c rep).2 = .ok r
  | [], s, t, c, rep, h, ok => by simp only [addPagesGo]; exact ⟨_, rfl⟩
  | l :: ls, s, t, c, rep, h, ok => by
    obtain ⟨t1, x1, _⟩ := addPageCore_step h l c
    have ok1 := rulesOk_addPageCore h l c ok
    obtain ⟨r, hr⟩ := addPageCore_ok h ok l c
    rw [addPagesGo]
    split
    · rename_i heq; rw [heq] at hr; cases hr
    · rename_i s1 n r1 heq
      rw [heq] at ok1 x1
      simp only at ok1 x1
      have x2 : Ext s1 t1 (if always = true then s1.modCell n (fun c => { c with flags := { c.flags with crawled := true } }) else s1) t1 := by
        split
        · exact ext_markCrawled x1.shape n
        · exact Ext.refl x1.shape
      have ok2 : RulesOk (if always = true then s1.modCell n (fun c => { c with flags := { c.flags with crawled := true } }) else s1) := by
        split
        · exact rulesOk_modCell x1.shape _ _ (fun _ => ⟨rfl, rfl, rfl, rfl, rfl⟩) (fun _ => rfl) ok1
        · exact ok1
      exact ua_addPagesGo_ok always ls _ t1 c _ x2.shape ok2

theorem ua_addLinksScan_ok : ∀ (links : List (Bytes × Bytes)) (s : State) (t : T) (acc : LinkAcc), Shape s t →
    RulesOk s → ∃ acc', (addLinksScan s links acc).2 = .ok acc'
  | [], s, t, acc, h, ok => by simp only [addLinksScan]; exact ⟨_, rfl⟩
  | (src, tgt) :: rest, s, t, acc, h, ok => by
    obtain ⟨t1, x1, _⟩ := ensurePageCached_step h acc src false
    have ok1 := rulesOk_ensurePageCached h acc src false ok
    obtain ⟨a1, ha1⟩ := ensurePageCached_ok h ok acc src false
    rw [addLinksScan]
    split
    · rename_i heq; rw [heq] at ha1; cases ha1
    · rename_i s1 acc1 heq
      rw [heq] at ok1 x1
      simp only at ok1 x1
      obtain ⟨t2, x2, _⟩ := ensurePageCached_step x1.shape acc1 tgt false
      have ok2 := rulesOk_ensurePageCached x1.shape acc1 tgt false ok1
      obtain ⟨a2, ha2⟩ := ensurePageCached_ok x1.shape ok1 acc1 tgt false
      split
      · rename_i heq2; rw [heq2] at ha2; cases ha2
      · rename_i s2 acc2 heq2
        rw [heq2] at ok2 x2
        exact ua_addLinksScan_ok rest s2 t2 _ x2.shape ok2

/-- `add_links` does not fail on an index satisfying `RulesOk` -/
theorem ua_addLinks_ok {s : State} {t : T} (h : Shape s t) (ok : RulesOk s) (links : List (Bytes × Bytes)) :
    ∃ r, (s.addLinks links).2 = .ok r := by
  obtain ⟨acc', hacc⟩ := ua_addLinksScan_ok links s t {} h ok
  unfold addLinks
  split
  · rename_i heq; rw [heq] at hacc; cases hacc
  · exact ⟨_, rfl⟩

theorem ua_addPrefixes_err (s : State) (ps : List Bytes) (best : Bool) (e : Err)
    (h : (s.addPrefixes ps best).2 = .error e) : e = .traph := by
  unfold addPrefixes at h
  rcases s.addPrefixesScan ps [] 0 with ⟨s1, valid, nInv⟩
  simp only at h
  split at h
  · cases h; rfl
  · split at h <;> cases h

theorem ua_createWebentity_err (s : State) (ps : List Bytes) (e : Err)
    (h : (s.createWebentity ps).2 = .error e) : e = .traph := by
  have := ua_addPrefixes_err s ps false
  unfold createWebentity at h
  split at h
  · rename_i e' heq
    cases h
    exact this e (by rw [heq])
  · cases h

theorem ua_deleteScanChecked_err (s : State) (w : Nat) : ∀ (ps : List Bytes) (idx : List (Bytes × Nat)) (e : Err),
    deleteScanChecked s w ps idx = .error e → e = .traph
  | [], idx, e, h => by simp [deleteScanChecked] at h
  | p :: ps, idx, e, h => by
    rw [deleteScanChecked] at h
    split at h
    · cases h; rfl
    · split at h
      · cases h; rfl
      · exact ua_deleteScanChecked_err s w ps _ e h

theorem ua_deleteWebentity_err (s : State) (w : Nat) (ps : List Bytes) (e : Err)
    (h : (s.deleteWebentity w ps).2 = .error e) : e = .traph := by
  unfold deleteWebentity at h
  split at h
  · rename_i e' heq; cases h; exact ua_deleteScanChecked_err s w ps [] e heq
  · cases h

theorem ua_addPrefix_err (s : State) (p : Bytes) (w : Nat) (e : Err)
    (h : (s.addPrefix p w).2 = .error e) : e = .traph := by
  unfold addPrefix at h
  rcases s.addLru (lruIter p) true with ⟨s1, n, hh⟩
  simp only at h
  split at h <;> cases h
  rfl

theorem ua_removePrefix_err (s : State) (p : Bytes) (w : Option Nat) (e : Err)
    (h : (s.removePrefix p w).2 = .error e) : e = .traph := by
  unfold removePrefix at h
  simp only at h
  repeat' split at h
  all_goals first | (cases h; rfl) | cases h

theorem ua_movePrefix_err (s : State) (p : Bytes) (tg : Nat) (f : Option Nat) (e : Err)
    (h : (s.movePrefix p tg f).2 = .error e) : e = .traph := by
  have h1 := ua_removePrefix_err s p f
  unfold movePrefix at h
  split at h
  · rename_i e' heq; cases h; exact h1 e (by rw [heq])
  · exact ua_addPrefix_err _ p tg e h

/-- **one request**: in a state with `Shape` and `RulesOk`, a request meeting the discipline does not answer
    `KeyError` (whatever else it answers) -/
theorem step_noKeyErr {s : State} {t : T} (h : Shape s t) (ok : RulesOk s) (op : Op) (hd : StepOk s op) :
    (s.step op).2 ≠ .err (.other "KeyError") := by
  have hrep : ∀ r : Report, Ans.report r ≠ .err (.other "KeyError") := fun _ e => by cases e
  have hunit : ∀ _u : Unit, Ans.unit ≠ .err (.other "KeyError") := fun _ e => by cases e
  cases op with
  | addPage l c => exact ua_ofExcept_ok_ne hrep (addPageCore_ok h ok l c)
  | addPages ls c => exact ua_ofExcept_ok_ne hrep (ua_addPagesGo_ok _ ls s t c {} h ok)
  | addLinks links => exact ua_ofExcept_ok_ne hrep (ua_addLinks_ok h ok links)
  | batch data => exact ua_ofExcept_ok_ne hrep (batch_ok h ok data)
  | create ps => exact ua_ofExcept_traph_ne hrep (ua_createWebentity_err s ps)
  | delete w ps => exact ua_ofExcept_traph_ne hunit (ua_deleteWebentity_err s w ps)
  | addPrefix p w => exact ua_ofExcept_traph_ne hunit (ua_addPrefix_err s p w)
  | removePrefix p w => exact ua_ofExcept_traph_ne hunit (ua_removePrefix_err s p w)
  | movePrefix p tg f => exact ua_ofExcept_traph_ne hunit (ua_movePrefix_err s p tg f)
  | addRule a r => exact ua_ofExcept_ok_ne hrep (addRule_ok h ok a r hd.1 hd.2)
  | removeRule a =>
    show Ans.ofExcept (fun _ => Ans.unit) (s.removeRule a).2 ≠ _
    rcases removeRule_present s a hd with h1 | h1 <;> rw [h1] <;> simp [Ans.ofExcept]
  | reopen d rs => intro e; cases e
  | clear d rs =>
    obtain ⟨_, _, _, _, hok, _⟩ := clear_known s d rs
    show Ans.ofExcept (fun _ => Ans.unit) (s.clear d rs).2 ≠ _
    rw [hok]; simp [Ans.ofExcept]

/-- **one request keeps `RulesOk`** — all thirteen requests, under the discipline -/
theorem rulesOk_step_all {s : State} {t : T} (h : Shape s t) (hw : WfStems s t) (ok : RulesOk s) (op : Op)
    (hd : StepOk s op) : RulesOk (s.step op).1 := by
  cases op with
  | removeRule a => exact rulesOk_removeRule h hw a ok
  | reopen d rs => exact rulesOk_reopen h d rs hd
  | clear d rs =>
    refine rulesOk_clear s d rs (fun l hl => ?_)
    subst hl; exact hd
  | addRule a r => exact rulesOk_step h (.addRule a r) hd ok
  | addPage l c => exact rulesOk_step h _ trivial ok
  | addPages ls c => exact rulesOk_step h _ trivial ok
  | addLinks links => exact rulesOk_step h _ trivial ok
  | batch data => exact rulesOk_step h _ trivial ok
  | create ps => exact rulesOk_step h _ trivial ok
  | delete w ps => exact rulesOk_step h _ trivial ok
  | addPrefix p w => exact rulesOk_step h _ trivial ok
  | removePrefix p w => exact rulesOk_step h _ trivial ok
  | movePrefix p tg f => exact rulesOk_step h _ trivial ok

/-- `Good` (shape, block accounting, well-formed stems) is kept by every request, `clear` included -/
theorem ua_good_step_any {s : State} {t : T} (g : Good s t) (op : Op) : ∃ t', Good (s.step op).1 t' := by
  by_cases hc : ∃ d rs, op = .clear d rs
  · obtain ⟨d, rs, rfl⟩ := hc
    obtain ⟨t1, g1, _⟩ := clear_known s d rs
    exact ⟨t1, g1⟩
  · obtain ⟨t1, g1, _⟩ := good_step g op (fun d rs e => hc ⟨d, rs, e⟩)
    exact ⟨t1, g1⟩

/-- **the discipline implies that no request of the history answers `KeyError`**, and `RulesOk` holds at the end
    (hence at every moment: apply it to the prefixes of the history) -/
theorem disciplined_run : ∀ (ops : List Op) (s : State) (t : T), Good s t → RulesOk s → Disciplined s ops →
    NoKeyErr s ops ∧ RulesOk (s.run ops) ∧ ∃ t', Good (s.run ops) t'
  | [], s, t, g, ok, _ => ⟨trivial, ok, t, g⟩
  | op :: ops, s, t, g, ok, hd => by
    obtain ⟨t1, g1⟩ := ua_good_step_any g op
    have ok1 := rulesOk_step_all g.shape g.wf ok op hd.1
    obtain ⟨n, r, g'⟩ := disciplined_run ops (s.step op).1 t1 g1 ok1 hd.2
    exact ⟨⟨step_noKeyErr g.shape ok op hd.1, n⟩, r, g'⟩

theorem disciplined_noKeyErr {s : State} {t : T} {ops : List Op} (g : Good s t) (ok : RulesOk s)
    (hd : Disciplined s ops) : NoKeyErr s ops := (disciplined_run ops s t g ok hd).1

theorem disciplined_rulesOk {s : State} {t : T} {ops : List Op} (g : Good s t) (ok : RulesOk s)
    (hd : Disciplined s ops) : RulesOk (s.run ops) := (disciplined_run ops s t g ok hd).2.1

/-- from a fresh index whose constructor rules have complete LRUs as anchors -/
theorem disciplined_fresh (cfg : Config) (dflt : Rule) (rules : List (Bytes × Rule)) (log : List Write)
    (ops : List Op) (hr : rulesCanonical rules) (hd : Disciplined (State.fresh cfg dflt rules log).1 ops) :
    NoKeyErr (State.fresh cfg dflt rules log).1 ops ∧ RulesOk ((State.fresh cfg dflt rules log).1.run ops) := by
  obtain ⟨t0, g0, _⟩ := fresh_known cfg dflt rules log
  obtain ⟨n, r, _⟩ := disciplined_run ops _ t0 g0 (rulesOk_fresh cfg dflt rules log hr) hd
  exact ⟨n, r⟩

/-! ### non-vacuity, and why each clause of the discipline is there (kernel-checked evaluations) -/
section Examples

def uaA : Bytes := [97, 124]                 -- `a|`
def uaAB : Bytes := [97, 124, 98, 124]       -- `a|b|`
def uaAC : Bytes := [97, 124, 99, 124]       -- `a|c|`
def uaBad : Bytes := [97, 124, 98]           -- `a|b`, not a complete LRU
def uaS0 : State := (State.fresh {} .never [(uaA, .domain)] []).1
/-- an example history: a constructor rule, `addRule`, a `reopen` that re-supplies the two rules (in the other
    order, with other patterns), `removeRule`, both forms of `clear` -/
def uaExOps : List Op :=
  [.addRule uaAB .subdomain, .addPage uaAC true, .reopen .never [(uaAB, .domain), (uaA, .never)],
   .addPage uaAB false, .removeRule uaAB, .addLinks [(uaAB, uaAC)], .clear none none, .addPage uaAC false,
   .clear (some .domain) (some [(uaAC, .path 1)]), .batch [(uaAC, [uaAB, uaA])], .removeRule uaAC]

/-- the example history is disciplined, so no request answers `KeyError` -/
theorem uaEx_disciplined : rulesCanonical [(uaA, Rule.domain)] ∧ Disciplined uaS0 uaExOps ∧
    NoKeyErr uaS0 uaExOps := by
  have hc : rulesCanonical [(uaA, Rule.domain)] := by
    intro ar har
    simp only [List.mem_singleton] at har
    subst har
    exact ⟨by decide, by decide⟩
  obtain ⟨t0, g0, _⟩ := fresh_known {} .never [(uaA, .domain)] []
  have ok0 : RulesOk uaS0 := rulesOk_fresh {} .never [(uaA, .domain)] [] hc
  have hpre : Disciplined uaS0 [.addRule uaAB .subdomain, .addPage uaAC true] :=
    ⟨⟨by decide, by decide⟩, trivial, trivial⟩
  obtain ⟨_, ok1, t1, g1⟩ := disciplined_run _ uaS0 t0 g0 ok0 hpre
  have hd : Disciplined uaS0 uaExOps := by
    show Disciplined uaS0 ([.addRule uaAB .subdomain, .addPage uaAC true] ++ _)
    rw [disciplined_append]
    refine ⟨hpre, covers_of_keys ok1 _ (by decide), trivial, by simp only [StepOk]; decide, trivial, trivial, trivial,
      ?_, trivial, by simp only [StepOk]; decide, trivial⟩
    intro ar har
    simp only [List.mem_singleton] at har
    subst har
    exact ⟨by decide, by decide⟩
  exact ⟨hc, hd, disciplined_noKeyErr g0 ok0 hd⟩

/-- an anchor that is not a complete LRU: the flag goes to the block of `a|`, the RAM key is `a|b` — the next page
    below `a|` is refused with `KeyError` -/
example : (((State.fresh {} .never [] []).1.run [.addRule uaBad .domain]).step (.addPage uaAC false)).2
    = .err (.other "KeyError") := by decide

/-- reopening without re-supplying a flagged rule: `KeyError` on the next page below the anchor -/
example : (((State.fresh {} .never [] []).1.run [.addRule uaA .domain, .reopen .never []]).step
    (.addPage uaAC false)).2 = .err (.other "KeyError") := by decide

/-- removing a rule that is not in RAM: `KeyError` from the dictionary itself, the state is unchanged -/
example : ((State.fresh {} .never [] []).1.step (.removeRule uaA)).2 = .err (.other "KeyError") := by decide

/-- removing a rule that is in RAM but whose anchor is not in the trie (supplied at reopen only): the library's own
    error, after the RAM entry has been dropped -/
example : (((State.fresh {} .never [] []).1.run [.reopen .never [(uaA, .domain)]]).step (.removeRule uaA)).2
      = .err .traph ∧
    (((State.fresh {} .never [] []).1.run [.reopen .never [(uaA, .domain)]]).step (.removeRule uaA)).1.rules = [] := by
  decide

end Examples

#print axioms rulesOk_reopen_iff
#print axioms rulesOk_removeRule
#print axioms rulesOk_clear
#print axioms step_noKeyErr
#print axioms rulesOk_step_all
#print axioms disciplined_run
#print axioms disciplined_fresh

end Traph

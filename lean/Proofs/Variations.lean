import Traph
import Proofs.VariationsBridge
/-! C17: scheme / www variations of an LRU prefix (`helpers.lru_variations`). -/
namespace Traph
open Layout

/-! ### A. the grammar -/

def Body (b : Bytes) : Prop := 124 ∉ b

def http  : Bytes := [104, 116, 116, 112]
def https : Bytes := [104, 116, 116, 112, 115]
def www   : Bytes := [119, 119, 119]

structure Lru17 where
  scheme : Bytes            -- body of the scheme stem after "s:"
  port   : Option Bytes     -- body after "t:"
  hosts  : List Bytes       -- bodies after "h:"
  rest   : List Bytes       -- full bodies (with their "p:"/"q:"/"f:" prefix) of the remaining stems
  deriving DecidableEq, Repr

def Lru17.Wf (x : Lru17) : Prop :=
  x.scheme ≠ [] ∧ (∀ c ∈ x.scheme, (65 ≤ c ∧ c ≤ 90) ∨ (97 ≤ c ∧ c ≤ 122)) ∧
  (∀ p, x.port = some p → p ≠ [] ∧ ∀ c ∈ p, 48 ≤ c ∧ c ≤ 57) ∧
  (∀ h ∈ x.hosts, Body h) ∧ (∀ r ∈ x.rest, Body r ∧ ¬ startsWith r hPrefix = true) ∧
  ¬ (∃ pre, x.hosts = pre ++ [www, www])

def Lru17.portStems (x : Lru17) : List Bytes :=
  match x.port with
  | none => []
  | some p => [[116, 58] ++ p ++ [124]]

def Lru17.stems (x : Lru17) : List Bytes :=
  ([115, 58] ++ x.scheme ++ [124]) ::
    (x.portStems ++ x.hosts.map (fun h => [104, 58] ++ h ++ [124]) ++ x.rest.map (· ++ [124]))

def Lru17.bytes (x : Lru17) : Bytes := x.stems.flatten

/-! ### working form of `bytes` -/

def portPart : Option Bytes → Bytes
  | none => []
  | some p => 116 :: 58 :: p ++ [124]

def preOf (sc : Bytes) (p : Option Bytes) : Bytes := 115 :: 58 :: sc ++ 124 :: portPart p

def hostBodies (hs : List Bytes) : List Bytes := hs.map (fun h => 104 :: 58 :: h)

def hostRun (hs : List Bytes) : Bytes := ((hostBodies hs).map (· ++ [124])).flatten

def tailOf (r : List Bytes) : Bytes := (r.map (· ++ [124])).flatten

def mkBytes (sc : Bytes) (p : Option Bytes) (hs r : List Bytes) : Bytes :=
  preOf sc p ++ (hostRun hs ++ tailOf r)

theorem Lru17.bytes_eq (x : Lru17) : x.bytes = mkBytes x.scheme x.port x.hosts x.rest := by
  obtain ⟨sc, p, hs, r⟩ := x
  cases p <;>
    simp [Lru17.bytes, Lru17.stems, Lru17.portStems, mkBytes, preOf, portPart, hostRun, hostBodies,
      tailOf, List.map_map, Function.comp_def]

def portBodies : Option Bytes → List Bytes
  | none => []
  | some p => [116 :: 58 :: p]

def bodiesOf (sc : Bytes) (p : Option Bytes) (hs r : List Bytes) : List Bytes :=
  (115 :: 58 :: sc) :: (portBodies p ++ (hostBodies hs ++ r))

theorem mkBytes_eq_flatten (sc : Bytes) (p : Option Bytes) (hs r : List Bytes) :
    mkBytes sc p hs r = ((bodiesOf sc p hs r).map (· ++ [124])).flatten := by
  cases p <;> simp [mkBytes, bodiesOf, preOf, portPart, portBodies, hostRun, tailOf]

/-! ### C (i): the scheme test and the scheme rewrite -/

theorem httpsVariation_mk (sc : Bytes) (p : Option Bytes) (hs r : List Bytes) (hsc : 124 ∉ sc) :
    httpsVariation (mkBytes sc p hs r) =
      if sc = http then some (mkBytes https p hs r)
      else if sc = https then some (mkBytes http p hs r) else none := by
  have e1 : startsWith (mkBytes sc p hs r) sHttp = true ↔ sc = http := by
    have := startsWith_body sc http (portPart p ++ (hostRun hs ++ tailOf r)) hsc (by decide)
    simpa [mkBytes, preOf, sHttp, http] using this
  have e2 : startsWith (mkBytes sc p hs r) sHttps = true ↔ sc = https := by
    have := startsWith_body sc https (portPart p ++ (hostRun hs ++ tailOf r)) hsc (by decide)
    simpa [mkBytes, preOf, sHttps, https] using this
  have r1 : ∀ tl, replaceFirst sHttp sHttps (sHttp ++ tl) = sHttps ++ tl :=
    fun tl => replaceFirst_prefix _ _ _ (by decide)
  have r2 : ∀ tl, replaceFirst sHttps sHttp (sHttps ++ tl) = sHttp ++ tl :=
    fun tl => replaceFirst_prefix _ _ _ (by decide)
  unfold httpsVariation
  by_cases h1 : sc = http
  · rw [if_pos (e1.2 h1), if_pos h1]
    subst h1
    have a : mkBytes http p hs r = sHttp ++ (portPart p ++ (hostRun hs ++ tailOf r)) := by
      simp [mkBytes, preOf, sHttp, http]
    have b : mkBytes https p hs r = sHttps ++ (portPart p ++ (hostRun hs ++ tailOf r)) := by
      simp [mkBytes, preOf, sHttps, https]
    rw [a, b, r1]
  · rw [if_neg (fun h => h1 (e1.1 h)), if_neg h1]
    by_cases h2 : sc = https
    · rw [if_pos (e2.2 h2), if_pos h2]
      subst h2
      have a : mkBytes http p hs r = sHttp ++ (portPart p ++ (hostRun hs ++ tailOf r)) := by
        simp [mkBytes, preOf, sHttp, http]
      have b : mkBytes https p hs r = sHttps ++ (portPart p ++ (hostRun hs ++ tailOf r)) := by
        simp [mkBytes, preOf, sHttps, https]
      rw [a, b, r2]
    · rw [if_neg (fun h => h2 (e2.1 h)), if_neg h2]

/-! ### C (ii): the host stems found by `split` + `filter` -/

def Alpha (sc : Bytes) : Prop := ∀ c ∈ sc, (65 ≤ c ∧ c ≤ 90) ∨ (97 ≤ c ∧ c ≤ 122)
def PortOk (p : Option Bytes) : Prop := ∀ q, p = some q → ∀ c ∈ q, 48 ≤ c ∧ c ≤ 57
def RestOk (r : List Bytes) : Prop := ∀ s ∈ r, Body s ∧ ¬ startsWith s hPrefix = true

theorem Alpha.no_sep {sc : Bytes} (h : Alpha sc) : 124 ∉ sc := by
  intro hm; have := h _ hm; omega

theorem hosts_filter (sc : Bytes) (p : Option Bytes) (hs r : List Bytes)
    (hsc : Alpha sc) (hp : PortOk p) (hh : ∀ h ∈ hs, Body h) (hr : RestOk r) :
    (splitOn sep (mkBytes sc p hs r)).filter (fun s => startsWith s hPrefix) = hostBodies hs := by
  have hbody : ∀ b ∈ bodiesOf sc p hs r, 124 ∉ b := by
    intro b hb
    simp only [bodiesOf, List.mem_cons, List.mem_append] at hb
    rcases hb with rfl | hb | hb | hb
    · have := hsc.no_sep
      simp [this]
    · cases p with
      | none => simp [portBodies] at hb
      | some q =>
        simp only [portBodies, List.mem_singleton] at hb
        subst hb
        have : 124 ∉ q := by intro hm; have := hp q rfl _ hm; omega
        simp [this]
    · simp only [hostBodies, List.mem_map] at hb
      obtain ⟨h, hm, rfl⟩ := hb
      have : 124 ∉ h := hh h hm
      simp [this]
    · exact (hr b hb).1
  show (splitOn 124 (mkBytes sc p hs r)).filter _ = _
  rw [mkBytes_eq_flatten, splitOn_flatten _ hbody]
  have f1 : (portBodies p).filter (fun s => startsWith s hPrefix) = [] := by
    cases p <;> simp [portBodies, hPrefix]
  have f2 : (hostBodies hs).filter (fun s => startsWith s hPrefix) = hostBodies hs := by
    simp [hostBodies, hPrefix, List.filter_eq_self]
  have f3 : r.filter (fun s => startsWith s hPrefix) = [] := by
    simp only [List.filter_eq_nil_iff]
    intro s hs'
    exact (hr s hs').2
  have f0 : startsWith (115 :: 58 :: sc) hPrefix = false := by simp [hPrefix]
  have f4 : startsWith [] hPrefix = false := by simp [hPrefix]
  simp [bodiesOf, List.filter_append, f0, f1, f2, f3, f4]

/-! ### C (iii): the rewrite of the host run -/

theorem NoHC_preOf (sc : Bytes) (p : Option Bytes) (hsc : Alpha sc) (hp : PortOk p) : NoHC (preOf sc p) := by
  have hp' : NoHC (124 :: portPart p) := by
    cases p with
    | none => exact (by decide : (124 : Nat) ≠ 104)
    | some q =>
      refine NoHC_cons_ne _ _ (by decide) (NoHC_cons_ne _ _ (by decide) (NoHC_cons_ne _ _ (by decide) ?_))
      have := NoHC_no58 q [] (fun c hc => by have := hp q rfl c hc; omega) (by decide : (124 : Nat) ≠ 104)
      exact this
  refine NoHC_cons_ne _ _ (by decide) (NoHC_cons_ne _ _ (by decide) ?_)
  exact NoHC_no58 sc _ (fun c hc => by have := hsc c hc; omega) hp'

theorem replace_hosts (sc : Bytes) (p : Option Bytes) (hs hs' r : List Bytes)
    (hsc : Alpha sc) (hp : PortOk p) (h1 : hs ≠ []) (h2 : hs' ≠ []) :
    replaceFirst (joinWith sep (hostBodies hs) ++ [sep]) (joinWith sep (hostBodies hs') ++ [sep])
      (mkBytes sc p hs r) = mkBytes sc p hs' r := by
  show replaceFirst (joinWith 124 (hostBodies hs) ++ [124]) (joinWith 124 (hostBodies hs') ++ [124]) _ = _
  rw [joinWith_sep _ (by simpa [hostBodies] using h1), joinWith_sep _ (by simpa [hostBodies] using h2)]
  show replaceFirst (hostRun hs) (hostRun hs') _ = _
  obtain ⟨o, ho⟩ : ∃ o, hostRun hs = 104 :: 58 :: o := by
    cases hs with
    | nil => exact absurd rfl h1
    | cons a hs => exact ⟨_, by simp [hostRun, hostBodies]; rfl⟩
  unfold mkBytes
  rw [ho, replaceFirst_skip _ _ _ _ (NoHC_preOf sc p hsc hp), ← ho,
    replaceFirst_prefix _ _ _ (by rw [ho]; simp)]

/-! ### B. the stem-level specification -/

def schemeAlts (s : Bytes) : List Bytes :=
  if s = http then [s, https] else if s = https then [s, http] else [s]

def toggle (hs : List Bytes) : List Bytes :=
  if hs.getLast? = some www then hs.dropLast else hs ++ [www]

def hostAlts (hs : List Bytes) : List (List Bytes) :=
  if hs.length ≤ 1 then [hs] else if (toggle hs).length = 1 then [hs] else [hs, toggle hs]

/-- `[x, swap x (if any), www x (if any), swap (www x) (if both)]` -/
def Lru17.variations (x : Lru17) : List Lru17 :=
  (hostAlts x.hosts).flatMap fun hs => (schemeAlts x.scheme).map fun sc => { x with scheme := sc, hosts := hs }

/-! ### C. the bridge -/

theorem hostBodies_toggle (hs : List Bytes) :
    (if (hostBodies hs).getLast? == some hWww then (hostBodies hs).dropLast else hostBodies hs ++ [hWww])
      = hostBodies (toggle hs) := by
  have e : ((hostBodies hs).getLast? == some hWww) = true ↔ hs.getLast? = some www := by
    rw [beq_iff_eq, hostBodies, List.getLast?_map]
    cases hs.getLast? <;> simp [hWww, www]
  unfold toggle
  by_cases h : hs.getLast? = some www
  · rw [if_pos (e.2 h), if_pos h]; simp [hostBodies, List.map_dropLast]
  · rw [if_neg (fun h' => h (e.1 h')), if_neg h]; simp [hostBodies, hWww, www]

theorem Alpha_http : Alpha http := by unfold Alpha http; decide
theorem Alpha_https : Alpha https := by unfold Alpha https; decide

theorem lruVariations_mk (sc : Bytes) (p : Option Bytes) (hs r : List Bytes)
    (hsc : Alpha sc) (hp : PortOk p) (hh : ∀ h ∈ hs, Body h) (hr : RestOk r) :
    lruVariations (mkBytes sc p hs r) =
      (hostAlts hs).flatMap fun hs' => (schemeAlts sc).map fun sc' => mkBytes sc' p hs' r := by
  have hne : (mkBytes sc p hs r).isEmpty = false := by simp [mkBytes, preOf]
  have hf := hosts_filter sc p hs r hsc hp hh hr
  have hv := httpsVariation_mk sc p hs r hsc.no_sep
  have tg := hostBodies_toggle hs
  simp only [lruVariations, hne, hf, hv, tg]
  have hl : (hostBodies hs).length = hs.length := by simp [hostBodies]
  have hl' : (hostBodies (toggle hs)).length = (toggle hs).length := by simp [hostBodies]
  rw [if_neg (by simp)]
  simp only [hl, hl', beq_iff_eq]
  unfold hostAlts
  by_cases c1 : hs.length ≤ 1
  · rw [if_pos c1, if_pos c1]
    by_cases s1 : sc = http
    · simp [schemeAlts, s1]
    · by_cases s2 : sc = https
      · subst s2; simp [schemeAlts, s1]
      · simp [schemeAlts, s1, s2]
  · rw [if_neg c1, if_neg c1]
    by_cases c2 : (toggle hs).length = 1
    · rw [if_pos c2, if_pos c2]
      by_cases s1 : sc = http
      · simp [schemeAlts, s1]
      · by_cases s2 : sc = https
        · subst s2; simp [schemeAlts, s1]
        · simp [schemeAlts, s1, s2]
    · rw [if_neg c2, if_neg c2]
      have n1 : hs ≠ [] := by intro h; subst h; simp at c1
      have n2 : toggle hs ≠ [] := by
        unfold toggle
        split
        · intro h
          have := congrArg List.length h
          simp at this
          omega
        · simp
      have R := fun sc' (h : Alpha sc') => replace_hosts sc' p hs (toggle hs) r h hp n1 n2
      by_cases s1 : sc = http
      · subst s1; simp [schemeAlts, R _ Alpha_http, R _ Alpha_https]
      · by_cases s2 : sc = https
        · subst s2; simp [schemeAlts, s1, R _ Alpha_http, R _ Alpha_https]
        · simp [schemeAlts, s1, s2, R _ hsc]

theorem lruVariations_bytes (x : Lru17) (h : x.Wf) :
    lruVariations x.bytes = x.variations.map Lru17.bytes := by
  obtain ⟨_, hsc, hp, hh, hr, _⟩ := h
  rw [x.bytes_eq, lruVariations_mk _ _ _ _ hsc (fun q hq => (hp q hq).2) hh hr]
  simp [Lru17.variations, List.map_flatMap, Lru17.bytes_eq, Function.comp_def]

/-! ### stem-level closure -/

def build (p : Option Bytes) (r : List Bytes) (scs : List Bytes) (hss : List (List Bytes)) : List Lru17 :=
  hss.flatMap fun hs => scs.map fun sc => ⟨sc, p, hs, r⟩

theorem Lru17.variations_eq_build (x : Lru17) :
    x.variations = build x.port x.rest (schemeAlts x.scheme) (hostAlts x.hosts) := rfl

theorem mem_build {p r scs hss} {y : Lru17} :
    y ∈ build p r scs hss ↔ y.port = p ∧ y.rest = r ∧ y.scheme ∈ scs ∧ y.hosts ∈ hss := by
  obtain ⟨sc, p', hs, r'⟩ := y
  simp only [build, List.mem_flatMap, List.mem_map, Lru17.mk.injEq]
  constructor
  · rintro ⟨hs', h1, sc', h2, rfl, rfl, rfl, rfl⟩
    exact ⟨rfl, rfl, h2, h1⟩
  · rintro ⟨rfl, rfl, h2, h1⟩
    exact ⟨hs, h1, sc, h2, rfl, rfl, rfl, rfl⟩

theorem flatMap_perm_left {α β} (l : List α) (f g : α → List β) (h : ∀ a ∈ l, (f a).Perm (g a)) :
    (l.flatMap f).Perm (l.flatMap g) := by
  induction l with
  | nil => exact List.Perm.refl _
  | cons a l ih =>
    simp only [List.flatMap_cons]
    exact (h a (by simp)).append (ih (fun b hb => h b (by simp [hb])))

theorem build_perm {p r scs scs' hss hss'} (h1 : scs.Perm scs') (h2 : hss.Perm hss') :
    (build p r scs hss).Perm (build p r scs' hss') := by
  unfold build
  exact (flatMap_perm_left _ _ _ (fun hs _ => h1.map _)).trans (h2.flatMap_right _)

theorem schemeAlts_closed (s s' : Bytes) (h : s' ∈ schemeAlts s) : (schemeAlts s').Perm (schemeAlts s) := by
  unfold schemeAlts at h
  by_cases s1 : s = http
  · subst s1
    simp only [if_true, List.mem_cons, List.not_mem_nil, or_false] at h
    rcases h with rfl | rfl
    · exact List.Perm.refl _
    · simp only [schemeAlts, if_true]
      rw [if_neg (by decide)]
      exact List.Perm.swap _ _ _
  · rw [if_neg s1] at h
    by_cases s2 : s = https
    · subst s2
      simp only [if_true, List.mem_cons, List.not_mem_nil, or_false] at h
      rcases h with rfl | rfl
      · exact List.Perm.refl _
      · simp only [schemeAlts, if_true]
        rw [if_neg (by decide)]
        exact List.Perm.swap _ _ _
    · rw [if_neg s2] at h
      simp only [List.mem_singleton] at h
      subst h
      exact List.Perm.refl _

def NoWW (hs : List Bytes) : Prop := ¬ ∃ pre, hs = pre ++ [www, www]

theorem toggle_cases (hs : List Bytes) :
    (∃ ys, hs = ys ++ [www] ∧ toggle hs = ys) ∨ (hs.getLast? ≠ some www ∧ toggle hs = hs ++ [www]) := by
  unfold toggle
  by_cases h : hs.getLast? = some www
  · left
    obtain ⟨ys, rfl⟩ := List.getLast?_eq_some_iff.1 h
    exact ⟨ys, rfl, by rw [if_pos h, List.dropLast_concat]⟩
  · right
    exact ⟨h, by rw [if_neg h]⟩

theorem toggle_toggle (hs : List Bytes) (h : NoWW hs) : toggle (toggle hs) = hs := by
  rcases toggle_cases hs with ⟨ys, rfl, e⟩ | ⟨hn, e⟩
  · rw [e]
    have : ys.getLast? ≠ some www := by
      intro hl
      obtain ⟨zs, rfl⟩ := List.getLast?_eq_some_iff.1 hl
      exact h ⟨zs, by simp⟩
    unfold toggle
    rw [if_neg this]
  · rw [e]
    unfold toggle
    rw [if_pos List.getLast?_concat, List.dropLast_concat]

theorem toggle_NoWW (hs : List Bytes) (h : NoWW hs) : NoWW (toggle hs) := by
  rcases toggle_cases hs with ⟨ys, rfl, e⟩ | ⟨hn, e⟩
  · rw [e]
    rintro ⟨pre, rfl⟩
    exact h ⟨pre ++ [www], by simp⟩
  · rw [e]
    rintro ⟨pre, hp⟩
    apply hn
    have : hs ++ [www] = (pre ++ [www]) ++ [www] := by simpa using hp
    have := (List.append_cancel_right_eq _ _ _).mp this
    rw [this]
    exact List.getLast?_concat

theorem toggle_length (hs : List Bytes) :
    (toggle hs).length + 1 = hs.length ∨ (toggle hs).length = hs.length + 1 := by
  rcases toggle_cases hs with ⟨ys, rfl, e⟩ | ⟨hn, e⟩ <;> rw [e] <;> simp

theorem hostAlts_closed (hs hs' : List Bytes) (hn : NoWW hs) (h : hs' ∈ hostAlts hs) :
    (hostAlts hs').Perm (hostAlts hs) := by
  unfold hostAlts at h
  by_cases c1 : hs.length ≤ 1
  · rw [if_pos c1] at h
    simp only [List.mem_singleton] at h
    subst h; exact List.Perm.refl _
  · rw [if_neg c1] at h
    by_cases c2 : (toggle hs).length = 1
    · rw [if_pos c2] at h
      simp only [List.mem_singleton] at h
      subst h; exact List.Perm.refl _
    · rw [if_neg c2] at h
      simp only [List.mem_cons, List.not_mem_nil, or_false] at h
      rcases h with rfl | rfl
      · exact List.Perm.refl _
      · have tl := toggle_length hs
        have tt := toggle_toggle hs hn
        have e1 : hostAlts (toggle hs) = [toggle hs, hs] := by
          unfold hostAlts
          rw [if_neg (by omega), tt, if_neg (by omega)]
        have e2 : hostAlts hs = [hs, toggle hs] := by
          unfold hostAlts
          rw [if_neg c1, if_neg c2]
        rw [e1, e2]
        exact List.Perm.swap _ _ _

theorem hostAlts_NoWW (hs hs' : List Bytes) (hn : NoWW hs) (h : hs' ∈ hostAlts hs) : NoWW hs' := by
  unfold hostAlts at h
  split at h
  · simp only [List.mem_singleton] at h; subst h; exact hn
  · split at h
    · simp only [List.mem_singleton] at h; subst h; exact hn
    · simp only [List.mem_cons, List.not_mem_nil, or_false] at h
      rcases h with rfl | rfl
      · exact hn
      · exact toggle_NoWW _ hn

theorem hostAlts_rel (hs hs' : List Bytes) (h : hs' ∈ hostAlts hs) :
    hs' = hs ∨ hs' = hs ++ [www] ∨ hs' ++ [www] = hs := by
  have : hs' = hs ∨ hs' = toggle hs := by
    unfold hostAlts at h
    split at h
    · simp only [List.mem_singleton] at h; exact Or.inl h
    · split at h
      · simp only [List.mem_singleton] at h; exact Or.inl h
      · simpa using h
  rcases this with rfl | rfl
  · exact Or.inl rfl
  · rcases toggle_cases hs with ⟨ys, rfl, e⟩ | ⟨hn, e⟩
    · rw [e]; exact Or.inr (Or.inr rfl)
    · rw [e]; exact Or.inr (Or.inl rfl)

theorem schemeAlts_rel (s s' : Bytes) (h : s' ∈ schemeAlts s) :
    s' = s ∨ (s = http ∧ s' = https) ∨ (s = https ∧ s' = http) := by
  unfold schemeAlts at h
  split at h
  · simp only [List.mem_cons, List.not_mem_nil, or_false] at h
    rcases h with rfl | rfl
    · exact Or.inl rfl
    · exact Or.inr (Or.inl ⟨‹_›, rfl⟩)
  · split at h
    · simp only [List.mem_cons, List.not_mem_nil, or_false] at h
      rcases h with rfl | rfl
      · exact Or.inl rfl
      · exact Or.inr (Or.inr ⟨‹_›, rfl⟩)
    · simp only [List.mem_singleton] at h
      exact Or.inl h

/-- the specification is closed -/
theorem Lru17.variations_closed (x y : Lru17) (hn : NoWW x.hosts) (hy : y ∈ x.variations) :
    y.variations.Perm x.variations := by
  rw [Lru17.variations_eq_build] at hy
  obtain ⟨hp, hr, hs, hh⟩ := mem_build.1 hy
  rw [y.variations_eq_build, x.variations_eq_build, hp, hr]
  exact build_perm (schemeAlts_closed _ _ hs) (hostAlts_closed _ _ hn hh)

theorem www_body : Body www := by unfold Body www; decide

/-- members of the specification are well-formed -/
theorem Lru17.variations_wf (x y : Lru17) (h : x.Wf) (hy : y ∈ x.variations) : y.Wf := by
  rw [Lru17.variations_eq_build] at hy
  obtain ⟨hp, hr, hs, hh⟩ := mem_build.1 hy
  obtain ⟨w1, w2, w3, w4, w5, w6⟩ := h
  have sa : y.scheme ≠ [] ∧ Alpha y.scheme := by
    rcases schemeAlts_rel _ _ hs with e | ⟨_, e⟩ | ⟨_, e⟩
    · rw [e]; exact ⟨w1, w2⟩
    · rw [e]; exact ⟨by decide, Alpha_https⟩
    · rw [e]; exact ⟨by decide, Alpha_http⟩
  refine ⟨sa.1, sa.2, by rw [hp]; exact w3, ?_, by rw [hr]; exact w5, hostAlts_NoWW _ _ w6 hh⟩
  rcases hostAlts_rel _ _ hh with e | e | e
  · rw [e]; exact w4
  · rw [e]
    intro h hm
    rcases List.mem_append.1 hm with hm | hm
    · exact w4 h hm
    · simp only [List.mem_singleton] at hm; subst hm; exact www_body
  · intro h hm
    exact w4 h (by rw [← e]; simp [hm])

/-! ### D. the property -/

theorem C17_head (b : Bytes) : (lruVariations b).head? = some b := by
  unfold lruVariations
  split
  · rfl
  · cases httpsVariation b <;> simp only [] <;> (repeat' split) <;> rfl

theorem mkBytes_length (sc : Bytes) (p : Option Bytes) (hs r : List Bytes) :
    (mkBytes sc p hs r).length =
      sc.length + (hostRun hs).length + (3 + (portPart p).length + (tailOf r).length) := by
  simp [mkBytes, preOf]; omega

theorem hostRun_toggle_length (hs : List Bytes) :
    (hostRun (toggle hs)).length + 6 = (hostRun hs).length ∨
    (hostRun (toggle hs)).length = (hostRun hs).length + 6 := by
  rcases toggle_cases hs with ⟨ys, rfl, e⟩ | ⟨hn, e⟩ <;> rw [e] <;> simp [hostRun, hostBodies, www]

theorem schemeAlts_shape (s : Bytes) :
    schemeAlts s = [s] ∨ ∃ s', schemeAlts s = [s, s'] ∧ (s'.length = s.length + 1 ∨ s'.length + 1 = s.length) := by
  unfold schemeAlts
  split
  · subst_vars; exact Or.inr ⟨https, rfl, Or.inl rfl⟩
  · split
    · subst_vars; exact Or.inr ⟨http, rfl, Or.inr rfl⟩
    · exact Or.inl rfl

theorem hostAlts_shape (hs : List Bytes) : hostAlts hs = [hs] ∨ hostAlts hs = [hs, toggle hs] := by
  unfold hostAlts
  split
  · exact Or.inl rfl
  · split
    · exact Or.inl rfl
    · exact Or.inr rfl

theorem mkBytes_ne {sc sc' : Bytes} {p : Option Bytes} {hs hs' r : List Bytes}
    (h : sc.length + (hostRun hs).length ≠ sc'.length + (hostRun hs').length) :
    mkBytes sc p hs r ≠ mkBytes sc' p hs' r := by
  intro e
  have := congrArg List.length e
  rw [mkBytes_length, mkBytes_length] at this
  omega

theorem C17_nodup (x : Lru17) (h : x.Wf) : (lruVariations x.bytes).Nodup := by
  rw [lruVariations_bytes x h, Lru17.variations_eq_build]
  have tl := hostRun_toggle_length x.hosts
  rcases schemeAlts_shape x.scheme with e1 | ⟨s', e1, hs'⟩ <;>
  rcases hostAlts_shape x.hosts with e2 | e2 <;>
  rw [e1, e2] <;>
  simp only [build, List.flatMap_cons, List.flatMap_nil, List.map_cons, List.map_nil, List.append_nil,
    List.cons_append, List.nil_append, Lru17.bytes_eq, List.nodup_cons, List.mem_cons, List.not_mem_nil,
    or_false, not_or, List.nodup_nil, and_true, not_false_eq_true] <;>
  (try refine ⟨?_, ?_⟩) <;> (try refine ⟨?_, ?_⟩) <;> (try refine ⟨?_, ?_⟩) <;>
  (try refine ⟨?_, ?_⟩) <;> (try refine ⟨?_, ?_⟩) <;>
  first
    | trivial
    | (apply mkBytes_ne; omega)

theorem C17_closed (x : Lru17) (h : x.Wf) :
    ∀ y ∈ lruVariations x.bytes, (lruVariations y).Perm (lruVariations x.bytes) := by
  intro y hy
  rw [lruVariations_bytes x h] at hy ⊢
  obtain ⟨x', hx', rfl⟩ := List.mem_map.1 hy
  rw [lruVariations_bytes x' (x.variations_wf x' h hx')]
  exact (x.variations_closed x' h.2.2.2.2.2 hx').map _

theorem C17_local (x : Lru17) (h : x.Wf) :
    ∀ y ∈ lruVariations x.bytes, ∃ x' : Lru17, x'.Wf ∧ x'.bytes = y ∧ x'.port = x.port ∧ x'.rest = x.rest ∧
      (x'.scheme = x.scheme ∨ (x.scheme = http ∧ x'.scheme = https) ∨ (x.scheme = https ∧ x'.scheme = http)) ∧
      (x'.hosts = x.hosts ∨ x'.hosts = x.hosts ++ [www] ∨ x'.hosts ++ [www] = x.hosts) := by
  intro y hy
  rw [lruVariations_bytes x h] at hy
  obtain ⟨x', hx', rfl⟩ := List.mem_map.1 hy
  have hw := x.variations_wf x' h hx'
  rw [Lru17.variations_eq_build] at hx'
  obtain ⟨hp, hr, hs, hh⟩ := mem_build.1 hx'
  exact ⟨x', hw, rfl, hp, hr, schemeAlts_rel _ _ hs, hostAlts_rel _ _ hh⟩

/-- few hosts (in particular scheme-only LRUs such as `s:http|` and `s:http|t:80|`): only the scheme varies -/
theorem C17_fewHosts (x : Lru17) (h : x.Wf) (hl : x.hosts.length ≤ 1) :
    lruVariations x.bytes = (schemeAlts x.scheme).map fun sc => ({ x with scheme := sc } : Lru17).bytes := by
  rw [lruVariations_bytes x h, Lru17.variations_eq_build]
  simp [hostAlts, hl, build]

/-- the class has 1, 2 or 4 members -/
theorem C17_card (x : Lru17) (h : x.Wf) :
    (lruVariations x.bytes).length = 1 ∨ (lruVariations x.bytes).length = 2 ∨
    (lruVariations x.bytes).length = 4 := by
  rw [lruVariations_bytes x h, Lru17.variations_eq_build]
  rcases schemeAlts_shape x.scheme with e1 | ⟨s', e1, _⟩ <;>
  rcases hostAlts_shape x.hosts with e2 | e2 <;> rw [e1, e2] <;> simp [build]

/-! ### sanity: `bytes` is the LRU whose `lru_iter` stems are `stems` -/

theorem lruIterGo_body (b r cur : Bytes) (hb : 124 ∉ b) :
    lruIterGo (b ++ 124 :: r) cur = (cur.reverse ++ b ++ [124]) :: lruIterGo r [] := by
  induction b generalizing cur with
  | nil => simp [lruIterGo]
  | cons c b ih =>
    have hc : c ≠ 124 := by intro h; exact hb (by simp [h])
    have hb' : 124 ∉ b := fun h => hb (by simp [h])
    show (if (c == 124) = true then _ else _) = _
    rw [if_neg (by simp [hc])]
    show lruIterGo (b ++ 124 :: r) (c :: cur) = _
    rw [ih (c :: cur) hb']
    simp

theorem lruIter_flatten_bodies (bodies : List Bytes) (h : ∀ b ∈ bodies, 124 ∉ b) :
    lruIter (bodies.map (· ++ [124])).flatten = bodies.map (· ++ [124]) := by
  induction bodies with
  | nil => rfl
  | cons b bodies ih =>
    have := lruIterGo_body b (bodies.map (· ++ [124])).flatten [] (h b (by simp))
    simp only [List.map_cons, List.flatten_cons, List.append_assoc, List.singleton_append, lruIter]
    rw [this]
    simp only [lruIter] at ih
    rw [ih (fun b hb => h b (by simp [hb]))]
    simp

theorem Lru17.stems_eq (x : Lru17) :
    x.stems = (bodiesOf x.scheme x.port x.hosts x.rest).map (· ++ [124]) := by
  obtain ⟨sc, p, hs, r⟩ := x
  cases p <;> simp [Lru17.stems, Lru17.portStems, bodiesOf, portBodies, hostBodies]

theorem lruIter_bytes (x : Lru17) (h : x.Wf) : lruIter x.bytes = x.stems := by
  obtain ⟨_, hsc, hp, hh, hr, _⟩ := h
  have hp' : PortOk x.port := fun q hq => (hp q hq).2
  have hbody : ∀ b ∈ bodiesOf x.scheme x.port x.hosts x.rest, 124 ∉ b := by
    intro b hb
    simp only [bodiesOf, List.mem_cons, List.mem_append] at hb
    rcases hb with rfl | hb | hb | hb
    · have := Alpha.no_sep hsc
      simp [this]
    · cases hq : x.port with
      | none => simp [hq, portBodies] at hb
      | some q =>
        simp only [hq, portBodies, List.mem_singleton] at hb
        subst hb
        have : 124 ∉ q := by intro hm; have := hp' q hq _ hm; omega
        simp [this]
    · simp only [hostBodies, List.mem_map] at hb
      obtain ⟨h, hm, rfl⟩ := hb
      have : 124 ∉ h := hh h hm
      simp [this]
    · exact (hr b hb).1
  rw [Lru17.bytes, x.stems_eq, lruIter_flatten_bodies _ hbody]

/-! ### E. non-vacuity -/

instance (x : Lru17) : Decidable x.Wf :=
  decidable_of_iff
    (x.scheme ≠ [] ∧ (∀ c ∈ x.scheme, (65 ≤ c ∧ c ≤ 90) ∨ (97 ≤ c ∧ c ≤ 122)) ∧
      (∀ p ∈ x.port, p ≠ [] ∧ ∀ c ∈ p, 48 ≤ c ∧ c ≤ 57) ∧
      (∀ h ∈ x.hosts, 124 ∉ h) ∧ (∀ r ∈ x.rest, 124 ∉ r ∧ ¬ startsWith r hPrefix = true) ∧
      ¬ [www, www] <:+ x.hosts)
    (and_congr Iff.rfl (and_congr Iff.rfl (and_congr Iff.rfl (and_congr Iff.rfl (and_congr Iff.rfl
      (not_congr ⟨fun ⟨t, h⟩ => ⟨t, h.symm⟩, fun ⟨t, h⟩ => ⟨t, h.symm⟩⟩))))))

/-- `s:https|h:com|h:example|p:s:http|` : a path stem containing the text "s:http" -/
def ex1 : Lru17 :=
  { scheme := https, port := none, hosts := [[99, 111, 109], [101, 120, 97, 109, 112, 108, 101]],
    rest := [[112, 58, 115, 58, 104, 116, 116, 112]] }

example : ex1.Wf := by decide

example : lruVariations ex1.bytes =
    [ -- s:https|h:com|h:example|p:s:http|
      [115,58,104,116,116,112,115,124, 104,58,99,111,109,124, 104,58,101,120,97,109,112,108,101,124,
        112,58,115,58,104,116,116,112,124],
      -- s:http|h:com|h:example|p:s:http|
      [115,58,104,116,116,112,124, 104,58,99,111,109,124, 104,58,101,120,97,109,112,108,101,124,
        112,58,115,58,104,116,116,112,124],
      -- s:https|h:com|h:example|h:www|p:s:http|
      [115,58,104,116,116,112,115,124, 104,58,99,111,109,124, 104,58,101,120,97,109,112,108,101,124,
        104,58,119,119,119,124, 112,58,115,58,104,116,116,112,124],
      -- s:http|h:com|h:example|h:www|p:s:http|
      [115,58,104,116,116,112,124, 104,58,99,111,109,124, 104,58,101,120,97,109,112,108,101,124,
        104,58,119,119,119,124, 112,58,115,58,104,116,116,112,124] ] := by decide

/-- `s:http|t:80|` : no host at all -/
def ex2 : Lru17 := { scheme := http, port := some [56, 48], hosts := [], rest := [] }

example : ex2.Wf := by decide

example : lruVariations ex2.bytes =
    [ [115,58,104,116,116,112,124, 116,58,56,48,124], [115,58,104,116,116,112,115,124, 116,58,56,48,124] ] := by
  decide

/-- `s:ftp|h:com|h:a|h:www|p:h:x|` : hosts end in www, unknown scheme, a path stem containing "h:" -/
def ex3 : Lru17 :=
  { scheme := [102, 116, 112], port := none, hosts := [[99, 111, 109], [97], www],
    rest := [[112, 58, 104, 58, 120]] }

example : ex3.Wf := by decide

example : lruVariations ex3.bytes =
    [ [115,58,102,116,112,124, 104,58,99,111,109,124, 104,58,97,124, 104,58,119,119,119,124, 112,58,104,58,120,124],
      [115,58,102,116,112,124, 104,58,99,111,109,124, 104,58,97,124, 112,58,104,58,120,124] ] := by decide

/-- `s:http|h:com|h:www|` : two hosts, the second is www: removing it would leave one host, so no www variation -/
def ex4 : Lru17 := { scheme := http, port := none, hosts := [[99, 111, 109], www], rest := [] }

example : ex4.Wf := by decide

example : lruVariations ex4.bytes =
    [ [115,58,104,116,116,112,124, 104,58,99,111,109,124, 104,58,119,119,119,124],
      [115,58,104,116,116,112,115,124, 104,58,99,111,109,124, 104,58,119,119,119,124] ] := by decide

/-- the excluded shape (hosts ending in two www) really breaks closure in the model:
    `s:a|h:x|h:www|h:www|` expands to itself and `s:a|h:x|h:www|`, which expands only to itself -/
example :
    let b : Bytes := [115,58,97,124, 104,58,120,124, 104,58,119,119,119,124, 104,58,119,119,119,124]
    let b' : Bytes := [115,58,97,124, 104,58,120,124, 104,58,119,119,119,124]
    lruVariations b = [b, b'] ∧ lruVariations b' = [b'] := by decide

#print axioms C17_head
#print axioms C17_nodup
#print axioms C17_local
#print axioms C17_closed
#print axioms lruVariations_bytes
#print axioms C17_fewHosts
#print axioms C17_card
#print axioms lruIter_bytes

end Traph

import Proofs.Pagination
import Proofs.PagesApi
import Proofs.PagGeneric
/-! Pagination, API level, part 1: the walk the paginated requests iterate over.

    * `prefix_subtree`: in a state satisfying the shape invariant whose stems are well formed, the node
      `lru_node` finds for a prefix is the root of a represented, ordered, well-formed subtree.
    * `WalkOk`: what the requests need to know about `webentity_inorder_iter` from a prefix node: the
      un-paginated walk `L`, strictly ascending; resuming with the path number of any of its items
      returns exactly the items after it (and raises no traversal exception); as a multiset it is the
      walk of `webentity_dfs_iter`.
    * `gItems`: the whole walk of a request, prefix after prefix, every item tagged with its prefix index;
      `gItems_split`: where a position of the whole walk lies. -/
namespace Traph
open State

abbrev GX := Nat × Item

/-! ### A. the subtree below a prefix node is well formed -/

/-- a represented tree is determined by its root -/
theorem rep_unique {s : State} : ∀ (u v : T), Rep s u → Rep s v → u.root = v.root → u = v
  | .nil, .nil, _, _, _ => rfl
  | .nil, .node b _ _ _, _, hv, e => absurd e.symm hv.1
  | .node a _ _ _, .nil, hu, _, e => absurd e hu.1
  | .node a l c r, .node b l' c' r', hu, hv, e => by
    simp only [T.root_node] at e
    subst e
    obtain ⟨_, ⟨cell, hc, h1, h2, h3⟩, rl, rc, rr⟩ := hu
    obtain ⟨_, ⟨cell', hc', g1, g2, g3⟩, rl', rc', rr'⟩ := hv
    rw [hc] at hc'
    cases hc'
    rw [rep_unique l l' rl rl' (h1.symm.trans g1), rep_unique c c' rc rc' (h2.symm.trans g2),
      rep_unique r r' rr rr' (h3.symm.trans g3)]

/-- every address of a represented tree is the root of a represented subtree whose addresses are
    addresses of the tree -/
theorem rep_subtree_of_mem {s : State} : ∀ (u : T) (a : Nat), Rep s u → a ∈ u.addrs →
    ∃ l c r, Rep s (.node a l c r) ∧ ∀ x ∈ (T.node a l c r).addrs, x ∈ u.addrs
  | .nil, _, _, h => by simp [T.addrs] at h
  | .node d l c r, a, hr, h => by
    simp only [T.addrs, List.mem_cons, List.mem_append] at h
    rcases h with rfl | (h | h) | h
    · exact ⟨l, c, r, hr, fun x hx => hx⟩
    · obtain ⟨l', c', r', h1, h2⟩ := rep_subtree_of_mem l a hr.2.2.1 h
      exact ⟨l', c', r', h1, fun x hx => by simp [T.addrs, h2 x hx]⟩
    · obtain ⟨l', c', r', h1, h2⟩ := rep_subtree_of_mem c a hr.2.2.2.1 h
      exact ⟨l', c', r', h1, fun x hx => by simp [T.addrs, h2 x hx]⟩
    · obtain ⟨l', c', r', h1, h2⟩ := rep_subtree_of_mem r a hr.2.2.2.2 h
      exact ⟨l', c', r', h1, fun x hx => by simp [T.addrs, h2 x hx]⟩

/-- stems of stored paths are well formed ⇒ the stem of every block of the tree is -/
theorem allWf_of_wfStems {s : State} {t : T} (h : Shape s t) (hw : WfStems s t) : AllWf s t := by
  intro a ha
  have hp := (entries_addrs_perm (s := s) t []).mem_iff.mpr ha
  obtain ⟨⟨p, b⟩, hm, rfl⟩ := List.mem_map.mp hp
  obtain ⟨q, e, _⟩ := entries_last_and_ptrs t [] p b h.rep hm
  exact hw p b hm _ (by rw [e]; simp)

/-- the node of a prefix the trie knows is the root of a represented, ordered subtree with well-formed
    stems, all of whose blocks are blocks of the whole tree (a prefix without a single stem denotes the root
    block) -/
theorem prefix_subtree {s : State} {t : T} (h : Shape s t) (hw : WfStems s t) {p : Bytes} {n : Nat}
    (hn : s.lruNode (lruIter p) = some n) :
    ∃ l c r lo hi, Rep s (.node n l c r) ∧ OrdT s (.node n l c r) lo hi ∧ AllWf s (.node n l c r) ∧
      (T.node n l c r).size ≤ s.trie.size ∧ ∀ x ∈ (T.node n l c r).addrs, x ∈ t.addrs := by
  have hall := allWf_of_wfStems h hw
  by_cases hne : lruIter p = []
  · rw [hne] at hn
    unfold State.lruNode at hn
    by_cases hsz : s.trie.size ≤ 1
    · rw [if_pos hsz] at hn; cases hn
    · rw [if_neg hsz] at hn
      simp only [lruNodeGo, Option.some.injEq] at hn
      subst hn
      have hroot := h.root
      rw [if_neg hsz] at hroot
      cases t with
      | nil => simp at hroot
      | node a l c r =>
        simp only [T.root_node] at hroot
        subst hroot
        exact ⟨l, c, r, none, none, h.rep, h.ord, hall, h.size_le, fun x hx => hx⟩
  · have hP := (lruNode_iff_entries h _ hne n).mp hn
    obtain ⟨l, c, r, lo', hi', h1, h2, _, h4, _⟩ :=
      subtree_at_ord (lruIter p) t none none [] n h.rep h.ord h.nodup (by simpa using hP)
    obtain ⟨l', c', r', g1, g2⟩ := rep_subtree_of_mem t n h.rep (entries_addr_mem t [] _ n hP)
    have e := rep_unique _ _ h1 g1 rfl
    exact ⟨l, c, r, lo', hi', h1, h2, fun x hx => hall x (g2 x (e ▸ hx)), Nat.le_trans h4 h.size_le,
      fun x hx => g2 x (e ▸ hx)⟩

/-! ### B. in-order walk and DFS walk meet the same nodes -/

theorem weInorder_perm_wePre {s : State} (start : Nat) : ∀ (t : T) (lru : Bytes) (path : Nat),
    ((t.weInorder s start lru path).map (fun it => (it.1, it.2.1))).Perm (t.wePre s start lru)
  | .nil, _, _ => by simp [T.weInorder, T.wePre]
  | .node a l c r, lru, path => by
    have il := weInorder_perm_wePre (s := s) start l lru (base4Append path 1)
    have ic := weInorder_perm_wePre (s := s) start c (lru ++ s.stemAt a) (base4Append path 2)
    have ir := weInorder_perm_wePre (s := s) start r lru (base4Append path 3)
    simp only [T.weInorder, T.wePre, List.map_append]
    by_cases e : a = start
    · subst e
      simp only [if_true, true_or, List.map_nil, List.nil_append, List.append_nil, List.map_cons]
      exact List.Perm.cons _ ic
    · simp only [if_neg e]
      by_cases hw : (s.cell a).we = 0
      · have hrel : a = start ∨ (s.cell a).we = 0 := Or.inr hw
        simp only [if_pos hrel, List.map_cons]
        -- L ++ (x :: C) ++ R  ~  (x :: C) ++ (L ++ R)
        refine List.Perm.trans ?_ (List.Perm.append (List.Perm.cons _ ic) (List.Perm.append il ir))
        rw [List.append_assoc]
        exact (List.perm_append_comm_assoc _ _ _)
      · have hrel : ¬ (a = start ∨ (s.cell a).we = 0) := by
          rintro (h | h)
          · exact e h
          · exact hw h
        simp only [if_neg hrel, List.map_nil, List.append_nil, List.nil_append]
        exact List.Perm.append il ir

/-! ### C. what the requests need from one prefix -/

/-- the un-paginated in-order walk from the node `n` of prefix `p` is `L`; it is strictly ascending,
    resumable at every item, and a rearrangement of the DFS walk -/
structure WalkOk (s : State) (p : Bytes) (n : Nat) (L : List Item) : Prop where
  full : s.weInorder n p none = some L
  sorted : SortedItems L
  resume : ∀ pre it post, L = pre ++ it :: post → s.weInorder n p (some it.2.2) = some post
  perm : (L.map (fun it => (it.1, it.2.1))).Perm (s.weDfs n p none)

/-- in a strictly ascending list, the items sorting after an item are the items behind it -/
theorem sorted_filter_after (pre post : List Item) (it : Item) (hs : SortedItems (pre ++ it :: post)) :
    (pre ++ it :: post).filter (fun x => lexLt it.2.1 x.2.1) = post := by
  have hpre : ∀ x ∈ pre, lexLt x.2.1 it.2.1 = true := fun x hx => hs.cross x hx it (by simp)
  have hpost : ∀ x ∈ post, lexLt it.2.1 x.2.1 = true := by
    have := hs.right
    unfold SortedItems at this
    rw [List.map_cons, List.pairwise_cons] at this
    intro x hx
    exact this.1 _ (List.mem_map.mpr ⟨x, hx, rfl⟩)
  rw [List.filter_append, filter_nil_of_before _ pre hpre, List.filter_cons, lexLt_irrefl]
  simp only [Bool.false_eq_true, if_false, List.nil_append]
  exact List.filter_eq_self.mpr (fun x hx => hpost x hx)

theorem walkOk_of_subtree {s : State} {n : Nat} {l c r : T} {lo hi : Option Stem}
    (hr : Rep s (.node n l c r)) (ho : OrdT s (.node n l c r) lo hi) (hw : AllWf s (.node n l c r))
    (hsz : (T.node n l c r).size ≤ s.trie.size) (p : Bytes) :
    WalkOk s p n ((T.node n l c r).weInorder s n (lruDirname p) 0) := by
  have hsorted : SortedItems ((T.node n l c r).weInorder s n (lruDirname p) 0) :=
    weInorder_sorted n _ lo hi _ 0 ho hw
  refine ⟨?_, hsorted, ?_, ?_⟩
  · rw [weInorder_eq hr hsz p]; simp [T.weInorder]
  · intro pre it post e
    obtain ⟨b0, cur0, p0⟩ := it
    have hmem : (b0, cur0, p0) ∈ (T.node n l c r).weInorder s n (lruDirname p) 0 := by rw [e]; simp
    rw [weInorder_resume hr ho hw hsz p hmem]
    rw [e] at hsorted ⊢
    rw [sorted_filter_after pre post (b0, cur0, p0) hsorted]
  · rw [weDfs_eq' hr hsz p, ← T.wePre_start s n l c r]
    exact weInorder_perm_wePre n _ _ 0

/-- `WalkOk` for every prefix `lru_node` finds, in every state with the invariants -/
theorem walkOk_of_shape {s : State} {t : T} (h : Shape s t) (hw : WfStems s t) {p : Bytes} {n : Nat}
    (hn : s.lruNode (lruIter p) = some n) : ∃ L, WalkOk s p n L := by
  obtain ⟨l, c, r, lo, hi, h1, h2, h3, h4, _⟩ := prefix_subtree h hw hn
  exact ⟨_, walkOk_of_subtree h1 h2 h3 h4 p⟩

/-! ### D. the whole walk of a request -/

/-- the walk from one prefix (`[]` when the prefix is unknown) -/
def walkOf (s : State) (p : Bytes) : List Item :=
  match s.lruNode (lruIter p) with
  | some n => (s.weInorder n p none).getD []
  | none => []

/-- the walk over the indexed prefixes `(i, p)`, in the given order, items tagged with `i` -/
def gItems (s : State) : List (Nat × Bytes) → List (Nat × Item)
  | [] => []
  | (i, p) :: rest => (walkOf s p).map (fun it => (i, it)) ++ gItems s rest

/-- every prefix is known to the trie and its walk is well behaved -/
def AllOk (s : State) (ps : List Bytes) : Prop :=
  ∀ p ∈ ps, ∃ n, s.lruNode (lruIter p) = some n ∧ WalkOk s p n (walkOf s p)

theorem allOk_of_shape {s : State} {t : T} (h : Shape s t) (hw : WfStems s t) {ps : List Bytes}
    (hps : ∀ p ∈ ps, (s.lruNode (lruIter p)).isSome = true) : AllOk s ps := by
  intro p hp
  have := hps p hp
  cases hn : s.lruNode (lruIter p) with
  | none => rw [hn] at this; cases this
  | some n =>
    obtain ⟨L, hL⟩ := walkOk_of_shape h hw hn
    refine ⟨n, rfl, ?_⟩
    have : walkOf s p = L := by unfold walkOf; rw [hn]; simp [hL.full]
    rw [this]; exact hL

theorem AllOk.tail {s : State} {p : Bytes} {ps : List Bytes} (h : AllOk s (p :: ps)) : AllOk s ps :=
  fun q hq => h q (by simp [hq])

theorem enumFrom_mem_snd {α : Type} : ∀ (l : List α) (j : Nat) (x : Nat × α), x ∈ enumFrom j l → x.2 ∈ l
  | [], _, _, h => by simp [enumFrom] at h
  | a :: l, j, x, h => by
    simp only [enumFrom, List.mem_cons] at h
    rcases h with rfl | h
    · simp
    · exact List.mem_cons_of_mem _ (enumFrom_mem_snd l (j + 1) x h)

/-- a list cut inside an append is cut inside one of its halves -/
theorem append_split {α : Type} : ∀ (A B pre : List α) (x : α) (post : List α), A ++ B = pre ++ x :: post →
    (∃ post', A = pre ++ x :: post' ∧ post = post' ++ B) ∨ (∃ pre', pre = A ++ pre' ∧ B = pre' ++ x :: post)
  | [], B, pre, x, post, h => Or.inr ⟨pre, rfl, h⟩
  | a :: A, B, [], x, post, h => by
    simp only [List.cons_append, List.nil_append, List.cons.injEq] at h
    exact Or.inl ⟨A, by rw [h.1]; rfl, h.2.symm⟩
  | a :: A, B, q :: pre, x, post, h => by
    simp only [List.cons_append, List.cons.injEq] at h
    rcases append_split A B pre x post h.2 with ⟨post', e1, e2⟩ | ⟨pre', e1, e2⟩
    · exact Or.inl ⟨post', by rw [h.1, e1]; rfl, e2⟩
    · exact Or.inr ⟨pre', by rw [h.1, e1]; rfl, e2⟩

/-- a position of the whole walk: the prefix it belongs to, the position inside that prefix's walk, and
    what follows -/
theorem gItems_split (s : State) : ∀ (ps : List Bytes) (j : Nat) (pre : List (Nat × Item)) (x : Nat × Item)
    (post : List (Nat × Item)), gItems s (enumFrom j ps) = pre ++ x :: post →
    ∃ p rest L0 L1, j ≤ x.1 ∧ (enumFrom j ps).drop (x.1 - j) = (x.1, p) :: rest ∧ p ∈ ps ∧
      walkOf s p = L0 ++ x.2 :: L1 ∧ post = L1.map (fun it => (x.1, it)) ++ gItems s rest
  | [], _, pre, x, post, h => by
    simp [enumFrom, gItems] at h
  | p :: ps, j, pre, x, post, h => by
    simp only [enumFrom, gItems] at h
    rcases append_split _ _ pre x post h with ⟨post', e1, e2⟩ | ⟨pre', _, e2⟩
    · obtain ⟨L0, L1', e3, _, e4⟩ := List.map_eq_append_iff.mp e1
      obtain ⟨it, L1, e5, e6, e7⟩ := List.map_eq_cons_iff.mp e4
      have hx1 : x.1 = j := by rw [← e6]
      have hx2 : x.2 = it := by rw [← e6]
      refine ⟨p, enumFrom (j + 1) ps, L0, L1, by omega, ?_, by simp, ?_, ?_⟩
      · rw [hx1]; simp [enumFrom]
      · rw [e3, e5, hx2]
      · rw [e2, ← e7, hx1]
    · obtain ⟨p', rest, L0, L1, g1, g2, g3, g4, g5⟩ := gItems_split s ps (j + 1) pre' x post e2
      refine ⟨p', rest, L0, L1, by omega, ?_, by simp [g3], g4, g5⟩
      have : x.1 - j = (x.1 - (j + 1)) + 1 := by omega
      rw [this, enumFrom, List.drop_succ_cons]; exact g2

/-- the prefixes a loop still has to visit are known and their walks well behaved -/
def PfxOk (s : State) (pfxs : List (Nat × Bytes)) : Prop :=
  ∀ ip ∈ pfxs, ∃ n, s.lruNode (lruIter ip.2) = some n ∧ WalkOk s ip.2 n (walkOf s ip.2)

theorem PfxOk.tail {s : State} {ip : Nat × Bytes} {pfxs : List (Nat × Bytes)} (h : PfxOk s (ip :: pfxs)) :
    PfxOk s pfxs := fun q hq => h q (by simp [hq])

theorem pfxOk_of_allOk {s : State} {ps : List Bytes} (h : AllOk s ps) (j : Nat) : PfxOk s (enumFrom j ps) :=
  fun ip hip => h ip.2 (enumFrom_mem_snd ps j ip hip)

/-- the items behind a resume point: the whole walk for no token, the items behind `x` for the token of `x` -/
def ResumeAt (G : List GX) (tok : Option Bytes) (xs : List GX) : Prop :=
  (tok = none ∧ xs = G) ∨ ∃ pre x, G = pre ++ x :: xs ∧ tok = some (buildToken x.1 x.2.2.2)

theorem gItems_flatMap {γ : Type} (s : State) (f : Item → List γ) : ∀ (ps : List Bytes) (j : Nat),
    (gItems s (enumFrom j ps)).flatMap (fun x => f x.2) = ps.flatMap (fun p => (walkOf s p).flatMap f)
  | [], _ => rfl
  | p :: ps, j => by
    simp only [enumFrom, gItems, List.flatMap_append, List.flatMap_cons, List.flatMap_map]
    rw [gItems_flatMap s f ps (j + 1)]

theorem perm_flatMap_pointwise {α γ : Type} (f g : α → List γ) : ∀ (l : List α),
    (∀ a ∈ l, (f a).Perm (g a)) → (l.flatMap f).Perm (l.flatMap g)
  | [], _ => List.Perm.refl _
  | a :: l, h => by
    rw [List.flatMap_cons, List.flatMap_cons]
    exact List.Perm.append (h a (by simp)) (perm_flatMap_pointwise f g l (fun b hb => h b (by simp [hb])))

theorem filter_flatMap_if {α γ : Type} (q : α → Bool) (f : α → List γ) : ∀ (l : List α),
    (l.filter q).flatMap f = l.flatMap (fun x => if q x then f x else [])
  | [] => rfl
  | a :: l => by
    by_cases h : q a = true
    · simp [h, filter_flatMap_if q f l]
    · simp [h, filter_flatMap_if q f l]

/-- a strictly ascending list is its items not after the pivot followed by its items after the pivot -/
theorem sorted_partition (c : Bytes) : ∀ (L : List Item), SortedItems L →
    L = L.filter (fun it => !lexLt c it.2.1) ++ L.filter (fun it => lexLt c it.2.1)
  | [], _ => rfl
  | x :: L, hs => by
    have hs' : SortedItems L := by
      unfold SortedItems at hs ⊢
      rw [List.map_cons, List.pairwise_cons] at hs; exact hs.2
    by_cases hx : lexLt c x.2.1 = true
    · have hall : ∀ y ∈ L, lexLt c y.2.1 = true := by
        intro y hy
        unfold SortedItems at hs
        rw [List.map_cons, List.pairwise_cons] at hs
        exact lexLt_trans hx (hs.1 _ (List.mem_map.mpr ⟨y, hy, rfl⟩))
      have h1 : (x :: L).filter (fun it => !lexLt c it.2.1) = [] := by
        rw [List.filter_eq_nil_iff]
        intro y hy
        rcases List.mem_cons.mp hy with rfl | hy
        · simp [hx]
        · simp [hall y hy]
      have h2 : (x :: L).filter (fun it => lexLt c it.2.1) = x :: L := by
        rw [List.filter_eq_self]
        intro y hy
        rcases List.mem_cons.mp hy with rfl | hy
        · exact hx
        · exact hall y hy
      rw [h1, h2]; rfl
    · have hx' : lexLt c x.2.1 = false := by simpa using hx
      have ih := sorted_partition c L hs'
      rw [List.filter_cons, List.filter_cons]
      simp only [hx', Bool.not_false, if_true, Bool.false_eq_true, if_false, List.cons_append]
      rw [← ih]

theorem gItems_append (s : State) : ∀ (A B : List (Nat × Bytes)), gItems s (A ++ B) = gItems s A ++ gItems s B
  | [], _ => rfl
  | (i, p) :: A, B => by simp only [List.cons_append, gItems, gItems_append s A B, List.append_assoc]

theorem buildToken_ne_nil (i p : Nat) : (buildToken i p).isEmpty = false := by
  unfold buildToken
  cases natToDec i <;> simp

/-- reading a token the index built -/
theorem token_read (i p : Nat) :
    (match (some (buildToken i p) : Option Bytes) with
      | none => some (0, none)
      | some t => if t.isEmpty then some (0, none) else (parseToken t).map (fun ip => (ip.1, some ip.2)))
      = some (i, some p) := by
  simp only [buildToken_ne_nil, Bool.false_eq_true, if_false, parseToken_buildToken, Option.map]

end Traph

section
open Traph
#print axioms prefix_subtree
#print axioms walkOk_of_shape
#print axioms gItems_split
end

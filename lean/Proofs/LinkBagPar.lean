import Proofs.PageSet
import Proofs.ParentInsert
import Proofs.Windup
/-! Two facts about reachable states needed to read the link lists back as LRUs:
    (1) the ghost tree of a state is unique (`shape_unique`), so invariants proved with separately
        chosen trees can be combined;
    (2) the parent invariant `ParOk` — every block's `parent` field is the node one level up — holds
        after every history of write requests (`parOk_run`), hence `windup_lru(block)` is the LRU of the
        block's entry in every reachable state (`windup_run`). -/
namespace Traph
namespace LinkBag
open State

/-! ### uniqueness of the ghost tree -/

theorem rep_unique {s : State} : ∀ (t t' : T), Rep s t → Rep s t' → t.root = t'.root → t = t'
  | .nil, .nil, _, _, _ => rfl
  | .nil, .node a' l' c' r', _, h', e => by
    simp only [T.root_nil, T.root_node] at e
    exact absurd e.symm h'.1
  | .node a l c r, .nil, h, _, e => by
    simp only [T.root_nil, T.root_node] at e
    exact absurd e h.1
  | .node a l c r, .node a' l' c' r', h, h', e => by
    simp only [T.root_node] at e
    subst e
    obtain ⟨_, ⟨cell, hc, e1, e2, e3⟩, rl, rc, rr⟩ := h
    obtain ⟨_, ⟨cell', hc', e1', e2', e3'⟩, rl', rc', rr'⟩ := h'
    rw [hc] at hc'
    cases hc'
    rw [rep_unique l l' rl rl' (e1.symm.trans e1'), rep_unique c c' rc rc' (e2.symm.trans e2'),
      rep_unique r r' rr rr' (e3.symm.trans e3')]

/-- a state has at most one ghost tree -/
theorem shape_unique {s : State} {t t' : T} (h : Shape s t) (h' : Shape s t') : t = t' :=
  rep_unique t t' h.rep h'.rep (h.root.trans h'.root.symm)

/-! ### the parent invariant along every request -/

/-- shape and parent invariant survive the step (with whatever tree the new state has) -/
def ParKeeps (s s' : State) : Prop :=
  ∀ t, Shape s t → ParOk s t 0 → ∃ t', Shape s' t' ∧ ParOk s' t' 0

theorem ParKeeps.refl (s : State) : ParKeeps s s := fun t h hp => ⟨t, h, hp⟩

theorem ParKeeps.trans {a b c : State} (h1 : ParKeeps a b) (h2 : ParKeeps b c) : ParKeeps a c :=
  fun t h hp => by
    obtain ⟨t1, s1, p1⟩ := h1 t h hp
    exact h2 t1 s1 p1

theorem ParKeeps.fst_of_eq {α : Type} {s : State} {p q : State × α} (h : ParKeeps s p.1) (e : p = q) :
    ParKeeps s q.1 := e ▸ h

theorem parKeeps_of_trie_eq {s s' : State} (e : s'.trie = s.trie) : ParKeeps s s' :=
  fun t h hp => ⟨t, (Keeps.of_trie_eq h e).shape, hp.of_parent_eq (fun a => by unfold State.cell; rw [e])⟩

theorem parKeeps_modCell (s : State) (i : Nat) (f : Cell → Cell)
    (hf : ∀ c, (f c).left = c.left ∧ (f c).right = c.right ∧ (f c).child = c.child ∧
      (f c).chunk = c.chunk ∧ (f c).flags.hasTail = c.flags.hasTail)
    (hpar : ∀ c, (f c).parent = c.parent) : ParKeeps s (s.modCell i f) :=
  fun t h hp => ⟨t, (Traph.noStruct_modCell s i f hf).shape h, hp.modCell i f hpar⟩

theorem parKeeps_foldl_modCell {α : Type} (g : α → Nat) (f : α → Cell → Cell)
    (hf : ∀ a c, ((f a c).left = c.left ∧ (f a c).right = c.right ∧ (f a c).child = c.child ∧
      (f a c).chunk = c.chunk ∧ (f a c).flags.hasTail = c.flags.hasTail))
    (hpar : ∀ a c, (f a c).parent = c.parent) :
    ∀ (l : List α) (s : State), ParKeeps s (l.foldl (fun st a => st.modCell (g a) (f a)) s)
  | [], s => ParKeeps.refl s
  | a :: l, s => by
    rw [List.foldl_cons]
    exact (parKeeps_modCell s (g a) (f a) (hf a) (hpar a)).trans (parKeeps_foldl_modCell g f hf hpar l _)

theorem parKeeps_addLru (s : State) (stems : LRU) (flag : Bool) : ParKeeps s (s.addLru stems flag).1 := by
  by_cases hne : stems = []
  · subst hne; rw [addLru_nil]; exact ParKeeps.refl s
  · intro t h hp
    obtain ⟨t', h', hp', _⟩ := addLru_shape_parOk h hp stems hne flag
    exact ⟨t', h', hp'⟩

theorem parKeeps_addPageTrie (s : State) (stems : LRU) (crawled : Bool) :
    ParKeeps s (s.addPageTrie stems crawled).1 := by
  unfold addPageTrie
  rcases ha : s.addLru stems false with ⟨s1, n, h⟩
  have h1 : ParKeeps s s1 := (parKeeps_addLru s stems false).fst_of_eq ha
  simp only
  split
  · exact h1.trans (parKeeps_modCell _ _ _ (fun _ => ⟨rfl, rfl, rfl, rfl, rfl⟩) (fun _ => rfl))
  · split
    · exact h1.trans (parKeeps_modCell _ _ _ (fun _ => ⟨rfl, rfl, rfl, rfl, rfl⟩) (fun _ => rfl))
    · exact h1

theorem parKeeps_addPrefixesScan : ∀ (ps : List Bytes) (s : State) (valid : List (Bytes × Nat)) (nInv : Nat),
    ParKeeps s (s.addPrefixesScan ps valid nInv).1
  | [], s, valid, nInv => by simp only [addPrefixesScan]; exact ParKeeps.refl s
  | p :: ps, s, valid, nInv => by
    rcases ha : s.addLru (lruIter p) true with ⟨s1, n, h⟩
    have h1 : ParKeeps s s1 := (parKeeps_addLru s (lruIter p) true).fst_of_eq ha
    simp only [addPrefixesScan, ha]
    split
    · exact h1.trans (parKeeps_addPrefixesScan ps s1 _ _)
    · exact h1.trans (parKeeps_addPrefixesScan ps s1 _ _)

theorem parKeeps_addPrefixes (s : State) (prefixes : List Bytes) (best : Bool) :
    ParKeeps s (s.addPrefixes prefixes best).1 := by
  rcases ha : s.addPrefixesScan prefixes [] 0 with ⟨s1, valid, nInv⟩
  have h1 : ParKeeps s s1 := (parKeeps_addPrefixesScan prefixes s [] 0).fst_of_eq ha
  simp only [addPrefixes, ha]
  split
  · exact h1
  · split
    · exact h1
    · exact h1.trans ((parKeeps_of_trie_eq (s := s1) (s' := s1.genId.1) rfl).trans
        (parKeeps_foldl_modCell (fun pn : Bytes × Nat => pn.2) (fun _ c => { c with we := s1.genId.2 })
          (fun _ _ => ⟨rfl, rfl, rfl, rfl, rfl⟩) (fun _ _ => rfl) valid _))

theorem parKeeps_createWebentityAuto (s : State) (pfx : Bytes) :
    ParKeeps s (s.createWebentityAuto pfx).1 := by
  have h := parKeeps_addPrefixes s (lruVariations pfx) true
  unfold createWebentityAuto
  split <;> rename_i heq <;> rw [heq] at h <;> exact h

theorem parKeeps_addPageCore (s : State) (lru : Bytes) (crawled : Bool) :
    ParKeeps s (s.addPageCore lru crawled).1 := by
  rcases ha : s.addPageTrie (lruIter lru) crawled with ⟨s1, n, h⟩
  have h1 : ParKeeps s s1 := (parKeeps_addPageTrie s (lruIter lru) crawled).fst_of_eq ha
  simp only [addPageCore, ha]
  repeat' split
  all_goals first | exact h1 | exact h1.trans (parKeeps_createWebentityAuto s1 _)

theorem parKeeps_addPage (s : State) (lru : Bytes) (crawled : Bool) : ParKeeps s (s.addPage lru crawled).1 := by
  simp only [addPage]
  exact parKeeps_addPageCore s lru crawled

theorem parKeeps_setCrawled (s : State) (n : Nat) :
    ParKeeps s (s.modCell n (fun c => { c with flags := { c.flags with crawled := true } })) :=
  parKeeps_modCell _ _ _ (fun _ => ⟨rfl, rfl, rfl, rfl, rfl⟩) (fun _ => rfl)

theorem parKeeps_addPagesGo (always : Bool) : ∀ (ls : List Bytes) (s : State) (crawled : Bool) (rep : Report),
    ParKeeps s (addPagesGo always s ls crawled rep).1
  | [], s, crawled, rep => by simp only [addPagesGo]; exact ParKeeps.refl s
  | l :: ls, s, crawled, rep => by
    have h := parKeeps_addPageCore s l crawled
    rw [addPagesGo]
    split
    · rename_i s1 _ e heq
      rw [heq] at h; exact h
    · rename_i s1 n r heq
      rw [heq] at h
      simp only at h
      have h2 : ParKeeps s1 (if always = true then s1.modCell n (fun c => { c with flags := { c.flags with crawled := true } }) else s1) := by
        split
        · exact parKeeps_setCrawled s1 n
        · exact ParKeeps.refl s1
      exact h.trans (h2.trans (parKeeps_addPagesGo always ls _ crawled _))

theorem parKeeps_addPages (s : State) (lrus : List Bytes) (crawled : Bool) :
    ParKeeps s (s.addPages lrus crawled).1 := by
  unfold addPages
  exact parKeeps_addPagesGo _ lrus s crawled {}

theorem parKeeps_ensurePageCached (s : State) (acc : LinkAcc) (l : Bytes) (crawled : Bool) :
    ParKeeps s (s.ensurePageCached acc l crawled).1 := by
  have h := parKeeps_addPageCore s l crawled
  unfold ensurePageCached
  split
  · exact ParKeeps.refl s
  · split <;> rename_i heq <;> rw [heq] at h <;> exact h

theorem trie_addStubsGo_eq : ∀ (targets : List Nat) (s : State) (tail : Nat),
    (s.addStubsGo tail targets).1.trie = s.trie
  | [], _, _ => rfl
  | x :: ts, s, tail => by
    simp only [addStubsGo]
    rw [trie_addStubsGo_eq ts]; rfl

theorem parKeeps_addStubs (s : State) (page : Nat) (targets : List Nat) (out : Bool) :
    ParKeeps s (s.addStubs page targets out) := by
  unfold addStubs
  split
  · exact ParKeeps.refl s
  · exact (parKeeps_of_trie_eq (trie_addStubsGo_eq targets s _)).trans
      (parKeeps_modCell _ _ _ (fun c => by cases out <;> exact ⟨rfl, rfl, rfl, rfl, rfl⟩)
        (fun c => by cases out <;> rfl))

theorem parKeeps_flushLists (out : Bool) (pages : List (Bytes × Nat)) :
    ∀ (l : List (Bytes × List Bytes)) (s : State), ParKeeps s (flushLists out pages s l)
  | [], s => by simp only [flushLists]; exact ParKeeps.refl s
  | (p, others) :: rest, s => by
    simp only [flushLists]
    exact (parKeeps_addStubs s _ _ out).trans (parKeeps_flushLists out pages rest _)

theorem parKeeps_addLinksScan : ∀ (links : List (Bytes × Bytes)) (s : State) (acc : LinkAcc),
    ParKeeps s (addLinksScan s links acc).1
  | [], s, acc => by simp only [addLinksScan]; exact ParKeeps.refl s
  | (src, tgt) :: rest, s, acc => by
    have h1 := parKeeps_ensurePageCached s acc src false
    rw [addLinksScan]
    split
    · rename_i heq; rw [heq] at h1; exact h1
    · rename_i s1 acc1 heq
      rw [heq] at h1
      simp only at h1
      have h2 := parKeeps_ensurePageCached s1 acc1 tgt false
      split
      · rename_i heq2; rw [heq2] at h2; exact h1.trans h2
      · rename_i s2 acc2 heq2
        rw [heq2] at h2
        simp only at h2
        exact h1.trans (h2.trans (parKeeps_addLinksScan rest s2 _))

theorem parKeeps_addLinks (s : State) (links : List (Bytes × Bytes)) : ParKeeps s (s.addLinks links).1 := by
  have h := parKeeps_addLinksScan links s {}
  unfold addLinks
  split
  · rename_i heq; rw [heq] at h; exact h
  · rename_i s1 acc heq
    rw [heq] at h
    simp only at h ⊢
    exact h.trans ((parKeeps_flushLists true acc.pages acc.outl s1).trans
      (parKeeps_flushLists false acc.pages acc.inl _))

theorem parKeeps_batchTargets : ∀ (ts : List Bytes) (s : State) (src : Bytes) (acc : LinkAcc) (tb : List Nat),
    ParKeeps s (batchTargets s src ts acc tb).1
  | [], s, src, acc, tb => by simp only [batchTargets]; exact ParKeeps.refl s
  | t :: ts, s, src, acc, tb => by
    have h1 := parKeeps_ensurePageCached s acc t false
    rw [batchTargets]
    split
    · rename_i heq; rw [heq] at h1; exact h1
    · rename_i s1 acc1 heq
      rw [heq] at h1
      simp only at h1
      exact h1.trans (parKeeps_batchTargets ts s1 src _ _)

theorem parKeeps_sourceStep (s : State) (acc : LinkAcc) (src : Bytes) : ParKeeps s (sourceStep s acc src).1 := by
  unfold sourceStep
  split
  · exact parKeeps_ensurePageCached s acc src true
  · split
    · exact parKeeps_setCrawled s _
    · exact ParKeeps.refl s

theorem parKeeps_batchSources : ∀ (data : List (Bytes × List Bytes)) (s : State) (acc : LinkAcc),
    ParKeeps s (batchSources s data acc).1
  | [], s, acc => by simp only [batchSources]; exact ParKeeps.refl s
  | (src, tgts) :: rest, s, acc => by
    have h1 := parKeeps_sourceStep s acc src
    rw [batchSources_cons_ps]
    split
    · rename_i heq; rw [heq] at h1; exact h1
    · rename_i s1 acc1 heq
      rw [heq] at h1
      simp only at h1
      have h2 := parKeeps_batchTargets tgts s1 src acc1 []
      split
      · rename_i heq2; rw [heq2] at h2; exact h1.trans h2
      · rename_i s2 acc2 tb heq2
        rw [heq2] at h2
        simp only at h2
        exact h1.trans (h2.trans ((parKeeps_addStubs s2 _ tb true).trans (parKeeps_batchSources rest _ acc2)))

theorem parKeeps_batch (s : State) (data : List (Bytes × List Bytes)) : ParKeeps s (s.batch data).1 := by
  have h := parKeeps_batchSources data s {}
  unfold batch
  split
  · rename_i heq; rw [heq] at h; exact h
  · rename_i s1 acc heq
    rw [heq] at h
    simp only at h ⊢
    exact h.trans (parKeeps_flushLists false acc.pages acc.inl s1)

theorem parKeeps_addRuleLoop (startBlock : Nat) : ∀ (fuel : Nat) (s : State) (stack : List (Nat × Bytes)) (rep : Report),
    ParKeeps s (addRuleLoop startBlock fuel s stack rep).1
  | 0, s, stack, rep => by simp only [addRuleLoop]; exact ParKeeps.refl s
  | fuel + 1, s, [], rep => by simp only [addRuleLoop]; exact ParKeeps.refl s
  | fuel + 1, s, (b, lru) :: stack, rep => by
    have h1 : ParKeeps s (if (s.cell b).flags.page then
          (match s.addPageCore (lru ++ s.stemAt b) false with
           | (s1, _, .error e) => (s1, Except.error e)
           | (s1, _, .ok r1) => (s1, Except.ok (rep.add r1)))
        else (s, Except.ok rep) : State × Except Err Report).1 := by
      split
      · have := parKeeps_addPageCore s (lru ++ s.stemAt b) false
        split <;> rename_i heq <;> exact this.fst_of_eq heq
      · exact ParKeeps.refl s
    rw [addRuleLoop]
    simp only
    split
    · rename_i heq; exact h1.fst_of_eq heq
    · rename_i s1 rep1 heq
      replace h1 : ParKeeps s s1 := h1.fst_of_eq heq
      exact h1.trans (parKeeps_addRuleLoop startBlock fuel s1 _ _)

theorem parKeeps_setRule (s : State) (n : Nat) (b : Bool) :
    ParKeeps s (s.modCell n (fun c => { c with flags := { c.flags with rule := b } })) :=
  parKeeps_modCell _ _ _ (fun _ => ⟨rfl, rfl, rfl, rfl, rfl⟩) (fun _ => rfl)

theorem parKeeps_addRule (s : State) (anchor : Bytes) (r : Rule) (w : Bool) :
    ParKeeps s (s.addRule anchor r w).1 := by
  have h0 : ParKeeps s { s with rules := dictSet s.rules anchor r } := parKeeps_of_trie_eq rfl
  rcases ha : State.addLru { s with rules := dictSet s.rules anchor r } (lruIter anchor) false with ⟨s1, n, h⟩
  have h1 : ParKeeps { s with rules := dictSet s.rules anchor r } s1 :=
    (parKeeps_addLru { s with rules := dictSet s.rules anchor r } (lruIter anchor) false).fst_of_eq ha
  simp only [addRule, ha]
  split
  · exact h0
  · exact h0.trans (h1.trans ((parKeeps_setRule s1 n true).trans (parKeeps_addRuleLoop n _ _ _ _)))

theorem parKeeps_removeRule (s : State) (anchor : Bytes) : ParKeeps s (s.removeRule anchor).1 := by
  unfold removeRule
  split
  · exact ParKeeps.refl s
  · simp only
    split
    · exact parKeeps_of_trie_eq rfl
    · refine ParKeeps.trans ?_ (parKeeps_setRule _ _ false)
      exact parKeeps_of_trie_eq rfl

theorem parKeeps_createWebentity (s : State) (prefixes : List Bytes) :
    ParKeeps s (s.createWebentity prefixes).1 := by
  have h := parKeeps_addPrefixes s prefixes false
  unfold createWebentity
  split <;> rename_i heq <;> exact h.fst_of_eq heq

theorem parKeeps_deleteWebentity (s : State) (weid : Nat) (prefixes : List Bytes) :
    ParKeeps s (s.deleteWebentity weid prefixes).1 := by
  unfold deleteWebentity
  split
  · exact ParKeeps.refl s
  · exact parKeeps_foldl_modCell (fun pn : Bytes × Nat => pn.2) (fun _ c => { c with we := 0 })
      (fun _ _ => ⟨rfl, rfl, rfl, rfl, rfl⟩) (fun _ _ => rfl) _ s

theorem parKeeps_setWe (s : State) (n v : Nat) : ParKeeps s (s.modCell n (fun c => { c with we := v })) :=
  parKeeps_modCell _ _ _ (fun _ => ⟨rfl, rfl, rfl, rfl, rfl⟩) (fun _ => rfl)

theorem parKeeps_addPrefix (s : State) (pfx : Bytes) (weid : Nat) : ParKeeps s (s.addPrefix pfx weid).1 := by
  rcases ha : s.addLru (lruIter pfx) true with ⟨s1, n, h⟩
  have h1 : ParKeeps s s1 := (parKeeps_addLru s (lruIter pfx) true).fst_of_eq ha
  simp only [addPrefix, ha]
  split
  · exact h1
  · exact h1.trans (parKeeps_setWe s1 n weid)

theorem parKeeps_removePrefix (s : State) (pfx : Bytes) (weid : Option Nat) :
    ParKeeps s (s.removePrefix pfx weid).1 := by
  rcases ha : s.addLru (lruIter pfx) false with ⟨s1, n, h⟩
  have h1 : ParKeeps s s1 := (parKeeps_addLru s (lruIter pfx) false).fst_of_eq ha
  simp only [removePrefix, ha]
  repeat' split
  all_goals first | exact h1 | exact h1.trans (parKeeps_setWe s1 n 0)

theorem parKeeps_movePrefix (s : State) (pfx : Bytes) (target : Nat) (source : Option Nat) :
    ParKeeps s (s.movePrefix pfx target source).1 := by
  have h := parKeeps_removePrefix s pfx source
  unfold movePrefix
  split
  · rename_i heq; exact h.fst_of_eq heq
  · rename_i s1 _ heq
    replace h : ParKeeps s s1 := h.fst_of_eq heq
    exact h.trans (parKeeps_addPrefix s1 pfx target)

theorem parKeeps_installRules : ∀ (rules : List (Bytes × Rule)) (s : State) (w : Bool),
    ParKeeps s (installRules s rules w).1
  | [], s, w => by simp only [installRules]; exact ParKeeps.refl s
  | (a, r) :: rest, s, w => by
    have h := parKeeps_addRule s a r w
    rw [installRules]
    split
    · rename_i heq; exact h.fst_of_eq heq
    · rename_i s1 _ heq
      replace h : ParKeeps s s1 := h.fst_of_eq heq
      exact h.trans (parKeeps_installRules rest s1 w)

/-- every write request but `clear` keeps shape and parent invariant -/
theorem step_parKeeps (s : State) (op : Op) (hop : ∀ d rs, op ≠ .clear d rs) : ParKeeps s (s.step op).1 := by
  cases op with
  | addPage l c => exact parKeeps_addPage s l c
  | addPages ls c => exact parKeeps_addPages s ls c
  | addLinks ls => exact parKeeps_addLinks s ls
  | batch d => exact parKeeps_batch s d
  | create ps => exact parKeeps_createWebentity s ps
  | delete w ps => exact parKeeps_deleteWebentity s w ps
  | addPrefix p w => exact parKeeps_addPrefix s p w
  | removePrefix p w => exact parKeeps_removePrefix s p w
  | movePrefix p t f => exact parKeeps_movePrefix s p t f
  | addRule a r => exact parKeeps_addRule s a r true
  | removeRule a => exact parKeeps_removeRule s a
  | reopen d rs => exact parKeeps_of_trie_eq rfl
  | clear d rs => exact absurd rfl (hop d rs)

theorem run_parKeeps : ∀ (ops : List Op) (s : State), (∀ op ∈ ops, ∀ d rs, op ≠ .clear d rs) →
    ParKeeps s (s.run ops)
  | [], s, _ => ParKeeps.refl s
  | op :: ops, s, hop => by
    rw [run_cons]
    exact (step_parKeeps s op (hop op (by simp))).trans (run_parKeeps ops _ (fun o ho => hop o (by simp [ho])))

/-- MAIN: the parent invariant holds, for the (unique) tree of the state, after every history of write
    requests on a fresh index -/
theorem parOk_run (cfg : Config) (dflt : Rule) (rules : List (Bytes × Rule)) (ops : List Op)
    (hop : ∀ op ∈ ops, ∀ d rs, op ≠ .clear d rs) {t : T}
    (h : Shape ((State.fresh cfg dflt rules []).1.run ops) t) :
    ParOk ((State.fresh cfg dflt rules []).1.run ops) t 0 := by
  have h0 : Shape ({ cfg := cfg, dflt := dflt, log := .linkHdr :: .hdr 0 :: [] } : State) .nil :=
    shape_of_trie_init _ rfl
  have k : ParKeeps ({ cfg := cfg, dflt := dflt, log := .linkHdr :: .hdr 0 :: [] } : State)
      ((State.fresh cfg dflt rules []).1.run ops) :=
    (parKeeps_installRules rules _ true).trans (run_parKeeps ops _ hop)
  obtain ⟨t', h', hp'⟩ := k .nil h0 (parOk_nil _)
  rw [shape_unique h h']
  exact hp'

/-- hence `windup_lru(block)` reads every entry of a reachable state back as its LRU, byte for byte -/
theorem windup_run (cfg : Config) (dflt : Rule) (rules : List (Bytes × Rule)) (ops : List Op)
    (hop : ∀ op ∈ ops, ∀ d rs, op ≠ .clear d rs) {t : T}
    (h : Shape ((State.fresh cfg dflt rules []).1.run ops) t) {p : LRU} {b : Nat}
    (hb : (p, b) ∈ t.entries ((State.fresh cfg dflt rules []).1.run ops) []) :
    ((State.fresh cfg dflt rules []).1.run ops).windup b = p.flatten :=
  windup_eq h (parOk_run cfg dflt rules ops hop h) hb

#print axioms shape_unique
#print axioms parOk_run
#print axioms windup_run

end LinkBag
end Traph

import Proofs.ClearCrash
import Proofs.PtrOkOps
/-! C15, the bridge lemma that needs the model's code: NO CELL WRITE EVER TARGETS BLOCK 0 of the trie store.

    Block 0 of the trie file is the header (`encodeTrieHeader`); `encodeTrie` renders block 0 from `hdrId` and
    the cells from block 1 on. A `Write.trieSet 0 c` would overwrite the header with a cell image, and the
    storage image would no longer be `encodeTrie s`. The model totalises a failed sibling search
    (`findSib … = .corrupt`) to node `0`, so "never block 0" is not syntactic: it needs that the search never
    fails. We prove it from a small pointer invariant of our own, independent of the ghost tree:

    `sb_Fwd s` — every stored `left`/`right`/`child` pointer of block `b` is null or points FORWARD
    (`b < p`) and inside the file (`p < size`). Pointers are only ever set to the index of a freshly
    appended block, so this is preserved by every write; forward pointers make the sibling chain strictly
    increasing, so the fuel `size + 1` is never exhausted and no read falls outside the file.

    `sb_G s` = non-empty trie + `sb_Fwd s` + `sb_NZ s.log` (no `trieSet 0 _` in the ghost log). It holds for
    the fresh index of every configuration and is preserved by EVERY request (`sb_G_step`, no
    well-formedness or discipline hypothesis; `clear` and `reopen` included). -/
namespace Traph
open State

/-- no cell write to block 0 in a write log -/
def sb_NZ (log : List Write) : Prop := ∀ c, Write.trieSet 0 c ∉ log

/-- pointer `p` stored in block `b` of a file of `n` blocks: null, or forward and in range -/
def sb_PtrFwd (b n p : Nat) : Prop := p = 0 ∨ (b < p ∧ p < n)

theorem sb_PtrFwd.mono {b n n' p : Nat} (h : sb_PtrFwd b n p) (hn : n ≤ n') : sb_PtrFwd b n' p :=
  h.imp id (fun ⟨h1, h2⟩ => ⟨h1, Nat.lt_of_lt_of_le h2 hn⟩)

def sb_CellFwd (b n : Nat) (c : Cell) : Prop :=
  sb_PtrFwd b n c.left ∧ sb_PtrFwd b n c.right ∧ sb_PtrFwd b n c.child

theorem sb_CellFwd.mono {b n n' : Nat} {c : Cell} (h : sb_CellFwd b n c) (hn : n ≤ n') : sb_CellFwd b n' c :=
  ⟨h.1.mono hn, h.2.1.mono hn, h.2.2.mono hn⟩

theorem sb_cellFwd_null (b n : Nat) (c : Cell) (h1 : c.left = 0) (h2 : c.right = 0) (h3 : c.child = 0) :
    sb_CellFwd b n c := ⟨Or.inl h1, Or.inl h2, Or.inl h3⟩

def sb_Fwd (s : State) : Prop := ∀ b c, s.trie[b]? = some c → sb_CellFwd b s.trie.size c

structure sb_G (s : State) : Prop where
  pos : 0 < s.trie.size
  fwd : sb_Fwd s
  nz  : sb_NZ s.log

/-! ### primitives -/

theorem sb_G.fst_of_eq {α : Type} {p q : State × α} (h : sb_G p.1) (e : p = q) : sb_G q.1 := e ▸ h

theorem sb_G.of_eq {s s' : State} (h : sb_G s) (ht : s'.trie = s.trie) (hl : s'.log = s.log) : sb_G s' :=
  ⟨by rw [ht]; exact h.pos, by intro b c hc; rw [ht] at hc ⊢; exact h.fwd b c hc, by rw [hl]; exact h.nz⟩

theorem sb_G.appendCell {s : State} (h : sb_G s) (c : Cell) (h1 : c.left = 0) (h2 : c.right = 0)
    (h3 : c.child = 0) : sb_G (s.appendCell c).1 := by
  refine ⟨by simp [State.appendCell], ?_, ?_⟩
  · intro b x hx
    simp only [State.appendCell, Array.getElem?_push, Array.size_push] at hx ⊢
    split at hx
    · cases hx; exact sb_cellFwd_null _ _ _ h1 h2 h3
    · exact (h.fwd b x hx).mono (Nat.le_succ _)
  · intro c' hm
    simp only [State.appendCell, List.mem_cons] at hm
    rcases hm with hm | hm
    · cases hm
    · exact h.nz c' hm

theorem sb_G.appendCells {s : State} (h : sb_G s) (cs : List Cell)
    (hcs : ∀ c ∈ cs, c.left = 0 ∧ c.right = 0 ∧ c.child = 0) : sb_G (s.appendCells cs) := by
  induction cs generalizing s with
  | nil => exact h
  | cons c cs ih =>
    rw [State.appendCells]
    obtain ⟨h1, h2, h3⟩ := hcs c (by simp)
    exact ih (h.appendCell c h1 h2 h3) (fun x hx => hcs x (by simp [hx]))

theorem sb_G.appendStub {s : State} (h : sb_G s) (b : Stub) : sb_G (s.appendStub b).1 := by
  refine ⟨h.pos, h.fwd, ?_⟩
  intro c' hm
  simp only [State.appendStub, List.mem_cons] at hm
  rcases hm with hm | hm
  · cases hm
  · exact h.nz c' hm

theorem sb_G.setHdr {s : State} (h : sb_G s) (id : Nat) : sb_G (s.setHdr id) := by
  refine ⟨h.pos, h.fwd, ?_⟩
  intro c' hm
  simp only [State.setHdr, List.mem_cons] at hm
  rcases hm with hm | hm
  · cases hm
  · exact h.nz c' hm

/-- an in-place rewrite of a block other than block 0 -/
theorem sb_G.modCell {s : State} (h : sb_G s) (i : Nat) (f : Cell → Cell) (hi : i ≠ 0)
    (hf : ∀ c, s.trie[i]? = some c → sb_CellFwd i s.trie.size (f c)) : sb_G (s.modCell i f) := by
  refine ⟨by rw [trie_modCell_size]; exact h.pos, ?_, ?_⟩
  · intro b x hx
    rw [getElem?_modCell] at hx
    rw [trie_modCell_size]
    by_cases hib : i = b
    · subst hib
      rw [if_pos rfl] at hx
      cases hy : s.trie[i]? with
      | none => rw [hy] at hx; cases hx
      | some y =>
        rw [hy] at hx; simp only [Option.map_some] at hx; cases hx
        exact hf y hy
    · rw [if_neg hib] at hx
      exact h.fwd b x hx
  · cases hy : s.trie[i]? with
    | none => rw [log_modCell_none f hy]; exact h.nz
    | some y =>
      rw [log_modCell_some f hy]
      intro c' hm
      simp only [List.mem_cons] at hm
      rcases hm with hm | hm
      · cases hm; exact hi rfl
      · exact h.nz c' hm

/-- … that leaves the three structural pointers alone -/
theorem sb_G.modCell_keep {s : State} (h : sb_G s) (i : Nat) (f : Cell → Cell) (hi : i ≠ 0)
    (hf : ∀ c, (f c).left = c.left ∧ (f c).right = c.right ∧ (f c).child = c.child) :
    sb_G (s.modCell i f) := by
  refine h.modCell i f hi (fun c hc => ?_)
  obtain ⟨e1, e2, e3⟩ := hf c
  obtain ⟨g1, g2, g3⟩ := h.fwd i c hc
  exact ⟨by rw [e1]; exact g1, by rw [e2]; exact g2, by rw [e3]; exact g3⟩

theorem sb_size_modCell_foldl {α : Type} (g : α → Nat) (f : α → Cell → Cell) :
    ∀ (l : List α) (s : State), (l.foldl (fun st a => st.modCell (g a) (f a)) s).trie.size = s.trie.size
  | [], _ => rfl
  | a :: l, s => by rw [List.foldl_cons, sb_size_modCell_foldl g f l, trie_modCell_size]

theorem sb_G.foldl_modCell {α : Type} (g : α → Nat) (f : α → Cell → Cell)
    (hf : ∀ a c, (f a c).left = c.left ∧ (f a c).right = c.right ∧ (f a c).child = c.child) :
    ∀ (l : List α) (s : State), sb_G s → (∀ a ∈ l, g a ≠ 0) →
      sb_G (l.foldl (fun st a => st.modCell (g a) (f a)) s)
  | [], _, h, _ => h
  | a :: l, s, h, hg => by
    rw [List.foldl_cons]
    exact sb_G.foldl_modCell g f hf l _ (h.modCell_keep (g a) (f a) (hg a (by simp)) (hf a))
      (fun x hx => hg x (by simp [hx]))

/-! ### the sibling search never fails and never answers block 0 -/

theorem sb_cell_some {s : State} {n : Nat} (h : (s.cell n).child ≠ 0) : s.trie[n]? = some (s.cell n) := by
  unfold State.cell at h ⊢
  cases hn : s.trie[n]? with
  | none => rw [hn] at h; exact absurd rfl h
  | some c => rfl

/-- pure: every block the search answers is the start block or a non-null pointer -/
theorem sb_findSib_ne_zero (s : State) (stem : Stem) : ∀ (fuel p : Nat), p ≠ 0 →
    (∀ i, s.findSib stem fuel p = .found i → i ≠ 0) ∧
    (∀ q sl, s.findSib stem fuel p = .missing q sl → q ≠ 0) := by
  intro fuel
  induction fuel with
  | zero => intro p _; simp [findSib]
  | succ k ih =>
    intro p hp
    simp only [findSib]
    cases hc : s.trie[p]? with
    | none => simp
    | some c =>
      simp only
      split
      · exact ⟨fun i hi => (by cases hi; exact hp), fun q sl hq => (by cases hq)⟩
      · split
        · split
          · rename_i hne; exact ih c.left hne
          · exact ⟨fun i hi => (by cases hi), fun q sl hq => (by cases hq; exact hp)⟩
        · split
          · rename_i hne; exact ih c.right hne
          · exact ⟨fun i hi => (by cases hi), fun q sl hq => (by cases hq; exact hp)⟩

/-- forward pointers: the search never runs out of fuel and never leaves the file -/
theorem sb_findSib_not_corrupt (s : State) (hf : sb_Fwd s) (stem : Stem) : ∀ (fuel p : Nat),
    p < s.trie.size → s.trie.size - p ≤ fuel → s.findSib stem fuel p ≠ .corrupt := by
  intro fuel
  induction fuel with
  | zero => intro p h1 h2; omega
  | succ k ih =>
    intro p h1 h2
    simp only [findSib]
    have hc : s.trie[p]? = some s.trie[p] := Array.getElem?_eq_getElem h1
    rw [hc]
    simp only
    obtain ⟨g1, g2, _⟩ := hf p _ hc
    split
    · simp
    · split
      · split
        · rename_i hne
          rcases g1 with g1 | ⟨g1, g1'⟩
          · exact absurd g1 hne
          · exact ih _ g1' (by omega)
        · simp
      · split
        · rename_i hne
          rcases g2 with g2 | ⟨g2, g2'⟩
          · exact absurd g2 hne
          · exact ih _ g2' (by omega)
        · simp

/-! ### trie -/

theorem sb_tailCells_null : ∀ (chs : List Bytes), ∀ c ∈ tailCells chs, c.left = 0 ∧ c.right = 0 ∧ c.child = 0
  | [] => by simp [tailCells]
  | [ck] => by
    intro c hc
    simp only [tailCells, List.mem_singleton] at hc
    subst hc; exact ⟨rfl, rfl, rfl⟩
  | ck :: ck' :: rest => by
    intro c hc
    rw [tailCells] at hc
    · simp only [List.mem_cons] at hc
      rcases hc with hc | hc
      · subst hc; exact ⟨rfl, rfl, rfl⟩
      · exact sb_tailCells_null (ck' :: rest) c (by simpa using hc)
    · simp

theorem sb_G.writeNew {s : State} (h : sb_G s) (stem : Bytes) (p : Nat) (c : Bool) :
    sb_G (s.writeNew stem p c).1 := by
  rw [writeNew_fst_ptr]
  refine (h.appendCell _ rfl rfl rfl).appendCells _ ?_
  intro x hx
  unfold tailsOf at hx
  split at hx
  · exact sb_tailCells_null _ x hx
  · cases hx

theorem sb_ensureStem {s : State} (h : sb_G s) (start : Nat) (ex : Bool) (stem : Stem) (hs : start ≠ 0)
    (hlt : ex = true → start < s.trie.size) :
    sb_G (s.ensureStem start ex stem).1 ∧ (s.ensureStem start ex stem).2 ≠ 0 := by
  unfold ensureStem
  split
  · refine ⟨h.writeNew stem 0 false, ?_⟩
    rw [writeNew_idx]; have := h.pos; omega
  · rename_i hex
    have hex' : ex = true := by simpa using hex
    have hnz := sb_findSib_ne_zero s stem (s.trie.size + 1) start hs
    have hnc := sb_findSib_not_corrupt s h.fwd stem (s.trie.size + 1) start (hlt hex') (by omega)
    split
    · rename_i i hf; exact ⟨h, hnz.1 i hf⟩
    · rename_i hf; exact absurd hf hnc
    · rename_i last sl hf
      obtain ⟨c, hc, _⟩ := findSib_missing s stem _ _ _ _ hf
      have hlast : last < s.trie.size := (Array.getElem?_eq_some_iff.mp hc).1
      have hl0 : last ≠ 0 := hnz.2 last sl hf
      have g1 := h.writeNew stem (s.cell last).parent false
      have hsz := size_lt_writeNew s stem (s.cell last).parent false
      refine ⟨g1.modCell last _ hl0 ?_, ?_⟩
      · intro c' hc'
        obtain ⟨f1, f2, f3⟩ := g1.fwd last c' hc'
        have hsib : sb_PtrFwd last (s.writeNew stem (s.cell last).parent false).1.trie.size
            (s.writeNew stem (s.cell last).parent false).2 := by
          right; rw [writeNew_idx]; exact ⟨hlast, hsz⟩
        cases sl
        · exact ⟨hsib, f2, f3⟩
        · exact ⟨f1, f2, hsib⟩
        · exact ⟨f1, hsib, f3⟩
      · show (s.writeNew stem (s.cell last).parent false).2 ≠ 0
        rw [writeNew_idx]; have := h.pos; omega

theorem sb_G.markCanHave {s : State} (h : sb_G s) (n : Nat) (b : Bool) (hn : n ≠ 0) :
    sb_G (s.markCanHave n b) := by
  unfold State.markCanHave; split
  · exact h.modCell_keep n _ hn (fun c => ⟨rfl, rfl, rfl⟩)
  · exact h

theorem sb_size_markCanHave (s : State) (n : Nat) (b : Bool) : (s.markCanHave n b).trie.size = s.trie.size := by
  unfold markCanHave; split
  · exact trie_modCell_size _ _ _
  · rfl

theorem sb_addLruDescend (flag : Bool) : ∀ (stems : List Stem) (s : State) (node : Nat) (ex : Bool)
    (pos : Nat) (h : Hist), sb_G s → node ≠ 0 → (ex = true → node < s.trie.size) →
    sb_G (addLruDescend flag s stems node ex pos h).1 ∧ (addLruDescend flag s stems node ex pos h).2.1 ≠ 0 := by
  intro stems
  induction stems with
  | nil => intro s node ex pos h hg hn _; simp only [addLruDescend]; exact ⟨hg, hn⟩
  | cons stem rest ih =>
    intro s node ex pos h hg hn hlt
    obtain ⟨g1, n1⟩ := sb_ensureStem hg node ex stem hn hlt
    rcases he : s.ensureStem node ex stem with ⟨s1, n⟩
    rw [he] at g1 n1
    simp only at g1 n1
    simp only [addLruDescend, he]
    split
    · rename_i hgo
      have hch : (s1.cell n).child ≠ 0 := by
        simp only [Bool.and_eq_true, decide_eq_true_eq] at hgo; exact hgo.2
      have hsome := sb_cell_some hch
      have hfw := (g1.fwd n _ hsome).2.2
      refine ih _ _ _ _ _ (g1.markCanHave n _ n1) hch (fun _ => ?_)
      rw [sb_size_markCanHave]
      rcases hfw with hfw | hfw
      · exact absurd hfw hch
      · exact hfw.2
    · exact ⟨g1.markCanHave n _ n1, n1⟩

theorem sb_addLruCreate (flag : Bool) : ∀ (stems : List Stem) (s : State) (node : Nat),
    sb_G s → node ≠ 0 → node < s.trie.size →
    sb_G (addLruCreate flag s stems node).1 ∧ (addLruCreate flag s stems node).2 ≠ 0 := by
  intro stems
  induction stems with
  | nil => intro s node hg hn _; simp only [addLruCreate]; exact ⟨hg, hn⟩
  | cons stem rest ih =>
    intro s node hg hn hlt
    simp only [addLruCreate]
    have g1 := hg.writeNew stem node (!rest.isEmpty && flag)
    have hsz := size_lt_writeNew s stem node (!rest.isEmpty && flag)
    have hidx := writeNew_idx s stem node (!rest.isEmpty && flag)
    rcases hw : s.writeNew stem node (!rest.isEmpty && flag) with ⟨s1, ch⟩
    rw [hw] at g1 hsz hidx
    simp only at g1 hsz hidx
    simp only
    have g2 : sb_G (s1.modCell node (fun c => { c with child := ch })) := by
      refine g1.modCell node _ hn (fun c hc => ?_)
      obtain ⟨f1, f2, _⟩ := g1.fwd node c hc
      exact ⟨f1, f2, Or.inr ⟨by show node < ch; omega, by show ch < s1.trie.size; omega⟩⟩
    exact ih _ ch g2 (by have := hg.pos; omega) (by rw [trie_modCell_size]; omega)

/-- `add_lru`: the invariant is kept and the node it answers is never block 0 -/
theorem sb_addLru {s : State} (hg : sb_G s) (stems : LRU) (flag : Bool) :
    sb_G (s.addLru stems flag).1 ∧ (s.addLru stems flag).2.1 ≠ 0 := by
  cases stems with
  | nil => simp only [addLru, addLruDescend, addLruCreate]; exact ⟨hg, by decide⟩
  | cons a r =>
    have hne : a :: r ≠ [] := by simp
    unfold addLru
    obtain ⟨_, hlt, _⟩ := addLruDescend_le flag (a :: r) s 1 (decide (s.trie.size > 1)) 0 {} hg.pos
    obtain ⟨g1, n1⟩ := sb_addLruDescend flag (a :: r) s 1 (decide (s.trie.size > 1)) 0 {} hg (by decide)
      (fun h => by simpa using h)
    rcases hd : addLruDescend flag s (a :: r) 1 (decide (s.trie.size > 1)) 0 {} with ⟨s1, node, rest, h⟩
    rw [hd] at hlt g1 n1
    simp only at hlt g1 n1 ⊢
    exact sb_addLruCreate flag rest s1 node g1 n1 (hlt hne)

theorem sb_addPageTrie {s : State} (hg : sb_G s) (stems : LRU) (crawled : Bool) :
    sb_G (s.addPageTrie stems crawled).1 ∧ (s.addPageTrie stems crawled).2.1 ≠ 0 := by
  unfold addPageTrie
  obtain ⟨g1, n1⟩ := sb_addLru hg stems false
  rcases ha : s.addLru stems false with ⟨s1, n, h⟩
  rw [ha] at g1 n1
  simp only at g1 n1 ⊢
  split
  · exact ⟨g1.modCell_keep n _ n1 (fun c => ⟨rfl, rfl, rfl⟩), n1⟩
  · split
    · exact ⟨g1.modCell_keep n _ n1 (fun c => ⟨rfl, rfl, rfl⟩), n1⟩
    · exact ⟨g1, n1⟩

/-! ### link store -/

theorem sb_addStubsGo : ∀ (targets : List Nat) (s : State) (tail : Nat), sb_G s →
    sb_G (s.addStubsGo tail targets).1
  | [], _, _, hg => by simp only [addStubsGo]; exact hg
  | t :: ts, s, tail, hg => by
    simp only [addStubsGo]
    exact sb_addStubsGo ts _ _ (hg.appendStub _)

theorem sb_addStubs {s : State} (hg : sb_G s) (page : Nat) (targets : List Nat) (out : Bool) (hp : page ≠ 0) :
    sb_G (s.addStubs page targets out) := by
  unfold addStubs
  split
  · exact hg
  · exact (sb_addStubsGo targets s _ hg).modCell_keep page _ hp
      (fun c => by cases out <;> exact ⟨rfl, rfl, rfl⟩)

theorem sb_flushLists (out : Bool) (pages : List (Bytes × Nat)) :
    ∀ (l : List (Bytes × List Bytes)) (s : State), sb_G s →
      (∀ x ∈ l, (dictGet? pages x.1).getD 0 ≠ 0) → sb_G (flushLists out pages s l)
  | [], _, hg, _ => by simp only [flushLists]; exact hg
  | (p, others) :: rest, s, hg, hk => by
    simp only [flushLists]
    exact sb_flushLists out pages rest _ (sb_addStubs hg _ _ out (hk (p, others) (by simp)))
      (fun x hx => hk x (by simp [hx]))

/-! ### dictionaries -/

theorem sb_dictSet_mem {α β : Type} [DecidableEq α] : ∀ (d : List (α × β)) (k : α) (v : β),
    ∀ x ∈ dictSet d k v, x.2 = v ∨ x ∈ d
  | [], k, v => by intro x hx; simp only [dictSet, List.mem_singleton] at hx; subst hx; exact Or.inl rfl
  | (k', v') :: rest, k, v => by
    intro x hx
    simp only [dictSet] at hx
    split at hx
    · simp only [List.mem_cons] at hx
      rcases hx with hx | hx
      · subst hx; exact Or.inl rfl
      · exact Or.inr (by simp [hx])
    · simp only [List.mem_cons] at hx
      rcases hx with hx | hx
      · subst hx; exact Or.inr (by simp)
      · rcases sb_dictSet_mem rest k v x hx with h | h
        · exact Or.inl h
        · exact Or.inr (by simp [h])

theorem sb_multiAdd_keys {α β : Type} [DecidableEq α] : ∀ (d : List (α × List β)) (k : α) (v : β),
    ∀ x ∈ multiAdd d k v, x.1 = k ∨ ∃ y ∈ d, y.1 = x.1
  | [], k, v => by intro x hx; simp only [multiAdd, List.mem_singleton] at hx; subst hx; exact Or.inl rfl
  | (k', vs) :: rest, k, v => by
    intro x hx
    simp only [multiAdd] at hx
    split at hx
    · rename_i hk
      simp only [List.mem_cons] at hx
      rcases hx with hx | hx
      · subst hx; exact Or.inl hk
      · exact Or.inr ⟨x, by simp [hx], rfl⟩
    · simp only [List.mem_cons] at hx
      rcases hx with hx | hx
      · subst hx; exact Or.inr ⟨(k', vs), by simp, rfl⟩
      · rcases sb_multiAdd_keys rest k v x hx with h | ⟨y, hy, e⟩
        · exact Or.inl h
        · exact Or.inr ⟨y, by simp [hy], e⟩

theorem sb_dictGet?_append {α β : Type} [DecidableEq α] (d e : List (α × β)) (k : α)
    (h : dictGet? d k ≠ none) : dictGet? (d ++ e) k ≠ none := by
  unfold dictGet? at h ⊢
  rw [List.find?_append]
  cases hf : d.find? (fun p => p.1 = k) with
  | none => rw [hf] at h; simp at h
  | some p => simp

theorem sb_dictGet?_snoc {α β : Type} [DecidableEq α] (d : List (α × β)) (k : α) (v : β) :
    dictGet? (d ++ [(k, v)]) k ≠ none := by
  unfold dictGet?
  rw [List.find?_append]
  cases hf : d.find? (fun p => p.1 = k) with
  | none => simp
  | some p => simp

theorem sb_getD_ne_zero {pages : List (Bytes × Nat)} (hp : ∀ p ∈ pages, p.2 ≠ 0) {k : Bytes}
    (hk : dictGet? pages k ≠ none) : (dictGet? pages k).getD 0 ≠ 0 := by
  cases hg : dictGet? pages k with
  | none => exact absurd hg hk
  | some v =>
    obtain ⟨p, hpm, rfl⟩ := dictGet?_mem_ptr pages k v hg
    exact hp p hpm

/-! ### webentity edits and page insertion -/

theorem sb_addPrefixesScan : ∀ (ps : List Bytes) (s : State) (valid : List (Bytes × Nat)) (nInv : Nat),
    sb_G s → (∀ x ∈ valid, x.2 ≠ 0) →
    sb_G (s.addPrefixesScan ps valid nInv).1 ∧ ∀ x ∈ (s.addPrefixesScan ps valid nInv).2.1, x.2 ≠ 0
  | [], s, valid, nInv, hg, hv => by simp only [addPrefixesScan]; exact ⟨hg, hv⟩
  | p :: ps, s, valid, nInv, hg, hv => by
    obtain ⟨g1, n1⟩ := sb_addLru hg (lruIter p) true
    rcases ha : s.addLru (lruIter p) true with ⟨s1, n, h⟩
    rw [ha] at g1 n1
    simp only at g1 n1
    simp only [addPrefixesScan, ha]
    split
    · exact sb_addPrefixesScan ps s1 _ _ g1 hv
    · refine sb_addPrefixesScan ps s1 _ _ g1 (fun x hx => ?_)
      rcases sb_dictSet_mem valid p n x hx with h | h
      · rw [h]; exact n1
      · exact hv x h

theorem sb_addPrefixes {s : State} (hg : sb_G s) (prefixes : List Bytes) (best : Bool) :
    sb_G (s.addPrefixes prefixes best).1 := by
  obtain ⟨g1, hv⟩ := sb_addPrefixesScan prefixes s [] 0 hg (by simp)
  rcases ha : s.addPrefixesScan prefixes [] 0 with ⟨s1, valid, nInv⟩
  rw [ha] at g1 hv
  simp only at g1 hv
  simp only [addPrefixes, ha]
  split
  · exact g1
  · split
    · exact g1
    · exact sb_G.foldl_modCell (fun pn : Bytes × Nat => pn.2) (fun _ c => { c with we := s1.genId.2 })
        (fun _ _ => ⟨rfl, rfl, rfl⟩) valid _ (g1.setHdr _) hv

theorem sb_createWebentityAuto {s : State} (hg : sb_G s) (pfx : Bytes) :
    sb_G (s.createWebentityAuto pfx).1 := by
  have ht := sb_addPrefixes hg (lruVariations pfx) true
  unfold createWebentityAuto
  split <;> rename_i heq <;> rw [heq] at ht <;> exact ht

theorem sb_addPageCore {s : State} (hg : sb_G s) (lru : Bytes) (crawled : Bool) :
    sb_G (s.addPageCore lru crawled).1 ∧ (s.addPageCore lru crawled).2.1 ≠ 0 := by
  obtain ⟨g1, n1⟩ := sb_addPageTrie hg (lruIter lru) crawled
  rcases ha : s.addPageTrie (lruIter lru) crawled with ⟨s1, n, h⟩
  rw [ha] at g1 n1
  simp only at g1 n1
  simp only [addPageCore, ha]
  repeat' split
  all_goals first | exact ⟨g1, n1⟩ | exact ⟨sb_createWebentityAuto g1 _, n1⟩

theorem sb_addPagesGo (always : Bool) : ∀ (ls : List Bytes) (s : State) (crawled : Bool) (rep : Report),
    sb_G s → sb_G (addPagesGo always s ls crawled rep).1
  | [], s, crawled, rep, hg => by simp only [addPagesGo]; exact hg
  | l :: ls, s, crawled, rep, hg => by
    obtain ⟨g1, n1⟩ := sb_addPageCore hg l crawled
    rw [addPagesGo]
    split
    · rename_i s1 _ e heq
      rw [heq] at g1; exact g1
    · rename_i s1 n r heq
      rw [heq] at g1 n1
      simp only at g1 n1
      refine sb_addPagesGo always ls _ crawled _ ?_
      split
      · exact g1.modCell_keep n _ n1 (fun c => ⟨rfl, rfl, rfl⟩)
      · exact g1

/-! ### link requests: the page cache never holds block 0 and holds every key of the pending lists -/

structure sb_AccOk (acc : LinkAcc) : Prop where
  pages : ∀ p ∈ acc.pages, p.2 ≠ 0
  outl  : ∀ x ∈ acc.outl, dictGet? acc.pages x.1 ≠ none
  inl   : ∀ x ∈ acc.inl, dictGet? acc.pages x.1 ≠ none

theorem sb_accOk_empty : sb_AccOk {} := ⟨by simp, by simp, by simp⟩

theorem sb_ensurePageCached {s : State} (hg : sb_G s) (acc : LinkAcc) (ha : sb_AccOk acc) (l : Bytes)
    (crawled : Bool) :
    sb_G (s.ensurePageCached acc l crawled).1 ∧
    ∀ acc', (s.ensurePageCached acc l crawled).2 = .ok acc' →
      sb_AccOk acc' ∧ dictGet? acc'.pages l ≠ none ∧
      (∀ k, dictGet? acc.pages k ≠ none → dictGet? acc'.pages k ≠ none) ∧
      acc'.outl = acc.outl ∧ acc'.inl = acc.inl := by
  obtain ⟨g1, n1⟩ := sb_addPageCore hg l crawled
  unfold ensurePageCached
  split
  · rename_i v hv
    refine ⟨hg, fun acc' h => ?_⟩
    cases h
    exact ⟨ha, by rw [hv]; simp, fun _ h => h, rfl, rfl⟩
  · split
    · rename_i heq; rw [heq] at g1
      exact ⟨g1, fun acc' h => by cases h⟩
    · rename_i s1 n r heq
      rw [heq] at g1 n1
      simp only at g1 n1
      refine ⟨g1, fun acc' h => ?_⟩
      simp only [Except.ok.injEq] at h
      subst h
      refine ⟨⟨?_, ?_, ?_⟩, sb_dictGet?_snoc _ _ _, fun k hk => sb_dictGet?_append _ _ k hk, rfl, rfl⟩
      · intro p hp
        simp only [List.mem_append, List.mem_singleton] at hp
        rcases hp with hp | rfl
        · exact ha.pages p hp
        · exact n1
      · intro x hx; exact sb_dictGet?_append _ _ _ (ha.outl x hx)
      · intro x hx; exact sb_dictGet?_append _ _ _ (ha.inl x hx)

theorem sb_multiAdd_ok {pages : List (Bytes × Nat)} {d : List (Bytes × List Bytes)}
    (hd : ∀ x ∈ d, dictGet? pages x.1 ≠ none) {k : Bytes} (hk : dictGet? pages k ≠ none) (v : Bytes) :
    ∀ x ∈ multiAdd d k v, dictGet? pages x.1 ≠ none := by
  intro x hx
  rcases sb_multiAdd_keys d k v x hx with h | ⟨y, hy, e⟩
  · rw [h]; exact hk
  · rw [← e]; exact hd y hy

theorem sb_addLinksScan : ∀ (links : List (Bytes × Bytes)) (s : State) (acc : LinkAcc),
    sb_G s → sb_AccOk acc →
    sb_G (addLinksScan s links acc).1 ∧ ∀ acc', (addLinksScan s links acc).2 = .ok acc' → sb_AccOk acc'
  | [], s, acc, hg, ha => by
    simp only [addLinksScan]; exact ⟨hg, fun acc' h => by cases h; exact ha⟩
  | (src, tgt) :: rest, s, acc, hg, ha => by
    obtain ⟨g1, a1⟩ := sb_ensurePageCached hg acc ha src false
    rw [addLinksScan]
    split
    · rename_i heq; rw [heq] at g1; exact ⟨g1, fun acc' h => by cases h⟩
    · rename_i s1 acc1 heq
      rw [heq] at g1 a1
      simp only at g1 a1
      obtain ⟨ok1, hsrc, _, eo1, ei1⟩ := a1 acc1 rfl
      obtain ⟨g2, a2⟩ := sb_ensurePageCached g1 acc1 ok1 tgt false
      split
      · rename_i heq2; rw [heq2] at g2; exact ⟨g2, fun acc' h => by cases h⟩
      · rename_i s2 acc2 heq2
        rw [heq2] at g2 a2
        simp only at g2 a2
        obtain ⟨ok2, htgt, mono2, eo2, ei2⟩ := a2 acc2 rfl
        refine sb_addLinksScan rest s2 _ g2 ⟨ok2.pages, ?_, ?_⟩
        · exact sb_multiAdd_ok ok2.outl (mono2 src hsrc) tgt
        · exact sb_multiAdd_ok ok2.inl htgt src

theorem sb_flush_keys {acc : LinkAcc} (ha : sb_AccOk acc) :
    (∀ x ∈ acc.outl, (dictGet? acc.pages x.1).getD 0 ≠ 0) ∧
    (∀ x ∈ acc.inl, (dictGet? acc.pages x.1).getD 0 ≠ 0) :=
  ⟨fun x hx => sb_getD_ne_zero ha.pages (ha.outl x hx), fun x hx => sb_getD_ne_zero ha.pages (ha.inl x hx)⟩

theorem sb_addLinks {s : State} (hg : sb_G s) (links : List (Bytes × Bytes)) : sb_G (s.addLinks links).1 := by
  obtain ⟨g1, a1⟩ := sb_addLinksScan links s {} hg sb_accOk_empty
  unfold addLinks
  split
  · rename_i heq; rw [heq] at g1; exact g1
  · rename_i s1 acc heq
    rw [heq] at g1 a1
    simp only at g1 a1 ⊢
    have ok := a1 acc rfl
    exact sb_flushLists false acc.pages acc.inl _
      (sb_flushLists true acc.pages acc.outl s1 g1 (sb_flush_keys ok).1) (sb_flush_keys ok).2

theorem sb_batchTargets : ∀ (ts : List Bytes) (s : State) (src : Bytes) (acc : LinkAcc) (tb : List Nat),
    sb_G s → sb_AccOk acc →
    sb_G (batchTargets s src ts acc tb).1 ∧
    ∀ acc' tb', (batchTargets s src ts acc tb).2 = .ok (acc', tb') →
      sb_AccOk acc' ∧ (∀ k, dictGet? acc.pages k ≠ none → dictGet? acc'.pages k ≠ none)
  | [], s, src, acc, tb, hg, ha => by
    simp only [batchTargets]; exact ⟨hg, fun acc' tb' h => by cases h; exact ⟨ha, fun _ h => h⟩⟩
  | t :: ts, s, src, acc, tb, hg, ha => by
    obtain ⟨g1, a1⟩ := sb_ensurePageCached hg acc ha t false
    rw [batchTargets]
    split
    · rename_i heq; rw [heq] at g1; exact ⟨g1, fun acc' tb' h => by cases h⟩
    · rename_i s1 acc1 heq
      rw [heq] at g1 a1
      simp only at g1 a1
      obtain ⟨ok1, ht, mono1, _, _⟩ := a1 acc1 rfl
      obtain ⟨g2, a2⟩ := sb_batchTargets ts s1 src { acc1 with inl := multiAdd acc1.inl t src }
        (tb ++ [(dictGet? acc1.pages t).getD 0]) g1 ⟨ok1.pages, ok1.outl, sb_multiAdd_ok ok1.inl ht src⟩
      refine ⟨g2, fun acc' tb' h => ?_⟩
      obtain ⟨ok2, mono2⟩ := a2 acc' tb' h
      exact ⟨ok2, fun k hk => mono2 k (mono1 k hk)⟩

theorem sb_batchSources : ∀ (data : List (Bytes × List Bytes)) (s : State) (acc : LinkAcc),
    sb_G s → sb_AccOk acc →
    sb_G (batchSources s data acc).1 ∧ ∀ acc', (batchSources s data acc).2 = .ok acc' → sb_AccOk acc'
  | [], s, acc, hg, ha => by
    simp only [batchSources]; exact ⟨hg, fun acc' h => by cases h; exact ha⟩
  | (src, tgts) :: rest, s, acc, hg, ha => by
    have h1 : ∀ r1, (match dictGet? acc.pages src with
        | none => s.ensurePageCached acc src true
        | some n =>
          if !(s.cell n).flags.crawled then
            (s.modCell n (fun c => { c with flags := { c.flags with crawled := true } }), Except.ok acc)
          else (s, Except.ok acc)) = r1 →
        sb_G r1.1 ∧ ∀ acc1, r1.2 = .ok acc1 → sb_AccOk acc1 ∧ dictGet? acc1.pages src ≠ none := by
      intro r1 hr1
      split at hr1
      · subst hr1
        obtain ⟨g1, a1⟩ := sb_ensurePageCached hg acc ha src true
        exact ⟨g1, fun acc1 h => ⟨(a1 acc1 h).1, (a1 acc1 h).2.1⟩⟩
      · rename_i n hn
        have hn0 : n ≠ 0 := by
          obtain ⟨p, hp, rfl⟩ := dictGet?_mem_ptr acc.pages src n hn
          exact ha.pages p hp
        split at hr1
        · subst hr1
          exact ⟨hg.modCell_keep n _ hn0 (fun c => ⟨rfl, rfl, rfl⟩),
            fun acc1 h => by cases h; exact ⟨ha, by rw [hn]; simp⟩⟩
        · subst hr1
          exact ⟨hg, fun acc1 h => by cases h; exact ⟨ha, by rw [hn]; simp⟩⟩
    rw [batchSources]
    simp only
    split
    · rename_i s1 e heq
      exact ⟨(h1 _ heq).1, fun acc' h => by cases h⟩
    · rename_i s1 acc1 heq
      obtain ⟨g1, a1⟩ := h1 _ heq
      obtain ⟨ok1, hsrc⟩ := a1 acc1 rfl
      obtain ⟨g2, a2⟩ := sb_batchTargets tgts s1 src acc1 [] g1 ok1
      split
      · rename_i heq2; rw [heq2] at g2; exact ⟨g2, fun acc' h => by cases h⟩
      · rename_i s2 acc2 tb heq2
        rw [heq2] at g2 a2
        simp only at g2 a2
        obtain ⟨ok2, mono2⟩ := a2 acc2 tb rfl
        exact sb_batchSources rest _ acc2
          (sb_addStubs g2 _ tb true (sb_getD_ne_zero ok2.pages (mono2 src hsrc))) ok2

theorem sb_batch {s : State} (hg : sb_G s) (data : List (Bytes × List Bytes)) : sb_G (s.batch data).1 := by
  obtain ⟨g1, a1⟩ := sb_batchSources data s {} hg sb_accOk_empty
  unfold batch
  split
  · rename_i heq; rw [heq] at g1; exact g1
  · rename_i s1 acc heq
    rw [heq] at g1 a1
    simp only at g1 a1 ⊢
    exact sb_flushLists false acc.pages acc.inl s1 g1 (sb_flush_keys (a1 acc rfl)).2

/-! ### creation rules -/

theorem sb_addRuleLoop (startBlock : Nat) : ∀ (fuel : Nat) (s : State) (stack : List (Nat × Bytes)) (rep : Report),
    sb_G s → sb_G (addRuleLoop startBlock fuel s stack rep).1
  | 0, s, stack, rep, hg => by simp only [addRuleLoop]; exact hg
  | fuel + 1, s, [], rep, hg => by simp only [addRuleLoop]; exact hg
  | fuel + 1, s, (b, lru) :: stack, rep, hg => by
    have ht1 : sb_G (if (s.cell b).flags.page then
          (match s.addPageCore (lru ++ s.stemAt b) false with
           | (s1, _, .error e) => (s1, Except.error e)
           | (s1, _, .ok r1) => (s1, Except.ok (rep.add r1)))
        else (s, Except.ok rep) : State × Except Err Report).1 := by
      split
      · have := (sb_addPageCore hg (lru ++ s.stemAt b) false).1
        split <;> rename_i heq <;> rw [heq] at this <;> exact this
      · exact hg
    rw [addRuleLoop]
    simp only
    split
    · rename_i heq; exact ht1.fst_of_eq heq
    · rename_i s1 rep1 heq
      exact sb_addRuleLoop startBlock fuel s1 _ _ (ht1.fst_of_eq heq)

theorem sb_addRule {s : State} (hg : sb_G s) (anchor : Bytes) (r : Rule) (w : Bool) :
    sb_G (s.addRule anchor r w).1 := by
  have g0 : sb_G ({ s with rules := dictSet s.rules anchor r } : State) := hg.of_eq rfl rfl
  obtain ⟨g1, n1⟩ := sb_addLru g0 (lruIter anchor) false
  rcases ha : State.addLru { s with rules := dictSet s.rules anchor r } (lruIter anchor) false with ⟨s1, n, h⟩
  rw [ha] at g1 n1
  simp only at g1 n1
  simp only [addRule, ha]
  split
  · exact g0
  · exact sb_addRuleLoop n _ _ _ _ (g1.modCell_keep n _ n1 (fun c => ⟨rfl, rfl, rfl⟩))

/-- pure: `lru_node` never answers block 0 -/
theorem sb_lruNodeGo_ne_zero (s : State) : ∀ (stems : List Stem) (node n : Nat), node ≠ 0 →
    s.lruNodeGo stems node = some n → n ≠ 0
  | [], node, n, hn, h => by simp only [lruNodeGo, Option.some.injEq] at h; subst h; exact hn
  | stem :: rest, node, n, hn, h => by
    simp only [lruNodeGo] at h
    split at h
    · rename_i i hf
      have hi : i ≠ 0 := (sb_findSib_ne_zero s stem _ node hn).1 i hf
      split at h
      · cases h; exact hi
      · split at h
        · cases h
        · rename_i hc
          exact sb_lruNodeGo_ne_zero s rest _ n hc h
    · cases h

theorem sb_lruNode_ne_zero (s : State) (stems : LRU) (n : Nat) (h : s.lruNode stems = some n) : n ≠ 0 := by
  unfold lruNode at h
  split at h
  · cases h
  · exact sb_lruNodeGo_ne_zero s stems 1 n (by decide) h

theorem sb_removeRule {s : State} (hg : sb_G s) (anchor : Bytes) : sb_G (s.removeRule anchor).1 := by
  unfold removeRule
  split
  · exact hg
  · simp only
    split
    · exact hg.of_eq rfl rfl
    · rename_i n hn
      have g0 : sb_G ({ s with rules := s.rules.filter (fun p => p.1 ≠ anchor) } : State) := hg.of_eq rfl rfl
      exact g0.modCell_keep n _ (sb_lruNode_ne_zero _ _ n hn) (fun c => ⟨rfl, rfl, rfl⟩)

/-! ### webentities -/

theorem sb_createWebentity {s : State} (hg : sb_G s) (prefixes : List Bytes) :
    sb_G (s.createWebentity prefixes).1 := by
  have ht := sb_addPrefixes hg prefixes false
  unfold createWebentity
  split <;> rename_i heq <;> rw [heq] at ht <;> exact ht

theorem sb_deleteScanChecked (s : State) (weid : Nat) : ∀ (ps : List Bytes) (idx idx' : List (Bytes × Nat)),
    (∀ x ∈ idx, x.2 ≠ 0) → s.deleteScanChecked weid ps idx = .ok idx' → ∀ x ∈ idx', x.2 ≠ 0
  | [], idx, idx', hi, h => by simp only [deleteScanChecked, Except.ok.injEq] at h; subst h; exact hi
  | p :: ps, idx, idx', hi, h => by
    simp only [deleteScanChecked] at h
    split at h
    · cases h
    · rename_i n hn
      split at h
      · cases h
      · refine sb_deleteScanChecked s weid ps _ idx' (fun x hx => ?_) h
        rcases sb_dictSet_mem idx p n x hx with e | e
        · rw [e]; exact sb_lruNode_ne_zero _ _ n hn
        · exact hi x e

theorem sb_deleteWebentity {s : State} (hg : sb_G s) (weid : Nat) (prefixes : List Bytes) :
    sb_G (s.deleteWebentity weid prefixes).1 := by
  unfold deleteWebentity
  split
  · exact hg
  · rename_i idx hidx
    exact sb_G.foldl_modCell (fun pn : Bytes × Nat => pn.2) (fun _ c => { c with we := 0 })
      (fun _ _ => ⟨rfl, rfl, rfl⟩) idx s hg (sb_deleteScanChecked s weid prefixes [] idx (by simp) hidx)

theorem sb_addPrefix {s : State} (hg : sb_G s) (pfx : Bytes) (weid : Nat) : sb_G (s.addPrefix pfx weid).1 := by
  obtain ⟨g1, n1⟩ := sb_addLru hg (lruIter pfx) true
  rcases ha : s.addLru (lruIter pfx) true with ⟨s1, n, h⟩
  rw [ha] at g1 n1
  simp only at g1 n1
  simp only [addPrefix, ha]
  split
  · exact g1
  · exact g1.modCell_keep n _ n1 (fun c => ⟨rfl, rfl, rfl⟩)

theorem sb_removePrefix {s : State} (hg : sb_G s) (pfx : Bytes) (weid : Option Nat) :
    sb_G (s.removePrefix pfx weid).1 := by
  obtain ⟨g1, n1⟩ := sb_addLru hg (lruIter pfx) false
  rcases ha : s.addLru (lruIter pfx) false with ⟨s1, n, h⟩
  rw [ha] at g1 n1
  simp only at g1 n1
  simp only [removePrefix, ha]
  repeat' split
  all_goals first | exact g1 | exact g1.modCell_keep n _ n1 (fun c => ⟨rfl, rfl, rfl⟩)

theorem sb_movePrefix {s : State} (hg : sb_G s) (pfx : Bytes) (target : Nat) (source : Option Nat) :
    sb_G (s.movePrefix pfx target source).1 := by
  have ht := sb_removePrefix hg pfx source
  unfold movePrefix
  split
  · rename_i heq; rw [heq] at ht; exact ht
  · rename_i s1 _ heq
    rw [heq] at ht
    exact sb_addPrefix ht pfx target

theorem sb_installRules : ∀ (rules : List (Bytes × Rule)) (s : State) (w : Bool),
    sb_G s → sb_G (installRules s rules w).1
  | [], s, w, hg => by simp only [installRules]; exact hg
  | (a, r) :: rest, s, w, hg => by
    have ht := sb_addRule hg a r w
    rw [installRules]
    split
    · rename_i heq; rw [heq] at ht; exact ht
    · rename_i s1 _ heq
      rw [heq] at ht
      exact sb_installRules rest s1 w ht

/-! ### the constructor, `clear`, every request, every history -/

/-- the index that has just its two header blocks, on top of any older log without block-0 cell writes -/
theorem sb_G_base (cfg : Config) (dflt : Rule) (rules : List (Bytes × Rule)) (log : List Write) (h : sb_NZ log) :
    sb_G ({ cfg := cfg, dflt := dflt, rules := rules, log := .linkHdr :: .hdr 0 :: log } : State) := by
  refine ⟨Nat.zero_lt_one, ?_, ?_⟩
  · intro b c hc
    have hb : b = 0 := by
      have := (Array.getElem?_eq_some_iff.mp hc).1
      simp at this; exact this
    subst hb
    have : c = {} := by simpa using hc.symm
    subst this
    exact sb_cellFwd_null _ _ _ rfl rfl rfl
  · intro c' hm
    simp only [List.mem_cons] at hm
    rcases hm with hm | hm | hm
    · cases hm
    · cases hm
    · exact h c' hm

theorem sb_G_fresh (cfg : Config) (dflt : Rule) (rules : List (Bytes × Rule)) (log : List Write) (h : sb_NZ log) :
    sb_G (State.fresh cfg dflt rules log).1 := by
  unfold fresh
  exact sb_installRules rules _ true (sb_G_base cfg dflt [] log h)

theorem sb_G_clear {s : State} (hg : sb_G s) (d : Option Rule) (rs : Option (List (Bytes × Rule))) :
    sb_G (s.clear d rs).1 := by
  unfold clear
  split
  · exact sb_G_base _ _ _ _ hg.nz
  · exact sb_installRules _ _ true (sb_G_base _ _ _ _ hg.nz)

/-- EVERY request keeps the invariant — no hypothesis on the request -/
theorem sb_G_step {s : State} (hg : sb_G s) (op : Op) : sb_G (s.step op).1 := by
  cases op with
  | addPage l c => exact (sb_addPageCore hg l c).1
  | addPages ls c => exact sb_addPagesGo _ ls s c {} hg
  | addLinks ls => exact sb_addLinks hg ls
  | batch d => exact sb_batch hg d
  | create ps => exact sb_createWebentity hg ps
  | delete w ps => exact sb_deleteWebentity hg w ps
  | addPrefix p w => exact sb_addPrefix hg p w
  | removePrefix p w => exact sb_removePrefix hg p w
  | movePrefix p t f => exact sb_movePrefix hg p t f
  | addRule a r => exact sb_addRule hg a r true
  | removeRule a => exact sb_removeRule hg a
  | reopen d rs => exact hg.of_eq rfl rfl
  | clear d rs => exact sb_G_clear hg d rs

theorem sb_G_run : ∀ (ops : List Op) (s : State), sb_G s → sb_G (s.run ops)
  | [], _, hg => hg
  | op :: ops, _, hg => sb_G_run ops _ (sb_G_step hg op)

/-- **no cell write to block 0, ever**: the ghost log of every history on a fresh index (any configuration,
    any constructor rules, any requests — `clear`, `reopen`, malformed arguments included) has no `trieSet 0` -/
theorem sb_history_nz (cfg : Config) (dflt : Rule) (rules : List (Bytes × Rule)) (ops : List Op) :
    sb_NZ ((State.fresh cfg dflt rules []).1.run ops).log :=
  (sb_G_run ops _ (sb_G_fresh cfg dflt rules [] (by intro c h; cases h))).nz

/-- WITNESS that "never block 0" is not a syntactic property of the code: in a corrupt (unreachable) state with a
    sibling cycle — block 1 is its own left sibling, which `sb_Fwd` excludes — the sibling search of `add_page`
    runs out of fuel, the model answers node 0, and the request then rewrites block 0 (the header block) -/
def sb_badState : State := { trie := #[{}, { chunk := [115, 58, 122, 124], left := 1 }] }

theorem sb_badState_writes_block0 :
    (sb_badState.addPage [115, 58, 97, 124] true).1.log.any
      (fun w => match w with | .trieSet 0 _ => true | _ => false) = true := by decide

theorem sb_badState_not_fwd : ¬ sb_Fwd sb_badState := by
  intro h
  have := (h 1 { chunk := [115, 58, 122, 124], left := 1 } rfl).1
  rcases this with h0 | ⟨h1, _⟩
  · cases h0
  · exact Nat.lt_irrefl _ h1

#print axioms sb_G_step
#print axioms sb_history_nz

end Traph

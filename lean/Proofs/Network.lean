import Proofs.NetworkSlow
/-! C07, the webentity network read back. With `Proofs/NetworkSlow.lean` both variants are one fold of the
    same link events; here the events are summed (`esum_netEvents`: block level, over the bags of
    `Proofs/LinkBag.lean`), the block-level sum is pushed through `Graph` to the list `L` of submitted
    links (`blockW_eq`), the first pass is read (`netTally`: rows and page tallies), and everything is
    assembled into the statements about `State.network` / `State.networkSlow` for a state satisfying
    `LinkView s t L`. `Proofs/NetworkRun.lean` lifts them to every reachable state. -/
namespace Traph
open State

/-! ### small list facts -/

theorem sum_map_ite_filter {α : Type} (c : Prop) [Decidable c] (q : α → Bool) (f : α → Nat) : ∀ (D : List α),
    (D.map (fun x => if c ∧ q x = true then f x else 0)).sum = if c then ((D.filter q).map f).sum else 0
  | [] => by simp
  | x :: D => by
    rw [List.map_cons, List.sum_cons, sum_map_ite_filter c q f D]
    by_cases hc : c
    · simp only [hc, true_and, if_true]
      by_cases hq : q x = true
      · rw [if_pos hq, List.filter_cons_of_pos hq]; simp
      · rw [if_neg hq, List.filter_cons_of_neg hq]; simp
    · simp [hc]

theorem sum_map_indicator {α : Type} (q : α → Bool) : ∀ (D : List α),
    (D.map (fun x => if q x = true then 1 else 0)).sum = (D.filter q).length
  | [] => rfl
  | x :: D => by
    rw [List.map_cons, List.sum_cons, sum_map_indicator q D]
    by_cases hq : q x = true
    · rw [if_pos hq, List.filter_cons_of_pos hq, List.length_cons]; omega
    · rw [if_neg hq, List.filter_cons_of_neg hq]; omega

theorem length_filter_or_disjoint {α : Type} (p q : α → Bool) (hd : ∀ x, ¬ (p x = true ∧ q x = true)) :
    ∀ (l : List α), (l.filter (fun x => p x || q x)).length = (l.filter p).length + (l.filter q).length
  | [] => rfl
  | x :: l => by
    have ih := length_filter_or_disjoint p q hd l
    cases hp : p x <;> cases hq : q x
    · rw [List.filter_cons_of_neg (by simp [hp, hq]), List.filter_cons_of_neg (by simp [hp]),
        List.filter_cons_of_neg (by simp [hq])]; exact ih
    · rw [List.filter_cons_of_pos (by simp [hp, hq]), List.filter_cons_of_neg (by simp [hp]),
        List.filter_cons_of_pos (by simp [hq])]; simp only [List.length_cons]; omega
    · rw [List.filter_cons_of_pos (by simp [hp, hq]), List.filter_cons_of_pos (by simp [hp]),
        List.filter_cons_of_neg (by simp [hq])]; simp only [List.length_cons]; omega
    · exact absurd ⟨hp, hq⟩ (hd x)

/-- summing, over distinct keys, the number of items carrying the key = counting the items whose key is listed -/
theorem sum_filter_by_key {β : Type} (f : β → Nat) (Q : β → Bool) (L : List β) : ∀ (K : List Nat), K.Nodup →
    (K.map (fun k => (L.filter (fun x => decide (f x = k) && Q x)).length)).sum =
      (L.filter (fun x => decide (f x ∈ K) && Q x)).length
  | [], _ => by simp; exact (lbFilter_false_length L).symm
  | k :: K, hnd => by
    rw [List.nodup_cons] at hnd
    rw [List.map_cons, List.sum_cons, sum_filter_by_key f Q L K hnd.2,
      ← length_filter_or_disjoint _ _ (by
        intro x ⟨h1, h2⟩
        simp only [Bool.and_eq_true, decide_eq_true_eq] at h1 h2
        exact hnd.1 (h1.1 ▸ h2.1))]
    congr 1
    apply List.filter_congr
    intro x _
    rw [Bool.eq_iff_iff]
    simp only [Bool.or_eq_true, Bool.and_eq_true, decide_eq_true_eq, List.mem_cons]
    constructor
    · rintro (⟨h1, h2⟩ | ⟨h1, h2⟩)
      · exact ⟨Or.inl h1, h2⟩
      · exact ⟨Or.inr h1, h2⟩
    · rintro ⟨h1 | h1, h2⟩
      · exact Or.inl ⟨h1, h2⟩
      · exact Or.inr ⟨h1, h2⟩

theorem wsumP_cons (P : Nat → Bool) (tw : Nat × Nat) (W : List (Nat × Nat)) :
    wsumP P (tw :: W) = (if P tw.1 = true then tw.2 else 0) + wsumP P W := by
  unfold wsumP
  by_cases h : P tw.1 = true
  · rw [List.filter_cons_of_pos (by simpa using h), if_pos h]; simp
  · rw [List.filter_cons_of_neg (by simpa using h), if_neg h]; simp

theorem wsumP_weighted (s : State) (P : Nat → Bool) (head : Nat) :
    wsumP P (s.weighted head) = ((s.walk head).filter P).length := by
  have := wsumP_fold P (s.walk head) []
  unfold State.weighted
  rw [this]; simp [wsumP]

/-! ### summing the events -/

/-- when a link from `A` to `B` is reported at all: both ends resolve, and self-links only on request -/
def netCond (auto : Bool) (A B : Nat) : Prop := A ≠ 0 ∧ B ≠ 0 ∧ (auto = true ∨ A ≠ B)

instance (auto : Bool) (A B : Nat) : Decidable (netCond auto A B) := by unfold netCond; infer_instance

theorem esum_filterMap_evOf (auto : Bool) (A' A B : Nat) (res : Nat → Nat) : ∀ (W : List (Nat × Nat)),
    esum A B (W.filterMap (fun tw => evOf auto A' (res tw.1) tw.2)) =
      if A' = A ∧ B ≠ 0 ∧ (auto = true ∨ A ≠ B) then wsumP (fun b => decide (res b = B)) W else 0
  | [] => by simp [wsumP]
  | tw :: W => by
    have ih := esum_filterMap_evOf auto A' A B res W
    rw [wsumP_cons]
    by_cases h0 : res tw.1 = 0
    · have hev : evOf auto A' (res tw.1) tw.2 = none := by unfold evOf; rw [if_pos h0]
      rw [List.filterMap_cons_none (f := fun tw : Nat × Nat => evOf auto A' (res tw.1) tw.2) (a := tw) hev, ih]
      by_cases hc : A' = A ∧ B ≠ 0 ∧ (auto = true ∨ A ≠ B)
      · rw [if_pos hc, if_pos hc]
        have : ¬ (decide (res tw.1 = B) = true) := by
          simp only [decide_eq_true_eq]; intro e; exact hc.2.1 (e ▸ h0)
        rw [if_neg this]; omega
      · rw [if_neg hc, if_neg hc]
    · by_cases ha : (!auto && decide (A' = res tw.1)) = true
      · have hev : evOf auto A' (res tw.1) tw.2 = none := by unfold evOf; rw [if_neg h0, if_pos ha]
        rw [List.filterMap_cons_none (f := fun tw : Nat × Nat => evOf auto A' (res tw.1) tw.2) (a := tw) hev, ih]
        by_cases hc : A' = A ∧ B ≠ 0 ∧ (auto = true ∨ A ≠ B)
        · rw [if_pos hc, if_pos hc]
          have : ¬ (decide (res tw.1 = B) = true) := by
            simp only [decide_eq_true_eq]
            intro e
            simp only [Bool.and_eq_true, Bool.not_eq_true', decide_eq_true_eq] at ha
            rcases hc.2.2 with h | h
            · rw [ha.1] at h; cases h
            · exact h (hc.1 ▸ ha.2 ▸ e)
          rw [if_neg this]; omega
        · rw [if_neg hc, if_neg hc]
      · have hev : evOf auto A' (res tw.1) tw.2 = some (A', res tw.1, tw.2) := by
          unfold evOf; rw [if_neg h0, if_neg ha]
        rw [List.filterMap_cons_some (f := fun tw : Nat × Nat => evOf auto A' (res tw.1) tw.2) (a := tw) hev,
          esum_cons, ih]
        simp only
        by_cases hc : A' = A ∧ B ≠ 0 ∧ (auto = true ∨ A ≠ B)
        · rw [if_pos hc, if_pos hc]
          by_cases hB : res tw.1 = B
          · rw [if_pos ⟨hc.1, hB⟩, if_pos (by simpa using hB)]
          · rw [if_neg (fun h => hB h.2), if_neg (by simpa using hB)]
        · rw [if_neg hc, if_neg hc]
          have : ¬ (A' = A ∧ res tw.1 = B) := by
            rintro ⟨e1, e2⟩
            apply hc
            refine ⟨e1, e2 ▸ h0, ?_⟩
            cases hau : auto with
            | true => exact Or.inl rfl
            | false =>
              right
              intro e
              apply ha
              rw [hau]
              simp only [Bool.not_false, Bool.true_and, decide_eq_true_eq]
              rw [e1, e2]; exact e
          rw [if_neg this]

namespace State
/-- block-level weight: over the page blocks the traversal carries `A` to, the number of members of the
    block's bag (out-list or in-list) whose bottom-up webentity is `B` -/
def blockW (s : State) (out : Bool) (A B : Nat) : Nat :=
  ((s.dfsWe.filter (fun bw => (s.cell bw.1).flags.page && decide (bw.2 = A))).map
    (fun bw => ((s.bag out bw.1).filter (fun b => decide (s.windupWe b = B))).length)).sum
end State

theorem esum_blockEvents (s : State) (out auto : Bool) (A B : Nat) (bw : Nat × Nat) :
    esum A B (s.blockEvents out auto bw) =
      if netCond auto A B ∧ ((s.cell bw.1).flags.page && decide (bw.2 = A)) = true then
        ((s.bag out bw.1).filter (fun b => decide (s.windupWe b = B))).length else 0 := by
  rw [blockEvents_def]
  unfold netCond
  by_cases hq : ((s.cell bw.1).flags.page && decide (bw.2 ≠ 0)) = true ∧
      (if out then (s.cell bw.1).out else (s.cell bw.1).inn) ≠ 0
  · rw [if_pos hq, esum_filterMap_evOf, wsumP_weighted, ← bag_eq_walk s out bw.1 hq.2]
    obtain ⟨h1, _⟩ := hq
    simp only [Bool.and_eq_true, decide_eq_true_eq] at h1
    by_cases hc : bw.2 = A ∧ B ≠ 0 ∧ (auto = true ∨ A ≠ B)
    · rw [if_pos hc, if_pos]
      refine ⟨⟨hc.1 ▸ h1.2, hc.2.1, hc.2.2⟩, ?_⟩
      simp [h1.1, hc.1]
    · rw [if_neg hc, if_neg]
      rintro ⟨⟨_, hB, ha⟩, h2⟩
      simp only [Bool.and_eq_true, decide_eq_true_eq] at h2
      exact hc ⟨h2.2, hB, ha⟩
  · rw [if_neg hq, esum_nil]
    by_cases hc : (A ≠ 0 ∧ B ≠ 0 ∧ (auto = true ∨ A ≠ B)) ∧
        ((s.cell bw.1).flags.page && decide (bw.2 = A)) = true
    · rw [if_pos hc]
      obtain ⟨⟨hA, _, _⟩, h2⟩ := hc
      simp only [Bool.and_eq_true, decide_eq_true_eq] at h2
      have hh : (if out then (s.cell bw.1).out else (s.cell bw.1).inn) = 0 := by
        apply Classical.byContradiction
        intro hne
        apply hq
        refine ⟨?_, hne⟩
        simp only [Bool.and_eq_true, decide_eq_true_eq]
        exact ⟨h2.1, h2.2 ▸ hA⟩
      rw [bag_of_head_zero s out bw.1 hh]; rfl
    · rw [if_neg hc]

/-- MAIN (events, block level): the summed weight of the events from `A` to `B` -/
theorem esum_netEvents (s : State) (out auto : Bool) (A B : Nat) :
    esum A B (s.netEvents out auto) = if netCond auto A B then s.blockW out A B else 0 := by
  unfold State.netEvents State.blockW
  rw [esum_flatMap]
  rw [List.map_congr_left (fun bw _ => esum_blockEvents s out auto A B bw)]
  exact sum_map_ite_filter (netCond auto A B) _ _ s.dfsWe

/-- every event has a positive weight -/
theorem netEvents_pos (s : State) (out auto : Bool) : ∀ e ∈ s.netEvents out auto, 0 < e.2.2 := by
  intro e he
  unfold State.netEvents at he
  obtain ⟨bw, _, hb⟩ := List.mem_flatMap.mp he
  rw [blockEvents_def] at hb
  by_cases hq : ((s.cell bw.1).flags.page && decide (bw.2 ≠ 0)) = true ∧
      (if out then (s.cell bw.1).out else (s.cell bw.1).inn) ≠ 0
  · rw [if_pos hq] at hb
    obtain ⟨tw, htw, hev⟩ := List.mem_filterMap.mp hb
    unfold evOf at hev
    split at hev
    · cases hev
    · split at hev
      · cases hev
      · simp only [Option.some.injEq] at hev
        subst hev
        obtain ⟨hm, hn⟩ := (weighted_spec s _ tw.1 tw.2).mp htw
        show 0 < tw.2
        rw [hn]; exact (count_pos_iff _ _).mpr hm
  · rw [if_neg hq] at hb; simp at hb

theorem esum_pos_iff (A B : Nat) : ∀ (es : List (Nat × Nat × Nat)), (∀ e ∈ es, 0 < e.2.2) →
    (0 < esum A B es ↔ ∃ e ∈ es, e.1 = A ∧ e.2.1 = B)
  | [], _ => by simp
  | e :: es, hpos => by
    have ih := esum_pos_iff A B es (fun x hx => hpos x (List.mem_cons_of_mem _ hx))
    have he := hpos e (List.mem_cons_self ..)
    rw [esum_cons]
    simp only [List.mem_cons, exists_eq_or_imp]
    by_cases h : e.1 = A ∧ e.2.1 = B
    · rw [if_pos h]
      constructor
      · intro _; exact Or.inl h
      · intro _; omega
    · rw [if_neg h, Nat.zero_add, ih]
      constructor
      · intro h'; exact Or.inr h'
      · rintro (h' | h')
        · exact absurd h' h
        · exact h'

/-! ### from blocks to submitted links -/

namespace State
/-- the webentity a byte string resolves to by `retrieve_webentity`, `0` when it answers its error -/
def weOf (s : State) (lru : Bytes) : Nat :=
  match s.retrieveWebentity lru with
  | .ok w => w
  | .error _ => 0

/-- how many of the submitted links go from a page resolving to `A` to a page resolving to `B` -/
def linkCount (s : State) (L : List (Bytes × Bytes)) (A B : Nat) : Nat :=
  (L.filter (fun st => decide (s.weOf st.1 = A ∧ s.weOf st.2 = B))).length

/-- THE SPECIFICATION of the webentity network: the page-level multigraph `L` pushed through resolution,
    pages without webentity dropped, self-links iff requested -/
def specW (s : State) (L : List (Bytes × Bytes)) (auto : Bool) (A B : Nat) : Nat :=
  if netCond auto A B then s.linkCount L A B else 0
end State

theorem weOf_eq (s : State) (lru : Bytes) : s.weOf lru = (s.followLru (lruIter lru)).2.we := by
  unfold State.weOf State.retrieveWebentity
  simp only
  split
  · rename_i w hw
    split at hw
    · cases hw
    · cases hw; rfl
  · rename_i e hw
    split at hw
    · rename_i h0; exact h0.symm
    · cases hw

theorem retrieveWebentity_weOf_net (s : State) (lru : Bytes) :
    s.retrieveWebentity lru = if s.weOf lru = 0 then .error .traph else .ok (s.weOf lru) := by
  rw [weOf_eq]; rfl

/-- the bottom-up webentity of the block of a submitted end is what `retrieve_webentity` answers for it -/
theorem LinkView.windupWe_end {s : State} {t : T} {L : List (Bytes × Bytes)} (v : LinkView s t L)
    {x : Bytes} (hx : IsPage s t (lruIter x)) :
    ∃ n, s.lruNode (lruIter x) = some n ∧ (lruIter x, n) ∈ t.entries s [] ∧ (s.cell n).flags.page = true ∧
      s.windupWe n = s.weOf x := by
  obtain ⟨_, n, e, hm, hf⟩ := isPage_node v.shape hx
  exact ⟨n, e, hm, hf, by rw [weOf_eq]; exact windupWe_eq_followLru v.shape v.par hm⟩

theorem dfsWe_keys_nodup {s : State} {t : T} (h : Shape s t) : (s.dfsWe.map (·.1)).Nodup := by
  rw [dfsWe_eq h]; exact (preWe_addrs_perm t 0).nodup_iff.mpr h.nodup

/-- MAIN (blocks → links): the block-level weight is the number of submitted links whose near end
    resolves to `A` and far end to `B` -/
theorem LinkView.blockW_eq {s : State} {t : T} {L : List (Bytes × Bytes)} (v : LinkView s t L)
    (out : Bool) (A B : Nat) :
    s.blockW out A B = if out then s.linkCount L A B else s.linkCount L B A := by
  let blkN : Bytes × Bytes → Nat := fun st => (s.lruNode (nearEnd out st)).getD 0
  let Q : Bytes × Bytes → Bool := fun st => decide (s.windupWe ((s.lruNode (farEnd out st)).getD 0) = B)
  let D' := s.dfsWe.filter (fun bw => (s.cell bw.1).flags.page && decide (bw.2 = A))
  have hnear : ∀ st ∈ L, IsPage s t (nearEnd out st) := by
    intro st hst
    cases out
    · exact (v.graph.pages st hst).2
    · exact (v.graph.pages st hst).1
  have hfar : ∀ st ∈ L, IsPage s t (farEnd out st) := by
    intro st hst
    cases out
    · exact (v.graph.pages st hst).1
    · exact (v.graph.pages st hst).2
  -- each term, rewritten over `L`
  have hterm : ∀ bw ∈ D', ((s.bag out bw.1).filter (fun b => decide (s.windupWe b = B))).length =
      (L.filter (fun st => decide (blkN st = bw.1) && Q st)).length := by
    intro bw hbw
    obtain ⟨hbw1, _⟩ := List.mem_filter.mp hbw
    obtain ⟨p, hpb, _⟩ := (dfsWe_mem_iff v.shape bw.1 bw.2).mp hbw1
    rw [v.graph.filter_bag_length v.shape hpb out]
    congr 1
    apply List.filter_congr
    intro st hst
    obtain ⟨ne, n, e, hm, _⟩ := isPage_node v.shape (hnear st hst)
    congr 1
    rw [decide_eq_decide]
    show nearEnd out st = p ↔ (s.lruNode (nearEnd out st)).getD 0 = bw.1
    rw [e, Option.getD_some, ← lruNode_eq_iff v.shape hpb ne, e, Option.some.injEq]
  have hK : (D'.map (·.1)).Nodup :=
    (List.filter_sublist.map _).nodup (dfsWe_keys_nodup v.shape)
  have hsum := sum_filter_by_key blkN Q L (D'.map (·.1)) hK
  rw [List.map_map] at hsum
  unfold State.blockW
  rw [List.map_congr_left hterm]
  refine hsum.trans ?_
  -- membership of the near block among the keys = resolution of the near end
  have hcongr : ∀ st ∈ L, (decide (blkN st ∈ D'.map (·.1)) && Q st) =
      decide (s.weOf (if out then st.1 else st.2) = A ∧ s.weOf (if out then st.2 else st.1) = B) := by
    intro st hst
    have hn := hnear st hst
    have hf := hfar st hst
    have en : nearEnd out st = lruIter (if out then st.1 else st.2) := by cases out <;> rfl
    have ef : farEnd out st = lruIter (if out then st.2 else st.1) := by cases out <;> rfl
    rw [en] at hn; rw [ef] at hf
    obtain ⟨n, e1, hm1, hp1, w1⟩ := v.windupWe_end hn
    obtain ⟨m, e2, hm2, hp2, w2⟩ := v.windupWe_end hf
    rw [Bool.eq_iff_iff]
    simp only [Bool.and_eq_true, decide_eq_true_eq, blkN, Q, en, ef, e1, e2, Option.getD_some, w2, ← w1]
    refine and_congr_left (fun _ => ?_)
    constructor
    · intro hmem
      obtain ⟨bw, hbw, ebw⟩ := List.mem_map.mp hmem
      obtain ⟨hbw1, hbw2⟩ := List.mem_filter.mp hbw
      simp only [Bool.and_eq_true, decide_eq_true_eq] at hbw2
      have := dfsWe_windupWe v.shape v.par hbw1
      rw [← ebw, ← this]; exact hbw2.2
    · intro hA
      refine List.mem_map.mpr ⟨(n, s.windupWe n), List.mem_filter.mpr ⟨dfsWe_of_entry v.shape v.par hm1, ?_⟩, rfl⟩
      simp [hp1, hA]
  rw [List.filter_congr hcongr]
  cases out
  · unfold State.linkCount
    congr 1
    apply List.filter_congr
    intro st _
    simp only [Bool.false_eq_true, if_false]
    rw [decide_eq_decide]; exact and_comm
  · rfl

/-! ### the first pass: rows and page tallies -/

/-- `graph[we]["pages_crawled" | "pages_uncrawled"] += 1` -/
def tallyStep (s : State) (bw : Nat × Nat) (r : NetRow) : NetRow :=
  if (s.cell bw.1).flags.crawled then { r with crawled := r.crawled + 1 }
  else { r with uncrawled := r.uncrawled + 1 }

theorem netTally_def (s : State) :
    s.netTally = netFold (·.2) (tallyStep s) []
      (s.dfsWe.filter (fun bw => (s.cell bw.1).flags.page && decide (bw.2 ≠ 0))) := rfl

theorem tallyStep_src (s : State) (bw : Nat × Nat) (r : NetRow) : (tallyStep s bw r).src = r.src := by
  unfold tallyStep; split <;> rfl

theorem tallyStep_targets (s : State) (bw : Nat × Nat) (r : NetRow) : (tallyStep s bw r).targets = r.targets := by
  unfold tallyStep; split <;> rfl

namespace State
/-- block-level tally: the page blocks the traversal carries `A` to, with crawled mark `c` -/
def blockPages (s : State) (c : Bool) (A : Nat) : Nat :=
  (s.dfsWe.filter (fun bw => (s.cell bw.1).flags.page && decide (bw.2 = A) &&
    decide ((s.cell bw.1).flags.crawled = c))).length

/-- API-level tally: the pages `pages_iter` lists with crawled mark `c` that `retrieve_webentity` resolves to `A` -/
def pageCount (s : State) (c : Bool) (A : Nat) : Nat :=
  (s.pagesIter.filter (fun lc => decide (lc.2 = c ∧ s.weOf lc.1 = A))).length
end State

theorem netTally_tally (s : State) (c : Bool) (A : Nat) (hA : A ≠ 0) :
    netSum (fun r => if c then r.crawled else r.uncrawled) s.netTally A = s.blockPages c A := by
  rw [netTally_def, netFold_sum (·.2) (tallyStep s) (fun r => if c then r.crawled else r.uncrawled)
    (fun bw => if decide ((s.cell bw.1).flags.crawled = c) = true then 1 else 0)
    (tallyStep_src s) (fun _ => by cases c <;> rfl)
    (fun bw r => by
      unfold tallyStep
      cases c <;> cases (s.cell bw.1).flags.crawled <;> simp)]
  rw [netSum_nil, Nat.zero_add, sum_map_indicator, List.filter_filter, List.filter_filter]
  unfold State.blockPages
  congr 1
  apply List.filter_congr
  intro bw _
  rw [Bool.eq_iff_iff]
  simp only [Bool.and_eq_true, decide_eq_true_eq]
  constructor
  · rintro ⟨⟨h1, h2⟩, h3, _⟩; exact ⟨⟨h3, h2⟩, h1⟩
  · rintro ⟨⟨h3, h2⟩, h1⟩; exact ⟨⟨h1, h2⟩, h3, h2 ▸ hA⟩

theorem netTally_weight (s : State) (A B : Nat) : netW s.netTally A B = 0 := by
  unfold netW
  rw [netTally_def, netFold_sum (·.2) (tallyStep s) (fun r => ctr r.targets B) (fun _ => 0)
    (tallyStep_src s) (fun _ => rfl) (fun bw r => by rw [tallyStep_targets]; rfl)]
  rw [netSum_nil, Nat.zero_add]
  generalize (s.dfsWe.filter _).filter _ = l
  induction l with
  | nil => rfl
  | cons _ _ ih => simp [ih]

theorem netTally_ok (s : State) : NetOk s.netTally := by
  rw [netTally_def]
  exact netFold_ok (·.2) (tallyStep s) (tallyStep_src s) _
    (fun bw _ r hr => by rw [tallyStep_targets]; exact hr) [] netOk_nil

theorem netTally_rows (s : State) (A : Nat) :
    A ∈ s.netTally.map (·.src) ↔
      A ≠ 0 ∧ ∃ bw ∈ s.dfsWe, (s.cell bw.1).flags.page = true ∧ bw.2 = A := by
  rw [netTally_def, netFold_mem_srcs (·.2) (tallyStep s) (tallyStep_src s)]
  simp only [List.map_nil, List.not_mem_nil, false_or, List.mem_filter, Bool.and_eq_true, decide_eq_true_eq]
  constructor
  · rintro ⟨bw, ⟨h1, h2, h3⟩, rfl⟩; exact ⟨h3, bw, h1, h2, rfl⟩
  · rintro ⟨hA, bw, h1, h2, rfl⟩; exact ⟨bw, ⟨h1, h2, hA⟩, rfl⟩

theorem netTally_targets (s : State) : ∀ r ∈ s.netTally, r.targets = [] := by
  rw [netTally_def]
  exact netFold_all (·.2) (tallyStep s) (fun r => r.targets = []) (fun _ => rfl) _ []
    (fun bw _ r hr => by rw [tallyStep_targets]; exact hr) (by simp)

/-! ### block tallies = page tallies -/

theorem dfs_keys_perm {s : State} {t : T} (h : Shape s t) :
    ((s.dfsIter none false).map (·.1)).Perm (s.dfsWe.map (·.1)) := by
  rw [List.perm_ext_iff_of_nodup (dfsIter_nodup h) (dfsWe_keys_nodup h)]
  intro b
  simp only [List.mem_map]
  constructor
  · rintro ⟨⟨b', l⟩, hm, rfl⟩
    obtain ⟨p, hp, _⟩ := (dfsIter_mem_iff h b' l).mp hm
    exact ⟨(b', _), (dfsWe_mem_iff h b' _).mpr ⟨p, hp, rfl⟩, rfl⟩
  · rintro ⟨⟨b', w⟩, hm, rfl⟩
    obtain ⟨p, hp, _⟩ := (dfsWe_mem_iff h b' w).mp hm
    exact ⟨(b', p.flatten), (dfsIter_mem_iff h b' _).mpr ⟨p, hp, rfl⟩, rfl⟩

/-- MAIN (tallies): the block-level tally is the number of listed pages with that mark resolving to `A` -/
theorem blockPages_eq {s : State} {t : T} (h : Shape s t) (hi : Inv s t) (hp : ParOk s t 0) (c : Bool) (A : Nat) :
    s.blockPages c A = s.pageCount c A := by
  let Pb : Nat → Bool := fun b => (s.cell b).flags.page && decide (s.windupWe b = A) &&
    decide ((s.cell b).flags.crawled = c)
  have h1 : s.blockPages c A = ((s.dfsWe.map (·.1)).filter Pb).length := by
    unfold State.blockPages
    rw [List.filter_map, List.length_map]
    congr 1
    apply List.filter_congr
    intro bw hbw
    simp only [Function.comp, Pb]
    rw [← dfsWe_windupWe h hp hbw]
  have h2 : s.pageCount c A = (((s.dfsIter none false).map (·.1)).filter Pb).length := by
    unfold State.pageCount State.pagesIter
    rw [List.filter_map, List.length_map, List.filter_filter, List.filter_map, List.length_map]
    congr 1
    apply List.filter_congr
    intro bl hbl
    obtain ⟨p, hpb, e⟩ := (dfsIter_mem_iff h bl.1 bl.2).mp hbl
    have hw : s.weOf bl.2 = s.windupWe bl.1 := by
      rw [weOf_eq, e, lruIter_flatten p (hi.wf p _ hpb)]
      exact (windupWe_eq_followLru h hp hpb).symm
    simp only [Function.comp, Pb, hw]
    rw [Bool.eq_iff_iff]
    simp only [Bool.and_eq_true, decide_eq_true_eq]
    constructor
    · rintro ⟨⟨h1, h2⟩, h3⟩; exact ⟨⟨h3, h2⟩, h1⟩
    · rintro ⟨⟨h3, h2⟩, h1⟩; exact ⟨⟨h1, h2⟩, h3⟩
  rw [h1, h2]
  exact ((dfs_keys_perm h).filter Pb).length_eq.symm

/-- the block-level weight over the finite map of the index instead of the traversal: the sum, over the
    stored LRUs `p` flagged as pages that `follow_lru` resolves to `A`, of the number of members of the
    bag of `p`'s block whose bottom-up webentity is `B` -/
theorem blockW_entries {s : State} {t : T} (h : Shape s t) (hp : ParOk s t 0) (out : Bool) (A B : Nat) :
    s.blockW out A B =
      (((t.entries s []).filter (fun pb => (s.cell pb.2).flags.page && decide ((s.followLru pb.1).2.we = A))).map
        (fun pb => ((s.bag out pb.2).filter (fun b => decide (s.windupWe b = B))).length)).sum := by
  let Pa : Nat → Bool := fun a => (s.cell a).flags.page && decide (s.windupWe a = A)
  let f : Nat → Nat := fun a => ((s.bag out a).filter (fun b => decide (s.windupWe b = B))).length
  have h1 : s.blockW out A B = (((s.dfsWe.map (·.1)).filter Pa).map f).sum := by
    unfold State.blockW
    rw [List.filter_map, List.map_map]
    congr 2
    apply List.filter_congr
    intro bw hbw
    simp only [Function.comp, Pa]
    rw [← dfsWe_windupWe h hp hbw]
  have h2 : (((t.entries s []).filter (fun pb => (s.cell pb.2).flags.page &&
        decide ((s.followLru pb.1).2.we = A))).map
        (fun pb => ((s.bag out pb.2).filter (fun b => decide (s.windupWe b = B))).length)).sum =
      ((((t.entries s []).map (·.2)).filter Pa).map f).sum := by
    rw [List.filter_map, List.map_map]
    congr 2
    apply List.filter_congr
    intro pb hpb
    simp only [Function.comp, Pa]
    rw [windupWe_eq_followLru h hp hpb]
  rw [h1, h2]
  apply List.Perm.sum_nat
  apply List.Perm.map
  apply List.Perm.filter
  have p1 : (s.dfsWe.map (·.1)).Perm t.addrs := by rw [dfsWe_eq h]; exact preWe_addrs_perm t 0
  exact p1.trans (entries_addrs_perm t []).symm

/-! ### assembly: one state -/

theorem netCond_symm (auto : Bool) (A B : Nat) : netCond auto B A ↔ netCond auto A B := by
  unfold netCond
  constructor
  · rintro ⟨h1, h2, h3⟩; exact ⟨h2, h1, h3.imp id (fun h e => h e.symm)⟩
  · rintro ⟨h1, h2, h3⟩; exact ⟨h2, h1, h3.imp id (fun h e => h e.symm)⟩

namespace State
/-- the specification read in the requested direction: the row of `A` in the outbound network holds the
    links from `A`, in the inbound network the links to `A` -/
def specDir (s : State) (L : List (Bytes × Bytes)) (out auto : Bool) (A B : Nat) : Nat :=
  if out then s.specW L auto A B else s.specW L auto B A
end State

/-- the source of every event is the carried id of a page block, and is not "none" -/
theorem netEvents_src (s : State) (out auto : Bool) : ∀ e ∈ s.netEvents out auto,
    e.1 ≠ 0 ∧ ∃ bw ∈ s.dfsWe, (s.cell bw.1).flags.page = true ∧ bw.2 = e.1 := by
  intro e he
  unfold State.netEvents at he
  obtain ⟨bw, hbw, hb⟩ := List.mem_flatMap.mp he
  rw [blockEvents_def] at hb
  by_cases hq : ((s.cell bw.1).flags.page && decide (bw.2 ≠ 0)) = true ∧
      (if out then (s.cell bw.1).out else (s.cell bw.1).inn) ≠ 0
  · rw [if_pos hq] at hb
    obtain ⟨tw, _, hev⟩ := List.mem_filterMap.mp hb
    have h1 := hq.1
    simp only [Bool.and_eq_true, decide_eq_true_eq] at h1
    unfold evOf at hev
    split at hev
    · cases hev
    · split at hev
      · cases hev
      · simp only [Option.some.injEq] at hev
        subst hev
        exact ⟨h1.2, bw, hbw, h1.1, rfl⟩
  · rw [if_neg hq] at hb; simp at hb

/-- well-formedness of the answers: one row per webentity, one entry per target, no zero entry -/
theorem LinkView.network_ok {s : State} {t : T} {L : List (Bytes × Bytes)} (v : LinkView s t L) (out auto : Bool) :
    NetOk (s.network out auto) := by
  rw [network_eq v]; exact netOk_events _ _ (netEvents_pos s out auto) (netTally_ok s)

theorem networkSlow_ok {s : State} {t : T} (h : Shape s t) (hp : ParOk s t 0) (out auto : Bool) :
    NetOk (s.networkSlow out auto) := by
  rw [networkSlow_eq h hp]; exact netOk_events _ _ (netEvents_pos s out auto) netOk_nil

/-- C07 at block level: the recorded weight from `A` to `B` is, when both are webentities and self-links
    are requested or `A ≠ B`, the number of stubs hanging off page blocks of `A` whose other end is a
    block of `B`; and 0 otherwise -/
theorem LinkView.network_blocks {s : State} {t : T} {L : List (Bytes × Bytes)} (v : LinkView s t L)
    (out auto : Bool) (A B : Nat) :
    netW (s.network out auto) A B = if netCond auto A B then s.blockW out A B else 0 := by
  rw [network_eq v, netW_events, netTally_weight, Nat.zero_add, esum_netEvents]

theorem networkSlow_blocks {s : State} {t : T} (h : Shape s t) (hp : ParOk s t 0) (out auto : Bool) (A B : Nat) :
    netW (s.networkSlow out auto) A B = if netCond auto A B then s.blockW out A B else 0 := by
  rw [networkSlow_eq h hp, netW_events, esum_netEvents]
  unfold netW; rw [netSum_nil, Nat.zero_add]

/-- C07, the memory-light variant records the same weights -/
theorem LinkView.C07_slow {s : State} {t : T} {L : List (Bytes × Bytes)} (v : LinkView s t L)
    (out auto : Bool) (A B : Nat) :
    netW (s.networkSlow out auto) A B = netW (s.network out auto) A B := by
  rw [networkSlow_blocks v.shape v.par, v.network_blocks]

/-- C07, weights: the recorded weight is the specification, in either direction -/
theorem LinkView.C07_weight_dir {s : State} {t : T} {L : List (Bytes × Bytes)} (v : LinkView s t L)
    (out auto : Bool) (A B : Nat) :
    netW (s.network out auto) A B = s.specDir L out auto A B := by
  rw [v.network_blocks, v.blockW_eq]
  unfold State.specDir State.specW
  cases out
  · simp only [Bool.false_eq_true, if_false]
    by_cases hc : netCond auto A B
    · rw [if_pos hc, if_pos ((netCond_symm auto A B).mpr hc)]
    · rw [if_neg hc, if_neg (fun h => hc ((netCond_symm auto A B).mp h))]
  · rfl

/-- C07, outbound: the weight from `A` to `B` is the number of submitted page links whose source resolves
    to `A` and target to `B` (0 when either is "no webentity", or when `A = B` and self-links are off) -/
theorem LinkView.C07_weight {s : State} {t : T} {L : List (Bytes × Bytes)} (v : LinkView s t L)
    (auto : Bool) (A B : Nat) : netW (s.network true auto) A B = s.specW L auto A B :=
  v.C07_weight_dir true auto A B

/-- C07, inbound: the row of `B` records under `A` the same number -/
theorem LinkView.C07_weight_in {s : State} {t : T} {L : List (Bytes × Bytes)} (v : LinkView s t L)
    (auto : Bool) (A B : Nat) : netW (s.network false auto) B A = s.specW L auto A B :=
  v.C07_weight_dir false auto B A

/-- C07, the inbound network is the transpose of the outbound one -/
theorem LinkView.C07_transpose {s : State} {t : T} {L : List (Bytes × Bytes)} (v : LinkView s t L)
    (auto : Bool) (A B : Nat) : netW (s.network false auto) B A = netW (s.network true auto) A B := by
  rw [v.C07_weight_in, v.C07_weight]

/-- the block-level counts are transposes of each other (in/out symmetry of the stub lists) -/
theorem LinkView.blockW_transpose {s : State} {t : T} {L : List (Bytes × Bytes)} (v : LinkView s t L)
    (A B : Nat) : s.blockW false B A = s.blockW true A B := by
  rw [v.blockW_eq, v.blockW_eq]; rfl

/-- rows of the two-pass variant: exactly the webentities some listed page resolves to (whether or not
    any link qualifies) -/
theorem LinkView.network_rows {s : State} {t : T} {L : List (Bytes × Bytes)} (v : LinkView s t L)
    (out auto : Bool) (A : Nat) :
    A ∈ (s.network out auto).map (·.src) ↔ A ≠ 0 ∧ ∃ lc ∈ s.pagesIter, s.weOf lc.1 = A := by
  have hpages : (∃ bw ∈ s.dfsWe, (s.cell bw.1).flags.page = true ∧ bw.2 = A) ↔
      ∃ lc ∈ s.pagesIter, s.weOf lc.1 = A := by
    constructor
    · rintro ⟨bw, hbw, hpg, rfl⟩
      obtain ⟨p, hpb, _⟩ := (dfsWe_mem_iff v.shape bw.1 bw.2).mp hbw
      refine ⟨(p.flatten, (s.cell bw.1).flags.crawled),
        (pagesIter_iff v.shape _ _).mpr ⟨p, bw.1, hpb, rfl, hpg, rfl⟩, ?_⟩
      rw [weOf_eq]
      simp only
      rw [lruIter_flatten p (v.inv.wf p _ hpb), ← windupWe_eq_followLru v.shape v.par hpb]
      exact (dfsWe_windupWe v.shape v.par hbw).symm
    · rintro ⟨⟨lru, c⟩, hlc, rfl⟩
      obtain ⟨p, b, hpb, e, hpg, _⟩ := (pagesIter_iff v.shape lru c).mp hlc
      refine ⟨(b, s.windupWe b), dfsWe_of_entry v.shape v.par hpb, hpg, ?_⟩
      rw [weOf_eq]
      simp only
      rw [e, lruIter_flatten p (v.inv.wf p _ hpb)]
      exact windupWe_eq_followLru v.shape v.par hpb
  rw [network_eq v, netFold_mem_srcs (·.1) netAdd (fun _ _ => rfl), netTally_rows, hpages]
  constructor
  · rintro (h | ⟨e, he, rfl⟩)
    · exact h
    · obtain ⟨h0, hbw⟩ := netEvents_src s out auto e he
      exact ⟨h0, hpages.mp hbw⟩
  · exact Or.inl

/-- page tallies of the two-pass variant: the numbers of listed pages resolving to the row's webentity,
    with and without the crawled mark -/
theorem LinkView.network_tally {s : State} {t : T} {L : List (Bytes × Bytes)} (v : LinkView s t L)
    (out auto : Bool) : ∀ r ∈ s.network out auto,
    r.crawled = s.pageCount true r.src ∧ r.uncrawled = s.pageCount false r.src := by
  intro r hr
  have hA : r.src ≠ 0 := ((v.network_rows out auto r.src).mp (List.mem_map.mpr ⟨r, hr, rfl⟩)).1
  have key : ∀ c : Bool, (if c then r.crawled else r.uncrawled) = s.pageCount c r.src := by
    intro c
    rw [← netSum_of_mem (fun r => if c then r.crawled else r.uncrawled) _ r (v.network_ok out auto).rows hr,
      network_eq v, netSum_events _ (fun _ _ => by cases c <;> rfl) (fun _ => by cases c <;> rfl),
      netTally_tally s c _ hA, blockPages_eq v.shape v.inv v.par]
  exact ⟨key true, key false⟩

/-- the memory-light variant carries no tallies… -/
theorem networkSlow_tally {s : State} {t : T} (h : Shape s t) (hp : ParOk s t 0) (out auto : Bool) :
    ∀ r ∈ s.networkSlow out auto, r.crawled = 0 ∧ r.uncrawled = 0 := by
  rw [networkSlow_eq h hp]
  exact netFold_all (·.1) netAdd (fun r => r.crawled = 0 ∧ r.uncrawled = 0) (fun _ => ⟨rfl, rfl⟩) _ []
    (fun _ _ _ hr => hr) (by simp)

/-- …and has a row only for a webentity with at least one reported link -/
theorem networkSlow_rows {s : State} {t : T} (h : Shape s t) (hp : ParOk s t 0) (out auto : Bool) (A : Nat) :
    A ∈ (s.networkSlow out auto).map (·.src) ↔ ∃ B, 0 < netW (s.networkSlow out auto) A B := by
  constructor
  · intro hA
    rw [networkSlow_eq h hp, netFold_mem_srcs (·.1) netAdd (fun _ _ => rfl)] at hA
    rcases hA with hA | ⟨e, he, rfl⟩
    · simp at hA
    · refine ⟨e.2.1, ?_⟩
      rw [networkSlow_eq h hp, netW_events]
      have := (esum_pos_iff e.1 e.2.1 _ (netEvents_pos s out auto)).mpr ⟨e, he, rfl, rfl⟩
      omega
  · rintro ⟨B, hB⟩
    obtain ⟨r, hr, rfl, _⟩ := (networkSlow_ok h hp out auto).mem_of_weight_pos hB
    exact List.mem_map.mpr ⟨r, hr, rfl⟩

theorem networkSlow_targets_ne_nil {s : State} {t : T} (h : Shape s t) (hp : ParOk s t 0) (out auto : Bool) :
    ∀ r ∈ s.networkSlow out auto, r.targets ≠ [] := by
  intro r hr e
  obtain ⟨B, hB⟩ := (networkSlow_rows h hp out auto r.src).mp (List.mem_map.mpr ⟨r, hr, rfl⟩)
  rw [((networkSlow_ok h hp out auto).targets_nil_iff hr).mp e B] at hB
  omega

end Traph

section
open Traph
#print axioms LinkView.C07_weight_dir
#print axioms LinkView.C07_transpose
#print axioms LinkView.C07_slow
#print axioms LinkView.network_rows
#print axioms LinkView.network_tally
#print axioms networkSlow_rows
end

import Traph
/-! No request changes the configuration (the probed switches of the library version): `oe_cfg_step`, `oe_cfg_run`.
    Used by C11's clear clause to name the configuration of "a freshly created index". -/
namespace Traph
open State

namespace State

theorem oe_cfg_appendCell (s : State) (c : Cell) : (s.appendCell c).1.cfg = s.cfg := rfl
theorem oe_cfg_setCell (s : State) (i : Nat) (c : Cell) : (s.setCell i c).cfg = s.cfg := rfl
theorem oe_cfg_appendStub (s : State) (b : Stub) : (s.appendStub b).1.cfg = s.cfg := rfl
theorem oe_cfg_setHdr (s : State) (id : Nat) : (s.setHdr id).cfg = s.cfg := rfl

theorem oe_cfg_modCell (s : State) (i : Nat) (f : Cell → Cell) : (s.modCell i f).cfg = s.cfg := by
  unfold modCell
  cases s.trie[i]? <;> rfl

theorem oe_cfg_foldl_modCell {α} (g : α → Nat) (f : α → Cell → Cell) (xs : List α) (s : State) :
    (xs.foldl (fun st x => st.modCell (g x) (f x)) s).cfg = s.cfg := by
  induction xs generalizing s with
  | nil => rfl
  | cons x xs ih => rw [List.foldl_cons, ih, oe_cfg_modCell]

theorem oe_cfg_appendCells (s : State) (cs : List Cell) : (s.appendCells cs).cfg = s.cfg := by
  induction cs generalizing s with
  | nil => rfl
  | cons c cs ih => rw [appendCells, ih, oe_cfg_appendCell]

theorem oe_cfg_writeNew (s : State) (stem : Stem) (parent : Nat) (canHave : Bool) :
    (s.writeNew stem parent canHave).1.cfg = s.cfg := by
  simp only [writeNew, oe_cfg_appendCells, oe_cfg_appendCell]

theorem oe_cfg_ensureStem (s : State) (start : Nat) (ex : Bool) (stem : Stem) :
    (s.ensureStem start ex stem).1.cfg = s.cfg := by
  unfold ensureStem
  split
  · exact oe_cfg_writeNew _ _ _ _
  · split
    · rfl
    · rfl
    · simp only [oe_cfg_modCell, oe_cfg_writeNew]

theorem oe_cfg_markCanHave (s : State) (n : Nat) (b : Bool) : (s.markCanHave n b).cfg = s.cfg := by
  unfold markCanHave
  split
  · exact oe_cfg_modCell _ _ _
  · rfl

theorem oe_cfg_addLruDescend (flag : Bool) (s : State) (stems : List Stem) (node : Nat) (ex : Bool) (pos : Nat)
    (h : Hist) : (addLruDescend flag s stems node ex pos h).1.cfg = s.cfg := by
  induction stems generalizing s node ex pos h with
  | nil => rfl
  | cons stem rest ih =>
    simp only [addLruDescend]
    split
    · rw [ih, oe_cfg_markCanHave, oe_cfg_ensureStem]
    · simp only [oe_cfg_markCanHave, oe_cfg_ensureStem]

theorem oe_cfg_addLruCreate (flag : Bool) (s : State) (stems : List Stem) (node : Nat) :
    (addLruCreate flag s stems node).1.cfg = s.cfg := by
  induction stems generalizing s node with
  | nil => rfl
  | cons stem rest ih =>
    simp only [addLruCreate]
    rw [ih, oe_cfg_modCell, oe_cfg_writeNew]

theorem oe_cfg_addLru (s : State) (stems : LRU) (flag : Bool) : (s.addLru stems flag).1.cfg = s.cfg := by
  simp only [addLru, oe_cfg_addLruCreate, oe_cfg_addLruDescend]

theorem oe_cfg_addPageTrie (s : State) (stems : LRU) (crawled : Bool) : (s.addPageTrie stems crawled).1.cfg = s.cfg := by
  simp only [addPageTrie]
  split
  · simp only [oe_cfg_modCell, oe_cfg_addLru]
  · split
    · simp only [oe_cfg_modCell, oe_cfg_addLru]
    · simp only [oe_cfg_addLru]

theorem oe_cfg_addStubsGo (s : State) (tail : Nat) (ts : List Nat) : (addStubsGo s tail ts).1.cfg = s.cfg := by
  induction ts generalizing s tail with
  | nil => rfl
  | cons t ts ih => simp only [addStubsGo]; rw [ih, oe_cfg_appendStub]

theorem oe_cfg_addStubs (s : State) (page : Nat) (targets : List Nat) (out : Bool) :
    (s.addStubs page targets out).cfg = s.cfg := by
  simp only [addStubs]
  split
  · rfl
  · simp only [oe_cfg_modCell, oe_cfg_addStubsGo]

theorem oe_cfg_addPrefixesScan (s : State) (ps : List Bytes) (valid : List (Bytes × Nat)) (nInvalid : Nat) :
    (addPrefixesScan s ps valid nInvalid).1.cfg = s.cfg := by
  induction ps generalizing s valid nInvalid with
  | nil => rfl
  | cons p ps ih =>
    simp only [addPrefixesScan]
    split
    · rw [ih, oe_cfg_addLru]
    · rw [ih, oe_cfg_addLru]

theorem oe_cfg_addPrefixes (s : State) (prefixes : List Bytes) (best : Bool) :
    (s.addPrefixes prefixes best).1.cfg = s.cfg := by
  simp only [addPrefixes]
  split
  · exact oe_cfg_addPrefixesScan _ _ _ _
  · split
    · exact oe_cfg_addPrefixesScan _ _ _ _
    · simp only [oe_cfg_foldl_modCell, genId, oe_cfg_setHdr, oe_cfg_addPrefixesScan]

theorem oe_cfg_createWebentityAuto (s : State) (pfx : Bytes) : (s.createWebentityAuto pfx).1.cfg = s.cfg := by
  unfold createWebentityAuto
  have h := oe_cfg_addPrefixes s (lruVariations pfx) true
  revert h
  generalize s.addPrefixes (lruVariations pfx) true = X
  rcases X with ⟨s1, (e | ⟨(_ | wid), ps⟩)⟩ <;> exact fun h => h

theorem oe_cfg_addPageCore (s : State) (lru : Bytes) (crawled : Bool) : (s.addPageCore lru crawled).1.cfg = s.cfg := by
  unfold addPageCore
  have h := oe_cfg_addPageTrie s (lruIter lru) crawled
  revert h
  generalize s.addPageTrie (lruIter lru) crawled = X
  rcases X with ⟨s1, n, h⟩
  intro hc
  have hc : s1.cfg = s.cfg := hc
  simp only
  repeat' split
  all_goals first | exact hc | (simp only [oe_cfg_createWebentityAuto]; exact hc)

theorem oe_cfg_addPagesGo (always : Bool) (s : State) (ls : List Bytes) (crawled : Bool) (rep : Report) :
    (addPagesGo always s ls crawled rep).1.cfg = s.cfg := by
  induction ls generalizing s rep with
  | nil => rfl
  | cons x ls ih =>
    unfold addPagesGo
    have h := oe_cfg_addPageCore s x crawled
    revert h
    generalize s.addPageCore x crawled = X
    rcases X with ⟨s1, n, (e | r)⟩
    · exact id
    · intro hc
      have hc : s1.cfg = s.cfg := hc
      simp only
      rw [ih]
      split
      · rw [oe_cfg_modCell]; exact hc
      · exact hc

theorem oe_cfg_ensurePageCached (s : State) (acc : LinkAcc) (x : Bytes) (crawled : Bool) :
    (s.ensurePageCached acc x crawled).1.cfg = s.cfg := by
  unfold ensurePageCached
  cases dictGet? acc.pages x with
  | some _ => rfl
  | none =>
    simp only
    have h := oe_cfg_addPageCore s x crawled
    revert h
    generalize s.addPageCore x crawled = X
    rcases X with ⟨s1, n, (e | r)⟩ <;> exact id

theorem oe_cfg_flushLists (out : Bool) (pages : List (Bytes × Nat)) (s : State) (xs : List (Bytes × List Bytes)) :
    (flushLists out pages s xs).cfg = s.cfg := by
  induction xs generalizing s with
  | nil => rfl
  | cons x xs ih =>
    obtain ⟨p, others⟩ := x
    simp only [flushLists]
    rw [ih, oe_cfg_addStubs]

theorem oe_cfg_addLinksScan (s : State) (links : List (Bytes × Bytes)) (acc : LinkAcc) :
    (addLinksScan s links acc).1.cfg = s.cfg := by
  induction links generalizing s acc with
  | nil => rfl
  | cons x rest ih =>
    obtain ⟨src, tgt⟩ := x
    unfold addLinksScan
    have h := oe_cfg_ensurePageCached s acc src false
    revert h
    generalize s.ensurePageCached acc src false = X
    rcases X with ⟨s1, (e | acc1)⟩
    · exact id
    · intro hc
      have hc : s1.cfg = s.cfg := hc
      simp only
      have h2 := oe_cfg_ensurePageCached s1 acc1 tgt false
      revert h2
      generalize s1.ensurePageCached acc1 tgt false = Y
      rcases Y with ⟨s2, (e | acc2)⟩
      · intro h2; exact h2.trans hc
      · intro h2
        have h2 : s2.cfg = s1.cfg := h2
        simp only
        rw [ih, h2, hc]

theorem oe_cfg_addLinks (s : State) (links : List (Bytes × Bytes)) : (s.addLinks links).1.cfg = s.cfg := by
  unfold addLinks
  have h := oe_cfg_addLinksScan s links {}
  revert h
  generalize addLinksScan s links {} = X
  rcases X with ⟨s1, (e | acc)⟩
  · exact id
  · intro hc
    simp only [oe_cfg_flushLists]
    exact hc

theorem oe_cfg_batchTargets (s : State) (src : Bytes) (ts : List Bytes) (acc : LinkAcc) (tb : List Nat) :
    (batchTargets s src ts acc tb).1.cfg = s.cfg := by
  induction ts generalizing s acc tb with
  | nil => rfl
  | cons t ts ih =>
    unfold batchTargets
    have h := oe_cfg_ensurePageCached s acc t false
    revert h
    generalize s.ensurePageCached acc t false = X
    rcases X with ⟨s1, (e | acc1)⟩
    · exact id
    · intro hc
      have hc : s1.cfg = s.cfg := hc
      simp only
      rw [ih, hc]

theorem oe_cfg_batchSources (s : State) (data : List (Bytes × List Bytes)) (acc : LinkAcc) :
    (batchSources s data acc).1.cfg = s.cfg := by
  induction data generalizing s acc with
  | nil => rfl
  | cons x rest ih =>
    obtain ⟨src, tgts⟩ := x
    unfold batchSources
    simp only
    have h1 : ∀ r1 : State × Except Err LinkAcc, r1.1.cfg = s.cfg →
        (match r1 with
          | (s1, .error e) => ((s1, .error e) : State × Except Err LinkAcc)
          | (s1, .ok acc1) =>
            match batchTargets s1 src tgts acc1 [] with
            | (s2, .error e) => (s2, .error e)
            | (s2, .ok (acc2, tb)) =>
              batchSources (s2.addStubs ((dictGet? acc2.pages src).getD 0) tb true) rest acc2).1.cfg = s.cfg := by
      rintro ⟨s1, (e | acc1)⟩ hc
      · exact hc
      · have hc : s1.cfg = s.cfg := hc
        simp only
        have h2 := oe_cfg_batchTargets s1 src tgts acc1 []
        revert h2
        generalize batchTargets s1 src tgts acc1 [] = Y
        rcases Y with ⟨s2, (e | ⟨acc2, tb⟩)⟩
        · intro h2; exact h2.trans hc
        · intro h2
          have h2 : s2.cfg = s1.cfg := h2
          simp only
          rw [ih, oe_cfg_addStubs, h2, hc]
    apply h1
    split
    · exact oe_cfg_ensurePageCached _ _ _ _
    · split
      · exact oe_cfg_modCell _ _ _
      · rfl

theorem oe_cfg_batch (s : State) (data : List (Bytes × List Bytes)) : (s.batch data).1.cfg = s.cfg := by
  unfold batch
  have h := oe_cfg_batchSources s data {}
  revert h
  generalize batchSources s data {} = X
  rcases X with ⟨s1, (e | acc)⟩
  · exact id
  · intro hc
    simp only [oe_cfg_flushLists]
    exact hc

theorem oe_cfg_addRuleLoop (startBlock : Nat) (fuel : Nat) (s : State) (stack : List (Nat × Bytes)) (rep : Report) :
    (addRuleLoop startBlock fuel s stack rep).1.cfg = s.cfg := by
  induction fuel generalizing s stack rep with
  | zero => rfl
  | succ n ih =>
    cases stack with
    | nil => rfl
    | cons bl stack =>
      obtain ⟨b, lru⟩ := bl
      simp only [addRuleLoop]
      cases (s.cell b).flags.page
      · simp only [Bool.false_eq_true, if_false]
        exact ih _ _ _
      · simp only [if_true]
        have h := oe_cfg_addPageCore s (lru ++ s.stemAt b) false
        revert h
        generalize s.addPageCore (lru ++ s.stemAt b) false = X
        rcases X with ⟨s1, n', (e | r1)⟩
        · exact id
        · intro hc
          have hc : s1.cfg = s.cfg := hc
          simp only
          rw [ih, hc]

theorem oe_cfg_addRule (s : State) (anchor : Bytes) (r : Rule) (w : Bool) : (s.addRule anchor r w).1.cfg = s.cfg := by
  unfold addRule
  split
  · rfl
  · simp only
    rw [oe_cfg_addRuleLoop, oe_cfg_modCell, oe_cfg_addLru]

theorem oe_cfg_removeRule (s : State) (anchor : Bytes) : (s.removeRule anchor).1.cfg = s.cfg := by
  unfold removeRule
  split
  · rfl
  · simp only
    split
    · rfl
    · exact oe_cfg_modCell _ _ _

theorem oe_cfg_createWebentity (s : State) (prefixes : List Bytes) : (s.createWebentity prefixes).1.cfg = s.cfg := by
  unfold createWebentity
  have h := oe_cfg_addPrefixes s prefixes false
  revert h
  generalize s.addPrefixes prefixes false = X
  rcases X with ⟨s1, (e | ⟨id', ps⟩)⟩ <;> exact id

theorem oe_cfg_deleteWebentity (s : State) (weid : Nat) (prefixes : List Bytes) :
    (s.deleteWebentity weid prefixes).1.cfg = s.cfg := by
  unfold deleteWebentity
  split
  · rfl
  · exact oe_cfg_foldl_modCell _ _ _ _

theorem oe_cfg_addPrefix (s : State) (pfx : Bytes) (weid : Nat) : (s.addPrefix pfx weid).1.cfg = s.cfg := by
  simp only [addPrefix]
  split
  · exact oe_cfg_addLru _ _ _
  · simp only [oe_cfg_modCell, oe_cfg_addLru]

theorem oe_cfg_removePrefix (s : State) (pfx : Bytes) (weid : Option Nat) : (s.removePrefix pfx weid).1.cfg = s.cfg := by
  simp only [removePrefix]
  repeat' split
  all_goals first | exact oe_cfg_addLru _ _ _ | (rw [oe_cfg_modCell]; exact oe_cfg_addLru _ _ _)

theorem oe_cfg_movePrefix (s : State) (pfx : Bytes) (target : Nat) (source : Option Nat) :
    (s.movePrefix pfx target source).1.cfg = s.cfg := by
  unfold movePrefix
  have h := oe_cfg_removePrefix s pfx source
  revert h
  generalize s.removePrefix pfx source = X
  rcases X with ⟨s1, (e | u)⟩
  · exact id
  · intro hc
    have hc : s1.cfg = s.cfg := hc
    simp only
    rw [oe_cfg_addPrefix, hc]

theorem oe_cfg_installRules (l : List (Bytes × Rule)) (w : Bool) (s : State) : (installRules s l w).1.cfg = s.cfg := by
  induction l generalizing s with
  | nil => rfl
  | cons x rest ih =>
    obtain ⟨a, r⟩ := x
    unfold installRules
    have h := oe_cfg_addRule s a r w
    revert h
    generalize s.addRule a r w = X
    rcases X with ⟨s1, (e | u)⟩
    · exact id
    · intro hc
      have hc : s1.cfg = s.cfg := hc
      simp only
      rw [ih, hc]

theorem oe_cfg_clear (s : State) (d : Option Rule) (l : Option (List (Bytes × Rule))) : (s.clear d l).1.cfg = s.cfg := by
  cases l with
  | none => rfl
  | some l =>
    exact oe_cfg_installRules l true
      { cfg := s.cfg, dflt := d.getD s.dflt, rules := [], log := .linkHdr :: .hdr 0 :: s.log }

end State

/-- no request changes the configuration -/
theorem oe_cfg_step (s : State) (op : Op) : (s.step op).1.cfg = s.cfg := by
  cases op with
  | addPage x c =>
    show (s.addPageCore x c).1.cfg = s.cfg
    exact State.oe_cfg_addPageCore s x c
  | addPages ls c => exact State.oe_cfg_addPagesGo _ s ls c {}
  | addLinks ls => exact State.oe_cfg_addLinks s ls
  | batch d => exact State.oe_cfg_batch s d
  | create ps => exact State.oe_cfg_createWebentity s ps
  | delete w ps => exact State.oe_cfg_deleteWebentity s w ps
  | addPrefix p w => exact State.oe_cfg_addPrefix s p w
  | removePrefix p w => exact State.oe_cfg_removePrefix s p w
  | movePrefix p t f => exact State.oe_cfg_movePrefix s p t f
  | addRule a r => exact State.oe_cfg_addRule s a r true
  | removeRule a => exact State.oe_cfg_removeRule s a
  | reopen d l => rfl
  | clear d l => exact State.oe_cfg_clear s d l

theorem oe_cfg_run (s : State) (ops : List Op) : (s.run ops).cfg = s.cfg := by
  induction ops generalizing s with
  | nil => rfl
  | cons op ops ih =>
    show ((s.step op).1.run ops).cfg = s.cfg
    rw [ih, oe_cfg_step]

theorem oe_cfg_fresh (cfg : Config) (dflt : Rule) (rules : List (Bytes × Rule)) (log : List Write) :
    (State.fresh cfg dflt rules log).1.cfg = cfg :=
  State.oe_cfg_installRules rules true _

#print axioms oe_cfg_run

end Traph

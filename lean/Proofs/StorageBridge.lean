import Proofs.StorageSim
import Proofs.Codec
import Proofs.StorageNoZero
/-! C15, the bridge between the index and its storage back-ends.

    `Proofs/StorageSim.lean` shows that `FileStorage`, `MemoryStorage` and `MemMapStorage` simulate one abstract
    list of whole blocks under a call discipline. This file shows that the storage calls the index ACTUALLY
    issues obey that discipline, for every history:

    1. `Write.call` — how one entry of the ghost write log is rendered as a storage call (store, data, offset or
       append). `sb_writeBytes` is a textual copy of `writeBytes` in `Main.lean` (the driver's rendering, which the
       differential harness compares with the real `FileStorage.write` / `MemoryStorage.write` calls);
       `sb_call_eq_writeBytes` ties the two.
    2. `Files.sb_trieBlocks` / `Files.sb_linkBlocks` — the abstract block lists of the decoded files; their
       concatenations are `encodeTrie` / `encodeLinks`.
    3. `sb_write_sim` — ONE storage call, issued when the files are `f` and admissible there (`Write.sb_Ok`: an
       in-place cell write hits an existing block other than the header block, an append finds its header),
       is disciplined, and turns the blocks of `f` into the blocks of `f.apply w`.
    4. `sb_history_ok` — EVERY storage call of EVERY history is admissible at the moment it is issued
       (`sb_EvOk`), truncations of `clear` included. No hypothesis on the history. -/
namespace Traph
open State Layout LayoutOk

/-! ### 1. the storage call of a log entry -/

inductive sb_StoreId where
  | trie
  | links
deriving DecidableEq, Repr

/-- block size of a store -/
def sb_StoreId.bs : sb_StoreId → Nat
  | .trie => trieBlock
  | .links => linkBlock

def Write.sb_store : Write → sb_StoreId
  | .hdr _ | .trieAppend _ | .trieSet _ _ => .trie
  | .linkHdr | .linkAppend _ => .links

def Write.sb_data : Write → Bytes
  | .hdr id => encodeTrieHeader id
  | .trieAppend c => encodeCell c
  | .trieSet _ c => encodeCell c
  | .linkHdr => encodeLinkHeader
  | .linkAppend s => encodeStub s

/-- explicit byte offset, `none` = append -/
def Write.sb_block : Write → Option Nat
  | .hdr _ => some 0
  | .trieAppend _ => none
  | .trieSet i _ => some (i * trieBlock)
  | .linkHdr => some 0
  | .linkAppend _ => none

/-- the storage call of one log entry: which store, and `storage.write(data, block)` -/
def Write.call (w : Write) : sb_StoreId × SOp := (w.sb_store, .write w.sb_data w.sb_block)

/-- TEXTUAL COPY of `writeBytes` in `Main.lean` (the exe root cannot be imported here): (kind, offset, data) -/
def sb_writeBytes : Write → Nat × Nat × Bytes      -- (kind, offset, data)
  | .hdr id => (0, 0, encodeTrieHeader id)
  | .trieAppend c => (1, 0, encodeCell c)
  | .trieSet i c => (0, i * Layout.trieBlock, encodeCell c)
  | .linkHdr => (2, 0, encodeLinkHeader)
  | .linkAppend s => (3, 0, encodeStub s)

/-- the harness's reading of a triple (`_kind` in harness/impl.py): kind 0 = trie write at `off`, 1 = trie append,
    2 = link write at `off`, 3 = link append -/
def sb_callOfBytes : Nat × Nat × Bytes → sb_StoreId × SOp
  | (0, off, d) => (.trie, .write d (some off))
  | (1, _, d) => (.trie, .write d none)
  | (2, off, d) => (.links, .write d (some off))
  | (_, _, d) => (.links, .write d none)

/-- the driver's rendering (`Traph.writeBytes`, used by `Main.lean` for the write fingerprint) is this very function -/
theorem sb_writeBytes_eq_driver : sb_writeBytes = writeBytes := rfl

theorem sb_call_eq_writeBytes (w : Write) : w.call = sb_callOfBytes (sb_writeBytes w) := by
  cases w <;> rfl

/-- every block written is exactly one block of its store — unconditionally: the four encoders are fixed-width
    (over-long chunks are truncated, numbers wrap) -/
theorem sb_data_length (w : Write) : w.sb_data.length = w.sb_store.bs := by
  cases w
  · exact encodeTrieHeader_length _
  · exact encodeCell_length' _
  · exact encodeCell_length' _
  · exact encodeLinkHeader_length
  · exact encodeStub_length' _

/-! ### 2. the abstract blocks of the decoded files -/

def Files.sb_trieBlocks (f : Files) : List Bytes :=
  if f.trie.size = 0 then [] else encodeTrieHeader f.hdrId :: (f.trie.toList.drop 1).map encodeCell

def Files.sb_linkBlocks (f : Files) : List Bytes :=
  if f.links.size = 0 then [] else encodeLinkHeader :: (f.links.toList.drop 1).map encodeStub

def Files.sb_blocks (f : Files) : sb_StoreId → Blocks
  | .trie => ⟨trieBlock, f.sb_trieBlocks⟩
  | .links => ⟨linkBlock, f.sb_linkBlocks⟩

/-- the byte image of a store -/
def Files.sb_image (f : Files) (st : sb_StoreId) : Bytes := (f.sb_blocks st).bytes

@[simp] theorem sb_blocks_bs (f : Files) (st : sb_StoreId) : (f.sb_blocks st).bs = st.bs := by
  cases st <;> rfl

theorem sb_trieBlocks_length (f : Files) : f.sb_trieBlocks.length = f.trie.size := by
  unfold Files.sb_trieBlocks
  split
  · rename_i h; simp [h]
  · simp; omega

theorem sb_linkBlocks_length (f : Files) : f.sb_linkBlocks.length = f.links.size := by
  unfold Files.sb_linkBlocks
  split
  · rename_i h; simp [h]
  · simp; omega

theorem sb_blocks_wf (f : Files) (st : sb_StoreId) : (f.sb_blocks st).Wf := by
  cases st
  · refine ⟨(by decide : 0 < trieBlock), fun x hx => ?_⟩
    simp only [Files.sb_blocks, Files.sb_trieBlocks] at hx
    split at hx
    · cases hx
    · simp only [List.mem_cons, List.mem_map] at hx
      rcases hx with rfl | ⟨c, _, rfl⟩
      · exact encodeTrieHeader_length _
      · exact encodeCell_length' c
  · refine ⟨(by decide : 0 < linkBlock), fun x hx => ?_⟩
    simp only [Files.sb_blocks, Files.sb_linkBlocks] at hx
    split at hx
    · cases hx
    · simp only [List.mem_cons, List.mem_map] at hx
      rcases hx with rfl | ⟨c, _, rfl⟩
      · exact encodeLinkHeader_length
      · exact encodeStub_length' c

/-- the images are the codec's whole-file images -/
theorem sb_image_trie (s : State) : s.files.sb_image .trie = encodeTrie s := by
  show (Files.sb_trieBlocks s.files).flatten = encodeTrie s
  unfold Files.sb_trieBlocks encodeTrie
  show List.flatten (if s.trie.size = 0 then _ else _) = _
  by_cases h : s.trie.size = 0
  · rw [if_pos h, if_pos h]; rfl
  · rw [if_neg h, if_neg h, List.flatten_cons]; rfl

theorem sb_image_links (s : State) : s.files.sb_image .links = encodeLinks s := by
  show (Files.sb_linkBlocks s.files).flatten = encodeLinks s
  unfold Files.sb_linkBlocks encodeLinks
  show List.flatten (if s.links.size = 0 then _ else _) = _
  by_cases h : s.links.size = 0
  · rw [if_pos h, if_pos h]; rfl
  · rw [if_neg h, if_neg h, List.flatten_cons]; rfl

/-! ### 3. one storage call -/

/-- the call `w` is admissible when the files are `f` -/
def Write.sb_Ok (f : Files) : Write → Prop
  | .hdr _ => True
  | .trieAppend _ => 0 < f.trie.size
  | .trieSet i _ => 0 < i ∧ i < f.trie.size
  | .linkHdr => True
  | .linkAppend _ => 0 < f.links.size

theorem sb_drop_one_append {α : Type} (l : List α) (x : α) (h : 0 < l.length) :
    (l ++ [x]).drop 1 = l.drop 1 ++ [x] := by
  cases l with
  | nil => simp at h
  | cons a l => simp

theorem sb_drop_one_set {α : Type} (l : List α) (i : Nat) (x : α) (hi : 0 < i) :
    (l.set i x).drop 1 = (l.drop 1).set (i - 1) x := by
  cases l with
  | nil => simp
  | cons a l =>
    cases i with
    | zero => omega
    | succ k => simp

/-- ONE CALL: admissible ⇒ disciplined, and the blocks of `f` become the blocks of `f.apply w`;
    the other store is not touched -/
theorem sb_write_sim (f : Files) (w : Write) (hok : w.sb_Ok f) :
    (f.sb_blocks w.sb_store).Disciplined w.sb_data w.sb_block ∧
    ((f.sb_blocks w.sb_store).write w.sb_data w.sb_block).1 = (f.apply w).sb_blocks w.sb_store ∧
    (∀ st, st ≠ w.sb_store → (f.apply w).sb_blocks st = f.sb_blocks st) := by
  refine ⟨⟨by rw [sb_blocks_bs]; exact sb_data_length w, ?_⟩, ?_, ?_⟩
  · -- explicit offsets are aligned and inside (or exactly at the end of) the store
    intro off hoff
    cases w with
    | hdr id => cases hoff; exact ⟨Nat.zero_mod _, by rw [Nat.zero_div]; exact Nat.zero_le _⟩
    | trieAppend c => cases hoff
    | trieSet i c =>
      cases hoff
      simp only [Write.sb_store, Files.sb_blocks]
      refine ⟨Nat.mul_mod_left _ _, ?_⟩
      rw [Nat.mul_div_cancel _ (by decide : 0 < trieBlock), sb_trieBlocks_length]
      exact Nat.le_of_lt hok.2
    | linkHdr => cases hoff; exact ⟨Nat.zero_mod _, by rw [Nat.zero_div]; exact Nat.zero_le _⟩
    | linkAppend s => cases hoff
  · cases w with
    | hdr id =>
      simp only [Write.sb_store, Write.sb_data, Write.sb_block, Files.sb_blocks, Blocks.write, Files.apply,
        Files.sb_trieBlocks]
      by_cases h0 : f.trie.size = 0
      · simp [h0]
      · simp [h0, (by decide : 0 / trieBlock = 0)]
    | trieAppend c =>
      have h0 : f.trie.size ≠ 0 := by have : 0 < f.trie.size := hok; omega
      simp only [Write.sb_store, Write.sb_data, Write.sb_block, Files.sb_blocks, Blocks.write, Files.apply,
        Files.sb_trieBlocks, if_neg h0]
      have hl : 0 < f.trie.toList.length := by simp; omega
      simp [sb_drop_one_append _ _ hl]
    | trieSet i c =>
      obtain ⟨hi0, hi⟩ := hok
      have h0 : f.trie.size ≠ 0 := by omega
      have hlen : i < f.sb_trieBlocks.length := by rw [sb_trieBlocks_length]; exact hi
      simp only [Write.sb_store, Write.sb_data, Write.sb_block, Files.sb_blocks, Blocks.write, Files.apply,
        Nat.mul_div_cancel _ (by decide : 0 < trieBlock), if_pos hlen]
      simp only [Files.sb_trieBlocks, if_neg h0, Array.size_setIfInBounds, Array.toList_setIfInBounds,
        sb_drop_one_set _ _ _ hi0, List.map_set]
      obtain ⟨k, rfl⟩ : ∃ k, i = k + 1 := ⟨i - 1, by omega⟩
      simp
    | linkHdr =>
      simp only [Write.sb_store, Write.sb_data, Write.sb_block, Files.sb_blocks, Blocks.write, Files.apply,
        Files.sb_linkBlocks]
      by_cases h0 : f.links.size = 0
      · simp [h0]
      · simp [h0, (by decide : 0 / linkBlock = 0)]
    | linkAppend s =>
      have h0 : f.links.size ≠ 0 := by have : 0 < f.links.size := hok; omega
      simp only [Write.sb_store, Write.sb_data, Write.sb_block, Files.sb_blocks, Blocks.write, Files.apply,
        Files.sb_linkBlocks, if_neg h0]
      have hl : 0 < f.links.toList.length := by simp; omega
      simp [sb_drop_one_append _ _ hl]
  · intro st hst
    cases w <;> cases st <;> first | exact absurd rfl hst | rfl

/-- WHY `0 < i` in `Write.sb_Ok`: an in-place cell write at block 0 is perfectly disciplined for the storage
    machines (aligned, inside the store, one block) but it overwrites the header block — the abstract blocks are
    then no longer those of the decoded files, i.e. the store no longer holds `encodeTrie`. (`encodeTrie` renders
    block 0 from `hdrId`, not from cell 0.) That no history issues such a call is `sb_history_nz`. -/
theorem sb_zero_write_breaks_image :
    ((({ hdrId := 0, trie := #[{}], links := #[{}] } : Files).sb_blocks .trie).write
        (Write.trieSet 0 {}).sb_data (Write.trieSet 0 {}).sb_block).1 ≠
      (({ hdrId := 0, trie := #[{}], links := #[{}] } : Files).apply (.trieSet 0 {})).sb_blocks .trie := by
  decide

/-- what an append answers: the byte offset of the new block = (its index) × (block size) -/
theorem sb_append_returns (f : Files) (w : Write) (h : w.sb_block = none) :
    ((f.sb_blocks w.sb_store).write w.sb_data w.sb_block).2 =
      (match w.sb_store with | .trie => f.trie.size | .links => f.links.size) * w.sb_store.bs := by
  cases w with
  | hdr id => cases h
  | trieSet i c => cases h
  | linkHdr => cases h
  | trieAppend c =>
    simp [Write.sb_store, Write.sb_block, Files.sb_blocks, Blocks.write, sb_trieBlocks_length, sb_StoreId.bs]
  | linkAppend s =>
    simp [Write.sb_store, Write.sb_block, Files.sb_blocks, Blocks.write, sb_linkBlocks_length, sb_StoreId.bs]

/-! ### 4. every storage call of every history is admissible when it is issued -/

/-- a list of writes (oldest first) issued from files `f` -/
def sb_WsOk : Files → List Write → Prop
  | _, [] => True
  | f, w :: ws => w.sb_Ok f ∧ sb_WsOk (f.apply w) ws

theorem sb_wsOk_append (a b : List Write) : ∀ (f : Files),
    sb_WsOk f (a ++ b) ↔ sb_WsOk f a ∧ sb_WsOk (a.foldl Files.apply f) b := by
  induction a with
  | nil => intro f; simp [sb_WsOk]
  | cons w a ih => intro f; simp only [List.cons_append, sb_WsOk, List.foldl_cons, ih, and_assoc]

def Event.sb_Ok (f : Files) : Event → Prop
  | .write w => w.sb_Ok f
  | _ => True

/-- a list of crash events (writes and the truncations of `clear`, oldest first) issued from files `f` -/
def sb_EvOk : Files → List Event → Prop
  | _, [] => True
  | f, e :: es => e.sb_Ok f ∧ sb_EvOk (f.applyE e) es

theorem sb_evOk_append (a b : List Event) : ∀ (f : Files),
    sb_EvOk f (a ++ b) ↔ sb_EvOk f a ∧ sb_EvOk (a.foldl Files.applyE f) b := by
  induction a with
  | nil => intro f; simp [sb_EvOk]
  | cons w a ih => intro f; simp only [List.cons_append, sb_EvOk, List.foldl_cons, ih, and_assoc]

theorem sb_evOk_map_write (ws : List Write) : ∀ (f : Files), sb_EvOk f (ws.map .write) ↔ sb_WsOk f ws := by
  induction ws with
  | nil => intro f; simp [sb_EvOk, sb_WsOk]
  | cons w ws ih => intro f; simp only [List.map_cons, sb_EvOk, sb_WsOk, Event.sb_Ok, Files.applyE, ih]

/-- admissibility is prefix-closed -/
theorem sb_evOk_take (es : List Event) (k : Nat) (f : Files) (h : sb_EvOk f es) : sb_EvOk f (es.take k) := by
  have := (sb_evOk_append (es.take k) (es.drop k) f).mp (by rw [List.take_append_drop]; exact h)
  exact this.1

/-- along a trace whose log has no block-0 cell write: the writes it adds, oldest first, are admissible one
    after the other, starting from the files of its start -/
theorem Trace.sb_ok {s s' : State} (hl : Live s) (h : Trace s s') : sb_NZ s'.log →
    ∃ ws : List Write, s'.log = ws ++ s.log ∧ ws.reverse.foldl Files.apply s.files = s'.files ∧
      sb_WsOk s.files ws.reverse := by
  induction h with
  | refl => intro _; exact ⟨[], rfl, rfl, trivial⟩
  | ram _ e1 e2 e3 e4 ih =>
    intro hz
    obtain ⟨ws, hlog, hf, hok⟩ := ih (by rw [← e4]; exact hz)
    refine ⟨ws, e4.trans hlog, hf.trans ?_, hok⟩
    simp only [State.files, e1, e2, e3]
  | @appendCell s1 c ht ih =>
    intro hz
    have hz1 : sb_NZ s1.log := fun c' hm => hz c' (List.mem_cons_of_mem _ hm)
    obtain ⟨ws, hlog, hf, hok⟩ := ih hz1
    refine ⟨.trieAppend c :: ws, by simp only [State.appendCell, hlog]; rfl, ?_, ?_⟩
    · rw [List.reverse_cons, foldl_apply_snoc, hf]; rfl
    · rw [List.reverse_cons, sb_wsOk_append, hf]
      exact ⟨hok, ht.pos hl.1, trivial⟩
  | @modCell s1 i f ht _ ih =>
    intro hz
    cases hi : s1.trie[i]? with
    | none => rw [log_modCell_none f hi] at hz ⊢; exact ih hz
    | some c =>
      rw [log_modCell_some f hi] at hz
      have hz1 : sb_NZ s1.log := fun c' hm => hz c' (List.mem_cons_of_mem _ hm)
      obtain ⟨ws, hlog, hf, hok⟩ := ih hz1
      refine ⟨.trieSet i (f c) :: ws, by rw [log_modCell_some f hi, hlog]; rfl, ?_, ?_⟩
      · rw [List.reverse_cons, foldl_apply_snoc, hf]
        unfold State.modCell; rw [hi]; rfl
      · rw [List.reverse_cons, sb_wsOk_append, hf]
        refine ⟨hok, ⟨?_, (Array.getElem?_eq_some_iff.mp hi).1⟩, trivial⟩
        rcases Nat.eq_zero_or_pos i with h0 | h0
        · subst h0; exact absurd (List.mem_cons_self) (hz (f c))
        · exact h0
  | @appendStub s1 b ht ih =>
    intro hz
    have hz1 : sb_NZ s1.log := fun c' hm => hz c' (List.mem_cons_of_mem _ hm)
    obtain ⟨ws, hlog, hf, hok⟩ := ih hz1
    refine ⟨.linkAppend b :: ws, by simp only [State.appendStub, hlog]; rfl, ?_, ?_⟩
    · rw [List.reverse_cons, foldl_apply_snoc, hf]; rfl
    · rw [List.reverse_cons, sb_wsOk_append, hf]
      exact ⟨hok, (ht.live hl).2, trivial⟩
  | @setHdr s1 id ht ih =>
    intro hz
    have hz1 : sb_NZ s1.log := fun c' hm => hz c' (List.mem_cons_of_mem _ hm)
    obtain ⟨ws, hlog, hf, hok⟩ := ih hz1
    refine ⟨.hdr id :: ws, by simp only [State.setHdr, hlog]; rfl, ?_, ?_⟩
    · rw [List.reverse_cons, foldl_apply_snoc, hf]
      have hp : ¬ s1.files.trie.size = 0 := by
        have := ht.pos hl.1; show ¬ s1.trie.size = 0; omega
      simp only [Files.apply]
      rw [if_neg hp]; rfl
    · rw [List.reverse_cons, sb_wsOk_append, hf]
      exact ⟨hok, trivial, trivial⟩

/-- a request other than `clear`: its writes are admissible from the files it finds -/
theorem sb_step_ok (s : State) (hl : Live s) (op : Op) (hop : op.isClear = false)
    (hz : sb_NZ (s.step op).1.log) : sb_WsOk s.files (s.stepWrites op) := by
  have ht := step_trace s op hl (Op.not_clear_of_isClear hop)
  obtain ⟨ws, hlog, _, hok⟩ := ht.sb_ok hl hz
  have e : ws = (s.stepWrites op).reverse := List.append_cancel_right (hlog.symm.trans (stepWrites_log s op))
  rw [e, List.reverse_reverse] at hok
  exact hok

/-- an index that has just written its two headers (the constructor, `clear`), then a trace: everything
    since the (empty) start of the two stores is admissible -/
theorem sb_base_ok {b s' : State} {log0 : List Write} (ht : b.trie = #[{}]) (hk : b.links = #[{}])
    (hh : b.hdrId = 0) (hlog : b.log = .linkHdr :: .hdr 0 :: log0) (h : Trace b s') (hz : sb_NZ s'.log) :
    ∃ ws : List Write, s'.log = ws.reverse ++ .linkHdr :: .hdr 0 :: log0 ∧
      sb_WsOk {} (.hdr 0 :: .linkHdr :: ws) ∧ replay (.hdr 0 :: .linkHdr :: ws) = s'.files := by
  have hl : Live b := ⟨by rw [ht]; exact Nat.zero_lt_one, by rw [hk]; exact Nat.zero_lt_one⟩
  obtain ⟨ws, hl1, hf, hok⟩ := h.sb_ok hl hz
  have hb : b.files = replay [.hdr 0, .linkHdr] := by
    rw [replay_headers]; simp only [State.files, ht, hk, hh]
  have hrep : ∀ l : List Write, replay (.hdr 0 :: .linkHdr :: l) = l.foldl Files.apply b.files := by
    intro l; rw [hb]; exact replay_append [.hdr 0, .linkHdr] l
  refine ⟨ws.reverse, by rw [List.reverse_reverse, hl1, hlog], ?_, by rw [hrep]; exact hf⟩
  refine ⟨trivial, trivial, ?_⟩
  have : (Files.apply (Files.apply {} (.hdr 0)) .linkHdr) = b.files := by
    rw [hb]; rfl
  rw [this]; exact hok

/-- `clear`: its two truncations and all its writes are admissible, whatever the files were -/
theorem sb_clear_ok (s : State) (d : Option Rule) (rs : Option (List (Bytes × Rule))) (f : Files)
    (hz : sb_NZ (s.clear d rs).1.log) : sb_EvOk f (s.stepEvents (.clear d rs)) := by
  obtain ⟨ws, hlog, hok, _⟩ := sb_base_ok (b := s.clearBase d rs) (log0 := s.log) rfl rfl rfl rfl
    (trace_clear s d rs) hz
  have e : s.stepWrites (.clear d rs) = .hdr 0 :: .linkHdr :: ws := by
    have h1 : (s.stepWrites (.clear d rs)).reverse ++ s.log = (ws.reverse ++ [.linkHdr, .hdr 0]) ++ s.log := by
      rw [← stepWrites_log]
      show (s.clear d rs).1.log = _
      rw [hlog, List.append_assoc]; rfl
    have h3 := congrArg List.reverse (List.append_cancel_right h1)
    simpa using h3
  rw [stepEvents_clear, e, sb_evOk_append, foldl_clearTruncations, sb_evOk_map_write]
  exact ⟨⟨trivial, trivial, trivial⟩, hok⟩

/-- one request, `clear` or not -/
theorem sb_stepEvents_ok (s : State) (hl : Live s) (op : Op) (hz : sb_NZ (s.step op).1.log) :
    sb_EvOk s.files (s.stepEvents op) ∧ (s.stepEvents op).foldl Files.applyE s.files = (s.step op).1.files := by
  cases hc : op.isClear with
  | false =>
    rw [stepEvents_noclear s op hc, sb_evOk_map_write, foldl_applyE_map_write]
    exact ⟨sb_step_ok s hl op hc hz, (step_cut s hl op hc).2.1⟩
  | true =>
    obtain ⟨d, rs, rfl⟩ := Op.eq_clear_of_isClear hc
    refine ⟨sb_clear_ok s d rs _ hz, ?_⟩
    rw [stepEvents_clear, List.foldl_append, foldl_clearTruncations, foldl_applyE_map_write]
    exact (clear_cut s d rs).2.1

theorem sb_events_ok : ∀ (ops : List Op) (s : State), Live s → sb_G s → sb_EvOk s.files (s.events ops)
  | [], _, _, _ => trivial
  | op :: ops, s, hl, hg => by
    have hg1 := sb_G_step hg op
    obtain ⟨h1, h2⟩ := sb_stepEvents_ok s hl op hg1.nz
    rw [events_cons, sb_evOk_append, h2]
    exact ⟨h1, sb_events_ok ops _ (live_step s hl op) hg1⟩

/-- **DISCIPLINE, for every history.** The whole event history of a session — the constructor's writes, then
    for each request its writes, preceded by the two truncations if it is a `clear` — starting from two empty
    stores: every storage call is admissible at the moment it is issued (headers first, appends onto an existing
    header, in-place cell writes onto an existing block ≥ 1). Any configuration, any constructor rules, any
    requests. -/
theorem sb_history_ok (cfg : Config) (dflt : Rule) (rules : List (Bytes × Rule)) (ops : List Op) :
    sb_EvOk {} (historyEvents cfg dflt rules ops) := by
  have hg : sb_G (State.fresh cfg dflt rules []).1 := sb_G_fresh cfg dflt rules [] (by intro c h; cases h)
  obtain ⟨ws, hlog, hok, hrep⟩ := sb_base_ok
    (b := ({ cfg := cfg, dflt := dflt, log := .linkHdr :: .hdr 0 :: [] } : State)) (log0 := [])
    rfl rfl rfl rfl (trace_fresh cfg dflt rules []) hg.nz
  have e : freshWrites cfg dflt rules = .hdr 0 :: .linkHdr :: ws := by
    unfold freshWrites; rw [hlog]; simp
  unfold historyEvents
  rw [sb_evOk_append, sb_evOk_map_write, foldl_applyE_map_write, e]
  refine ⟨hok, ?_⟩
  have : (Write.hdr 0 :: Write.linkHdr :: ws).foldl Files.apply {} = (State.fresh cfg dflt rules []).1.files := hrep
  rw [this]
  exact sb_events_ok ops _ (live_fresh cfg dflt rules []) hg

#print axioms sb_write_sim
#print axioms sb_history_ok

end Traph

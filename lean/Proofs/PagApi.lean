import Proofs.PagWalk
/-! C09 at the API level: `paginate_webentity_pages`, called again and again with the token of the
    previous answer, against `get_webentity_pages` / `get_webentity_crawled_pages`.

    Same plan as `Proofs/PagLinksApi.lean`: the request is the generic loop `Pag.gRun` over the whole walk
    (`paginatePages_none`) or over the items behind the item a token denotes (`paginatePages_token`);
    `pageEpisode_from` gives the episode from every resume point; `C09_episode` is the property. -/
namespace Traph
open State Pag

/-- how `paginate_webentity_pages` reads an item: a page (crawled, when only crawled pages are asked for) is
    counted, records the resume point and contributes itself with its crawled mark -/
def pageCls (s : State) (crawledOnly : Bool) : Cls GX (Bytes × Bool) where
  idx x := x.1
  path x := x.2.2.2
  mark x := (s.cell x.2.1).flags.page && (!crawledOnly || (s.cell x.2.1).flags.crawled)
  bear x := (s.cell x.2.1).flags.page && (!crawledOnly || (s.cell x.2.1).flags.crawled)
  out x := [(x.2.2.1, (s.cell x.2.1).flags.crawled)]

def State.PagAcc.toG (a : PagAcc) : GAcc (Bytes × Bool) :=
  { n := a.n, out := a.pages, lastI := a.lastI, lastPath := a.lastPath }

/-- number of pages marked crawled -/
def crawledCount (l : List (Bytes × Bool)) : Nat := (l.filter (·.2)).length

theorem crawledCount_append (l : List (Bytes × Bool)) (x : Bytes × Bool) :
    crawledCount (l ++ [x]) = if x.2 then crawledCount l + 1 else crawledCount l := by
  unfold crawledCount
  by_cases h : x.2 = true <;> simp [List.filter_append, h]

/-- the accumulators of the model are consistent: as many pages as counted, `c` of them crawled -/
def PInv (a : PagAcc) : Prop := a.pages.length = a.n ∧ a.c = crawledCount a.pages

/-- the answer assembled from the outcome of the loop -/
def mkPage : Bool × GAcc (Bytes × Bool) → Except Err PageChunk
  | (true, a) =>
    (match tokenOf a.lastI a.lastPath with
     | .error e => .error e
     | .ok t => .ok { done := false, count := a.n, crawled := crawledCount a.out, pages := a.out, token := some t })
  | (false, a) => .ok { done := true, count := a.n, crawled := crawledCount a.out, pages := a.out, token := none }

/-! ### the loops of the model are the generic loop -/

theorem pagesItems_bridge (s : State) (crawledOnly : Bool) (k i : Nat) (rest : List GX)
    (K : PagAcc → Except Err PageChunk)
    (hK : ∀ a, PInv a → K a = mkPage (gRun (pageCls s crawledOnly) k rest a.toG)) :
    ∀ (items : List Item) (acc : PagAcc), PInv acc →
      (match s.paginatePagesItems (some (k + 1)) crawledOnly i items acc with
        | .inl r => r
        | .inr a => K a)
      = mkPage (gRun (pageCls s crawledOnly) k (items.map (fun it => (i, it)) ++ rest) acc.toG)
  | [], acc, hinv => by simp [paginatePagesItems, hK acc hinv]
  | (b, lru, path) :: items, acc, hinv => by
    rw [List.map_cons, List.cons_append]
    by_cases hp : (s.cell b).flags.page = true
    · by_cases hc : (crawledOnly && !(s.cell b).flags.crawled) = true
      · -- an uncrawled page when only crawled pages are asked for
        have hb : (pageCls s crawledOnly).bear (i, b, lru, path) = false := by
          simp only [Bool.and_eq_true, Bool.not_eq_true'] at hc
          simp [pageCls, hc.1, hc.2]
        have := pagesItems_bridge s crawledOnly k i rest K hK items acc hinv
        rw [gRun_cons_go _ _ _ _ _ (Or.inl hb), gStep_skip _ _ _ hb hb]
        simp only [paginatePagesItems, hp, hc, Bool.not_true, Bool.false_eq_true, if_false, if_true]
        exact this
      · -- a counted page
        have hc' : (crawledOnly && !(s.cell b).flags.crawled) = false := by simpa using hc
        have hb : (pageCls s crawledOnly).bear (i, b, lru, path) = true := by
          simp only [pageCls, hp, Bool.true_and]
          cases crawledOnly <;> cases hcr : (s.cell b).flags.crawled <;> simp_all
        by_cases hstop : acc.n + 1 > k
        · have hd : decide (acc.n + 1 ≥ k + 1) = true := by simp; omega
          rw [gRun_cons_stop _ _ _ _ _ hb (show acc.toG.n + 1 > k from hstop)]
          simp only [paginatePagesItems, hp, hc', Bool.not_true, Bool.false_eq_true, if_false, if_true, hd,
            Nat.add_sub_cancel]
          obtain ⟨h1, h2⟩ := hinv
          rw [List.take_of_length_le (by omega), h2]
          rfl
        · have hd : decide (acc.n + 1 ≥ k + 1) = false := by simp; omega
          have hinv' : PInv { n := acc.n + 1, c := (if (s.cell b).flags.crawled then acc.c + 1 else acc.c), pages := acc.pages ++ [(lru, (s.cell b).flags.crawled)], lastPath := some path, lastI := some i } := by
            obtain ⟨h1, h2⟩ := hinv
            refine ⟨by simp [h1], ?_⟩
            simp only [crawledCount_append, h2]
          have := pagesItems_bridge s crawledOnly k i rest K hK items _ hinv'
          rw [gRun_cons_go _ _ _ _ _ (Or.inr (show ¬ acc.toG.n + 1 > k from hstop)), gStep_bear _ _ _ hb]
          simp only [paginatePagesItems, hp, hc', Bool.not_true, Bool.false_eq_true, if_false, hd]
          exact this
    · -- not a page
      have hp' : (s.cell b).flags.page = false := by simpa using hp
      have hb : (pageCls s crawledOnly).bear (i, b, lru, path) = false := by simp [pageCls, hp']
      have := pagesItems_bridge s crawledOnly k i rest K hK items acc hinv
      rw [gRun_cons_go _ _ _ _ _ (Or.inl hb), gStep_skip _ _ _ hb hb]
      simp only [paginatePagesItems, hp', Bool.not_false, if_true]
      exact this

theorem pagesPrefixes_bridge (s : State) (crawledOnly : Bool) (k : Nat) :
    ∀ (pfxs : List (Nat × Bytes)) (acc : PagAcc), PInv acc → PfxOk s pfxs →
      s.paginatePagesPrefixes (some (k + 1)) crawledOnly pfxs none acc
        = mkPage (gRun (pageCls s crawledOnly) k (gItems s pfxs) acc.toG)
  | [], acc, hinv, _ => by
    obtain ⟨_, h2⟩ := hinv
    simp [paginatePagesPrefixes, gItems, gRun, mkPage, State.PagAcc.toG, h2]
  | (i, p) :: rest, acc, hinv, hok => by
    obtain ⟨n, hn, hw⟩ := hok (i, p) (by simp)
    have hn' : s.lruNode (lruIter p) = some n := hn
    have hw' : WalkOk s p n (walkOf s p) := hw
    have ih := fun a ha => pagesPrefixes_bridge s crawledOnly k rest a ha hok.tail
    have key := pagesItems_bridge s crawledOnly k i (gItems s rest) _ ih (walkOf s p) acc hinv
    simp only [paginatePagesPrefixes, hn', hw'.full, gItems]
    cases hres : s.paginatePagesItems (some (k + 1)) crawledOnly i (walkOf s p) acc with
    | inl r => rw [hres] at key; exact key
    | inr a => rw [hres] at key; exact key

/-- resuming inside the first remaining prefix with a path number `webentity_inorder_iter` accepts -/
theorem pagesPrefixes_resume (s : State) (crawledOnly : Bool) (k : Nat)
    (i : Nat) (p : Bytes) (rest : List (Nat × Bytes)) (acc : PagAcc) (hinv : PInv acc)
    (hok : PfxOk s rest) {n path : Nat} {L1 : List Item} (hn : s.lruNode (lruIter p) = some n)
    (hres : s.weInorder n p (some path) = some L1) :
    s.paginatePagesPrefixes (some (k + 1)) crawledOnly ((i, p) :: rest) (some path) acc
      = mkPage (gRun (pageCls s crawledOnly) k (L1.map (fun it => (i, it)) ++ gItems s rest) acc.toG) := by
  have ih := fun a ha => pagesPrefixes_bridge s crawledOnly k rest a ha hok
  have key := pagesItems_bridge s crawledOnly k i (gItems s rest) _ ih L1 acc hinv
  simp only [paginatePagesPrefixes, hn, hres]
  cases hres' : s.paginatePagesItems (some (k + 1)) crawledOnly i L1 acc with
  | inl r => rw [hres'] at key; exact key
  | inr a => rw [hres'] at key; exact key

theorem pinv_init : PInv {} := ⟨rfl, rfl⟩

/-- the first call: the loop over the whole walk -/
theorem paginatePages_none {s : State} {ps : List Bytes} (hok : AllOk s ps) (crawledOnly : Bool) (k : Nat) :
    s.paginatePages ps (some k) none crawledOnly
      = mkPage (gRun (pageCls s crawledOnly) k (gItems s (enumFrom 0 ps)) {}) := by
  simp only [paginatePages, Option.map, List.drop_zero]
  exact pagesPrefixes_bridge s crawledOnly k _ {} pinv_init (pfxOk_of_allOk hok 0)

/-- a call with the token of any item of the whole walk: the loop over the items behind it -/
theorem paginatePages_token {s : State} {ps : List Bytes} (hok : AllOk s ps) (crawledOnly : Bool) (k : Nat)
    (pre : List GX) (x : GX) (post : List GX) (hG : gItems s (enumFrom 0 ps) = pre ++ x :: post) :
    s.paginatePages ps (some k) (some (buildToken x.1 x.2.2.2)) crawledOnly
      = mkPage (gRun (pageCls s crawledOnly) k post {}) := by
  obtain ⟨p, rest, L0, L1, _, hdrop, _, hL, hpost⟩ := gItems_split s ps 0 pre x post hG
  have hpf : PfxOk s ((x.1, p) :: rest) := by
    intro ip hip
    rw [← hdrop] at hip
    exact pfxOk_of_allOk hok 0 ip (List.mem_of_mem_drop hip)
  simp only [paginatePages, buildToken_ne_nil, parseToken_buildToken, Option.map, Bool.false_eq_true, if_false]
  rw [Nat.sub_zero] at hdrop
  rw [hdrop, hpost]
  obtain ⟨n, hn, hw⟩ := hpf (x.1, p) (by simp)
  exact pagesPrefixes_resume s crawledOnly k x.1 p rest {} pinv_init hpf.tail hn (hw.resume L0 x.2 L1 hL)

/-! ### episodes -/

/-- `PageEpisode s ps crawledOnly count tok chunks`: calling `paginate_webentity_pages` with `tok` and then
    with the token of every answer in turn never fails and yields `chunks`; the last answer, and only it,
    says done -/
def PageEpisode (s : State) (ps : List Bytes) (crawledOnly : Bool) (count : Nat) :
    Option Bytes → List PageChunk → Prop :=
  Episode (fun tok => s.paginatePages ps (some count) tok crawledOnly) (·.done) (·.token)

/-- the executable reading: at most `fuel` calls -/
def episodePages (s : State) (ps : List Bytes) (crawledOnly : Bool) (count fuel : Nat)
    (tok : Option Bytes) : Option (List PageChunk) :=
  runEpisode (fun tok => s.paginatePages ps (some count) tok crawledOnly) (·.done) (·.token) fuel tok

theorem mkPage_ok : MkOk mkPage (fun ch : PageChunk => ch.done) (·.token) where
  stop := by
    intro acc i p h1 h2
    exact ⟨{ done := false, count := acc.n, crawled := crawledCount acc.out, pages := acc.out,
             token := some (buildToken i p) }, by simp [mkPage, h1, h2, tokenOf], rfl, rfl⟩
  fin := by
    intro acc
    exact ⟨{ done := true, count := acc.n, crawled := crawledCount acc.out, pages := acc.out, token := none },
      by simp [mkPage], rfl, rfl⟩

theorem mkPage_fields {st : Bool} {acc : GAcc (Bytes × Bool)} {ch : PageChunk} (h : mkPage (st, acc) = .ok ch) :
    ch.pages = acc.out ∧ ch.count = acc.n ∧ ch.crawled = crawledCount acc.out := by
  cases st with
  | false => simp only [mkPage, Except.ok.injEq] at h; subst h; exact ⟨rfl, rfl, rfl⟩
  | true =>
    simp only [mkPage] at h
    split at h
    · cases h
    · cases h; exact ⟨rfl, rfl, rfl⟩

/-- `ch` is the answer for the segment `seg` -/
def PageAnswer (s : State) (crawledOnly : Bool) (ch : PageChunk) (seg : List GX) : Prop :=
  ∃ st, mkPage (st, gFold (pageCls s crawledOnly) seg {}) = .ok ch

theorem pageCls_outs_length (s : State) (crawledOnly : Bool) : ∀ (xs : List GX),
    ((pageCls s crawledOnly).outs xs).length = (pageCls s crawledOnly).cnt xs
  | [] => rfl
  | x :: xs => by
    rw [Cls.outs_cons, Cls.cnt_cons, List.length_append, pageCls_outs_length s crawledOnly xs]
    by_cases hb : (pageCls s crawledOnly).bear x = true
    · rw [if_pos hb, if_pos hb]; rfl
    · rw [if_neg hb, if_neg hb]; rfl

/-- an answer returns the counted pages of its segment, in order, their number, and how many are crawled -/
theorem PageAnswer.fields {s : State} {crawledOnly : Bool} {ch : PageChunk} {seg : List GX}
    (h : PageAnswer s crawledOnly ch seg) :
    ch.pages = (pageCls s crawledOnly).outs seg ∧ ch.count = ch.pages.length ∧
    ch.crawled = crawledCount ch.pages ∧ ch.pages.length = (pageCls s crawledOnly).cnt seg := by
  obtain ⟨st, hmk⟩ := h
  obtain ⟨h1, h2, h3⟩ := mkPage_fields hmk
  have e : ch.pages = (pageCls s crawledOnly).outs seg := by rw [h1, gFold_out]; simp
  refine ⟨e, ?_, by rw [h3, h1], by rw [e, pageCls_outs_length]⟩
  rw [h2, gFold_n, e, pageCls_outs_length]; simp

/-- the token of an answer is the token of a counted page of its segment -/
theorem PageAnswer.token {s : State} {crawledOnly : Bool} {ch : PageChunk} {seg : List GX}
    (h : PageAnswer s crawledOnly ch seg) {t : Bytes} (ht : ch.token = some t) :
    ∃ x ∈ seg, (pageCls s crawledOnly).bear x = true ∧ t = buildToken x.1 x.2.2.2 := by
  obtain ⟨st, hmk⟩ := h
  cases st with
  | false => simp only [mkPage, Except.ok.injEq] at hmk; subst hmk; cases ht
  | true =>
    simp only [mkPage] at hmk
    rcases gFold_last_mem (pageCls s crawledOnly) seg {} with ⟨h1, h2⟩ | ⟨z, hz, h1, h2, hm⟩
    · rw [h1, h2] at hmk
      simp [tokenOf] at hmk
    · rw [h1, h2] at hmk
      simp only [tokenOf, Except.ok.injEq] at hmk
      subst hmk
      simp only [Option.some.injEq] at ht
      refine ⟨z, hz, ?_, ht.symm⟩
      rcases hm with hm | hm <;> exact hm

/-- EPISODE, general form: if the call with `tok` is the loop over a tail `xs` of the walk, the episode from
    `tok` exists (no call fails, every token resumes), and its answers are, one by one, the answers for the
    segments of `xs` -/
theorem pageEpisode_of_call {s : State} {ps : List Bytes} (hok : AllOk s ps) (crawledOnly : Bool)
    (count : Nat) (hc : 1 ≤ count) (tok : Option Bytes) (xs : List GX)
    (hcall : s.paginatePages ps (some count) tok crawledOnly = mkPage (gRun (pageCls s crawledOnly) count xs {}))
    (hpre : ∃ pre, gItems s (enumFrom 0 ps) = pre ++ xs) :
    ∃ chunks segs, PageEpisode s ps crawledOnly count tok chunks ∧
      Segs (pageCls s crawledOnly) count xs segs ∧
      Forall2 (PageAnswer s crawledOnly) chunks segs := by
  obtain ⟨segs, hsegs⟩ := segs_exists (pageCls s crawledOnly) count hc xs.length xs (Nat.le_refl _)
  obtain ⟨chunks, hep, hf⟩ := episode_of_segs (call := fun tok => s.paginatePages ps (some count) tok crawledOnly)
    (pageCls s crawledOnly) mkPage_ok
    (gItems s (enumFrom 0 ps)) count hc
    (fun pre x post hG => paginatePages_token hok crawledOnly count pre x post hG)
    xs segs hsegs tok [] (by simp) hcall hpre
  exact ⟨chunks, segs, hep, hsegs, hf⟩

/-- EPISODE, from every resume point of the same state -/
theorem pageEpisode_from {s : State} {ps : List Bytes} (hok : AllOk s ps) (crawledOnly : Bool)
    (count : Nat) (hc : 1 ≤ count) (tok : Option Bytes) (xs : List GX)
    (hres : ResumeAt (gItems s (enumFrom 0 ps)) tok xs) :
    ∃ chunks segs, PageEpisode s ps crawledOnly count tok chunks ∧
      Segs (pageCls s crawledOnly) count xs segs ∧
      Forall2 (PageAnswer s crawledOnly) chunks segs := by
  apply pageEpisode_of_call hok crawledOnly count hc tok xs
  · rcases hres with ⟨rfl, rfl⟩ | ⟨pre, x, hG, rfl⟩
    · exact paginatePages_none hok crawledOnly count
    · exact paginatePages_token hok crawledOnly count pre x xs hG
  · rcases hres with ⟨_, rfl⟩ | ⟨pre, x, hG, _⟩
    · exact ⟨[], rfl⟩
    · exact ⟨pre ++ [x], by rw [hG]; simp⟩

/-! ### the paginated pages against the un-paginated answer -/

/-- what the node `(block, lru)` contributes to the answer: itself with its mark, if it is a page (and
    crawled, when only crawled pages are asked for) -/
def pgOut (s : State) (crawledOnly : Bool) (bl : Nat × Bytes) : List (Bytes × Bool) :=
  if (s.cell bl.1).flags.page && (!crawledOnly || (s.cell bl.1).flags.crawled)
  then [(bl.2, (s.cell bl.1).flags.crawled)] else []

theorem pageCls_outs_eq (s : State) (crawledOnly : Bool) : ∀ (xs : List GX),
    (pageCls s crawledOnly).outs xs = xs.flatMap (fun x => pgOut s crawledOnly (x.2.1, x.2.2.1))
  | [] => rfl
  | x :: xs => by
    rw [Cls.outs_cons, List.flatMap_cons, pageCls_outs_eq s crawledOnly xs]
    rfl

/-- the pages of one prefix in the order of the paginated request -/
def pagesOfPrefix (s : State) (crawledOnly : Bool) (p : Bytes) : List (Bytes × Bool) :=
  (walkOf s p).flatMap (fun it => pgOut s crawledOnly (it.1, it.2.1))

/-- the pages of the webentity in the order of the paginated request: prefix after prefix, each in order -/
def pageSeq (s : State) (ps : List Bytes) (crawledOnly : Bool) : List (Bytes × Bool) :=
  (pageCls s crawledOnly).outs (gItems s (enumFrom 0 ps))

theorem pageSeq_eq (s : State) (ps : List Bytes) (crawledOnly : Bool) :
    pageSeq s ps crawledOnly = ps.flatMap (pagesOfPrefix s crawledOnly) := by
  unfold pageSeq pagesOfPrefix
  rw [pageCls_outs_eq, gItems_flatMap s (fun it => pgOut s crawledOnly (it.1, it.2.1)) ps 0]

/-- within a prefix the pages come in strictly ascending byte order of their LRUs (hence without repetition) -/
theorem pagesOfPrefix_sorted {s : State} {ps : List Bytes} (hok : AllOk s ps) (crawledOnly : Bool)
    {p : Bytes} (hp : p ∈ ps) :
    ((pagesOfPrefix s crawledOnly p).map (·.1)).Pairwise (fun a b => lexLt a b = true) := by
  obtain ⟨n, _, hw⟩ := hok p hp
  have hsub : ∀ (l : List Item), ((l.flatMap (fun it => pgOut s crawledOnly (it.1, it.2.1))).map (·.1)).Sublist
      (l.map (·.2.1)) := by
    intro l
    induction l with
    | nil => simp
    | cons it l ih =>
      rw [List.flatMap_cons, List.map_append, List.map_cons]
      unfold pgOut
      split
      · exact List.Sublist.cons_cons _ ih
      · exact List.Sublist.cons _ ih
  exact List.Pairwise.sublist (hsub _) hw.sorted

theorem onePrefix_eq_flatMap (s : State) (crawledOnly : Bool) (l : List (Nat × Bytes)) :
    (if crawledOnly then
        ((l.filter (fun bl => (s.cell bl.1).flags.page)).map (fun bl => (bl.2, (s.cell bl.1).flags.crawled))).filter (·.2)
      else (l.filter (fun bl => (s.cell bl.1).flags.page)).map (fun bl => (bl.2, (s.cell bl.1).flags.crawled)))
      = l.flatMap (pgOut s crawledOnly) := by
  induction l with
  | nil => cases crawledOnly <;> rfl
  | cons bl l ih =>
    rw [List.flatMap_cons, ← ih]
    unfold pgOut
    cases crawledOnly <;> cases hp : (s.cell bl.1).flags.page <;> cases hc : (s.cell bl.1).flags.crawled <;>
      simp [hp, hc]

/-- the un-paginated answers, prefix by prefix -/
theorem pages_unpaginated {s : State} {ps : List Bytes} {all : List (Bytes × Bool)}
    (hall : s.webentityPages ps = .ok all) (crawledOnly : Bool) :
    (∀ p ∈ ps, (s.lruNode (lruIter p)).isSome = true) ∧
    (if crawledOnly then all.filter (·.2) else all) = ps.flatMap (fun p => match s.lruNode (lruIter p) with
      | some n => (s.weDfs n p none).flatMap (pgOut s crawledOnly)
      | none => []) := by
  unfold webentityPages at hall
  rw [forPrefixes_eq] at hall
  split at hall
  · rename_i hps
    cases hall
    refine ⟨fun p hp => (List.all_eq_true.mp hps) p hp, ?_⟩
    have : ∀ p, (match s.lruNode (lruIter p) with
        | some n => (s.weDfs n p none).flatMap (pgOut s crawledOnly)
        | none => []) =
        (if crawledOnly then (match s.lruNode (lruIter p) with
          | some n => ((s.weDfs n p none).filter (fun (bl : Nat × Bytes) => (s.cell bl.1).flags.page)).map
              (fun (bl : Nat × Bytes) => (bl.2, (s.cell bl.1).flags.crawled))
          | none => []).filter (·.2)
         else (match s.lruNode (lruIter p) with
          | some n => ((s.weDfs n p none).filter (fun (bl : Nat × Bytes) => (s.cell bl.1).flags.page)).map
              (fun (bl : Nat × Bytes) => (bl.2, (s.cell bl.1).flags.crawled))
          | none => [])) := by
      intro p
      cases s.lruNode (lruIter p) with
      | none => cases crawledOnly <;> rfl
      | some n => exact (onePrefix_eq_flatMap s crawledOnly _).symm
    simp only [this]
    cases crawledOnly with
    | false => rfl
    | true => simp only [if_true, List.filter_flatMap]; rfl
  · cases hall

/-- the pages of the whole walk are a rearrangement of the un-paginated answer -/
theorem walk_pages_perm {s : State} {ps : List Bytes} (hok : AllOk s ps) (crawledOnly : Bool) :
    (pageSeq s ps crawledOnly).Perm
      (ps.flatMap (fun p => match s.lruNode (lruIter p) with
        | some n => (s.weDfs n p none).flatMap (pgOut s crawledOnly)
        | none => [])) := by
  rw [pageSeq_eq]
  apply perm_flatMap_pointwise
  intro p hp
  obtain ⟨n, hn, hw⟩ := hok p hp
  rw [hn]
  have := List.Perm.flatMap_right (pgOut s crawledOnly) hw.perm
  rw [List.flatMap_map] at this
  exact this

/-- C09. In every state with the invariants, for every prefix list the un-paginated request answers,
    both settings of `crawled_only` and every page count ≥ 1: paging from the start, feeding every token back,
    never fails; the pages of the answers, concatenated, are the pages of the webentity prefix after prefix,
    each prefix in strictly ascending order (`pageSeq_eq`, `pagesOfPrefix_sorted`) — a rearrangement of the
    un-paginated answer; every answer reports its number of pages and of crawled pages; every answer but the
    last has exactly `count` pages, says not done and carries a token; the last says done; the number of
    calls is bounded. -/
theorem C09_episode {s : State} {t : T} (h : Shape s t) (hi : Inv s t) {ps : List Bytes}
    {all : List (Bytes × Bool)} (hall : s.webentityPages ps = .ok all) (crawledOnly : Bool)
    (count : Nat) (hc : 1 ≤ count) :
    ∃ chunks : List PageChunk,
      PageEpisode s ps crawledOnly count none chunks ∧
      chunks.flatMap (·.pages) = pageSeq s ps crawledOnly ∧
      (pageSeq s ps crawledOnly).Perm (if crawledOnly then all.filter (·.2) else all) ∧
      (∀ ch ∈ chunks, ch.count = ch.pages.length ∧ ch.crawled = crawledCount ch.pages) ∧
      (∀ ch ∈ chunks.dropLast, ch.done = false ∧ ch.pages.length = count ∧ ch.token.isSome = true) ∧
      (∃ l, chunks.getLast? = some l ∧ l.done = true ∧ l.token = none ∧ l.pages.length ≤ count) ∧
      chunks.length ≤ (pageSeq s ps crawledOnly).length / count + 1 := by
  obtain ⟨hps, hall'⟩ := pages_unpaginated hall crawledOnly
  have hok : AllOk s ps := allOk_of_shape h hi.wf hps
  obtain ⟨chunks, segs, hep, hsegs, hf⟩ :=
    pageEpisode_from hok crawledOnly count hc none _ (Or.inl ⟨rfl, rfl⟩)
  have hfields := hf.imp (fun ch seg (ha : PageAnswer s crawledOnly ch seg) => ha.fields)
  obtain ⟨hc1, ⟨lseg, hlseg, hlc, _⟩, _⟩ := hsegs.counts
  obtain ⟨hfl1, lch, hlch, hld, hlt⟩ := hep.flags
  refine ⟨chunks, hep, ?_, ?_, ?_, ?_, ?_, ?_⟩
  · rw [hfields.flatMap_eq (·.pages) ((pageCls s crawledOnly).outs) (fun _ _ hr => hr.1),
      ← outs_flatten, hsegs.flatten]; rfl
  · rw [hall']; exact walk_pages_perm hok crawledOnly
  · intro ch hch
    obtain ⟨seg, _, hr⟩ := hfields.mem_left ch hch
    exact ⟨hr.2.1, hr.2.2.1⟩
  · intro ch hch
    obtain ⟨seg, hseg, hr⟩ := hfields.dropLast.mem_left ch hch
    obtain ⟨d1, d2⟩ := hfl1 ch hch
    exact ⟨d1, by rw [hr.2.2.2]; exact hc1 seg hseg, d2⟩
  · obtain ⟨seg, hseg, hr⟩ := hfields.getLast? hlch
    rw [hlseg] at hseg
    cases hseg
    exact ⟨lch, hlch, hld, hlt, by rw [hr.2.2.2]; exact hlc⟩
  · rw [hf.length_eq]
    have := hsegs.length_le (pageCls s crawledOnly) hc
    unfold pageSeq
    rw [pageCls_outs_length]
    exact this

/-- C09, termination: iterating the calls with fuel `(number of pages) / count + 1` completes the episode -/
theorem C09_terminates {s : State} {t : T} (h : Shape s t) (hi : Inv s t) {ps : List Bytes}
    {all : List (Bytes × Bool)} (hall : s.webentityPages ps = .ok all) (crawledOnly : Bool)
    (count : Nat) (hc : 1 ≤ count) :
    ∃ chunks, episodePages s ps crawledOnly count ((pageSeq s ps crawledOnly).length / count + 1) none
        = some chunks ∧ PageEpisode s ps crawledOnly count none chunks := by
  obtain ⟨chunks, hep, _, _, _, _, _, hlen⟩ := C09_episode h hi hall crawledOnly count hc
  exact ⟨chunks, hep.run _ hlen, hep⟩

/-- C09, every resume point: for every item `x` of the walk (page or not, in whichever prefix) and every
    count ≥ 1, the episode started with the token of `x` exists and returns exactly the pages behind `x`,
    in order: nothing repeated, nothing skipped -/
theorem C09_resume_anywhere {s : State} {t : T} (h : Shape s t) (hi : Inv s t) {ps : List Bytes}
    {all : List (Bytes × Bool)} (hall : s.webentityPages ps = .ok all) (crawledOnly : Bool)
    (count : Nat) (hc : 1 ≤ count)
    (pre : List GX) (x : GX) (post : List GX) (hG : gItems s (enumFrom 0 ps) = pre ++ x :: post) :
    ∃ chunks, PageEpisode s ps crawledOnly count (some (buildToken x.1 x.2.2.2)) chunks ∧
      chunks.flatMap (·.pages) = post.flatMap (fun y => pgOut s crawledOnly (y.2.1, y.2.2.1)) ∧
      (∀ ch ∈ chunks.dropLast, ch.pages.length = count) := by
  obtain ⟨hps, _⟩ := pages_unpaginated hall crawledOnly
  have hok : AllOk s ps := allOk_of_shape h hi.wf hps
  obtain ⟨chunks, segs, hep, hsegs, hf⟩ :=
    pageEpisode_from hok crawledOnly count hc _ post (Or.inr ⟨pre, x, hG, rfl⟩)
  have hfields := hf.imp (fun ch seg (ha : PageAnswer s crawledOnly ch seg) => ha.fields)
  refine ⟨chunks, hep, ?_, ?_⟩
  · rw [hfields.flatMap_eq (·.pages) ((pageCls s crawledOnly).outs) (fun _ _ hr => hr.1),
      ← outs_flatten, hsegs.flatten, pageCls_outs_eq]
  · intro ch hch
    obtain ⟨seg, hseg, hr⟩ := hfields.dropLast.mem_left ch hch
    rw [hr.2.2.2]; exact hsegs.counts.1 seg hseg

/-- C09, issued tokens: every token an episode issues is the token of a counted page of the walk; hence
    (`C09_resume_anywhere`) it can be resumed, with any count -/
theorem C09_issued_tokens {s : State} {t : T} (h : Shape s t) (hi : Inv s t) {ps : List Bytes}
    {all : List (Bytes × Bool)} (hall : s.webentityPages ps = .ok all) (crawledOnly : Bool)
    (count : Nat) (hc : 1 ≤ count)
    {chunks : List PageChunk} (hep : PageEpisode s ps crawledOnly count none chunks)
    {ch : PageChunk} (hch : ch ∈ chunks) {tk : Bytes} (htk : ch.token = some tk) :
    ∃ pre x post, gItems s (enumFrom 0 ps) = pre ++ x :: post ∧ (s.cell x.2.1).flags.page = true ∧
      tk = buildToken x.1 x.2.2.2 := by
  obtain ⟨hps, _⟩ := pages_unpaginated hall crawledOnly
  have hok : AllOk s ps := allOk_of_shape h hi.wf hps
  obtain ⟨chunks', segs, hep', hsegs, hf⟩ :=
    pageEpisode_from hok crawledOnly count hc none _ (Or.inl ⟨rfl, rfl⟩)
  have := Episode.det hep hep'
  subst this
  obtain ⟨seg, hseg, ha⟩ := hf.mem_left ch hch
  obtain ⟨x, hx, hpg, e⟩ := ha.token htk
  have hxG : x ∈ gItems s (enumFrom 0 ps) := by
    rw [← hsegs.flatten]; exact List.mem_flatten.mpr ⟨seg, hseg, hx⟩
  obtain ⟨pre, post, e2⟩ := List.append_of_mem hxG
  refine ⟨pre, x, post, e2, ?_, e⟩
  have : ((s.cell x.2.1).flags.page && (!crawledOnly || (s.cell x.2.1).flags.crawled)) = true := hpg
  simp only [Bool.and_eq_true] at this
  exact this.1

/-- C09 for every reachable index state: after any history of write requests (well-formed, no `KeyError`
    answer, no `clear`) on a fresh index with any constructor rules, for every prefix list (one or several
    prefixes, any order) the un-paginated request answers, both settings of `crawled_only` and every page count
    ≥ 1, the conclusions of `C09_episode` hold, the pages come prefix after prefix, each prefix strictly
    ascending, every item of the walk is a resume point, and the iteration terminates within the stated
    number of calls -/
theorem C09_reachable (cfg : Config) (dflt : Rule) (rules : List (Bytes × Rule)) (ops : List Op)
    (hrules : ∀ ar ∈ rules, lruIter ar.1 ≠ [])
    (hop : ∀ op ∈ ops, ∀ d rs, op ≠ .clear d rs) (hwf : ∀ op ∈ ops, OpWf op)
    (hok : NoKeyErr (State.fresh cfg dflt rules []).1 ops)
    (s : State) (hs : s = (State.fresh cfg dflt rules []).1.run ops)
    (ps : List Bytes) (all : List (Bytes × Bool)) (hall : s.webentityPages ps = .ok all)
    (crawledOnly : Bool) (count : Nat) (hc : 1 ≤ count) :
    (∃ chunks : List PageChunk,
      PageEpisode s ps crawledOnly count none chunks ∧
      episodePages s ps crawledOnly count ((pageSeq s ps crawledOnly).length / count + 1) none = some chunks ∧
      chunks.flatMap (·.pages) = ps.flatMap (pagesOfPrefix s crawledOnly) ∧
      (ps.flatMap (pagesOfPrefix s crawledOnly)).Perm (if crawledOnly then all.filter (·.2) else all) ∧
      (∀ ch ∈ chunks, ch.count = ch.pages.length ∧ ch.crawled = crawledCount ch.pages) ∧
      (∀ ch ∈ chunks.dropLast, ch.done = false ∧ ch.pages.length = count ∧ ch.token.isSome = true) ∧
      (∃ l, chunks.getLast? = some l ∧ l.done = true ∧ l.token = none ∧ l.pages.length ≤ count)) ∧
    (∀ p ∈ ps, ((pagesOfPrefix s crawledOnly p).map (·.1)).Pairwise (fun a b => lexLt a b = true)) ∧
    (∀ pre x post, gItems s (enumFrom 0 ps) = pre ++ x :: post → ∀ count', 1 ≤ count' →
      ∃ chunks, PageEpisode s ps crawledOnly count' (some (buildToken x.1 x.2.2.2)) chunks ∧
        chunks.flatMap (·.pages) = post.flatMap (fun y => pgOut s crawledOnly (y.2.1, y.2.2.1))) := by
  subst hs
  obtain ⟨t, h, hi⟩ := inv_run cfg dflt rules ops hrules hop hwf hok
  obtain ⟨chunks, h1, h2, h3, h4, h5, h6, h7⟩ := C09_episode h hi hall crawledOnly count hc
  have hok' : AllOk _ ps := allOk_of_shape h hi.wf (pages_unpaginated hall crawledOnly).1
  rw [pageSeq_eq] at h2 h3
  refine ⟨⟨chunks, h1, h1.run _ h7, h2, h3, h4, h5, h6⟩, fun p hp => pagesOfPrefix_sorted hok' crawledOnly hp,
    fun pre x post hG count' hc' => ?_⟩
  obtain ⟨chunks', g1, g2, _⟩ := C09_resume_anywhere h hi hall crawledOnly count' hc' pre x post hG
  exact ⟨chunks', g1, g2⟩

/-! ### the model on a concrete index (kernel-checked evaluations): webentity 1 with prefixes `x|`, `y|` -/
section Examples

private def exX : Bytes := [120, 124]
private def exY : Bytes := [121, 124]
private def exPg (p : Bytes) (l : List Nat) : Bytes := p ++ l ++ [124]
private def exS : State :=
  (State.fresh {} .never [] []).1.run
    [.create [exX, exY], .addPage (exPg exX [50]) true, .addPage (exPg exX [49]) false,
     .addPage (exPg exY [109]) true, .addPage (exPg exY [109, 109]) false, .addPage (exPg exY [110]) true]

/-- DFS order of the un-paginated request … -/
example : (exS.webentityPages [exX, exY]).toOption
    = some [(exPg exX [50], true), (exPg exX [49], false), (exPg exY [109], true), (exPg exY [109, 109], false),
            (exPg exY [110], true)] := by decide
/-- … ascending order, prefix after prefix, of the paginated one -/
example : (episodePages exS [exX, exY] false 2 4 none).map (fun cs => cs.map (·.pages))
    = some [[(exPg exX [49], false), (exPg exX [50], true)],
            [(exPg exY [109, 109], false), (exPg exY [109], true)],
            [(exPg exY [110], true)]] := by decide
example : (episodePages exS [exX, exY] false 2 4 none).map (fun cs => cs.map (fun c => (c.done, c.count, c.crawled)))
    = some ([(false, 2, 1), (false, 2, 1), (true, 1, 1)] : List (Bool × Nat × Nat)) := by decide
example : (episodePages exS [exX, exY] true 2 4 none).map (fun cs => cs.map (·.pages))
    = some [[(exPg exX [50], true), (exPg exY [109], true)], [(exPg exY [110], true)]] := by decide

end Examples

end Traph

section
open Traph
#print axioms pageEpisode_from
#print axioms C09_episode
#print axioms C09_terminates
#print axioms C09_resume_anywhere
#print axioms C09_issued_tokens
#print axioms C09_reachable
end

import Proofs.ParentInv
import Proofs.ParentInsert
import Proofs.Resolve
/-! C02 / C03 / C08: the bottom-up reconstruction from a block (`node_parents_iter`, `windup_lru`,
    `windup_lru_for_webentity`) agrees with the top-down reading of the finite map: under the shape
    invariant and the parent invariant, for every entry `(p, b)`
    * `s.parents b` is the chain of the nodes stored under the proper prefixes of `p`, nearest first;
    * `s.windup b = p.flatten` (byte for byte);
    * `s.windupWe b` is the top-down resolution of `p` (what `follow_lru` computes). -/
namespace Traph
open State

/-- the ancestors of the node stored under `q` in `u`, nearest first: the cells matched by the descent,
    without the node itself, bottom-up -/
def T.ancestors (s : State) (u : T) (q : LRU) : List Nat :=
  (((u.pathCells s q).map (·.1)).dropLast).reverse

theorem parentsGo_succ (s : State) (fuel b : Nat) :
    s.parentsGo (fuel + 1) b =
      if (s.cell b).parent = 0 then [] else (s.cell b).parent :: s.parentsGo fuel (s.cell b).parent := rfl

/-- the bottom-up walk from an entry of a sibling tree whose nodes carry parent `par`: first the ancestors
    inside the tree, then whatever the walk does from `par` -/
theorem parentsGo_entry {s : State} : ∀ (u : T) (lo hi : Option Stem) (pre q : LRU) (b par f : Nat),
    OrdT s u lo hi → u.addrs.Nodup → Rep s u → ParOk s u par → (pre ++ q, b) ∈ u.entries s pre →
    s.parentsGo (f + q.length) b =
      u.ancestors s q ++ (if par = 0 then [] else par :: s.parentsGo f par) := by
  intro u
  induction u with
  | nil => intro _ _ _ _ _ _ _ _ _ _ _ h; simp [T.entries] at h
  | node a l c r ihl ihc ihr =>
    intro lo hi pre q b par f hord hnd hrep hp h
    have hn := T.nodup_node hnd
    obtain ⟨_, _, ol, or_, oc⟩ := id hord
    obtain ⟨ha0, _, rl, rc, rr⟩ := hrep
    obtain ⟨h0, hl, hr, hc⟩ := hp
    have h' := h
    simp only [T.entries, List.mem_append, List.mem_cons, Prod.mk.injEq] at h'
    rcases h' with hm | ⟨e1, e2⟩ | hm | hm
    · unfold T.ancestors
      rw [T.pathCells_node_left hord hnd hm]
      exact ihl _ _ pre q b par f ol hn.2.2.2.1 rl hl hm
    · have hq : q = [s.stemAt a] := List.append_cancel_left e1
      subst hq; subst e2
      unfold T.ancestors
      rw [T.pathCells_node_self]
      simp only [T.pathCells, List.map_cons, List.map_nil, List.dropLast_singleton, List.reverse_nil,
        List.nil_append, List.length_singleton]
      rw [parentsGo_succ, h0]
    · obtain ⟨x, rest, e⟩ := entries_prefix _ _ _ _ hm
      have hq : q = s.stemAt a :: x :: rest := by
        rw [List.append_assoc] at e
        simpa using List.append_cancel_left e
      subst hq
      have hm' : (pre ++ [s.stemAt a] ++ x :: rest, b) ∈ c.entries s (pre ++ [s.stemAt a]) := by
        rw [← e]; exact hm
      have ih := ihc _ _ (pre ++ [s.stemAt a]) (x :: rest) b a (f + 1) oc hn.2.2.2.2.1 rc hc hm'
      have hlen := pathCells_length_of_entry oc hn.2.2.2.2.1 hm'
      have hne : (c.pathCells s (x :: rest)).map (·.1) ≠ [] := by
        intro e0
        have := congrArg List.length e0
        simp only [List.length_map, hlen, List.length_cons, List.length_nil] at this
        omega
      unfold T.ancestors at ih ⊢
      rw [T.pathCells_node_self, List.map_cons, List.dropLast_cons_of_ne_nil hne, List.reverse_cons,
        List.append_assoc]
      have hfu : f + (s.stemAt a :: x :: rest).length = f + 1 + (x :: rest).length := by
        simp only [List.length_cons]; omega
      rw [hfu, ih, if_neg ha0, parentsGo_succ, h0]
      rfl
    · unfold T.ancestors
      rw [T.pathCells_node_right hord hnd hm]
      exact ihr _ _ pre q b par f or_ hn.2.2.2.2.2.1 rr hr hm

/-- an entry path below `pre` is no longer than the tree is big -/
theorem entries_length_le {s : State} : ∀ (u : T) (pre q : LRU) (b : Nat),
    (pre ++ q, b) ∈ u.entries s pre → q.length ≤ u.size := by
  intro u
  induction u with
  | nil => intro _ _ _ h; simp [T.entries] at h
  | node a l c r ihl ihc ihr =>
    intro pre q b h
    simp only [T.entries, List.mem_append, List.mem_cons, Prod.mk.injEq] at h
    simp only [T.size]
    rcases h with hm | ⟨e1, _⟩ | hm | hm
    · have := ihl pre q b hm; omega
    · have hq : q = [s.stemAt a] := List.append_cancel_left e1
      subst hq; simp; omega
    · obtain ⟨x, rest, e⟩ := entries_prefix _ _ _ _ hm
      have hq : q = s.stemAt a :: x :: rest := by
        rw [List.append_assoc] at e
        simpa using List.append_cancel_left e
      subst hq
      have := ihc (pre ++ [s.stemAt a]) (x :: rest) b (by rw [← e]; exact hm)
      simp only [List.length_cons] at this ⊢; omega
    · have := ihr pre q b hm; omega

/-- MAIN (C03): the ancestors reconstructed bottom-up from the block of an entry are the nodes stored under
    the proper prefixes of its path, nearest first -/
theorem parents_eq {s : State} {t : T} (h : Shape s t) (hp : ParOk s t 0) {p : LRU} {b : Nat}
    (hb : (p, b) ∈ t.entries s []) :
    s.parents b = (((t.pathCells s p).map (·.1)).dropLast).reverse := by
  have hlen := entries_length_le t [] p b (by simpa using hb)
  have hsz := h.size_le
  unfold State.parents
  have hf : s.trie.size + 1 = (s.trie.size + 1 - p.length) + p.length := by omega
  rw [hf, parentsGo_entry t none none [] p b 0 _ h.ord h.nodup h.rep hp (by simpa using hb)]
  simp [T.ancestors]

/-! ### the cells of the path of an entry -/

/-- the stems recorded by the descent are the stems of the cells matched -/
theorem pathCells_stemAt {s : State} : ∀ (stems : List Stem) (u : T), ∀ c ∈ u.pathCells s stems,
    s.stemAt c.1 = c.2 := by
  intro stems
  induction stems with
  | nil => intro u c h; simp [T.pathCells] at h
  | cons stem rest ih =>
    intro u c h
    cases hf : u.find s stem with
    | corrupt => simp [T.pathCells, hf] at h
    | missing q sl => simp [T.pathCells, hf] at h
    | found a =>
      rw [T.pathCells_cons_found hf, List.mem_cons] at h
      rcases h with rfl | h
      · exact (T.find_sound u a hf).2
      · exact ih _ c h

/-- the stems recorded by the descent are a prefix of the stems asked for -/
theorem pathCells_snd_take {s : State} : ∀ (stems : List Stem) (u : T),
    (u.pathCells s stems).map (·.2) = stems.take (u.pathCells s stems).length := by
  intro stems
  induction stems with
  | nil => intro u; simp [T.pathCells]
  | cons stem rest ih =>
    intro u
    cases hf : u.find s stem with
    | corrupt => simp [T.pathCells, hf]
    | missing q sl => simp [T.pathCells, hf]
    | found a =>
      rw [T.pathCells_cons_found hf]
      simp only [List.map_cons, List.length_cons, List.take_succ_cons, ih]

/-- for a stored path: the cells matched spell the path and end on the node -/
theorem pathCells_of_entry {s : State} {u : T} {lo hi : Option Stem} (hord : OrdT s u lo hi)
    (hnd : u.addrs.Nodup) {pre q : LRU} {b : Nat} (h : (pre ++ q, b) ∈ u.entries s pre) :
    ∃ cs x, u.pathCells s q = cs ++ [(b, x)] ∧ (u.pathCells s q).map (fun c => s.stemAt c.1) = q := by
  have hne : q ≠ [] := by
    obtain ⟨x, rest, e⟩ := entries_prefix _ _ _ _ h
    have := List.append_cancel_left e
    rw [this]; simp
  have hd := (descend_found_iff q u lo hi pre b hord hnd hne).mpr h
  obtain ⟨hlen, hlast⟩ := descend_found_last q u pre b hd
  have h2 : (u.pathCells s q).map (fun c => s.stemAt c.1) = q := by
    have e1 : (u.pathCells s q).map (fun c => s.stemAt c.1) = (u.pathCells s q).map (·.2) :=
      List.map_congr_left (fun c hc => pathCells_stemAt q u c hc)
    rw [e1, pathCells_snd_take, hlen, List.take_length]
  cases hl : (u.pathCells s q).getLast? with
  | none => rw [hl] at hlast; simp at hlast
  | some c =>
    rw [hl] at hlast
    simp only [Option.map_some, Option.some.injEq] at hlast
    obtain ⟨cs, hcs⟩ := List.getLast?_eq_some_iff.mp hl
    refine ⟨cs, c.2, ?_, h2⟩
    rw [hcs, ← hlast]

/-! ### `windup_lru` -/

theorem foldl_windup (s : State) : ∀ (l : List Nat) (acc : Bytes),
    l.reverse.foldl (fun acc p => s.stemAt p ++ acc) acc = (l.map s.stemAt).flatten ++ acc := by
  intro l
  induction l with
  | nil => intro acc; simp
  | cons x l ih =>
    intro acc
    rw [List.reverse_cons, List.foldl_append, ih]
    simp

/-- MAIN (C02): the LRU reconstructed bottom-up from the block of an entry is its path, byte for byte -/
theorem windup_eq {s : State} {t : T} (h : Shape s t) (hp : ParOk s t 0) {p : LRU} {b : Nat}
    (hb : (p, b) ∈ t.entries s []) : s.windup b = p.flatten := by
  obtain ⟨cs, x, hcs, hst⟩ := pathCells_of_entry (pre := []) h.ord h.nodup (by simpa using hb)
  unfold State.windup
  rw [parents_eq h hp hb, hcs]
  rw [hcs] at hst
  simp only [List.map_append, List.map_cons, List.map_nil, List.dropLast_concat]
  rw [foldl_windup, ← hst]
  simp only [List.map_append, List.map_cons, List.map_nil, List.map_map, List.flatten_append,
    List.flatten_cons, List.flatten_nil, List.append_nil]
  rfl

/-! ### `windup_lru_for_webentity` -/

theorem find_reverse_lastWe (s : State) : ∀ (l : List Nat),
    (match l.reverse.find? (fun p => (s.cell p).we ≠ 0) with
      | some p => (s.cell p).we
      | none => 0) = lastWe (l.map (fun p => (s.cell p).we)) := by
  intro l
  induction l with
  | nil => simp
  | cons x l ih =>
    rw [List.reverse_cons, List.find?_append, List.map_cons, lastWe_cons, lastWeFrom_eq, ← ih]
    cases hf : l.reverse.find? (fun p => (s.cell p).we ≠ 0) with
    | some p =>
      have hp := List.find?_some hf
      simp only [ne_eq, decide_eq_true_eq] at hp
      simp only [Option.some_or]
      rw [if_pos hp]
    | none =>
      simp only [Option.none_or]
      by_cases hx : (s.cell x).we ≠ 0
      · have : [x].find? (fun p => decide ((s.cell p).we ≠ 0)) = some x := by simp [hx]
        rw [this]; simp
      · have : [x].find? (fun p => decide ((s.cell p).we ≠ 0)) = none := by simp [hx]
        rw [this]
        simp only [ne_eq, Decidable.not_not] at hx
        simp [hx]

/-- MAIN (C08): the webentity found bottom-up from the block of an entry (nearest id at or above the node)
    is the top-down resolution of its path (the deepest prefix carrying an id) -/
theorem windupWe_eq {s : State} {t : T} (h : Shape s t) (hp : ParOk s t 0) {p : LRU} {b : Nat}
    (hb : (p, b) ∈ t.entries s []) : s.windupWe b = t.resolveAlong s p 0 := by
  obtain ⟨cs, x, hcs, _⟩ := pathCells_of_entry (pre := []) h.ord h.nodup (by simpa using hb)
  rw [T.resolveAlong_zero, hcs]
  unfold State.windupWe
  rw [parents_eq h hp hb, hcs]
  simp only [List.map_append, List.map_cons, List.map_nil, List.dropLast_concat]
  rw [lastWe_concat]
  have key := find_reverse_lastWe s (cs.map (·.1))
  rw [List.map_map] at key
  by_cases hw : (s.cell b).we ≠ 0
  · rw [if_pos hw, if_pos hw]
  · rw [if_neg hw, if_neg hw]
    exact key

/-- the same against the heap walk: bottom-up webentity = what `follow_lru` resolves the LRU to -/
theorem windupWe_eq_followLru {s : State} {t : T} (h : Shape s t) (hp : ParOk s t 0) {p : LRU} {b : Nat}
    (hb : (p, b) ∈ t.entries s []) : s.windupWe b = (s.followLru p).2.we := by
  have hne : p ≠ [] := by
    obtain ⟨x, rest, e⟩ := entries_prefix _ _ _ _ hb
    rw [e]; simp
  rw [followLru_we_resolveAlong h p hne]; exact windupWe_eq h hp hb

/-- the ancestors, prefix by prefix: the `k`-th ancestor (nearest first) is the node stored under the path
    shortened by `k + 1` stems -/
theorem parents_getElem {s : State} {t : T} (h : Shape s t) (hp : ParOk s t 0) {p : LRU} {b : Nat}
    (hb : (p, b) ∈ t.entries s []) :
    (s.parents b).length = p.length - 1 ∧
    ∀ k, k + 1 < p.length → ∃ a, (s.parents b)[k]? = some a ∧ (p.take (p.length - 1 - k), a) ∈ t.entries s [] := by
  have hlen := pathCells_length_of_entry (pre := []) h.ord h.nodup (by simpa using hb)
  rw [parents_eq h hp hb]
  refine ⟨by simp [hlen], ?_⟩
  intro k hk
  have hlt : p.length - 2 - k < (t.pathCells s p).length := by omega
  have hget : (t.pathCells s p)[p.length - 2 - k]? = some ((t.pathCells s p)[p.length - 2 - k]) :=
    List.getElem?_eq_getElem hlt
  have he := (pathCells_entries_getElem? p t none none [] h.ord h.nodup _ _ hget).1
  refine ⟨((t.pathCells s p)[p.length - 2 - k]).1, ?_, ?_⟩
  · rw [List.getElem?_reverse (by simp [hlen]; omega)]
    simp only [List.length_dropLast, List.length_map, hlen]
    rw [List.getElem?_dropLast]
    have e : p.length - 1 - 1 - k = p.length - 2 - k := by omega
    rw [if_pos (by simp [hlen]; omega), e, List.getElem?_map, hget]
    rfl
  · have e : p.length - 2 - k + 1 = p.length - 1 - k := by omega
    rw [e] at he
    simpa using he

/-- end to end: after `add_lru`, winding up from the returned block gives back the LRU, byte for byte, and
    the bottom-up webentity of the returned block is what `follow_lru` resolves the LRU to -/
theorem addLru_windup {s : State} {t : T} (h : Shape s t) (hp : ParOk s t 0) (stems : LRU) (hne : stems ≠ [])
    (flag : Bool) :
    (s.addLru stems flag).1.windup (s.addLru stems flag).2.1 = stems.flatten ∧
    (s.addLru stems flag).1.windupWe (s.addLru stems flag).2.1
      = ((s.addLru stems flag).1.followLru stems).2.we := by
  obtain ⟨t', gr, hp', hent⟩ := addLru_parOk h hp stems hne flag
  exact ⟨windup_eq gr.shape hp' hent, windupWe_eq_followLru gr.shape hp' hent⟩

end Traph

section
open Traph
#print axioms addLru_parOk
#print axioms addLru_windup
#print axioms parents_eq
#print axioms windup_eq
#print axioms windupWe_eq
#print axioms windupWe_eq_followLru
#print axioms parents_getElem
end

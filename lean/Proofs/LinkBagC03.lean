import Proofs.LinkBagQuery
/-! C03 at the level of whole request histories: for every history of well-formed write requests
    (without `clear`, none answering `KeyError`) on a fresh index, the reached state satisfies
    `LinkView` for the links submitted by the history, so every reading theorem of
    `Proofs/LinkBagQuery.lean` applies; the headline statements are spelled out tree-free below. -/
namespace Traph
open State

/-- the reached state, its (unique) ghost tree, and the three invariants the link queries are read
    back through; `IsPage` is "submitted as a page by some request of the history" -/
theorem linkView_run (cfg : Config) (dflt : Rule) (rules : List (Bytes × Rule)) (ops : List Op)
    (hrules : ∀ ar ∈ rules, lruIter ar.1 ≠ [])
    (hop : ∀ op ∈ ops, ∀ d rs, op ≠ .clear d rs) (hwf : ∀ op ∈ ops, OpWf op)
    (hok : NoKeyErr (State.fresh cfg dflt rules []).1 ops) :
    ∃ t, LinkView ((State.fresh cfg dflt rules []).1.run ops) t (ops.flatMap Op.links) ∧
      ∀ p, IsPage ((State.fresh cfg dflt rules []).1.run ops) t p ↔ ∃ op ∈ ops, ∃ x ∈ op.pages, x.1 = p := by
  obtain ⟨t, h, hi, g⟩ := C03_graph cfg dflt rules ops hrules hop hwf hok
  obtain ⟨t', h', hpages⟩ := C01_pages cfg dflt rules ops hrules hop hwf hok
  have e : t' = t := LinkBag.shape_unique h' h
  subst e
  exact ⟨t', ⟨h, hi, LinkBag.parOk_run cfg dflt rules ops hop h, g⟩, hpages⟩

/-! ### the weights, pair by pair -/

theorem LinkView.out_weight {s : State} {t : T} {L : List (Bytes × Bytes)} (v : LinkView s t L)
    {p q : LRU} (hp : IsPage s t p) (hq : IsPage s t q) (hne : q ≠ p) (n : Nat) :
    (p.flatten, q.flatten, n) ∈ s.pageLinks p.flatten false false true ↔ (0 < n ∧ n = nsub L p q) := by
  obtain ⟨_, b, _, hqb, _⟩ := isPage_node v.shape hq
  rw [v.mem_pageLinks hp]
  constructor
  · rintro (⟨q', hpos, _, e⟩ | ⟨hf, _⟩)
    · simp only [Prod.mk.injEq, true_and] at e
      obtain ⟨_, b', _, hq', _⟩ := isPage_node v.shape (nsub_pos_pages v.graph hpos).2
      have : q' = q := (flatten_inj v.inv hqb hq').mp e.1.symm
      subst this
      exact ⟨e.2 ▸ hpos, e.2⟩
    · cases hf
  · rintro ⟨hpos, rfl⟩
    exact Or.inl ⟨q, hpos, Or.inl ⟨rfl, hne⟩, rfl⟩

theorem LinkView.in_weight {s : State} {t : T} {L : List (Bytes × Bytes)} (v : LinkView s t L)
    {p q : LRU} (hp : IsPage s t p) (hq : IsPage s t q) (hne : q ≠ p) (n : Nat) :
    (p.flatten, q.flatten, n) ∈ s.pageLinks q.flatten true false false ↔ (0 < n ∧ n = nsub L p q) := by
  obtain ⟨_, a, _, hpa, _⟩ := isPage_node v.shape hp
  rw [v.mem_pageLinks hq]
  constructor
  · rintro (⟨_, _, hc, _⟩ | ⟨_, p', hpos, _, e⟩)
    · rcases hc with ⟨hf, _⟩ | ⟨hf, _⟩ <;> cases hf
    · simp only [Prod.mk.injEq, true_and] at e
      obtain ⟨_, a', _, hp', _⟩ := isPage_node v.shape (nsub_pos_pages v.graph hpos).1
      have : p' = p := (flatten_inj v.inv hpa hp').mp e.1.symm
      subst this
      exact ⟨e.2 ▸ hpos, e.2⟩
  · rintro ⟨hpos, rfl⟩
    exact Or.inr ⟨rfl, p, hpos, fun e => hne e.symm, rfl⟩

theorem LinkView.self_weight {s : State} {t : T} {L : List (Bytes × Bytes)} (v : LinkView s t L)
    {p : LRU} (hp : IsPage s t p) (incIn incOut : Bool) (n : Nat) :
    (p.flatten, p.flatten, n) ∈ s.pageLinks p.flatten incIn true incOut ↔ (0 < n ∧ n = nsub L p p) := by
  obtain ⟨_, a, _, hpa, _⟩ := isPage_node v.shape hp
  rw [v.mem_pageLinks hp]
  constructor
  · rintro (⟨q', hpos, _, e⟩ | ⟨_, q', hpos, hne, e⟩)
    · simp only [Prod.mk.injEq, true_and] at e
      obtain ⟨_, b', _, hq', _⟩ := isPage_node v.shape (nsub_pos_pages v.graph hpos).2
      have : q' = p := (flatten_inj v.inv hpa hq').mp e.1.symm
      subst this
      exact ⟨e.2 ▸ hpos, e.2⟩
    · simp only [Prod.mk.injEq] at e
      obtain ⟨_, b', _, hq', _⟩ := isPage_node v.shape (nsub_pos_pages v.graph hpos).1
      exact absurd ((flatten_inj v.inv hpa hq').mp e.1.symm) hne
  · rintro ⟨hpos, rfl⟩
    exact Or.inl ⟨p, hpos, Or.inr ⟨rfl, rfl⟩, rfl⟩

/-- without the internal switch a self-link is not reported at all (it is stored on both sides, the
    out side files it as internal and the in side skips it) -/
theorem LinkView.self_hidden {s : State} {t : T} {L : List (Bytes × Bytes)} (v : LinkView s t L)
    {p : LRU} (hp : IsPage s t p) (incIn incOut : Bool) (n : Nat) :
    (p.flatten, p.flatten, n) ∉ s.pageLinks p.flatten incIn false incOut := by
  obtain ⟨_, a, _, hpa, _⟩ := isPage_node v.shape hp
  rw [v.mem_pageLinks hp]
  rintro (⟨q', hpos, hc, e⟩ | ⟨_, q', hpos, hne, e⟩)
  · simp only [Prod.mk.injEq, true_and] at e
    obtain ⟨_, b', _, hq', _⟩ := isPage_node v.shape (nsub_pos_pages v.graph hpos).2
    have : q' = p := (flatten_inj v.inv hpa hq').mp e.1.symm
    rcases hc with ⟨_, h1⟩ | ⟨hf, _⟩
    · exact h1 this
    · cases hf
  · simp only [Prod.mk.injEq] at e
    obtain ⟨_, b', _, hq', _⟩ := isPage_node v.shape (nsub_pos_pages v.graph hpos).1
    exact hne ((flatten_inj v.inv hpa hq').mp e.1.symm)

/-! ### C03 over histories -/

/-- a page of the history: an LRU some request submitted as a page -/
def Submitted (ops : List Op) (p : LRU) : Prop := ∃ op ∈ ops, ∃ x ∈ op.pages, x.1 = p

/-- C03, weights. For every history and every ordered pair of distinct pages `(p, q)`: the weight
    reported on the outbound side of `p` towards `q` and the weight reported on the inbound side of `q`
    from `p` are both the number of times `p → q` was submitted (and the pair is reported on either side
    iff that number is positive); a self-link is reported, as internal, with its submission count, and
    no answer of `get_page_links` repeats a triple. -/
theorem C03_history (cfg : Config) (dflt : Rule) (rules : List (Bytes × Rule)) (ops : List Op)
    (hrules : ∀ ar ∈ rules, lruIter ar.1 ≠ [])
    (hop : ∀ op ∈ ops, ∀ d rs, op ≠ .clear d rs) (hwf : ∀ op ∈ ops, OpWf op)
    (hok : NoKeyErr (State.fresh cfg dflt rules []).1 ops) :
    (∀ p q, Submitted ops p → Submitted ops q → q ≠ p → ∀ n,
      ((p.flatten, q.flatten, n) ∈ ((State.fresh cfg dflt rules []).1.run ops).pageLinks p.flatten false false true ↔
        (0 < n ∧ n = nsub (ops.flatMap Op.links) p q)) ∧
      ((p.flatten, q.flatten, n) ∈ ((State.fresh cfg dflt rules []).1.run ops).pageLinks q.flatten true false false ↔
        (0 < n ∧ n = nsub (ops.flatMap Op.links) p q))) ∧
    (∀ p, Submitted ops p → ∀ incIn incOut n,
      ((p.flatten, p.flatten, n) ∈ ((State.fresh cfg dflt rules []).1.run ops).pageLinks p.flatten incIn true incOut ↔
        (0 < n ∧ n = nsub (ops.flatMap Op.links) p p)) ∧
      (p.flatten, p.flatten, n) ∉ ((State.fresh cfg dflt rules []).1.run ops).pageLinks p.flatten incIn false incOut) ∧
    (∀ p, Submitted ops p → ∀ incIn incInt incOut,
      (((State.fresh cfg dflt rules []).1.run ops).pageLinks p.flatten incIn incInt incOut).Nodup) := by
  obtain ⟨t, v, hpg⟩ := linkView_run cfg dflt rules ops hrules hop hwf hok
  refine ⟨fun p q hp hq hne n => ?_, fun p hp incIn incOut n => ?_, fun p hp incIn incInt incOut => ?_⟩
  · exact ⟨v.out_weight ((hpg p).mpr hp) ((hpg q).mpr hq) hne n, v.in_weight ((hpg p).mpr hp) ((hpg q).mpr hq) hne n⟩
  · exact ⟨v.self_weight ((hpg p).mpr hp) incIn incOut n, v.self_hidden ((hpg p).mpr hp) incIn incOut n⟩
  · exact v.pageLinks_nodup ((hpg p).mpr hp) incIn incInt incOut

/-- C03, the complete answer of `get_page_links` for a page of the history, any switches -/
theorem C03_pageLinks (cfg : Config) (dflt : Rule) (rules : List (Bytes × Rule)) (ops : List Op)
    (hrules : ∀ ar ∈ rules, lruIter ar.1 ≠ [])
    (hop : ∀ op ∈ ops, ∀ d rs, op ≠ .clear d rs) (hwf : ∀ op ∈ ops, OpWf op)
    (hok : NoKeyErr (State.fresh cfg dflt rules []).1 ops)
    (p : LRU) (hp : Submitted ops p) (incIn incInt incOut : Bool) (x : PageLink) :
    x ∈ ((State.fresh cfg dflt rules []).1.run ops).pageLinks p.flatten incIn incInt incOut ↔
      (∃ q, 0 < nsub (ops.flatMap Op.links) p q ∧ ((incOut = true ∧ q ≠ p) ∨ (incInt = true ∧ q = p)) ∧
        x = (p.flatten, q.flatten, nsub (ops.flatMap Op.links) p q)) ∨
      (incIn = true ∧ ∃ q, 0 < nsub (ops.flatMap Op.links) q p ∧ q ≠ p ∧
        x = (q.flatten, p.flatten, nsub (ops.flatMap Op.links) q p)) := by
  obtain ⟨t, v, hpg⟩ := linkView_run cfg dflt rules ops hrules hop hwf hok
  exact v.mem_pageLinks ((hpg p).mpr hp) incIn incInt incOut x

/-- C03, totals, enumerations, degrees. The global link count is the total number of submissions; the
    two enumerations are transposes of each other and list exactly the submitted links; the weighted
    degree figures of a page are the corresponding sums over the submitted links. -/
theorem C03_totals (cfg : Config) (dflt : Rule) (rules : List (Bytes × Rule)) (ops : List Op)
    (hrules : ∀ ar ∈ rules, lruIter ar.1 ≠ [])
    (hop : ∀ op ∈ ops, ∀ d rs, op ≠ .clear d rs) (hwf : ∀ op ∈ ops, OpWf op)
    (hok : NoKeyErr (State.fresh cfg dflt rules []).1 ops) :
    ((State.fresh cfg dflt rules []).1.run ops).countLinks2 = 2 * (ops.flatMap Op.links).length ∧
    (∀ x y, (x, y) ∈ ((State.fresh cfg dflt rules []).1.run ops).linksIter true ↔
      (y, x) ∈ ((State.fresh cfg dflt rules []).1.run ops).linksIter false) ∧
    (∀ x y, (x, y) ∈ ((State.fresh cfg dflt rules []).1.run ops).linksIter true ↔
      ∃ st ∈ ops.flatMap Op.links, x = (lruIter st.1).flatten ∧ y = (lruIter st.2).flatten) ∧
    (∀ p, Submitted ops p →
      ((State.fresh cfg dflt rules []).1.run ops).pageDegree p.flatten .outdeg true =
        ((ops.flatMap Op.links).filter (fun st => decide (lruIter st.1 = p ∧ lruIter st.2 ≠ p))).length ∧
      ((State.fresh cfg dflt rules []).1.run ops).pageDegree p.flatten .indeg true =
        ((ops.flatMap Op.links).filter (fun st => decide (lruIter st.2 = p ∧ lruIter st.1 ≠ p))).length ∧
      ((State.fresh cfg dflt rules []).1.run ops).pageDegree p.flatten .deg true =
        ((ops.flatMap Op.links).filter (fun st => decide (lruIter st.1 = p))).length +
        ((ops.flatMap Op.links).filter (fun st => decide (lruIter st.2 = p ∧ lruIter st.1 ≠ p))).length) := by
  obtain ⟨t, v, hpg⟩ := linkView_run cfg dflt rules ops hrules hop hwf hok
  refine ⟨v.graph.countLinks2, v.linksIter_transpose, v.mem_linksIter_out, fun p hp => ?_⟩
  have hp' := (hpg p).mpr hp
  exact ⟨v.outdegree hp', v.indegree hp', v.degree hp'⟩

/-- C03, unweighted degree figures: the numbers of distinct pages linked to / from -/
theorem C03_degrees_unweighted (cfg : Config) (dflt : Rule) (rules : List (Bytes × Rule)) (ops : List Op)
    (hrules : ∀ ar ∈ rules, lruIter ar.1 ≠ [])
    (hop : ∀ op ∈ ops, ∀ d rs, op ≠ .clear d rs) (hwf : ∀ op ∈ ops, OpWf op)
    (hok : NoKeyErr (State.fresh cfg dflt rules []).1 ops) (p : LRU) (hp : Submitted ops p) :
    ∃ outAll outOther inOther : List LRU, outAll.Nodup ∧ outOther.Nodup ∧ inOther.Nodup ∧
      (∀ q, q ∈ outAll ↔ 0 < nsub (ops.flatMap Op.links) p q) ∧
      (∀ q, q ∈ outOther ↔ (0 < nsub (ops.flatMap Op.links) p q ∧ q ≠ p)) ∧
      (∀ q, q ∈ inOther ↔ (0 < nsub (ops.flatMap Op.links) q p ∧ q ≠ p)) ∧
      ((State.fresh cfg dflt rules []).1.run ops).pageDegree p.flatten .outdeg false = outOther.length ∧
      ((State.fresh cfg dflt rules []).1.run ops).pageDegree p.flatten .indeg false = inOther.length ∧
      ((State.fresh cfg dflt rules []).1.run ops).pageDegree p.flatten .deg false =
        outAll.length + inOther.length := by
  obtain ⟨t, v, hpg⟩ := linkView_run cfg dflt rules ops hrules hop hwf hok
  exact v.degree_unweighted ((hpg p).mpr hp)

/-- C03, symmetry of the stored lists themselves (blocks, multisets), in every reachable state -/
theorem C03_symmetry (cfg : Config) (dflt : Rule) (rules : List (Bytes × Rule)) (ops : List Op)
    (hrules : ∀ ar ∈ rules, lruIter ar.1 ≠ [])
    (hop : ∀ op ∈ ops, ∀ d rs, op ≠ .clear d rs) (hwf : ∀ op ∈ ops, OpWf op)
    (hok : NoKeyErr (State.fresh cfg dflt rules []).1 ops) (a b : Nat) :
    LinksOk ((State.fresh cfg dflt rules []).1.run ops) ∧
    count b (((State.fresh cfg dflt rules []).1.run ops).outBag a) =
      count a (((State.fresh cfg dflt rules []).1.run ops).inBag b) := by
  obtain ⟨t, _, _, g⟩ := C03_graph cfg dflt rules ops hrules hop hwf hok
  exact ⟨g.ok, g.symm a b⟩

#print axioms linkView_run
#print axioms C03_history
#print axioms C03_pageLinks
#print axioms C03_totals
#print axioms C03_degrees_unweighted
#print axioms C03_symmetry

end Traph

import Proofs.MarksInsert
/-! C13, part 3 (f): the webentity-editing requests of the API preserve "there is a ghost tree with the
    shape invariant and the mark invariant": `addPrefix`, `removePrefix`, `movePrefix`, `addPrefixes`,
    `createWebentity`, `createWebentityAuto`, `deleteWebentity`.
    (Parts 1–2 are in `Proofs/MarksWalk.lean`, 3 (a,b,e) in `Proofs/MarksInv.lean`, 3 (c,d) in
    `Proofs/MarksInsert.lean`.) -/
namespace Traph
open State

/-- the invariant of C13: a ghost tree with the shape invariant and the mark invariant -/
def MInv (s : State) : Prop := ∃ t, Shape s t ∧ MarkOk s t

theorem minv_of_trie_init (s : State) (h : s.trie = #[{}]) : MInv s :=
  ⟨.nil, shape_of_trie_init s h, trivial⟩

theorem minv_init : MInv ({} : State) := minv_of_trie_init _ rfl

/-! ### the finite map is prefix-closed -/

theorem entries_prefix_closed {s : State} : ∀ (u : T) (pre p : LRU) (b : Nat), (p, b) ∈ u.entries s pre →
    ∀ k, pre.length < k → k ≤ p.length → ∃ a, (p.take k, a) ∈ u.entries s pre := by
  intro u
  induction u with
  | nil => intro _ _ _ h; simp [T.entries] at h
  | node a l c r ihl ihc ihr =>
    intro pre p b h k hk1 hk2
    simp only [T.entries, List.mem_append, List.mem_cons, Prod.mk.injEq] at h
    have hmem : ∀ {q a'}, ((q, a') ∈ l.entries s pre ∨ (q = pre ++ [s.stemAt a] ∧ a' = a) ∨
        (q, a') ∈ c.entries s (pre ++ [s.stemAt a]) ∨ (q, a') ∈ r.entries s pre) →
        (q, a') ∈ (T.node a l c r).entries s pre := by
      intro q a' h
      simp only [T.entries, List.mem_append, List.mem_cons, Prod.mk.injEq]
      exact h
    rcases h with h | ⟨hp, _⟩ | h | h
    · obtain ⟨a', ha'⟩ := ihl pre p b h k hk1 hk2
      exact ⟨a', hmem (Or.inl ha')⟩
    · refine ⟨a, hmem (Or.inr (Or.inl ⟨?_, rfl⟩))⟩
      subst hp
      have : (pre ++ [s.stemAt a]).length = pre.length + 1 := by simp
      rw [List.take_of_length_le (by omega)]
    · by_cases hk : k = pre.length + 1
      · refine ⟨a, hmem (Or.inr (Or.inl ⟨?_, rfl⟩))⟩
        obtain ⟨x, rest, hp⟩ := entries_prefix _ _ _ _ h
        subst hp; subst hk
        have e : pre ++ [s.stemAt a] ++ x :: rest = pre ++ s.stemAt a :: (x :: rest) := by simp
        rw [e, take_append_cons]
      · obtain ⟨a', ha'⟩ := ihc (pre ++ [s.stemAt a]) p b h k (by simp; omega) hk2
        exact ⟨a', hmem (Or.inr (Or.inr (Or.inl ha')))⟩
    · obtain ⟨a', ha'⟩ := ihr pre p b h k hk1 hk2
      exact ⟨a', hmem (Or.inr (Or.inr (Or.inr ha')))⟩

/-! ### nodes whose webentity id may be set -/

/-- `b` is the node stored under `p`, and every node stored under a proper prefix of `p` is unmarked -/
def Anc (s : State) (t : T) (p : LRU) (b : Nat) : Prop :=
  (p, b) ∈ t.entries s [] ∧
    ∀ k, 0 < k → k < p.length → ∀ a, (p.take k, a) ∈ t.entries s [] → (s.cell a).flags.noChild = false

/-- block 1 (the top of the tree, or no node at all), or a node all of whose ancestors are unmarked -/
def Settable (s : State) (t : T) (n : Nat) : Prop := n = 1 ∨ ∃ p, Anc s t p n

theorem Le.noChild_false {s s' : State} (h : s ⊑ s') {a : Nat} (ha : a < s.trie.size)
    (hf : (s.cell a).flags.noChild = false) : (s'.cell a).flags.noChild = false := by
  cases hc : (s'.cell a).flags.noChild with
  | false => rfl
  | true => have := h.cell_noChild ha hc; rw [hf] at this; cases this

/-- later insertions keep a node settable: its path and the paths of its ancestors stay where they are,
    and flags are only ever cleared -/
theorem Anc.grow {stems : LRU} {s s' : State} {t t' : T} {p : LRU} {b : Nat} (ha : Anc s t p b)
    (hs : Shape s t) (gr : Grow stems s t s' t') (hle : s ⊑ s') : Anc s' t' p b := by
  refine ⟨gr.keep _ _ ha.1, fun k hk0 hk a hent => ?_⟩
  obtain ⟨a0, h0⟩ := entries_prefix_closed t [] p b ha.1 k (by simpa using hk0) (Nat.le_of_lt hk)
  have h1 := gr.keep _ _ h0
  have e : a = a0 := entries_path_injective gr.shape.ord gr.shape.nodup hent h1
  subst e
  exact hle.noChild_false (hs.rep.lt_size a (entries_addr_mem _ _ _ _ h0)) (ha.2 k hk0 hk a h0)

theorem Settable.grow {stems : LRU} {s s' : State} {t t' : T} {n : Nat} (h : Settable s t n)
    (hs : Shape s t) (gr : Grow stems s t s' t') (hle : s ⊑ s') : Settable s' t' n := by
  rcases h with h | ⟨p, h⟩
  · exact Or.inl h
  · exact Or.inr ⟨p, h.grow hs gr hle⟩

/-- a change of the heap that keeps stems and `noChild` flags keeps settable nodes settable -/
theorem Settable.of_noStruct {s s' : State} {t : T} {n : Nat} (h : Settable s t n) (ns : NoStruct s s')
    (hnc : ∀ j, (s'.cell j).flags.noChild = (s.cell j).flags.noChild) : Settable s' t n := by
  rcases h with h | ⟨p, h1, h2⟩
  · exact Or.inl h
  · have e : t.entries s' [] = t.entries s [] := T.entries_frame t [] (fun a _ => ns.stemAt a)
    refine Or.inr ⟨p, by rw [e]; exact h1, fun k hk0 hk a ha => ?_⟩
    rw [e] at ha
    rw [hnc]; exact h2 k hk0 hk a ha

theorem Settable.setWe {s : State} {t : T} {n : Nat} (h : Settable s t n) (m w : Nat) :
    Settable (s.modCell m (fun c => { c with we := w })) t n :=
  h.of_noStruct (noStruct_setWe s m w) (fun j => by rw [flags_setWe])

/-- setting the id of block 1 keeps the invariant: it is the top node of the tree, or no node at all -/
theorem setWe_root_markOk {s : State} {t : T} (hs : Shape s t) (hm : MarkOk s t) (w : Nat) :
    MarkOk (s.modCell 1 (fun c => { c with we := w })) t := by
  cases t with
  | nil => trivial
  | node a l c r =>
    have hroot := hs.root
    by_cases hsz : s.trie.size ≤ 1
    · rw [if_pos hsz] at hroot
      exact absurd hroot hs.rep.1
    · rw [if_neg hsz] at hroot
      simp only [T.root_node] at hroot
      subst hroot
      refine setWe_markOk hs.nodup hm (p := [s.stemAt 1]) (b := 1) ?_ ?_ w
      · simp [T.entries]
      · intro k hk0 hk; simp at hk; omega

theorem Settable.markOk {s : State} {t : T} {n : Nat} (h : Settable s t n) (hs : Shape s t)
    (hm : MarkOk s t) (w : Nat) : MarkOk (s.modCell n (fun c => { c with we := w })) t := by
  rcases h with rfl | ⟨p, h1, h2⟩
  · exact setWe_root_markOk hs hm w
  · exact setWe_markOk hs.nodup hm h1 h2 w

theorem shape_setWe {s : State} {t : T} (hs : Shape s t) (n w : Nat) :
    Shape (s.modCell n (fun c => { c with we := w })) t := (noStruct_setWe s n w).shape hs

/-- what `add_lru(lru, True)` returns is settable in the resulting index -/
theorem addLru_true_settable {s : State} {t : T} (hs : Shape s t) (hm : MarkOk s t) (stems : LRU) :
    ∃ t', Shape (s.addLru stems true).1 t' ∧ MarkOk (s.addLru stems true).1 t' ∧
      Settable (s.addLru stems true).1 t' (s.addLru stems true).2.1 ∧
      ∀ m, Settable s t m → Settable (s.addLru stems true).1 t' m := by
  cases stems with
  | nil => exact ⟨t, hs, hm, Or.inl rfl, fun _ h => h⟩
  | cons x r =>
    obtain ⟨t', gr, hm', hent, hu⟩ := addLru_true_unmarks hs hm (x :: r) (by simp)
    exact ⟨t', gr.shape, hm', Or.inr ⟨_, hent, hu⟩,
      fun m h => h.grow hs gr (addLru_le s (x :: r) true hs.live (by simp)).1⟩

/-! ### single-prefix requests -/

/-- `add_prefix_to_webentity` -/
theorem addPrefix_markOk {s : State} (h : MInv s) (pfx : Bytes) (weid : Nat) :
    MInv (s.addPrefix pfx weid).1 := by
  obtain ⟨t, hs, hm⟩ := h
  obtain ⟨t', hs', hm', hset, _⟩ := addLru_true_settable hs hm (lruIter pfx)
  rcases ha : s.addLru (lruIter pfx) true with ⟨s1, n, hh⟩
  rw [ha] at hs' hm' hset
  simp only [addPrefix, ha]
  split
  · exact ⟨t', hs', hm'⟩
  · exact ⟨t', shape_setWe hs' n weid, hset.markOk hs' hm' weid⟩

theorem addLru_minv {s : State} (h : MInv s) (stems : LRU) (flag : Bool) : MInv (s.addLru stems flag).1 := by
  obtain ⟨t, hs, hm⟩ := h
  cases stems with
  | nil => exact ⟨t, hs, hm⟩
  | cons x r =>
    obtain ⟨t', gr, hm', _⟩ := addLru_markOk hs hm (x :: r) (by simp) flag
    exact ⟨t', gr.shape, hm'⟩

theorem clearWe_minv {s : State} (h : MInv s) (b : Nat) : MInv (s.modCell b (fun c => { c with we := 0 })) := by
  obtain ⟨t, hs, hm⟩ := h
  exact ⟨t, shape_setWe hs b 0, clearWe_markOk hm b⟩

/-- `remove_prefix_from_webentity` -/
theorem removePrefix_markOk {s : State} (h : MInv s) (pfx : Bytes) (weid : Option Nat) :
    MInv (s.removePrefix pfx weid).1 := by
  have h1 := addLru_minv h (lruIter pfx) false
  rcases ha : s.addLru (lruIter pfx) false with ⟨s1, n, hh⟩
  rw [ha] at h1
  simp only at h1
  simp only [removePrefix, ha]
  repeat' split
  all_goals first | exact h1 | exact clearWe_minv h1 n

/-- `move_prefix_to_webentity` -/
theorem movePrefix_markOk {s : State} (h : MInv s) (pfx : Bytes) (target : Nat) (source : Option Nat) :
    MInv (s.movePrefix pfx target source).1 := by
  have h1 := removePrefix_markOk h pfx source
  unfold movePrefix
  split
  · rename_i heq; rw [heq] at h1; exact h1
  · rename_i s1 _ heq; rw [heq] at h1
    exact addPrefix_markOk h1 pfx target

/-! ### `__add_prefixes` and its callers -/

theorem mem_dictSet {α β : Type} [DecidableEq α] : ∀ (d : List (α × β)) (k : α) (v : β) (x : α × β),
    x ∈ dictSet d k v → x = (k, v) ∨ x ∈ d
  | [], k, v, x, h => by simp [dictSet] at h; exact Or.inl h
  | (k', v') :: rest, k, v, x, h => by
    simp only [dictSet] at h
    split at h
    · rename_i e
      rcases List.mem_cons.mp h with h | h
      · left; rw [h, e]
      · right; exact List.mem_cons_of_mem _ h
    · rcases List.mem_cons.mp h with h | h
      · right; rw [h]; exact List.mem_cons_self
      · rcases mem_dictSet rest k v x h with h | h
        · exact Or.inl h
        · right; exact List.mem_cons_of_mem _ h

/-- the scan of `__add_prefixes`: every block recorded as valid stays settable until the end -/
theorem addPrefixesScan_inv : ∀ (ps : List Bytes) (s : State) (valid : List (Bytes × Nat)) (nInv : Nat)
    (t : T), Shape s t → MarkOk s t → (∀ pn ∈ valid, Settable s t pn.2) →
    ∃ t', Shape (s.addPrefixesScan ps valid nInv).1 t' ∧ MarkOk (s.addPrefixesScan ps valid nInv).1 t' ∧
      ∀ pn ∈ (s.addPrefixesScan ps valid nInv).2.1, Settable (s.addPrefixesScan ps valid nInv).1 t' pn.2
  | [], s, valid, nInv, t, hs, hm, hv => ⟨t, hs, hm, hv⟩
  | p :: ps, s, valid, nInv, t, hs, hm, hv => by
    obtain ⟨t', hs', hm', hset, hold⟩ := addLru_true_settable hs hm (lruIter p)
    rcases ha : s.addLru (lruIter p) true with ⟨s1, n, hh⟩
    rw [ha] at hs' hm' hset hold
    simp only at hs' hm' hset hold
    simp only [addPrefixesScan, ha]
    split
    · exact addPrefixesScan_inv ps s1 valid _ t' hs' hm' (fun pn hpn => hold _ (hv pn hpn))
    · refine addPrefixesScan_inv ps s1 _ _ t' hs' hm' (fun pn hpn => ?_)
      rcases mem_dictSet _ _ _ _ hpn with e | e
      · rw [e]; exact hset
      · exact hold _ (hv pn e)

/-- the final loop of `__add_prefixes`: the new id is written into every valid block -/
theorem foldl_setWe_inv (w : Nat) : ∀ (l : List (Bytes × Nat)) (s : State) (t : T), Shape s t → MarkOk s t →
    (∀ pn ∈ l, Settable s t pn.2) →
    Shape (l.foldl (fun st pn => st.modCell pn.2 (fun c => { c with we := w })) s) t ∧
    MarkOk (l.foldl (fun st pn => st.modCell pn.2 (fun c => { c with we := w })) s) t
  | [], s, t, hs, hm, _ => ⟨hs, hm⟩
  | pn :: l, s, t, hs, hm, hv => by
    simp only [List.foldl_cons]
    exact foldl_setWe_inv w l _ t (shape_setWe hs pn.2 w) ((hv pn (by simp)).markOk hs hm w)
      (fun x hx => (hv x (by simp [hx])).setWe pn.2 w)

theorem noStruct_setHdr (s : State) (id : Nat) : NoStruct s (s.setHdr id) :=
  ⟨rfl, fun _ c hc => ⟨c, hc, rfl, rfl, rfl, rfl, rfl⟩⟩

/-- `__add_prefixes` -/
theorem addPrefixes_markOk {s : State} (h : MInv s) (prefixes : List Bytes) (best : Bool) :
    MInv (s.addPrefixes prefixes best).1 := by
  obtain ⟨t, hs, hm⟩ := h
  obtain ⟨t', hs', hm', hv⟩ := addPrefixesScan_inv prefixes s [] 0 t hs hm (by simp)
  rcases ha : s.addPrefixesScan prefixes [] 0 with ⟨s1, valid, nInv⟩
  rw [ha] at hs' hm' hv
  simp only at hs' hm' hv
  simp only [addPrefixes, ha]
  split
  · exact ⟨t', hs', hm'⟩
  · split
    · exact ⟨t', hs', hm'⟩
    · have ns := noStruct_setHdr s1 (s1.hdrId + 1)
      have hs2 : Shape s1.genId.1 t' := ns.shape hs'
      have hm2 : MarkOk s1.genId.1 t' := hm'.of_cells (fun _ hb => hb) (fun _ hb => hb)
      have hv2 : ∀ pn ∈ valid, Settable s1.genId.1 t' pn.2 :=
        fun pn hpn => (hv pn hpn).of_noStruct ns (fun _ => rfl)
      obtain ⟨h1, h2⟩ := foldl_setWe_inv s1.genId.2 valid s1.genId.1 t' hs2 hm2 hv2
      exact ⟨t', h1, h2⟩

/-- `create_webentity` -/
theorem createWebentity_markOk {s : State} (h : MInv s) (prefixes : List Bytes) :
    MInv (s.createWebentity prefixes).1 := by
  have h1 := addPrefixes_markOk h prefixes false
  unfold createWebentity
  split <;> rename_i heq <;> rw [heq] at h1 <;> exact h1

/-- `__create_webentity` (the automatic creation on `add_page`) -/
theorem createWebentityAuto_markOk {s : State} (h : MInv s) (pfx : Bytes) :
    MInv (s.createWebentityAuto pfx).1 := by
  have h1 := addPrefixes_markOk h (lruVariations pfx) true
  unfold createWebentityAuto
  split <;> rename_i heq <;> rw [heq] at h1 <;> exact h1

theorem foldl_clearWe_minv : ∀ (l : List (Bytes × Nat)) (s : State), MInv s →
    MInv (l.foldl (fun st pn => st.modCell pn.2 (fun c => { c with we := 0 })) s)
  | [], _, h => h
  | pn :: l, s, h => by
    simp only [List.foldl_cons]
    exact foldl_clearWe_minv l _ (clearWe_minv h pn.2)

/-- `delete_webentity` -/
theorem deleteWebentity_markOk {s : State} (h : MInv s) (weid : Nat) (prefixes : List Bytes) :
    MInv (s.deleteWebentity weid prefixes).1 := by
  unfold deleteWebentity
  split
  · exact h
  · exact foldl_clearWe_minv _ s h

/-! ### the query: what C13 says for an index satisfying the invariant -/

/-- for a node `a` of the tree (looked up by `lru_node`), the pruned walk of `childWebentities` meets
    exactly the ids attached at `a` or anywhere in its child subtree -/
theorem C13_children_exact_of_shape {s : State} {t : T} (hs : Shape s t) (hm : MarkOk s t)
    {a : Nat} (ha : a ∈ t.addrs) (lru : Bytes) (w : Nat) :
    ∃ l c r, Rep s (.node a l c r) ∧ (∀ x ∈ c.addrs, x ∈ t.addrs) ∧
      ∀ x, (x ≠ 0 ∧ x ≠ w ∧ ∃ b ∈ a :: c.addrs, (s.cell b).we = x) ↔
           (x ≠ 0 ∧ x ≠ w ∧ ∃ bl ∈ s.dfsIter (some (a, lru)) true, (s.cell bl.1).we = x) := by
  -- find the subtree rooted at `a`
  have key : ∀ u : T, Rep s u → u.addrs.Nodup → MarkOk s u → u.size ≤ s.trie.size → a ∈ u.addrs →
      ∃ l c r, Rep s (.node a l c r) ∧ (T.node a l c r).addrs.Nodup ∧ MarkOk s (.node a l c r) ∧
        (T.node a l c r).size ≤ s.trie.size ∧ ∀ x ∈ c.addrs, x ∈ u.addrs := by
    intro u
    induction u with
    | nil => intro _ _ _ _ h; simp [T.addrs] at h
    | node d l c r ihl ihc ihr =>
      intro hr hnd hmk hsz hmem
      obtain ⟨_, _, _, ndl, ndc, ndr, _, _, _⟩ := T.nodup_node hnd
      obtain ⟨ml, mr, mc, _⟩ := hmk
      simp only [T.addrs, List.mem_cons, List.mem_append] at hmem
      simp only [T.size] at hsz
      rcases hmem with rfl | (hmem | hmem) | hmem
      · exact ⟨l, c, r, hr, hnd, ⟨ml, mr, mc, by assumption⟩, by simp only [T.size]; exact hsz,
          fun x hx => by simp [T.addrs, hx]⟩
      · obtain ⟨l', c', r', h1, h2, h3, h4, h5⟩ := ihl hr.2.2.1 ndl ml (by omega) hmem
        exact ⟨l', c', r', h1, h2, h3, h4, fun x hx => by simp [T.addrs, h5 x hx]⟩
      · obtain ⟨l', c', r', h1, h2, h3, h4, h5⟩ := ihc hr.2.2.2.1 ndc mc (by omega) hmem
        exact ⟨l', c', r', h1, h2, h3, h4, fun x hx => by simp [T.addrs, h5 x hx]⟩
      · obtain ⟨l', c', r', h1, h2, h3, h4, h5⟩ := ihr hr.2.2.2.2 ndr mr (by omega) hmem
        exact ⟨l', c', r', h1, h2, h3, h4, fun x hx => by simp [T.addrs, h5 x hx]⟩
  obtain ⟨l, c, r, h1, h2, h3, h4, h5⟩ := key t hs.rep hs.nodup hm hs.size_le ha
  exact ⟨l, c, r, h1, h5, C13_children_exact h1 h2 h4 h3 lru w⟩

end Traph

section
open Traph
#print axioms dfsIter_pruned_from
#print axioms dfsIter_pruned_some
#print axioms prePruned_complete
#print axioms prePruned_sub
#print axioms C13_children_exact
#print axioms MarkOk.mono
#print axioms MarkOk.graft
#print axioms addLru_markOk
#print axioms addLru_true_unmarks
#print axioms addLru_true_unmarks_lruNode
#print axioms setWe_markOk
#print axioms addPrefix_markOk
#print axioms removePrefix_markOk
#print axioms movePrefix_markOk
#print axioms addPrefixes_markOk
#print axioms createWebentity_markOk
#print axioms createWebentityAuto_markOk
#print axioms deleteWebentity_markOk
#print axioms C13_children_exact_of_shape
end

import Traph
/-! C16 — the *system* semantics of cooperatively scheduled generators.

    A system is the shared index together with the family of generator state machines of `Traph/Co.lean`;
    `Sys.step σ i` advances machine `i` by one *section* (the code between two `yield`s), a schedule is a
    list of machine indices, `Sys.run` executes a schedule and records the trace of `(machine, status)`
    events. `Sys.run` is the model's `runSched` (theorem `runSched_eq_run`); the invariant principles at
    the end are what the "for every schedule" theorems of `Proofs/CoSchedules.lean` are instances of. -/
namespace Traph
open State

/-- the shared index and the private states of the generators -/
abbrev Sys := State × List CoSt

/-- a schedule names, turn after turn, the generator that runs its next section -/
abbrev Sched := List Nat

/-- advance generator `i` to its next yield; an index outside the family is skipped -/
def Sys.step (σ : Sys) (i : Nat) : Sys × Option CoOut :=
  match σ.2[i]? with
  | none => (σ, none)
  | some c => (((c.resume σ.1).1, σ.2.set i (c.resume σ.1).2.1), some (c.resume σ.1).2.2)

/-- run a schedule; the trace lists which generator ran and what its `next()` returned -/
def Sys.run (σ : Sys) : Sched → Sys × List (Nat × CoOut)
  | [] => (σ, [])
  | i :: rest =>
    match σ.step i with
    | (σ1, none) => Sys.run σ1 rest
    | (σ1, some o) => ((Sys.run σ1 rest).1, (i, o) :: (Sys.run σ1 rest).2)

theorem Sys.step_none {σ : Sys} {i : Nat} (h : σ.2[i]? = none) : σ.step i = (σ, none) := by
  unfold Sys.step; rw [h]

theorem Sys.step_some {σ : Sys} {i : Nat} {c : CoSt} (h : σ.2[i]? = some c) :
    σ.step i = (((c.resume σ.1).1, σ.2.set i (c.resume σ.1).2.1), some (c.resume σ.1).2.2) := by
  unfold Sys.step; rw [h]

theorem Sys.run_nil (σ : Sys) : σ.run [] = (σ, []) := rfl

theorem Sys.run_cons_none {σ : Sys} {i : Nat} (rest : Sched) (h : σ.2[i]? = none) :
    σ.run (i :: rest) = σ.run rest := by
  rw [Sys.run, Sys.step_none h]

theorem Sys.run_cons_some {σ : Sys} {i : Nat} {c : CoSt} (rest : Sched) (h : σ.2[i]? = some c) :
    σ.run (i :: rest) =
      ((Sys.run ((c.resume σ.1).1, σ.2.set i (c.resume σ.1).2.1) rest).1,
        (i, (c.resume σ.1).2.2) :: (Sys.run ((c.resume σ.1).1, σ.2.set i (c.resume σ.1).2.1) rest).2) := by
  rw [Sys.run, Sys.step_some h]

/-- the system semantics is the model's scheduler -/
theorem runSched_eq_run : ∀ (sched : Sched) (s : State) (cos : List CoSt),
    runSched s cos sched =
      ((Sys.run (s, cos) sched).1.1, (Sys.run (s, cos) sched).1.2, (Sys.run (s, cos) sched).2.map (·.2))
  | [], s, cos => rfl
  | i :: rest, s, cos => by
    cases h : cos[i]? with
    | none =>
      rw [Sys.run_cons_none (σ := (s, cos)) rest h, runSched, h]
      exact runSched_eq_run rest s cos
    | some c =>
      rw [Sys.run_cons_some (σ := (s, cos)) rest h, runSched, h]
      simp only [List.map_cons]
      rw [runSched_eq_run rest]

/-- schedules compose -/
theorem Sys.run_append : ∀ (a b : Sched) (σ : Sys),
    σ.run (a ++ b) = ((Sys.run (σ.run a).1 b).1, (σ.run a).2 ++ (Sys.run (σ.run a).1 b).2)
  | [], b, σ => by simp [Sys.run_nil]
  | i :: a, b, σ => by
    cases h : σ.2[i]? with
    | none =>
      rw [List.cons_append, Sys.run_cons_none _ h, Sys.run_cons_none _ h]
      exact Sys.run_append a b σ
    | some c =>
      rw [List.cons_append, Sys.run_cons_some _ h, Sys.run_cons_some _ h, Sys.run_append a b]
      rfl

/-- the family keeps its size: generators are neither created nor dropped by the scheduler -/
theorem Sys.run_length : ∀ (sched : Sched) (σ : Sys), (σ.run sched).1.2.length = σ.2.length
  | [], σ => rfl
  | i :: rest, σ => by
    cases h : σ.2[i]? with
    | none => rw [Sys.run_cons_none _ h]; exact Sys.run_length rest σ
    | some c =>
      rw [Sys.run_cons_some _ h]
      simp only
      rw [Sys.run_length rest]
      simp

/-- **invariant principle**: a predicate on systems that every section of every generator preserves
    holds after every schedule -/
theorem Sys.run_invariant (P : Sys → Prop)
    (hstep : ∀ (σ : Sys) (i : Nat) (c : CoSt), P σ → σ.2[i]? = some c →
      P ((c.resume σ.1).1, σ.2.set i (c.resume σ.1).2.1)) :
    ∀ (sched : Sched) (σ : Sys), P σ → P (σ.run sched).1
  | [], σ, h => h
  | i :: rest, σ, h => by
    cases hc : σ.2[i]? with
    | none => rw [Sys.run_cons_none _ hc]; exact Sys.run_invariant P hstep rest σ h
    | some c =>
      rw [Sys.run_cons_some _ hc]
      exact Sys.run_invariant P hstep rest _ (hstep σ i c h hc)

/-- **relational principle**: a reflexive, transitive relation between systems that every section
    (started in a system satisfying the invariant `P`) establishes, relates the system before and the
    system after every schedule; the invariant is kept -/
theorem Sys.run_relation (P : Sys → Prop) (R : Sys → Sys → Prop)
    (hrefl : ∀ σ, P σ → R σ σ) (htrans : ∀ σ1 σ2 σ3, R σ1 σ2 → R σ2 σ3 → R σ1 σ3)
    (hstep : ∀ (σ : Sys) (i : Nat) (c : CoSt), P σ → σ.2[i]? = some c →
      P ((c.resume σ.1).1, σ.2.set i (c.resume σ.1).2.1) ∧
      R σ ((c.resume σ.1).1, σ.2.set i (c.resume σ.1).2.1)) :
    ∀ (sched : Sched) (σ : Sys), P σ → P (σ.run sched).1 ∧ R σ (σ.run sched).1
  | [], σ, h => ⟨h, hrefl σ h⟩
  | i :: rest, σ, h => by
    cases hc : σ.2[i]? with
    | none => rw [Sys.run_cons_none _ hc]; exact Sys.run_relation P R hrefl htrans hstep rest σ h
    | some c =>
      rw [Sys.run_cons_some _ hc]
      obtain ⟨h1, r1⟩ := hstep σ i c h hc
      obtain ⟨h2, r2⟩ := Sys.run_relation P R hrefl htrans hstep rest _ h1
      exact ⟨h2, htrans _ _ _ r1 r2⟩

end Traph

import Proofs.PtrOkOps
import Proofs.PtrOkWalks
/-! C18, pointer safety of every cut: for every history of write requests on a fresh index and every
    cut of its program-ordered write sequence, reopening either refuses (torn append) or yields a state
    that satisfies `PtrOk` — every stored pointer is inside the files, and every tail announcement is
    honoured except possibly by the one node at the very end of the trie file that was being written. -/
namespace Traph
open State

/-- what `openCut` makes of the files of a live state -/
theorem openCut_ptrOk (ram m : State) (hp : PtrOk m) :
    ∃ st, openCut ram m.files 0 = .ok st ∧ PtrOk st ∧ st.trie = m.trie ∧ st.links = m.links := by
  obtain ⟨d, hd⟩ := hp
  obtain ⟨st, hst, e1, e2, _⟩ := openCut_files ram m hd.live
  exact ⟨st, hst, ⟨d, hd.of_eq e1 e2⟩, e1, e2⟩

/-- a torn write is refused, anything else is the whole-write cut -/
theorem cutOpen_cases (ram : State) (full : List Write) (k j : Nat) :
    cutOpen ram full k j = .error .traph ∨ cutOpen ram full k j = cutOpen ram full k 0 := by
  unfold cutOpen
  simp only
  cases full[k]? with
  | none => exact Or.inr rfl
  | some w =>
    simp only
    by_cases hw : w.isAppend (replay (full.take k)) = true
    · simp only [hw, if_true]
      by_cases hj : j = 0
      · subst hj; exact Or.inr rfl
      · exact Or.inl (by simp [openCut, hj])
    · simp only [hw]; exact Or.inr rfl

/-- PER-WRITE SAFETY, general form: from any `Whole` state with a faithful log, every cut of the writes
    of a history reopens to a `PtrOk` state below the completed history -/
theorem C18_cut_ptrOk (s0 : State) (hg : GoodLog s0) (hw : Whole s0) (ops : List Op)
    (hop : ∀ op ∈ ops, ∀ d rs, op ≠ .clear d rs) (hwf : ∀ op ∈ ops, op.WF) (ram : State) :
    let sf := s0.run ops
    ∀ k, k ≤ sf.log.length - s0.log.length →
      ∃ st, cutOpen ram sf.log.reverse (s0.log.length + k) 0 = .ok st ∧ PtrOk st ∧ st ⊑ sf := by
  intro sf k hk
  obtain ⟨ht, _⟩ := run_wt ops s0 hop hwf hw
  obtain ⟨m, hm, hle, hrep⟩ := ht.cut_state hg hw.ptrOk k hk
  obtain ⟨st, hst, hpst, e1, e2⟩ := openCut_ptrOk ram m hm
  refine ⟨st, ?_, hpst, (Le.of_eq e1.symm e2.symm).trans hle⟩
  rw [cutOpen_whole, hrep]; exact hst

/-- the files before and between the two header writes open as an empty index -/
theorem openCut_early (ram : State) (f : Files) (ht : f.trie.size = 0 ∨ f.trie = #[{}])
    (hl : f.links.size = 0 ∨ f.links = #[{}]) :
    ∃ st, openCut ram f 0 = .ok st ∧ Whole st ∧ st.trie = #[{}] ∧ st.links = #[{}] := by
  have h1 : (if f.trie.size = 0 then #[({} : Cell)] else f.trie) = #[{}] := by
    rcases ht with h | h
    · rw [if_pos h]
    · rw [h]; simp
  have h2 : (if f.links.size = 0 then #[({} : Stub)] else f.links) = #[{}] := by
    rcases hl with h | h
    · rw [if_pos h]
    · rw [h]; simp
  refine ⟨_, by simp only [openCut]; rfl, ?_, h1, h2⟩
  exact Whole.of_eq (whole_base ram.cfg ram.dflt []) h1 h2

/-- C18, "TRAVERSED AND QUERIED WITHOUT FAILURE", invariant part: take any history of write requests on
    a fresh index (any constructor rules; link requests with LRUs of at least one stem) and cut its
    program-ordered sequence of block writes anywhere (`k` whole writes plus `j` bytes of the next).
    Reopening either refuses the folder with the library's own error — exactly when an append is torn —
    or yields an index in which every stored pointer stays inside the two files (`PtrOk`), and which is
    below the completed history. -/
theorem C18_safe (cfg : Config) (dflt : Rule) (rules : List (Bytes × Rule)) (ops : List Op)
    (hop : ∀ op ∈ ops, ∀ d rs, op ≠ .clear d rs) (hwf : ∀ op ∈ ops, op.WF) (ram : State) :
    let sf := (State.fresh cfg dflt rules []).1.run ops
    ∀ k j, k ≤ sf.log.length →
      cutOpen ram sf.log.reverse k j = .error .traph ∨
      ∃ st, cutOpen ram sf.log.reverse k j = .ok st ∧ PtrOk st ∧ st ⊑ sf := by
  intro sf k j hk
  rcases cutOpen_cases ram sf.log.reverse k j with h | h
  · exact Or.inl h
  · right
    rw [h]
    have hb : Whole (baseState cfg dflt) := whole_base cfg dflt _
    have hwt : PTrace (baseState cfg dflt) sf ∧ Whole sf :=
      ((wt_fresh cfg dflt rules []).trans (run_wt ops _ hop hwf)) hb
    by_cases h2 : 2 ≤ k
    · have hb2 : (baseState cfg dflt).log.length = 2 := rfl
      obtain ⟨m, hm, hle, hrep⟩ := hwt.1.cut_state (goodLog_baseState cfg dflt) hb.ptrOk (k - 2)
        (by rw [hb2]; omega)
      rw [hb2] at hrep
      have e : 2 + (k - 2) = k := by omega
      rw [e] at hrep
      obtain ⟨st, hst, hpst, e1, e2⟩ := openCut_ptrOk ram m hm
      refine ⟨st, ?_, hpst, (Le.of_eq e1.symm e2.symm).trans hle⟩
      rw [cutOpen_whole, hrep]; exact hst
    · obtain ⟨ws, hlog⟩ := hwt.1.toTrace.log
      have hbl : (baseState cfg dflt).log = [.linkHdr, .hdr 0] := rfl
      have hrev : sf.log.reverse = [Write.hdr 0, Write.linkHdr] ++ ws.reverse := by
        rw [hlog, hbl, List.reverse_append]; rfl
      have hearly : ∃ st, openCut ram (replay (sf.log.reverse.take k)) 0 = .ok st ∧ Whole st ∧
          st.trie = #[{}] ∧ st.links = #[{}] := by
        have hk01 : k = 0 ∨ k = 1 := by omega
        rcases hk01 with rfl | rfl
        · exact openCut_early ram _ (Or.inl rfl) (Or.inl rfl)
        · have e : sf.log.reverse.take 1 = [Write.hdr 0] := by rw [hrev]; rfl
          rw [e]
          exact openCut_early ram _ (Or.inr rfl) (Or.inl rfl)
      obtain ⟨st, hst, hwst, e1, e2⟩ := hearly
      refine ⟨st, by rw [cutOpen_whole]; exact hst, hwst.ptrOk, ?_⟩
      have hle : baseState cfg dflt ⊑ sf := hwt.1.le
      exact (Le.of_eq (s := st) (s' := baseState cfg dflt) (by rw [e1]; rfl) (by rw [e2]; rfl)).trans hle

/-- at the end of every request of the history the whole trie file is complete -/
theorem C18_whole_run (cfg : Config) (dflt : Rule) (rules : List (Bytes × Rule)) (ops : List Op)
    (hop : ∀ op ∈ ops, ∀ d rs, op ≠ .clear d rs) (hwf : ∀ op ∈ ops, op.WF) :
    Whole ((State.fresh cfg dflt rules []).1.run ops) :=
  (((wt_fresh cfg dflt rules []).trans (run_wt ops _ hop hwf)) (whole_base cfg dflt _)).2

/-- what pointer safety gives the observers (strict twins: Proofs/PtrOkWalks.lean): every walk used by the
    queries, started where the queries start it, reads only blocks and stubs that are in the files, and
    hands on only blocks below the complete prefix `d` -/
structure WalksSafe (s : State) (d : Nat) : Prop where
  /-- the root is absent, complete, or the one incomplete node (then nothing points anywhere) -/
  root      : s.trie.size ≤ 1 ∨ 1 < d ∨ (d = 1 ∧ 1 < s.trie.size)
  lruNode   : (s.trie.size ≤ 1 ∨ 1 < d) → ∀ stems,
                s.lruNodeS stems = some (s.lruNode stems) ∧ ∀ n, s.lruNode stems = some n → n < d
  followLru : (s.trie.size ≤ 1 ∨ 1 < d) → ∀ stems,
                s.followLruS stems = some (s.followLru stems) ∧ ∀ n, (s.followLru stems).1 = some n → n < d
  dfsRoot   : (s.trie.size ≤ 1 ∨ 1 < d) → ∀ skip,
                s.dfsIterS none skip = some (s.dfsIter none skip) ∧ AllLt d (s.dfsIter none skip)
  dfsWe     : (s.trie.size ≤ 1 ∨ 1 < d) → s.dfsWeS = some s.dfsWe ∧ AllLt d s.dfsWe
  linksIter : (s.trie.size ≤ 1 ∨ 1 < d) → ∀ out, s.linksIterS out = some (s.linksIter out)
  rootOnly  : d = 1 → 1 < s.trie.size → ∀ skip, s.dfsIter none skip = [(1, s.stemAt 1)]
  stem      : ∀ b, b < d → s.stemAtS b = some (s.stemAt b)
  parents   : ∀ b, b < d → s.parentsS b = some (s.parents b) ∧ ∀ p ∈ s.parents b, p < d
  windup    : ∀ b, b < d → s.windupS b = some (s.windup b)
  dfsFrom   : ∀ b, b < d → ∀ lru skip, s.dfsIterS (some (b, lru)) skip = some (s.dfsIter (some (b, lru)) skip) ∧
                AllLt d (s.dfsIter (some (b, lru)) skip)
  weDfs     : ∀ b, b < d → ∀ lru depth, s.weDfsS b lru depth = some (s.weDfs b lru depth) ∧
                AllLt d (s.weDfs b lru depth)
  weInorder : ∀ b, b < d → ∀ lru pag, s.weInorderS b lru pag = some (s.weInorder b lru pag) ∧
                ∀ items, s.weInorder b lru pag = some items → AllLt d items
  heads     : ∀ b, (s.cell b).out < s.links.size ∧ (s.cell b).inn < s.links.size
  walk      : ∀ head, head < s.links.size → s.walkS head = some (s.walk head) ∧ ∀ t ∈ s.walk head, t < d
  weighted  : ∀ head, head < s.links.size → ∀ tw ∈ s.weighted head, tw.1 < d
  deduped   : ∀ head, head < s.links.size → ∀ t ∈ s.deduped head, t < d
  scans     : ∀ b ∈ s.allBlocks, 1 ≤ b ∧ b < s.trie.size
  inFile    : d ≤ s.trie.size

theorem PtrOkAt.walksSafe {s : State} {d : Nat} (h : PtrOkAt s d) : WalksSafe s d where
  root := h.root_cases
  lruNode := fun hr stems => h.lruNodeS_eq hr stems
  followLru := fun hr stems => h.followLruS_eq hr stems
  dfsRoot := fun hr skip => h.dfsIterS_root hr skip
  dfsWe := fun hr => h.dfsWeS_eq hr
  linksIter := fun hr out => h.linksIterS_eq hr out
  rootOnly := fun hd h1 skip => by subst hd; exact h.dfsIter_dangling_root h1 skip
  stem := fun _ hb => h.stemAtS_eq hb
  parents := fun _ hb => h.parentsS_eq hb
  windup := fun _ hb => h.windupS_eq hb
  dfsFrom := fun _ hb lru skip => h.dfsIterS_from hb lru skip
  weDfs := fun _ hb lru depth => h.weDfsS_eq hb lru depth
  weInorder := fun _ hb lru pag => h.weInorderS_eq hb lru pag
  heads := h.heads
  walk := fun _ hh => h.walkS_eq hh
  weighted := fun _ hh => h.weighted_lt hh
  deduped := fun _ hh => h.deduped_lt hh
  scans := fun _ hb => mem_allBlocks_ptr hb
  inFile := h.dle

/-- C18, "TRAVERSED AND QUERIED WITHOUT FAILURE": every cut of every history either is refused at open
    or opens to an index whose walks never read outside the two files -/
theorem C18_safe_walks (cfg : Config) (dflt : Rule) (rules : List (Bytes × Rule)) (ops : List Op)
    (hop : ∀ op ∈ ops, ∀ d rs, op ≠ .clear d rs) (hwf : ∀ op ∈ ops, op.WF) (ram : State) :
    let sf := (State.fresh cfg dflt rules []).1.run ops
    ∀ k j, k ≤ sf.log.length →
      cutOpen ram sf.log.reverse k j = .error .traph ∨
      ∃ st d, cutOpen ram sf.log.reverse k j = .ok st ∧ PtrOkAt st d ∧ WalksSafe st d ∧ st ⊑ sf := by
  intro sf k j hk
  rcases C18_safe cfg dflt rules ops hop hwf ram k j hk with h | ⟨st, hst, ⟨d, hd⟩, hle⟩
  · exact Or.inl h
  · exact Or.inr ⟨st, d, hst, hd, hd.walksSafe, hle⟩

/-- at a request boundary (no crash) the complete prefix is the whole file -/
theorem C18_walks_run (cfg : Config) (dflt : Rule) (rules : List (Bytes × Rule)) (ops : List Op)
    (hop : ∀ op ∈ ops, ∀ d rs, op ≠ .clear d rs) (hwf : ∀ op ∈ ops, op.WF) :
    let sf := (State.fresh cfg dflt rules []).1.run ops
    WalksSafe sf sf.trie.size :=
  PtrOkAt.walksSafe (C18_whole_run cfg dflt rules ops hop hwf)

/-- the hypothesis `Op.WF` is needed FOR THE MODEL: a stem-less LRU in a link request on an empty trie
    leaves stubs that target block 1 although the trie file has only its header block (the Python code
    creates an empty-stem root block in that situation, the model does not — the stubs are unreachable
    either way) -/
example : ¬ PtrOk ((State.fresh {} .never [] []).1.run [.addLinks [([], [])]]) := by
  rintro ⟨d, h⟩
  have h1 : (1 : Nat) < d := (h.stubs 1 { target := 1, prev := 0 } (by decide)).2
  have h2 : d ≤ 1 := h.dle
  omega

/-- the exception in `WalksSafe.root` is real: a first stem longer than one block (81 bytes here), cut
    after the head block of the root and before its tail block: two blocks in the file, block 1 announces a
    tail that is not there (`d = 1 < size`) -/
example :
    let sf := (State.fresh {} .never [] []).1.run [.addPage (List.replicate 80 97 ++ [124, 98, 124]) false]
    let f := replay (sf.log.reverse.take 3)
    f.trie.size = 2 ∧ (f.trie[1]?).map (·.flags.hasTail) = some true ∧ sf.trie.size = 4 := by
  decide

#print axioms C18_safe
#print axioms C18_safe_walks
#print axioms C18_cut_ptrOk
#print axioms C18_whole_run

end Traph

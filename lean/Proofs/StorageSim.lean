import Traph
/-! The file and memory back-ends simulate the abstract block list under the call discipline. -/
namespace Traph

/-! ### flatten helpers -/

theorem flatten_length_eq (n : Nat) (l : List Bytes) (h : ∀ x ∈ l, x.length = n) :
    l.flatten.length = l.length * n := by
  induction l with
  | nil => simp
  | cons x xs ih =>
    have hx : x.length = n := h x (by simp)
    have := ih (fun y hy => h y (by simp [hy]))
    simp only [List.flatten_cons, List.length_append, List.length_cons, hx, this, Nat.add_mul]
    omega

theorem flatten_take_mul (n : Nat) (l : List Bytes) (h : ∀ x ∈ l, x.length = n) (i : Nat) :
    l.flatten.take (i * n) = (l.take i).flatten := by
  induction l generalizing i with
  | nil => simp
  | cons x xs ih =>
    cases i with
    | zero => simp
    | succ k =>
      have hx : x.length = n := h x (by simp)
      have := ih (fun y hy => h y (by simp [hy])) k
      simp only [List.flatten_cons, List.take_succ_cons]
      rw [List.take_append, ← this, hx]
      have e : (k + 1) * n - n = k * n := by rw [Nat.add_mul]; omega
      rw [e, List.take_of_length_le (by rw [hx, Nat.add_mul]; omega)]

theorem flatten_drop_mul (n : Nat) (l : List Bytes) (h : ∀ x ∈ l, x.length = n) (i : Nat) :
    l.flatten.drop (i * n) = (l.drop i).flatten := by
  induction l generalizing i with
  | nil => simp
  | cons x xs ih =>
    cases i with
    | zero => simp
    | succ k =>
      have hx : x.length = n := h x (by simp)
      have := ih (fun y hy => h y (by simp [hy])) k
      simp only [List.flatten_cons, List.drop_succ_cons]
      rw [List.drop_append, ← this, hx]
      have e : (k + 1) * n - n = k * n := by rw [Nat.add_mul]; omega
      rw [e, List.drop_of_length_le (by rw [hx, Nat.add_mul]; omega), List.nil_append]

theorem flatten_take_drop (n : Nat) (l : List Bytes) (h : ∀ x ∈ l, x.length = n) (i : Nat) :
    (l.flatten.drop (i * n)).take n = l[i]?.getD [] := by
  rw [flatten_drop_mul n l h i]
  by_cases hi : i < l.length
  · rw [List.drop_eq_getElem_cons hi, List.flatten_cons]
    have hx : l[i].length = n := h _ (List.getElem_mem hi)
    rw [List.take_append, hx, Nat.sub_self, List.take_zero, List.append_nil,
      List.take_of_length_le (by omega)]
    simp [hi]
  · have : l.length ≤ i := by omega
    rw [List.drop_of_length_le this]
    simp [List.getElem?_eq_none this]

/-! ### abstraction relations -/

def FileSt.Abs (f : FileSt) (b : Blocks) : Prop := f.data = b.bytes
def MemSt.Abs (m : MemSt) (b : Blocks) : Prop := m.data = b.bytes

theorem Blocks.bytes_length (b : Blocks) (h : b.Wf) : b.bytes.length = b.blocks.length * b.bs :=
  flatten_length_eq b.bs b.blocks h.2

/-- the common read: `bs` bytes at an aligned offset are exactly the block there -/
theorem Blocks.slice_eq (b : Blocks) (hw : b.Wf) (off : Nat) (ha : off % b.bs = 0) :
    (let d := (b.bytes.drop off).take b.bs; if d.isEmpty then none else some d) = b.read off := by
  have e : off = off / b.bs * b.bs := (Nat.div_mul_cancel (Nat.dvd_of_mod_eq_zero ha)).symm
  have key := flatten_take_drop b.bs b.blocks hw.2 (off / b.bs)
  rw [← e] at key
  simp only [Blocks.bytes, Blocks.read, key]
  by_cases hi : off / b.bs < b.blocks.length
  · have hx : (b.blocks[off / b.bs]).length = b.bs := hw.2 _ (List.getElem_mem hi)
    have hne : b.blocks[off / b.bs] ≠ [] := by
      intro h0; rw [h0] at hx; have := hw.1; simp at hx; omega
    simp [List.getElem?_eq_getElem hi, hne]
  · have : b.blocks.length ≤ off / b.bs := by omega
    simp [List.getElem?_eq_none this]

theorem mmapRead_sim (b : Blocks) (hw : b.Wf) (off : Nat) (ha : off % b.bs = 0) :
    mmapRead b.bytes b.bs off = b.read off := b.slice_eq hw off ha

theorem MemSt.read_sim (m : MemSt) (b : Blocks) (h : m.Abs b) (hw : b.Wf) (off : Nat)
    (ha : off % b.bs = 0) : m.read b.bs off = b.read off := by
  unfold MemSt.read; rw [h]; exact b.slice_eq hw off ha

theorem FileSt.read_sim (f : FileSt) (b : Blocks) (h : f.Abs b) (hw : b.Wf) (off : Nat)
    (ha : off % b.bs = 0) :
    (f.read b.bs (some off)).2 = b.read off ∧ (f.read b.bs (some off)).1.Abs b := by
  refine ⟨?_, h⟩
  have := b.slice_eq hw off ha
  unfold FileSt.Abs at h
  simpa [FileSt.read, h] using this

/-! ### writes -/

/-- the splice at an aligned offset inside (or exactly at the end of) the store is the block update -/
theorem Blocks.splice_eq (b : Blocks) (hw : b.Wf) (data : Bytes) (off : Nat)
    (ha : off % b.bs = 0) (hle : off / b.bs ≤ b.blocks.length) :
    b.bytes.take off ++ data ++ b.bytes.drop (off + b.bs) = (b.write data (some off)).1.bytes := by
  have e : off = off / b.bs * b.bs := (Nat.div_mul_cancel (Nat.dvd_of_mod_eq_zero ha)).symm
  have e' : off + b.bs = (off / b.bs + 1) * b.bs := by rw [Nat.add_mul, ← e]; omega
  generalize off / b.bs = i at *
  have ht := flatten_take_mul b.bs b.blocks hw.2 i
  have hd := flatten_drop_mul b.bs b.blocks hw.2 (i + 1)
  simp only [Blocks.bytes, Blocks.write]
  rw [e', hd, e, ht, Nat.mul_div_cancel i hw.1]
  by_cases hi : i < b.blocks.length
  · rw [if_pos hi]
    simp only [List.set_eq_take_append_cons_drop, hi, if_true, List.flatten_append,
      List.flatten_cons, List.append_assoc]
  · rw [if_neg hi]
    have : b.blocks.length ≤ i := by omega
    simp [List.take_of_length_le this, List.drop_of_length_le (Nat.le_succ_of_le this)]

theorem Blocks.append_eq (b : Blocks) (data : Bytes) :
    b.bytes ++ data = (b.write data none).1.bytes := by
  simp [Blocks.bytes, Blocks.write]

theorem Blocks.write_bs (b : Blocks) (data : Bytes) (block : Option Nat) :
    (b.write data block).1.bs = b.bs := by
  unfold Blocks.write; split
  · rfl
  · split <;> rfl

theorem Blocks.write_wf (b : Blocks) (hw : b.Wf) (data : Bytes) (block : Option Nat)
    (hd : b.Disciplined data block) : (b.write data block).1.Wf := by
  obtain ⟨h0, hall⟩ := hw
  have happ : ∀ x ∈ b.blocks ++ [data], x.length = b.bs := by
    intro x hx
    rcases List.mem_append.1 hx with hx | hx
    · exact hall x hx
    · simp at hx; rw [hx]; exact hd.1
  unfold Blocks.write; split
  · exact ⟨h0, happ⟩
  · split
    · refine ⟨h0, fun x hx => ?_⟩
      rcases List.mem_or_eq_of_mem_set hx with hx | hx
      · exact hall x hx
      · rw [hx]; exact hd.1
    · exact ⟨h0, happ⟩

theorem overwriteAt_le (d : Bytes) (off : Nat) (new : Bytes) (h : off ≤ d.length) :
    overwriteAt d off new = d.take off ++ new ++ d.drop (off + new.length) := by
  simp [overwriteAt, Nat.sub_eq_zero_of_le h]

theorem FileSt.write_sim (f : FileSt) (b : Blocks) (h : f.Abs b) (hw : b.Wf) (data : Bytes)
    (block : Option Nat) (hd : b.Disciplined data block) :
    (f.write b.bs data block).1.Abs (b.write data block).1 ∧
    (f.write b.bs data block).2 = (b.write data block).2 := by
  unfold FileSt.Abs at h
  have hlen := b.bytes_length hw
  cases block with
  | none =>
    constructor
    · show overwriteAt f.data f.data.length data = _
      rw [overwriteAt_le _ _ _ (Nat.le_refl _), ← Blocks.append_eq, h]
      simp
    · show f.data.length + data.length - b.bs = b.blocks.length * b.bs
      rw [h, hlen, hd.1]; omega
  | some off =>
    obtain ⟨ha, hle⟩ := hd.2 off rfl
    have hoff : off ≤ f.data.length := by
      rw [h, hlen]
      calc off = off / b.bs * b.bs := (Nat.div_mul_cancel (Nat.dvd_of_mod_eq_zero ha)).symm
        _ ≤ _ := Nat.mul_le_mul_right _ hle
    constructor
    · show overwriteAt f.data off data = _
      rw [overwriteAt_le _ _ _ hoff, hd.1, h]
      exact b.splice_eq hw data off ha hle
    · show off + data.length - b.bs = (b.write data (some off)).2
      have : (b.write data (some off)).2 = off := by
        unfold Blocks.write; simp only; split <;> rfl
      rw [this, hd.1]; omega

theorem MemSt.write_sim (m : MemSt) (b : Blocks) (h : m.Abs b) (hw : b.Wf) (data : Bytes)
    (block : Option Nat) (hd : b.Disciplined data block) :
    (m.write b.bs data block).1.Abs (b.write data block).1 ∧
    (m.write b.bs data block).2 = (b.write data block).2 := by
  unfold MemSt.Abs at h
  have hlen := b.bytes_length hw
  cases block with
  | none =>
    constructor
    · show m.data ++ data = _
      rw [h]; exact b.append_eq data
    · show (m.data ++ data).length - b.bs = b.blocks.length * b.bs
      rw [List.length_append, h, hlen, hd.1]; omega
  | some off =>
    obtain ⟨ha, hle⟩ := hd.2 off rfl
    constructor
    · show m.data.take off ++ data ++ m.data.drop (off + b.bs) = _
      rw [h]; exact b.splice_eq hw data off ha hle
    · show off = (b.write data (some off)).2
      unfold Blocks.write; simp only; split <;> rfl

/-! ### the cursor hazard (D2) -/

/-- a cursor read depends on the file object's cursor: same bytes, different `pos`, different result -/
theorem FileSt.cursor_read_depends_on_pos :
    ∃ f₁ f₂ : FileSt, f₁.data = f₂.data ∧ f₁.pos ≠ f₂.pos ∧
      (f₁.read 2 none).2 ≠ (f₂.read 2 none).2 :=
  ⟨{ data := [1, 2, 3, 4], pos := 0 }, { data := [1, 2, 3, 4], pos := 2 }, by decide⟩

/-- the memory-mapped reader on the file's bytes returns the abstract block, hence what the file reader does -/
theorem mmapRead_file_sim (f : FileSt) (b : Blocks) (h : f.Abs b) (hw : b.Wf) (off : Nat)
    (ha : off % b.bs = 0) : mmapRead f.data b.bs off = (f.read b.bs (some off)).2 := by
  rw [(f.read_sim b h hw off ha).1, ← mmapRead_sim b hw off ha, h]

/-! ### sequences of disciplined operations -/

inductive SOp
  | read (off : Nat)
  | write (data : Bytes) (block : Option Nat)
deriving Repr, DecidableEq

/-- a result: what a read returned, or the block offset a write returned -/
inductive SRes
  | bytes (r : Option Bytes)
  | off (n : Nat)
deriving Repr, DecidableEq

def FileSt.runOps (f : FileSt) (bs : Nat) : List SOp → FileSt × List SRes
  | [] => (f, [])
  | .read off :: ops =>
    let r := f.read bs (some off)
    let rest := r.1.runOps bs ops
    (rest.1, .bytes r.2 :: rest.2)
  | .write data block :: ops =>
    let r := f.write bs data block
    let rest := r.1.runOps bs ops
    (rest.1, .off r.2 :: rest.2)

def MemSt.runOps (m : MemSt) (bs : Nat) : List SOp → MemSt × List SRes
  | [] => (m, [])
  | .read off :: ops =>
    let rest := m.runOps bs ops
    (rest.1, .bytes (m.read bs off) :: rest.2)
  | .write data block :: ops =>
    let r := m.write bs data block
    let rest := r.1.runOps bs ops
    (rest.1, .off r.2 :: rest.2)

def Blocks.runOps (b : Blocks) : List SOp → Blocks × List SRes
  | [] => (b, [])
  | .read off :: ops =>
    let rest := b.runOps ops
    (rest.1, .bytes (b.read off) :: rest.2)
  | .write data block :: ops =>
    let r := b.write data block
    let rest := r.1.runOps ops
    (rest.1, .off r.2 :: rest.2)

/-- every op obeys the discipline w.r.t. the abstract state at the point where it runs -/
def Blocks.AllDisciplined (b : Blocks) : List SOp → Prop
  | [] => True
  | .read off :: ops => off % b.bs = 0 ∧ b.AllDisciplined ops
  | .write data block :: ops =>
    b.Disciplined data block ∧ (b.write data block).1.AllDisciplined ops

theorem back_ends_agree (ops : List SOp) (f : FileSt) (m : MemSt) (b : Blocks)
    (hf : f.Abs b) (hm : m.Abs b) (hw : b.Wf) (hd : b.AllDisciplined ops) :
    (f.runOps b.bs ops).2 = (b.runOps ops).2 ∧
    (m.runOps b.bs ops).2 = (b.runOps ops).2 ∧
    (f.runOps b.bs ops).1.Abs (b.runOps ops).1 ∧
    (m.runOps b.bs ops).1.Abs (b.runOps ops).1 ∧
    (b.runOps ops).1.Wf := by
  induction ops generalizing f m b with
  | nil => exact ⟨rfl, rfl, hf, hm, hw⟩
  | cons op ops ih =>
    cases op with
    | read off =>
      obtain ⟨ha, hrest⟩ := hd
      obtain ⟨hfr, hfa⟩ := f.read_sim b hf hw off ha
      have hmr := m.read_sim b hm hw off ha
      obtain ⟨h1, h2, h3, h4, h5⟩ := ih _ m b hfa hm hw hrest
      simp only [FileSt.runOps, MemSt.runOps, Blocks.runOps]
      exact ⟨by rw [hfr, h1], by rw [hmr, h2], h3, h4, h5⟩
    | write data block =>
      obtain ⟨hdisc, hrest⟩ := hd
      obtain ⟨hfa, hfr⟩ := f.write_sim b hf hw data block hdisc
      obtain ⟨hma, hmr⟩ := m.write_sim b hm hw data block hdisc
      have hw' := b.write_wf hw data block hdisc
      obtain ⟨h1, h2, h3, h4, h5⟩ := ih _ _ _ hfa hma hw' hrest
      rw [b.write_bs data block] at h1 h2 h3 h4
      simp only [FileSt.runOps, MemSt.runOps, Blocks.runOps]
      exact ⟨by rw [hfr, h1], by rw [hmr, h2], h3, h4, h5⟩

#print axioms FileSt.write_sim
#print axioms MemSt.write_sim
#print axioms mmapRead_sim
#print axioms back_ends_agree

end Traph

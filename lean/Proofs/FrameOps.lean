import Proofs.Frame
import Proofs.Chunks
/-! Every model function is ⊑-increasing (trie part): `writeNew`, `ensureStem`, `addLru`, `addPageTrie`. -/
namespace Traph
open State

theorem le_appendCells : ∀ (cs : List Cell) (s : State), s ⊑ s.appendCells cs
  | [], s => Le.refl s
  | c :: cs, s => by
    rw [appendCells]
    exact (le_appendCell s c).trans (le_appendCells cs _)

theorem le_writeNew (s : State) (stem : Bytes) (p : Nat) (c : Bool) : s ⊑ (s.writeNew stem p c).1 := by
  unfold writeNew
  exact (le_appendCell s _).trans (le_appendCells _ _)

/-- the fresh head written by `writeNew` -/
theorem getElem?_writeNew_head (s : State) (stem : Bytes) (p : Nat) (c : Bool) :
    (s.writeNew stem p c).1.trie[s.trie.size]? = some (headCell stem p c) := by
  rw [writeNew_trie]
  rw [Array.getElem?_append_left (by simp)]
  simp

theorem cell_writeNew_head (s : State) (stem : Bytes) (p : Nat) (c : Bool) :
    (s.writeNew stem p c).1.cell s.trie.size = headCell stem p c := by
  unfold cell; rw [getElem?_writeNew_head]; rfl

theorem size_lt_writeNew (s : State) (stem : Bytes) (p : Nat) (c : Bool) :
    s.trie.size < (s.writeNew stem p c).1.trie.size := by
  rw [writeNew_size]; unfold blocksFor; split <;> simp [Layout.stemCap] <;> omega

/-- where the sibling search falls off, the slot is empty -/
theorem findSib_missing (s : State) (stem : Stem) :
    ∀ (fuel p q : Nat) (sl : Slot), s.findSib stem fuel p = .missing q sl →
      ∃ c, s.trie[q]? = some c ∧ c.slot sl = 0 := by
  intro fuel
  induction fuel with
  | zero => intro p q sl h; simp [findSib] at h
  | succ f ih =>
    intro p q sl h
    simp only [findSib] at h
    cases hp : s.trie[p]? with
    | none => simp [hp] at h
    | some c =>
      simp only [hp] at h
      split at h
      · cases h
      · split at h
        · split at h
          · exact ih _ _ _ h
          · rename_i hl
            cases h
            exact ⟨c, hp, by simpa [Cell.slot] using hl⟩
        · split at h
          · exact ih _ _ _ h
          · rename_i hr
            cases h
            exact ⟨c, hp, by simpa [Cell.slot] using hr⟩

theorem findSib_found_lt (s : State) (stem : Stem) :
    ∀ (fuel p i : Nat), s.findSib stem fuel p = .found i → i < s.trie.size := by
  intro fuel
  induction fuel with
  | zero => intro p i h; simp [findSib] at h
  | succ f ih =>
    intro p i h
    simp only [findSib] at h
    cases hp : s.trie[p]? with
    | none => simp [hp] at h
    | some c =>
      simp only [hp] at h
      split at h
      · cases h; exact (Array.getElem?_eq_some_iff.mp hp).1
      · split at h
        · split at h
          · exact ih _ _ h
          · cases h
        · split at h
          · exact ih _ _ h
          · cases h

theorem cellLe_setSlot (c : Cell) (sl : Slot) (v : Nat) (h : c.slot sl = 0) : CellLe c (c.setSlot sl v) := by
  cases sl <;> simp only [Cell.slot] at h <;>
    exact ⟨rfl, rfl, rfl, rfl, id, id, id, by simp [Cell.setSlot, h], by simp [Cell.setSlot, h], by simp [Cell.setSlot, h]⟩

theorem le_ensureStem (s : State) (start : Nat) (ex : Bool) (stem : Stem) :
    s ⊑ (s.ensureStem start ex stem).1 := by
  unfold ensureStem
  split
  · exact le_writeNew _ _ _ _
  · split
    · exact Le.refl s
    · exact Le.refl s
    · rename_i last sl hf
      obtain ⟨c, hc, hslot⟩ := findSib_missing s stem _ _ _ _ hf
      refine (le_writeNew s stem _ false).trans (le_modCell _ _ _ ?_)
      intro c' hc'
      have hlast : last < s.trie.size := (Array.getElem?_eq_some_iff.mp hc).1
      rw [writeNew_old _ _ _ _ _ hlast, hc] at hc'
      cases hc'
      exact cellLe_setSlot c sl _ hslot

theorem cellLe_clearNoChild (c : Cell) : CellLe c { c with flags := { c.flags with noChild := false } } :=
  ⟨rfl, rfl, rfl, rfl, id, id, by simp, fun _ => rfl, fun _ => rfl, fun _ => rfl⟩

theorem ensureStem_lt (s : State) (start : Nat) (ex : Bool) (stem : Stem) (h0 : 0 < s.trie.size) :
    (s.ensureStem start ex stem).2 < (s.ensureStem start ex stem).1.trie.size := by
  unfold ensureStem
  split
  · rw [writeNew_idx]; exact size_lt_writeNew _ _ _ _
  · split
    · rename_i i hf; exact findSib_found_lt s stem _ _ _ hf
    · exact h0
    · simp only [trie_modCell_size]
      rw [writeNew_idx]; exact size_lt_writeNew _ _ _ _

theorem le_markCanHave (s : State) (n : Nat) (b : Bool) : s ⊑ s.markCanHave n b := by
  unfold markCanHave; split
  · exact le_modCell _ _ _ (fun c _ => cellLe_clearNoChild c)
  · exact Le.refl s

@[simp] theorem size_markCanHave (s : State) (n : Nat) (b : Bool) : (s.markCanHave n b).trie.size = s.trie.size := by
  unfold markCanHave; split <;> simp

theorem child_markCanHave (s : State) (n : Nat) (b : Bool) (j : Nat) : ((s.markCanHave n b).cell j).child = (s.cell j).child := by
  unfold markCanHave; split
  · rw [cell_modCell]; split <;> rfl
  · rfl

/-- first loop of `add_lru`: ⊑-increasing; the returned node exists; when stems remain to be created it
    has no child -/
theorem addLruDescend_le (flag : Bool) : ∀ (stems : List Stem) (s : State) (node : Nat) (ex : Bool) (pos : Nat) (h : Hist),
    0 < s.trie.size →
    s ⊑ (addLruDescend flag s stems node ex pos h).1 ∧
    (stems ≠ [] → (addLruDescend flag s stems node ex pos h).2.1 < (addLruDescend flag s stems node ex pos h).1.trie.size) ∧
    ((addLruDescend flag s stems node ex pos h).2.2.1 ≠ [] → stems ≠ [] →
      ((addLruDescend flag s stems node ex pos h).1.cell (addLruDescend flag s stems node ex pos h).2.1).child = 0) := by
  intro stems
  induction stems with
  | nil => intro s node ex pos h _; exact ⟨by simp [addLruDescend, Le.refl], by simp, by simp⟩
  | cons stem rest ih =>
    intro s node ex pos h h0
    rcases he : s.ensureStem node ex stem with ⟨s1, n⟩
    have hle1 : s ⊑ s1 := by have := le_ensureStem s node ex stem; rw [he] at this; exact this
    have hn1 : n < s1.trie.size := by have := ensureStem_lt s node ex stem h0; rw [he] at this; exact this
    have h01 : 0 < s1.trie.size := by omega
    simp only [addLruDescend, he]
    split
    · rename_i hgo
      have hr : rest ≠ [] := by
        intro e; subst e; simp at hgo
      obtain ⟨ihle, ihn, ihc⟩ := ih (s1.markCanHave n (!rest.isEmpty && flag && (s1.cell n).flags.noChild))
        (s1.cell n).child true (pos + stem.length) (h.visit (s1.cell n) (pos + stem.length))
        (by rw [size_markCanHave]; exact h01)
      exact ⟨hle1.trans ((le_markCanHave _ _ _).trans ihle), fun _ => ihn hr, fun hne _ => ihc hne hr⟩
    · rename_i hstop
      refine ⟨hle1.trans (le_markCanHave _ _ _), fun _ => by simp only; rw [size_markCanHave]; exact hn1, fun hne _ => ?_⟩
      simp only at hne ⊢
      have hr : rest.isEmpty = false := by cases rest <;> simp_all
      have hch : (s1.cell n).child = 0 := by
        simp only [hr, Bool.not_false, Bool.true_and, decide_eq_true_eq, Decidable.not_not] at hstop
        exact hstop
      rw [child_markCanHave]; exact hch

theorem cellLe_setChild (c : Cell) (v : Nat) (h : c.child = 0) : CellLe c { c with child := v } :=
  ⟨rfl, rfl, rfl, rfl, id, id, id, fun _ => rfl, fun _ => rfl, by simp [h]⟩

/-- second loop of `add_lru` -/
theorem addLruCreate_le (flag : Bool) : ∀ (stems : List Stem) (s : State) (node : Nat),
    node < s.trie.size → (stems ≠ [] → (s.cell node).child = 0) →
    s ⊑ (addLruCreate flag s stems node).1 ∧ (addLruCreate flag s stems node).2 < (addLruCreate flag s stems node).1.trie.size := by
  intro stems
  induction stems with
  | nil => intro s node hn _; simp [addLruCreate, Le.refl, hn]
  | cons stem rest ih =>
    intro s node hn hch
    simp only [addLruCreate]
    rcases hw : s.writeNew stem node (!rest.isEmpty && flag) with ⟨s1, ch⟩
    have hle1 : s ⊑ s1 := by have := le_writeNew s stem node (!rest.isEmpty && flag); rw [hw] at this; exact this
    have hidx : ch = s.trie.size := by have := writeNew_idx s stem node (!rest.isEmpty && flag); rw [hw] at this; exact this
    have hlt1 : s.trie.size < s1.trie.size := by have := size_lt_writeNew s stem node (!rest.isEmpty && flag); rw [hw] at this; exact this
    have hle2 : s1 ⊑ s1.modCell node (fun c => { c with child := ch }) := by
      apply le_modCell
      intro c hc
      apply cellLe_setChild
      have := writeNew_old s stem node (!rest.isEmpty && flag) node hn
      rw [hw] at this
      have h0 := hch (by simp)
      unfold cell at h0
      rw [← this, hc] at h0
      simpa using h0
    have hhead : s1.cell ch = headCell stem node (!rest.isEmpty && flag) := by
      have := cell_writeNew_head s stem node (!rest.isEmpty && flag); rw [hw] at this; rw [hidx]; exact this
    obtain ⟨ihle, ihn⟩ := ih (s1.modCell node (fun c => { c with child := ch })) ch (by simp; omega) (by
      intro _
      rw [cell_modCell]
      have hne : ¬ (node = ch ∧ ch < s1.trie.size) := by omega
      rw [if_neg hne, hhead]; rfl)
    exact ⟨hle1.trans (hle2.trans ihle), ihn⟩

/-- `add_lru` -/
theorem addLru_le (s : State) (stems : LRU) (flag : Bool) (h0 : 0 < s.trie.size) (hne : stems ≠ []) :
    s ⊑ (s.addLru stems flag).1 ∧ (s.addLru stems flag).2.1 < (s.addLru stems flag).1.trie.size := by
  unfold addLru
  rcases hd : addLruDescend flag s stems 1 (decide (s.trie.size > 1)) 0 {} with ⟨s1, node, rest, h⟩
  obtain ⟨hle, hlt, hch⟩ := addLruDescend_le flag stems s 1 (decide (s.trie.size > 1)) 0 {} h0
  rw [hd] at hle hlt hch
  simp only at hle hlt hch ⊢
  obtain ⟨hle2, hlt2⟩ := addLruCreate_le flag rest s1 node (hlt hne) (fun hr => hch hr hne)
  rcases hc : addLruCreate flag s1 rest node with ⟨s2, node2⟩
  rw [hc] at hle2 hlt2
  exact ⟨hle.trans hle2, hlt2⟩

@[simp] theorem Hist.visit_created (h : Hist) (c : Cell) (pos : Nat) : (h.visit c pos).created = h.created := by
  unfold Hist.visit; split <;> split <;> rfl

theorem addLruDescend_created (flag : Bool) : ∀ (stems : List Stem) (s : State) (node : Nat) (ex : Bool) (pos : Nat) (h : Hist),
    (addLruDescend flag s stems node ex pos h).2.2.2.created = h.created := by
  intro stems
  induction stems with
  | nil => intro s node ex pos h; rfl
  | cons stem rest ih =>
    intro s node ex pos h
    rcases he : s.ensureStem node ex stem with ⟨s1, n⟩
    simp only [addLruDescend, he]
    split
    · rw [ih]; simp
    · simp

/-- `add_lru` never reports a created page -/
theorem addLru_created (s : State) (stems : LRU) (flag : Bool) : (s.addLru stems flag).2.2.created = false := by
  unfold addLru
  rcases hd : addLruDescend flag s stems 1 (decide (s.trie.size > 1)) 0 {} with ⟨s1, node, rest, h⟩
  have := addLruDescend_created flag stems s 1 (decide (s.trie.size > 1)) 0 {}
  rw [hd] at this
  simp only at this ⊢
  rcases addLruCreate flag s1 rest node with ⟨s2, node2⟩
  exact this

theorem cellLe_flags_page (c : Cell) (cr : Bool) :
    CellLe c { c with flags := { c.flags with page := true, crawled := c.flags.crawled || cr } } :=
  ⟨rfl, rfl, rfl, rfl, fun _ => rfl, fun h => by simp [h], id, fun _ => rfl, fun _ => rfl, fun _ => rfl⟩

theorem cellLe_flags_crawled (c : Cell) : CellLe c { c with flags := { c.flags with crawled := true } } :=
  ⟨rfl, rfl, rfl, rfl, id, fun _ => rfl, id, fun _ => rfl, fun _ => rfl, fun _ => rfl⟩

/-- `add_page` on the trie -/
theorem addPageTrie_le (s : State) (stems : LRU) (crawled : Bool) (h0 : 0 < s.trie.size) (hne : stems ≠ []) :
    s ⊑ (s.addPageTrie stems crawled).1 ∧ (s.addPageTrie stems crawled).2.1 < (s.addPageTrie stems crawled).1.trie.size := by
  unfold addPageTrie
  rcases ha : s.addLru stems false with ⟨s1, n, h⟩
  obtain ⟨hle, hlt⟩ := addLru_le s stems false h0 hne
  rw [ha] at hle hlt
  simp only at hle hlt ⊢
  split
  · exact ⟨hle.trans (le_modCell _ _ _ (fun c _ => cellLe_flags_page c crawled)), by simpa using hlt⟩
  · split
    · exact ⟨hle.trans (le_modCell _ _ _ (fun c _ => cellLe_flags_crawled c)), by simpa using hlt⟩
    · exact ⟨hle, hlt⟩

end Traph

import Proofs.LinkBagRun
import Proofs.LinkBagPar
/-! C03, what the link queries report in a state satisfying the link invariant `Graph s t L` (plus
    `Shape`, `Inv` and the parent invariant, all of which hold in every reachable state):
    `get_page_links`, `get_page_*degree`, `links_iter`, `count_links` in terms of the submitted links `L`. -/
namespace Traph
open State

/-! ### from blocks to LRUs -/

theorem lruNode_eq_iff {s : State} {t : T} (h : Shape s t) {p x : LRU} {a : Nat} (hp : (p, a) ∈ t.entries s [])
    (hx : x ≠ []) : s.lruNode x = some a ↔ x = p := by
  constructor
  · intro e
    exact entries_addr_injective h.nodup ((lruNode_iff_entries h x hx a).mp e) hp
  · rintro rfl
    exact (lruNode_iff_entries h x hx a).mpr hp

theorem ncount_eq_nsub {s : State} {t : T} {L : List (Bytes × Bytes)} (g : Graph s t L) (h : Shape s t)
    {p q : LRU} {a b : Nat} (hp : (p, a) ∈ t.entries s []) (hq : (q, b) ∈ t.entries s []) :
    ncount s L a b = nsub L p q := by
  unfold ncount nsub
  congr 1
  apply List.filter_congr
  intro st hst
  obtain ⟨p1, p2⟩ := g.pages st hst
  rw [decide_eq_decide]
  exact and_congr (lruNode_eq_iff h hp (isPage_node h p1).1) (lruNode_eq_iff h hq (isPage_node h p2).1)

/-- multiplicity of the block of `q` in the bag of the block of `p`: the number of submissions of
    `p → q` on the out side, of `q → p` on the in side -/
theorem Graph.bag_count {s : State} {t : T} {L : List (Bytes × Bytes)} (g : Graph s t L) (h : Shape s t)
    {p q : LRU} {a b : Nat} (hp : (p, a) ∈ t.entries s []) (hq : (q, b) ∈ t.entries s []) (o : Bool) :
    count b (s.bag o a) = if o then nsub L p q else nsub L q p := by
  cases o
  · simp only [Bool.false_eq_true, if_false]
    rw [g.inn b a, ncount_eq_nsub g h hq hp]
  · simp only [if_true]
    rw [g.out a b, ncount_eq_nsub g h hp hq]

theorem length_filter_pos {α : Type} {p : α → Bool} {l : List α} (h : 0 < (l.filter p).length) :
    ∃ x ∈ l, p x = true := by
  obtain ⟨x, hx⟩ := List.exists_mem_of_length_pos h
  exact ⟨x, (List.mem_filter.mp hx).1, (List.mem_filter.mp hx).2⟩

/-- every member of a bag is the block of a submitted page -/
theorem Graph.bag_entry {s : State} {t : T} {L : List (Bytes × Bytes)} (g : Graph s t L) (h : Shape s t)
    {a b : Nat} {o : Bool} (hb : b ∈ s.bag o a) :
    ∃ q, (q, b) ∈ t.entries s [] ∧ (s.cell b).flags.page = true := by
  have hc := (count_pos_iff b _).mpr hb
  cases o
  · rw [g.inn b a] at hc
    obtain ⟨st, hst, hd⟩ := length_filter_pos hc
    simp only [decide_eq_true_eq] at hd
    obtain ⟨_, n, e, hm, hf⟩ := isPage_node h (g.pages st hst).1
    rw [e] at hd
    have : n = b := by simpa using hd.1
    subst this
    exact ⟨_, hm, hf⟩
  · rw [g.out a b] at hc
    obtain ⟨st, hst, hd⟩ := length_filter_pos hc
    simp only [decide_eq_true_eq] at hd
    obtain ⟨_, n, e, hm, hf⟩ := isPage_node h (g.pages st hst).2
    rw [e] at hd
    have : n = b := by simpa using hd.2
    subst this
    exact ⟨_, hm, hf⟩

theorem nsub_pos {L : List (Bytes × Bytes)} {p q : LRU} (h : 0 < nsub L p q) :
    ∃ st ∈ L, lruIter st.1 = p ∧ lruIter st.2 = q := by
  obtain ⟨st, hst, hd⟩ := length_filter_pos h
  exact ⟨st, hst, by simpa using hd⟩

theorem nsub_pos_pages {s : State} {t : T} {L : List (Bytes × Bytes)} (g : Graph s t L) {p q : LRU}
    (h : 0 < nsub L p q) : IsPage s t p ∧ IsPage s t q := by
  obtain ⟨st, hst, rfl, rfl⟩ := nsub_pos h
  exact g.pages st hst

/-- the bag of the block of page `p`, read as LRUs: the block of `q` is in it iff `q` is a page and the
    link was submitted at least once -/
theorem Graph.mem_bag {s : State} {t : T} {L : List (Bytes × Bytes)} (g : Graph s t L) (h : Shape s t)
    {p : LRU} {a : Nat} (hp : (p, a) ∈ t.entries s []) (o : Bool) (b : Nat) :
    b ∈ s.bag o a ↔ ∃ q, (q, b) ∈ t.entries s [] ∧ 0 < (if o then nsub L p q else nsub L q p) := by
  constructor
  · intro hb
    obtain ⟨q, hq, _⟩ := g.bag_entry h hb
    refine ⟨q, hq, ?_⟩
    rw [← g.bag_count h hp hq o]
    exact (count_pos_iff b _).mpr hb
  · rintro ⟨q, hq, hpos⟩
    rw [← g.bag_count h hp hq o] at hpos
    exact (count_pos_iff b _).mp hpos

theorem flatten_inj {s : State} {t : T} (hi : Inv s t) {p q : LRU} {a b : Nat}
    (hp : (p, a) ∈ t.entries s []) (hq : (q, b) ∈ t.entries s []) : q.flatten = p.flatten ↔ q = p := by
  constructor
  · intro e
    rw [← lruIter_flatten q (hi.wf q b hq), ← lruIter_flatten p (hi.wf p a hp), e]
  · rintro rfl; rfl

/-! ### the walk behind a non-null head is the bag -/

theorem bag_eq_walk (s : State) (o : Bool) (a : Nat)
    (hne : (if o then (s.cell a).out else (s.cell a).inn) ≠ 0) :
    s.bag o a = s.walk (if o then (s.cell a).out else (s.cell a).inn) := by
  unfold State.bag State.walk0
  rw [if_pos hne]

theorem bag_of_head_zero (s : State) (o : Bool) (a : Nat)
    (h0 : (if o then (s.cell a).out else (s.cell a).inn) = 0) : s.bag o a = [] := by
  unfold State.bag
  rw [h0]; exact lbWalk0_zero s

theorem head_ne_zero_of_mem {s : State} {o : Bool} {a b : Nat} (hb : b ∈ s.bag o a) :
    (if o then (s.cell a).out else (s.cell a).inn) ≠ 0 := by
  intro h0
  rw [bag_of_head_zero s o a h0] at hb
  simp at hb

/-! ### `get_page_links` -/

/-- the out-list part of `get_page_links` for the page at block `a` -/
def outsOf (s : State) (a : Nat) (lru : Bytes) (incInt incOut : Bool) : List PageLink :=
  if (s.cell a).out ≠ 0 && (incOut || incInt) then
    (s.weighted (s.cell a).out).filterMap (fun tw =>
      let tl := s.windup tw.1
      if (incOut && tl ≠ lru) || (incInt && tl = lru) then some (lru, tl, tw.2) else none) else []

/-- the in-list part of `get_page_links` for the page at block `a` -/
def insOf (s : State) (a : Nat) (lru : Bytes) (incIn : Bool) : List PageLink :=
  if (s.cell a).inn ≠ 0 && incIn then
    (s.weighted (s.cell a).inn).filterMap (fun sw =>
      let sl := s.windup sw.1
      if sl ≠ lru then some (sl, lru, sw.2) else none) else []

theorem pageLinks_eq {s : State} {lru : Bytes} {a : Nat} (hn : s.lruNode (lruIter lru) = some a)
    (hp : (s.cell a).flags.page = true) (incIn incInt incOut : Bool) :
    s.pageLinks lru incIn incInt incOut = outsOf s a lru incInt incOut ++ insOf s a lru incIn := by
  unfold State.pageLinks outsOf insOf
  rw [hn]
  simp only [hp, Bool.not_true, Bool.false_eq_true, if_false]

theorem pageLinks_not_page {s : State} {t : T} (h : Shape s t) {lru : Bytes} (hne : lruIter lru ≠ [])
    (hp : ¬ IsPage s t (lruIter lru)) (incIn incInt incOut : Bool) :
    s.pageLinks lru incIn incInt incOut = [] := by
  unfold State.pageLinks
  cases hn : s.lruNode (lruIter lru) with
  | none => rfl
  | some a =>
    simp only
    have : (s.cell a).flags.page = false := by
      cases hf : (s.cell a).flags.page with
      | false => rfl
      | true => exact absurd ((isPage_iff_lruNode h _ hne).mpr ⟨a, hn, hf⟩) hp
    rw [this]; rfl

/-- the state-level hypotheses under which the queries are read back -/
structure LinkView (s : State) (t : T) (L : List (Bytes × Bytes)) : Prop where
  shape : Shape s t
  inv   : Inv s t
  par   : ParOk s t 0
  graph : Graph s t L

theorem LinkView.windup {s : State} {t : T} {L : List (Bytes × Bytes)} (v : LinkView s t L) {q : LRU} {b : Nat}
    (hq : (q, b) ∈ t.entries s []) : s.windup b = q.flatten := windup_eq v.shape v.par hq

/-- the pairs of the weighted iteration of a non-null list of page `p`'s block -/
theorem LinkView.mem_weighted {s : State} {t : T} {L : List (Bytes × Bytes)} (v : LinkView s t L)
    {p : LRU} {a : Nat} (hp : (p, a) ∈ t.entries s []) (o : Bool)
    (hne : (if o then (s.cell a).out else (s.cell a).inn) ≠ 0) (b k : Nat) :
    (b, k) ∈ s.weighted (if o then (s.cell a).out else (s.cell a).inn) ↔
      ∃ q, (q, b) ∈ t.entries s [] ∧ 0 < (if o then nsub L p q else nsub L q p) ∧
        k = (if o then nsub L p q else nsub L q p) := by
  rw [weighted_spec, ← bag_eq_walk s o a hne, v.graph.mem_bag v.shape hp o b]
  constructor
  · rintro ⟨⟨q, hq, hpos⟩, rfl⟩
    exact ⟨q, hq, hpos, v.graph.bag_count v.shape hp hq o⟩
  · rintro ⟨q, hq, hpos, rfl⟩
    exact ⟨⟨q, hq, hpos⟩, (v.graph.bag_count v.shape hp hq o).symm⟩

/-- MAIN (outbound / internal side): what `get_page_links` reports from the out-list of page `p` -/
theorem LinkView.mem_outsOf {s : State} {t : T} {L : List (Bytes × Bytes)} (v : LinkView s t L)
    {p : LRU} {a : Nat} (hp : (p, a) ∈ t.entries s []) (incInt incOut : Bool) (x : PageLink) :
    x ∈ outsOf s a p.flatten incInt incOut ↔
      ∃ q, 0 < nsub L p q ∧ ((incOut = true ∧ q ≠ p) ∨ (incInt = true ∧ q = p)) ∧
        x = (p.flatten, q.flatten, nsub L p q) := by
  unfold outsOf
  constructor
  · intro hx
    split at hx
    · rename_i hc
      simp only [Bool.and_eq_true, decide_eq_true_eq] at hc
      obtain ⟨⟨b, k⟩, hm, hf⟩ := List.mem_filterMap.mp hx
      obtain ⟨q, hq, hpos, rfl⟩ := (v.mem_weighted hp true hc.1 b k).mp hm
      simp only [if_true] at hpos hf ⊢
      rw [v.windup hq] at hf
      split at hf
      · rename_i hcond
        simp only [Option.some.injEq] at hf
        refine ⟨q, hpos, ?_, hf.symm⟩
        simp only [Bool.or_eq_true, Bool.and_eq_true, decide_eq_true_eq, ne_eq] at hcond
        rw [flatten_inj v.inv hp hq] at hcond
        exact hcond
      · cases hf
    · simp at hx
  · rintro ⟨q, hpos, hcond, rfl⟩
    obtain ⟨_, b, _, hq, _⟩ := isPage_node v.shape (nsub_pos_pages v.graph hpos).2
    have hb : b ∈ s.bag true a := (v.graph.mem_bag v.shape hp true b).mpr ⟨q, hq, hpos⟩
    have hne := head_ne_zero_of_mem hb
    simp only [if_true] at hne
    have hor : (incOut || incInt) = true := by
      rcases hcond with ⟨e, _⟩ | ⟨e, _⟩ <;> simp [e]
    have hc : (decide ((s.cell a).out ≠ 0) && (incOut || incInt)) = true := by
      simp [hne, hor]
    rw [if_pos hc]
    refine List.mem_filterMap.mpr ⟨(b, nsub L p q), (v.mem_weighted hp true hne b _).mpr ⟨q, hq, hpos, rfl⟩, ?_⟩
    simp only
    rw [v.windup hq]
    have hcond' : ((incOut && decide (q.flatten ≠ p.flatten)) || (incInt && decide (q.flatten = p.flatten))) = true := by
      simp only [Bool.or_eq_true, Bool.and_eq_true, decide_eq_true_eq, ne_eq]
      rw [flatten_inj v.inv hp hq]
      exact hcond
    rw [if_pos hcond']

/-- MAIN (inbound side): what `get_page_links` reports from the in-list of page `p` -/
theorem LinkView.mem_insOf {s : State} {t : T} {L : List (Bytes × Bytes)} (v : LinkView s t L)
    {p : LRU} {a : Nat} (hp : (p, a) ∈ t.entries s []) (incIn : Bool) (x : PageLink) :
    x ∈ insOf s a p.flatten incIn ↔
      incIn = true ∧ ∃ q, 0 < nsub L q p ∧ q ≠ p ∧ x = (q.flatten, p.flatten, nsub L q p) := by
  unfold insOf
  constructor
  · intro hx
    split at hx
    · rename_i hc
      simp only [Bool.and_eq_true, decide_eq_true_eq] at hc
      obtain ⟨⟨b, k⟩, hm, hf⟩ := List.mem_filterMap.mp hx
      have hne : (if false = true then (s.cell a).out else (s.cell a).inn) ≠ 0 := by simpa using hc.1
      have hm' : (b, k) ∈ s.weighted (if false = true then (s.cell a).out else (s.cell a).inn) := by simpa using hm
      obtain ⟨q, hq, hpos, rfl⟩ := (v.mem_weighted hp false hne b k).mp hm'
      simp only [Bool.false_eq_true, if_false] at hpos hf ⊢
      rw [v.windup hq] at hf
      split at hf
      · rename_i hcond
        simp only [Option.some.injEq] at hf
        refine ⟨hc.2, q, hpos, ?_, hf.symm⟩
        rw [ne_eq, flatten_inj v.inv hp hq] at hcond
        exact hcond
      · cases hf
    · simp at hx
  · rintro ⟨hin, q, hpos, hcond, rfl⟩
    obtain ⟨_, b, _, hq, _⟩ := isPage_node v.shape (nsub_pos_pages v.graph hpos).1
    have hb : b ∈ s.bag false a := (v.graph.mem_bag v.shape hp false b).mpr ⟨q, hq, by simpa using hpos⟩
    have hne := head_ne_zero_of_mem hb
    have hne' : (s.cell a).inn ≠ 0 := by simpa using hne
    have hc : (decide ((s.cell a).inn ≠ 0) && incIn) = true := by simp [hne', hin]
    rw [if_pos hc]
    have hw := (v.mem_weighted hp false hne b (nsub L q p)).mpr ⟨q, hq, by simpa using hpos, by simp⟩
    refine List.mem_filterMap.mpr ⟨(b, nsub L q p), by simpa using hw, ?_⟩
    simp only
    rw [v.windup hq]
    have hcond' : q.flatten ≠ p.flatten := by rw [ne_eq, flatten_inj v.inv hp hq]; exact hcond
    rw [if_pos hcond']

/-- MAIN (`get_page_links`): for a page `p`, with any switches, the reported triples are exactly:
    from the out-list, one triple per page `q` the link `p → q` was submitted to, weight = number of
    submissions (as outbound for `q ≠ p`, as internal for `q = p`); from the in-list, one triple per
    page `q ≠ p` from which `q → p` was submitted, weight = number of submissions. A self-link is
    stored on both sides and reported once, from the out-list, as internal. -/
theorem LinkView.mem_pageLinks {s : State} {t : T} {L : List (Bytes × Bytes)} (v : LinkView s t L)
    {p : LRU} (hp : IsPage s t p) (incIn incInt incOut : Bool) (x : PageLink) :
    x ∈ s.pageLinks p.flatten incIn incInt incOut ↔
      (∃ q, 0 < nsub L p q ∧ ((incOut = true ∧ q ≠ p) ∨ (incInt = true ∧ q = p)) ∧
        x = (p.flatten, q.flatten, nsub L p q)) ∨
      (incIn = true ∧ ∃ q, 0 < nsub L q p ∧ q ≠ p ∧ x = (q.flatten, p.flatten, nsub L q p)) := by
  obtain ⟨_, a, hn, hm, hf⟩ := isPage_node v.shape hp
  have hn' : s.lruNode (lruIter p.flatten) = some a := by rw [lruIter_flatten p (v.inv.wf p a hm)]; exact hn
  rw [pageLinks_eq hn' hf, List.mem_append, v.mem_outsOf hm, v.mem_insOf hm]

#print axioms LinkView.mem_pageLinks

/-! ### bags as permutations of the submitted links -/

theorem lbCount_eq_listCount (t : Nat) (l : List Nat) : count t l = List.count t l := by
  unfold count
  rw [List.count_eq_length_filter]
  congr 1

/-- the end of a submitted pair on the side of the page whose list is read, and the other end -/
def nearEnd (o : Bool) (st : Bytes × Bytes) : LRU := if o then lruIter st.1 else lruIter st.2
def farEnd (o : Bool) (st : Bytes × Bytes) : LRU := if o then lruIter st.2 else lruIter st.1

/-- the bag of page `p`'s block is, up to order, the list of the blocks of the other ends of the
    submitted pairs that have `p` on this side -/
theorem Graph.bag_perm {s : State} {t : T} {L : List (Bytes × Bytes)} (g : Graph s t L) (h : Shape s t)
    {p : LRU} {a : Nat} (hp : (p, a) ∈ t.entries s []) (o : Bool) :
    (s.bag o a).Perm ((L.filter (fun st => decide (nearEnd o st = p))).map
      (fun st => (s.lruNode (farEnd o st)).getD 0)) := by
  rw [List.perm_iff_count]
  intro b
  rw [← lbCount_eq_listCount, List.count_eq_length_filter, List.filter_map, List.length_map,
    List.filter_filter]
  cases o
  · rw [g.inn b a]
    unfold ncount
    congr 1
    apply List.filter_congr
    intro st hst
    obtain ⟨p1, p2⟩ := g.pages st hst
    obtain ⟨ne1, n1, e1, _⟩ := isPage_node h p1
    obtain ⟨ne2, n2, e2, _⟩ := isPage_node h p2
    have i2 := lruNode_eq_iff h hp ne2
    simp only [nearEnd, farEnd, Bool.false_eq_true, if_false, Function.comp, e1, Option.getD_some]
    rw [Bool.eq_iff_iff]
    simp only [decide_eq_true_eq, Bool.and_eq_true, beq_iff_eq, Option.some.injEq, i2]
  · rw [g.out a b]
    unfold ncount
    congr 1
    apply List.filter_congr
    intro st hst
    obtain ⟨p1, p2⟩ := g.pages st hst
    obtain ⟨ne1, n1, e1, _⟩ := isPage_node h p1
    obtain ⟨ne2, n2, e2, _⟩ := isPage_node h p2
    have i1 := lruNode_eq_iff h hp ne1
    simp only [nearEnd, farEnd, if_true, Function.comp, e2, Option.getD_some]
    rw [Bool.eq_iff_iff]
    simp only [decide_eq_true_eq, Bool.and_eq_true, beq_iff_eq, Option.some.injEq, i1]
    exact and_comm

/-- counting the members of a bag that satisfy a test = counting the submitted pairs whose other end does -/
theorem Graph.filter_bag_length {s : State} {t : T} {L : List (Bytes × Bytes)} (g : Graph s t L) (h : Shape s t)
    {p : LRU} {a : Nat} (hp : (p, a) ∈ t.entries s []) (o : Bool) (P : Nat → Bool) :
    ((s.bag o a).filter P).length =
      (L.filter (fun st => decide (nearEnd o st = p) && P ((s.lruNode (farEnd o st)).getD 0))).length := by
  rw [((g.bag_perm h hp o).filter P).length_eq, List.filter_map, List.length_map, List.filter_filter]
  congr 1
  apply List.filter_congr
  intro st _
  simp only [Function.comp]
  exact Bool.and_comm _ _

/-! ### weights add up to the number of list members -/

theorem map_filterMap_weight {β γ : Type} (P : Nat → Bool) (f : Nat × Nat → β × γ × Nat)
    (hf : ∀ tw, (f tw).2.2 = tw.2) : ∀ (W : List (Nat × Nat)),
    ((W.filterMap (fun tw => if P tw.1 = true then some (f tw) else none)).map (·.2.2)) =
      (W.filter (fun tw => P tw.1)).map (·.2)
  | [] => rfl
  | tw :: W => by
    rw [List.filterMap_cons]
    by_cases hP : P tw.1 = true
    · simp only [hP, if_true]
      rw [List.filter_cons_of_pos (by simpa using hP), List.map_cons, List.map_cons, hf,
        map_filterMap_weight P f hf W]
    · simp only [hP]
      rw [List.filter_cons_of_neg (by simpa using hP)]
      exact map_filterMap_weight P f hf W

def wsumP (P : Nat → Bool) (W : List (Nat × Nat)) : Nat := ((W.filter (fun tw => P tw.1)).map (·.2)).sum

theorem wsumP_countInto (P : Nat → Bool) : ∀ (acc : List (Nat × Nat)) (t : Nat),
    wsumP P (countInto acc t) = wsumP P acc + (if P t = true then 1 else 0)
  | [], t => by
    unfold wsumP countInto
    by_cases hP : P t = true
    · rw [List.filter_cons_of_pos (by simpa using hP), if_pos hP]; simp
    · rw [List.filter_cons_of_neg (by simpa using hP), if_neg hP]; simp
  | (k, n) :: rest, t => by
    unfold countInto
    by_cases hk : k = t
    · rw [if_pos hk]
      subst hk
      unfold wsumP
      by_cases hP : P k = true
      · rw [List.filter_cons_of_pos (by simpa using hP), List.filter_cons_of_pos (by simpa using hP), if_pos hP]
        simp only [List.map_cons, List.sum_cons]; omega
      · rw [List.filter_cons_of_neg (by simpa using hP), List.filter_cons_of_neg (by simpa using hP), if_neg hP]
        rfl
    · rw [if_neg hk]
      have ih := wsumP_countInto P rest t
      unfold wsumP at ih ⊢
      by_cases hP : P k = true
      · rw [List.filter_cons_of_pos (by simpa using hP), List.filter_cons_of_pos (by simpa using hP)]
        simp only [List.map_cons, List.sum_cons, ih]; omega
      · rw [List.filter_cons_of_neg (by simpa using hP), List.filter_cons_of_neg (by simpa using hP)]
        exact ih

theorem wsumP_fold (P : Nat → Bool) : ∀ (l : List Nat) (acc : List (Nat × Nat)),
    wsumP P (l.foldl countInto acc) = wsumP P acc + (l.filter P).length
  | [], acc => by simp
  | x :: l, acc => by
    rw [List.foldl_cons, wsumP_fold P l, wsumP_countInto]
    by_cases hP : P x = true
    · rw [List.filter_cons_of_pos hP, if_pos hP, List.length_cons]; omega
    · rw [List.filter_cons_of_neg hP, if_neg hP]; omega

/-- the weights reported for the list members passing a test add up to the number of such members -/
theorem sum_weights_walk {β γ : Type} (s : State) (head : Nat) (P : Nat → Bool) (f : Nat × Nat → β × γ × Nat)
    (hf : ∀ tw, (f tw).2.2 = tw.2) :
    (((s.weighted head).filterMap (fun tw => if P tw.1 = true then some (f tw) else none)).map (·.2.2)).sum =
      ((s.walk head).filter P).length := by
  rw [map_filterMap_weight P f hf]
  have := wsumP_fold P (s.walk head) []
  unfold wsumP at this
  unfold State.weighted
  rw [this]; simp

#print axioms Graph.bag_perm
#print axioms sum_weights_walk

/-! ### `get_page_indegree / outdegree / degree` (weighted) -/

/-- the far end's block of a submitted pair reads back as the far end's LRU -/
theorem LinkView.windup_far {s : State} {t : T} {L : List (Bytes × Bytes)} (v : LinkView s t L)
    {st : Bytes × Bytes} (hst : st ∈ L) (o : Bool) :
    s.windup ((s.lruNode (farEnd o st)).getD 0) = (farEnd o st).flatten ∧
      ∃ b, (farEnd o st, b) ∈ t.entries s [] := by
  obtain ⟨p1, p2⟩ := v.graph.pages st hst
  cases o
  · obtain ⟨_, n, e, hm, _⟩ := isPage_node v.shape p1
    simp only [farEnd, Bool.false_eq_true, if_false, e, Option.getD_some]
    exact ⟨v.windup hm, n, hm⟩
  · obtain ⟨_, n, e, hm, _⟩ := isPage_node v.shape p2
    simp only [farEnd, if_true, e, Option.getD_some]
    exact ⟨v.windup hm, n, hm⟩

theorem lbFilter_false_length {α : Type} (l : List α) : (l.filter (fun _ => false)).length = 0 := by
  induction l with
  | nil => rfl
  | cons x l ih => rw [List.filter_cons_of_neg (by simp)]; exact ih

theorem LinkView.sum_outsOf {s : State} {t : T} {L : List (Bytes × Bytes)} (v : LinkView s t L)
    {p : LRU} {a : Nat} (hp : (p, a) ∈ t.entries s []) (incInt incOut : Bool) :
    ((outsOf s a p.flatten incInt incOut).map (·.2.2)).sum =
      (L.filter (fun st => decide (lruIter st.1 = p) &&
        ((incOut && decide (lruIter st.2 ≠ p)) || (incInt && decide (lruIter st.2 = p))))).length := by
  have step1 : ((outsOf s a p.flatten incInt incOut).map (·.2.2)).sum =
      ((s.bag true a).filter (fun b => (incOut && decide (s.windup b ≠ p.flatten)) ||
        (incInt && decide (s.windup b = p.flatten)))).length := by
    unfold outsOf
    split
    · rename_i hc
      simp only [Bool.and_eq_true, decide_eq_true_eq] at hc
      rw [bag_eq_walk s true a (by simpa using hc.1)]
      exact sum_weights_walk s (s.cell a).out
        (fun b => (incOut && decide (s.windup b ≠ p.flatten)) || (incInt && decide (s.windup b = p.flatten)))
        (fun tw => (p.flatten, s.windup tw.1, tw.2)) (fun _ => rfl)
    · rename_i hc
      by_cases h0 : (s.cell a).out = 0
      · rw [bag_of_head_zero s true a (by simpa using h0)]; rfl
      · have : (incOut || incInt) = false := by
          cases hh : (incOut || incInt) with
          | false => rfl
          | true => exact absurd (by simp [h0, hh]) hc
        obtain ⟨e1, e2⟩ := Bool.or_eq_false_iff.mp this
        subst e1 e2
        simp [lbFilter_false_length]
  rw [step1, v.graph.filter_bag_length v.shape hp true]
  congr 1
  apply List.filter_congr
  intro st hst
  obtain ⟨hw, b, hb⟩ := v.windup_far hst true
  rw [hw]
  simp only [nearEnd, farEnd, if_true] at hb ⊢
  have := flatten_inj v.inv hp hb
  simp only [ne_eq, this]

theorem LinkView.sum_insOf {s : State} {t : T} {L : List (Bytes × Bytes)} (v : LinkView s t L)
    {p : LRU} {a : Nat} (hp : (p, a) ∈ t.entries s []) (incIn : Bool) :
    ((insOf s a p.flatten incIn).map (·.2.2)).sum =
      (L.filter (fun st => incIn && (decide (lruIter st.2 = p) && decide (lruIter st.1 ≠ p)))).length := by
  have step1 : ((insOf s a p.flatten incIn).map (·.2.2)).sum =
      ((s.bag false a).filter (fun b => incIn && decide (s.windup b ≠ p.flatten))).length := by
    unfold insOf
    split
    · rename_i hc
      simp only [Bool.and_eq_true, decide_eq_true_eq] at hc
      rw [bag_eq_walk s false a (by simpa using hc.1), hc.2]
      simp only [Bool.true_and, Bool.false_eq_true, if_false]
      have e := sum_weights_walk s (s.cell a).inn (fun b => decide (s.windup b ≠ p.flatten))
        (fun sw => (s.windup sw.1, p.flatten, sw.2)) (fun _ => rfl)
      simp only [decide_eq_true_eq] at e
      exact e
    · rename_i hc
      by_cases h0 : (s.cell a).inn = 0
      · rw [bag_of_head_zero s false a (by simpa using h0)]; rfl
      · have : incIn = false := by
          cases hh : incIn with
          | false => rfl
          | true => exact absurd (by simp [h0, hh]) hc
        subst this
        simp [lbFilter_false_length]
  rw [step1, v.graph.filter_bag_length v.shape hp false]
  congr 1
  apply List.filter_congr
  intro st hst
  obtain ⟨hw, b, hb⟩ := v.windup_far hst false
  rw [hw]
  simp only [nearEnd, farEnd, Bool.false_eq_true, if_false] at hb ⊢
  have := flatten_inj v.inv hp hb
  simp only [ne_eq, this]
  cases incIn <;> simp

theorem pageDegree_out_eq {s : State} {lru : Bytes} {a : Nat} (hn : s.lruNode (lruIter lru) = some a)
    (hp : (s.cell a).flags.page = true) :
    s.pageDegree lru .outdeg true =
      ((outsOf s a lru false true).map (·.2.2)).sum + ((insOf s a lru false).map (·.2.2)).sum := by
  unfold State.pageDegree
  simp only [pageLinks_eq hn hp, if_true, List.map_append, List.sum_append]

theorem pageDegree_in_eq {s : State} {lru : Bytes} {a : Nat} (hn : s.lruNode (lruIter lru) = some a)
    (hp : (s.cell a).flags.page = true) :
    s.pageDegree lru .indeg true =
      ((outsOf s a lru false false).map (·.2.2)).sum + ((insOf s a lru true).map (·.2.2)).sum := by
  unfold State.pageDegree
  simp only [pageLinks_eq hn hp, if_true, List.map_append, List.sum_append]

theorem pageDegree_deg_eq {s : State} {lru : Bytes} {a : Nat} (hn : s.lruNode (lruIter lru) = some a)
    (hp : (s.cell a).flags.page = true) :
    s.pageDegree lru .deg true =
      ((outsOf s a lru true true).map (·.2.2)).sum + ((insOf s a lru true).map (·.2.2)).sum := by
  unfold State.pageDegree
  simp only [pageLinks_eq hn hp, if_true, List.map_append, List.sum_append]

/-- MAIN (degrees): the weighted out-degree of page `p` is the number of submitted links `p → q`, `q ≠ p` -/
theorem LinkView.outdegree {s : State} {t : T} {L : List (Bytes × Bytes)} (v : LinkView s t L)
    {p : LRU} (hp : IsPage s t p) :
    s.pageDegree p.flatten .outdeg true =
      (L.filter (fun st => decide (lruIter st.1 = p ∧ lruIter st.2 ≠ p))).length := by
  obtain ⟨_, a, hn, hm, hf⟩ := isPage_node v.shape hp
  have hn' : s.lruNode (lruIter p.flatten) = some a := by rw [lruIter_flatten p (v.inv.wf p a hm)]; exact hn
  rw [pageDegree_out_eq hn' hf, v.sum_outsOf hm, v.sum_insOf hm]
  simp

/-- the weighted in-degree of page `p` is the number of submitted links `q → p`, `q ≠ p` -/
theorem LinkView.indegree {s : State} {t : T} {L : List (Bytes × Bytes)} (v : LinkView s t L)
    {p : LRU} (hp : IsPage s t p) :
    s.pageDegree p.flatten .indeg true =
      (L.filter (fun st => decide (lruIter st.2 = p ∧ lruIter st.1 ≠ p))).length := by
  obtain ⟨_, a, hn, hm, hf⟩ := isPage_node v.shape hp
  have hn' : s.lruNode (lruIter p.flatten) = some a := by rw [lruIter_flatten p (v.inv.wf p a hm)]; exact hn
  rw [pageDegree_in_eq hn' hf, v.sum_outsOf hm, v.sum_insOf hm]
  simp

/-- the weighted degree of page `p`: every submitted link leaving `p` (self-links included, once) plus
    every submitted link arriving from another page -/
theorem LinkView.degree {s : State} {t : T} {L : List (Bytes × Bytes)} (v : LinkView s t L)
    {p : LRU} (hp : IsPage s t p) :
    s.pageDegree p.flatten .deg true =
      (L.filter (fun st => decide (lruIter st.1 = p))).length +
      (L.filter (fun st => decide (lruIter st.2 = p ∧ lruIter st.1 ≠ p))).length := by
  obtain ⟨_, a, hn, hm, hf⟩ := isPage_node v.shape hp
  have hn' : s.lruNode (lruIter p.flatten) = some a := by rw [lruIter_flatten p (v.inv.wf p a hm)]; exact hn
  rw [pageDegree_deg_eq hn' hf, v.sum_outsOf hm, v.sum_insOf hm]
  congr 1
  · congr 1
    apply List.filter_congr
    intro st _
    by_cases e : lruIter st.2 = p <;> simp [e]
  · simp

#print axioms LinkView.outdegree
#print axioms LinkView.indegree
#print axioms LinkView.degree

/-! ### every other end is reported once -/

theorem lbNodup_of_map {α β : Type} (f : α → β) {l : List α} (h : (l.map f).Nodup) : l.Nodup := by
  unfold List.Nodup at h ⊢
  rw [List.pairwise_map] at h
  exact h.imp (fun hne e => hne (by rw [e]))

/-- distinct members of a bag of a page read back as distinct LRUs -/
theorem LinkView.windup_inj_bag {s : State} {t : T} {L : List (Bytes × Bytes)} (v : LinkView s t L)
    {a b b' : Nat} {o : Bool} (hb : b ∈ s.bag o a) (hb' : b' ∈ s.bag o a) (e : s.windup b = s.windup b') :
    b = b' := by
  obtain ⟨q, hq, _⟩ := v.graph.bag_entry v.shape hb
  obtain ⟨q', hq', _⟩ := v.graph.bag_entry v.shape hb'
  rw [v.windup hq, v.windup hq'] at e
  have : q = q' := (flatten_inj v.inv hq' hq).mp e
  subst this
  exact entries_path_injective v.shape.ord v.shape.nodup hq hq'

theorem mem_weighted_bag {s : State} {o : Bool} {a : Nat}
    (hne : (if o then (s.cell a).out else (s.cell a).inn) ≠ 0) {tw : Nat × Nat}
    (h : tw ∈ s.weighted (if o then (s.cell a).out else (s.cell a).inn)) : tw.1 ∈ s.bag o a := by
  rw [bag_eq_walk s o a hne]
  exact ((weighted_spec s _ tw.1 tw.2).mp h).1

theorem weighted_pairwise (s : State) (head : Nat) :
    (s.weighted head).Pairwise (fun x y => x.1 ≠ y.1) := by
  have := countInto_fold_keys_nodup (s.walk head)
  unfold List.Nodup at this
  rw [List.pairwise_map] at this
  exact this

theorem LinkView.outsOf_nodup {s : State} {t : T} {L : List (Bytes × Bytes)} (v : LinkView s t L)
    (a : Nat) (lru : Bytes) (incInt incOut : Bool) : ((outsOf s a lru incInt incOut).map (·.2.1)).Nodup := by
  unfold outsOf
  split
  · rename_i hc
    simp only [Bool.and_eq_true, decide_eq_true_eq] at hc
    have hne : (if true = true then (s.cell a).out else (s.cell a).inn) ≠ 0 := by simpa using hc.1
    unfold List.Nodup
    rw [List.pairwise_map, List.pairwise_filterMap]
    refine List.Pairwise.imp_of_mem ?_ (weighted_pairwise s _)
    intro x y hx hy hxy r hr r' hr' e
    simp only at hr hr'
    split at hr
    · split at hr'
      · cases hr; cases hr'
        simp only at e
        have hx' : x.1 ∈ s.bag true a := mem_weighted_bag hne (by simpa using hx)
        have hy' : y.1 ∈ s.bag true a := mem_weighted_bag hne (by simpa using hy)
        exact hxy (v.windup_inj_bag hx' hy' e)
      · cases hr'
    · cases hr
  · exact List.nodup_nil

theorem LinkView.insOf_nodup {s : State} {t : T} {L : List (Bytes × Bytes)} (v : LinkView s t L)
    (a : Nat) (lru : Bytes) (incIn : Bool) : ((insOf s a lru incIn).map (·.1)).Nodup := by
  unfold insOf
  split
  · rename_i hc
    simp only [Bool.and_eq_true, decide_eq_true_eq] at hc
    have hne : (if false = true then (s.cell a).out else (s.cell a).inn) ≠ 0 := by simpa using hc.1
    unfold List.Nodup
    rw [List.pairwise_map, List.pairwise_filterMap]
    refine List.Pairwise.imp_of_mem ?_ (weighted_pairwise s _)
    intro x y hx hy hxy r hr r' hr' e
    simp only at hr hr'
    split at hr
    · split at hr'
      · cases hr; cases hr'
        simp only at e
        have hx' : x.1 ∈ s.bag false a := mem_weighted_bag hne (by simpa using hx)
        have hy' : y.1 ∈ s.bag false a := mem_weighted_bag hne (by simpa using hy)
        exact hxy (v.windup_inj_bag hx' hy' e)
      · cases hr'
    · cases hr
  · exact List.nodup_nil

/-- MAIN (once each): `get_page_links` never repeats a triple; together with `mem_pageLinks` this
    determines the answer up to order: every linked page appears exactly once per side -/
theorem LinkView.pageLinks_nodup {s : State} {t : T} {L : List (Bytes × Bytes)} (v : LinkView s t L)
    {p : LRU} (hp : IsPage s t p) (incIn incInt incOut : Bool) :
    (s.pageLinks p.flatten incIn incInt incOut).Nodup := by
  obtain ⟨_, a, hn, hm, hf⟩ := isPage_node v.shape hp
  have hn' : s.lruNode (lruIter p.flatten) = some a := by rw [lruIter_flatten p (v.inv.wf p a hm)]; exact hn
  rw [pageLinks_eq hn' hf, List.nodup_append]
  refine ⟨lbNodup_of_map _ (v.outsOf_nodup a _ incInt incOut), lbNodup_of_map _ (v.insOf_nodup a _ incIn), ?_⟩
  intro x hx y hy e
  subst e
  obtain ⟨q, _, _, rfl⟩ := (v.mem_outsOf hm incInt incOut x).mp hx
  obtain ⟨_, q', hpos, hne, e⟩ := (v.mem_insOf hm incIn _).mp hy
  simp only [Prod.mk.injEq] at e
  obtain ⟨_, b, _, hq', _⟩ := isPage_node v.shape (nsub_pos_pages v.graph hpos).1
  exact hne ((flatten_inj v.inv hm hq').mp e.1.symm)

/-! ### `links_iter` and `count_links` -/

/-- MAIN (`links_iter`): in direction `o` the enumeration lists (page, other end) for exactly the
    submitted links having the page on that side -/
theorem LinkView.mem_linksIter {s : State} {t : T} {L : List (Bytes × Bytes)} (v : LinkView s t L)
    (o : Bool) (x y : Bytes) :
    (x, y) ∈ s.linksIter o ↔
      ∃ p q, 0 < (if o then nsub L p q else nsub L q p) ∧ x = p.flatten ∧ y = q.flatten := by
  unfold State.linksIter
  simp only [List.mem_flatMap, List.mem_filter]
  constructor
  · rintro ⟨⟨a, l⟩, ⟨hm, _⟩, hxy⟩
    simp only at hxy
    generalize hH : (if o = true then (s.cell a).out else (s.cell a).inn) = hd at hxy
    split at hxy
    · simp at hxy
    · rename_i hne
      subst hH
      obtain ⟨b, hb, e⟩ := List.mem_map.mp hxy
      simp only [Prod.mk.injEq] at e
      obtain ⟨rfl, rfl⟩ := e
      obtain ⟨p, hp, rfl⟩ := (dfsIter_mem_iff v.shape a l).mp hm
      have hb' : b ∈ s.bag o a := by
        rw [bag_eq_walk s o a hne]; exact (deduped_mem s _ b).mp hb
      obtain ⟨q, hq, hpos⟩ := (v.graph.mem_bag v.shape hp o b).mp hb'
      exact ⟨p, q, hpos, rfl, v.windup hq⟩
  · rintro ⟨p, q, hpos, rfl, rfl⟩
    have hpages : IsPage s t p ∧ IsPage s t q := by
      cases o
      · exact (nsub_pos_pages v.graph (by simpa using hpos)).symm
      · exact nsub_pos_pages v.graph (by simpa using hpos)
    obtain ⟨_, a, _, hp, hf⟩ := isPage_node v.shape hpages.1
    obtain ⟨_, b, _, hq, _⟩ := isPage_node v.shape hpages.2
    have hb : b ∈ s.bag o a := (v.graph.mem_bag v.shape hp o b).mpr ⟨q, hq, hpos⟩
    have hne := head_ne_zero_of_mem hb
    refine ⟨(a, p.flatten), ⟨(dfsIter_mem_iff v.shape a _).mpr ⟨p, hp, rfl⟩, hf⟩, ?_⟩
    simp only
    rw [if_neg hne]
    refine List.mem_map.mpr ⟨b, ?_, by rw [v.windup hq]⟩
    rw [deduped_mem, ← bag_eq_walk s o a hne]
    exact hb

/-- the two enumerations are transposes of each other -/
theorem LinkView.linksIter_transpose {s : State} {t : T} {L : List (Bytes × Bytes)} (v : LinkView s t L)
    (x y : Bytes) : (x, y) ∈ s.linksIter true ↔ (y, x) ∈ s.linksIter false := by
  rw [v.mem_linksIter, v.mem_linksIter]
  constructor
  · rintro ⟨p, q, hpos, rfl, rfl⟩; exact ⟨q, p, by simpa using hpos, rfl, rfl⟩
  · rintro ⟨q, p, hpos, rfl, rfl⟩; exact ⟨p, q, by simpa using hpos, rfl, rfl⟩

/-- the out enumeration lists exactly the submitted links -/
theorem LinkView.mem_linksIter_out {s : State} {t : T} {L : List (Bytes × Bytes)} (v : LinkView s t L)
    (x y : Bytes) :
    (x, y) ∈ s.linksIter true ↔ ∃ st ∈ L, x = (lruIter st.1).flatten ∧ y = (lruIter st.2).flatten := by
  rw [v.mem_linksIter]
  constructor
  · rintro ⟨p, q, hpos, rfl, rfl⟩
    obtain ⟨st, hst, rfl, rfl⟩ := nsub_pos (by simpa using hpos)
    exact ⟨st, hst, rfl, rfl⟩
  · rintro ⟨st, hst, rfl, rfl⟩
    refine ⟨_, _, ?_, rfl, rfl⟩
    simp only [if_true]
    unfold nsub
    exact List.length_pos_of_mem (List.mem_filter.mpr ⟨hst, by simp⟩)

/-- the global link count: two stubs per submitted link (the model reports twice `count_links`) -/
theorem Graph.countLinks2 {s : State} {t : T} {L : List (Bytes × Bytes)} (g : Graph s t L) :
    s.countLinks2 = 2 * L.length := by
  unfold State.countLinks2
  rw [g.size]; omega

#print axioms LinkView.pageLinks_nodup
#print axioms LinkView.mem_linksIter
#print axioms LinkView.linksIter_transpose

/-! ### unweighted degrees: the number of distinct linked pages -/

theorem lruIter_flatten_of_pos {s : State} {t : T} {L : List (Bytes × Bytes)} (v : LinkView s t L)
    {q : LRU} (hq : IsPage s t q) : lruIter q.flatten = q := by
  obtain ⟨_, b, _, hm, _⟩ := isPage_node v.shape hq
  exact lruIter_flatten q (v.inv.wf q b hm)

/-- the out-list answer has one triple per distinct linked page -/
theorem LinkView.outsOf_card {s : State} {t : T} {L : List (Bytes × Bytes)} (v : LinkView s t L)
    {p : LRU} {a : Nat} (hp : (p, a) ∈ t.entries s []) (incInt incOut : Bool) :
    ∃ qs : List LRU, qs.Nodup ∧
      (∀ q, q ∈ qs ↔ (0 < nsub L p q ∧ ((incOut = true ∧ q ≠ p) ∨ (incInt = true ∧ q = p)))) ∧
      (outsOf s a p.flatten incInt incOut).length = qs.length := by
  refine ⟨(outsOf s a p.flatten incInt incOut).map (fun x => lruIter x.2.1), ?_, ?_, (List.length_map _).symm⟩
  · have hnd := v.outsOf_nodup a p.flatten incInt incOut
    unfold List.Nodup at hnd ⊢
    rw [List.pairwise_map] at hnd ⊢
    refine List.Pairwise.imp_of_mem ?_ hnd
    intro x y hx hy hxy e
    obtain ⟨q, hq, _, rfl⟩ := (v.mem_outsOf hp incInt incOut x).mp hx
    obtain ⟨q', hq', _, rfl⟩ := (v.mem_outsOf hp incInt incOut y).mp hy
    simp only at e hxy
    rw [lruIter_flatten_of_pos v (nsub_pos_pages v.graph hq).2,
      lruIter_flatten_of_pos v (nsub_pos_pages v.graph hq').2] at e
    exact hxy (by rw [e])
  · intro q
    simp only [List.mem_map]
    constructor
    · rintro ⟨x, hx, rfl⟩
      obtain ⟨q', hq', hc, rfl⟩ := (v.mem_outsOf hp incInt incOut x).mp hx
      simp only
      rw [lruIter_flatten_of_pos v (nsub_pos_pages v.graph hq').2]
      exact ⟨hq', hc⟩
    · rintro ⟨hq, hc⟩
      refine ⟨(p.flatten, q.flatten, nsub L p q), (v.mem_outsOf hp incInt incOut _).mpr ⟨q, hq, hc, rfl⟩, ?_⟩
      simp only
      exact lruIter_flatten_of_pos v (nsub_pos_pages v.graph hq).2

/-- the in-list answer has one triple per distinct linking page -/
theorem LinkView.insOf_card {s : State} {t : T} {L : List (Bytes × Bytes)} (v : LinkView s t L)
    {p : LRU} {a : Nat} (hp : (p, a) ∈ t.entries s []) (incIn : Bool) :
    ∃ qs : List LRU, qs.Nodup ∧
      (∀ q, q ∈ qs ↔ (incIn = true ∧ 0 < nsub L q p ∧ q ≠ p)) ∧
      (insOf s a p.flatten incIn).length = qs.length := by
  refine ⟨(insOf s a p.flatten incIn).map (fun x => lruIter x.1), ?_, ?_, (List.length_map _).symm⟩
  · have hnd := v.insOf_nodup a p.flatten incIn
    unfold List.Nodup at hnd ⊢
    rw [List.pairwise_map] at hnd ⊢
    refine List.Pairwise.imp_of_mem ?_ hnd
    intro x y hx hy hxy e
    obtain ⟨_, q, hq, _, rfl⟩ := (v.mem_insOf hp incIn x).mp hx
    obtain ⟨_, q', hq', _, rfl⟩ := (v.mem_insOf hp incIn y).mp hy
    simp only at e hxy
    rw [lruIter_flatten_of_pos v (nsub_pos_pages v.graph hq).1,
      lruIter_flatten_of_pos v (nsub_pos_pages v.graph hq').1] at e
    exact hxy (by rw [e])
  · intro q
    simp only [List.mem_map]
    constructor
    · rintro ⟨x, hx, rfl⟩
      obtain ⟨hin, q', hq', hc, rfl⟩ := (v.mem_insOf hp incIn x).mp hx
      simp only
      rw [lruIter_flatten_of_pos v (nsub_pos_pages v.graph hq').1]
      exact ⟨hin, hq', hc⟩
    · rintro ⟨hin, hq, hc⟩
      refine ⟨(q.flatten, p.flatten, nsub L q p), (v.mem_insOf hp incIn _).mpr ⟨hin, q, hq, hc, rfl⟩, ?_⟩
      simp only
      exact lruIter_flatten_of_pos v (nsub_pos_pages v.graph hq).1

theorem pageDegree_unweighted_eq {s : State} {lru : Bytes} {a : Nat} (hn : s.lruNode (lruIter lru) = some a)
    (hp : (s.cell a).flags.page = true) :
    s.pageDegree lru .outdeg false = (outsOf s a lru false true).length + (insOf s a lru false).length ∧
    s.pageDegree lru .indeg false = (outsOf s a lru false false).length + (insOf s a lru true).length ∧
    s.pageDegree lru .deg false = (outsOf s a lru true true).length + (insOf s a lru true).length := by
  unfold State.pageDegree
  simp only [pageLinks_eq hn hp, Bool.false_eq_true, if_false, List.length_append, and_self]

/-- MAIN (unweighted degrees): the unweighted figures count distinct pages — `outOther`: the pages
    `q ≠ p` some link `p → q` was submitted to; `inOther`: the pages `q ≠ p` some link `q → p` was
    submitted from; `outAll`: as `outOther` plus `p` itself when a self-link was submitted -/
theorem LinkView.degree_unweighted {s : State} {t : T} {L : List (Bytes × Bytes)} (v : LinkView s t L)
    {p : LRU} (hp : IsPage s t p) :
    ∃ outAll outOther inOther : List LRU, outAll.Nodup ∧ outOther.Nodup ∧ inOther.Nodup ∧
      (∀ q, q ∈ outAll ↔ 0 < nsub L p q) ∧
      (∀ q, q ∈ outOther ↔ (0 < nsub L p q ∧ q ≠ p)) ∧
      (∀ q, q ∈ inOther ↔ (0 < nsub L q p ∧ q ≠ p)) ∧
      s.pageDegree p.flatten .outdeg false = outOther.length ∧
      s.pageDegree p.flatten .indeg false = inOther.length ∧
      s.pageDegree p.flatten .deg false = outAll.length + inOther.length := by
  obtain ⟨_, a, hn, hm, hf⟩ := isPage_node v.shape hp
  have hn' : s.lruNode (lruIter p.flatten) = some a := by rw [lruIter_flatten p (v.inv.wf p a hm)]; exact hn
  obtain ⟨d1, d2, d3⟩ := pageDegree_unweighted_eq hn' hf
  obtain ⟨oa, oa1, oa2, oa3⟩ := v.outsOf_card hm true true
  obtain ⟨oo, oo1, oo2, oo3⟩ := v.outsOf_card hm false true
  obtain ⟨on, _, on2, on3⟩ := v.outsOf_card hm false false
  obtain ⟨it, it1, it2, it3⟩ := v.insOf_card hm true
  obtain ⟨ifl, _, if2, if3⟩ := v.insOf_card hm false
  have hon : on = [] := by
    cases on with
    | nil => rfl
    | cons q _ =>
      have := (on2 q).mp (by simp)
      rcases this.2 with ⟨h, _⟩ | ⟨h, _⟩ <;> cases h
  have hif : ifl = [] := by
    cases ifl with
    | nil => rfl
    | cons q _ =>
      have := (if2 q).mp (by simp)
      cases this.1
  refine ⟨oa, oo, it, oa1, oo1, it1, fun q => ?_, fun q => ?_, fun q => ?_, ?_, ?_, ?_⟩
  · rw [oa2]
    constructor
    · exact fun h => h.1
    · intro h
      refine ⟨h, ?_⟩
      by_cases e : q = p
      · exact Or.inr ⟨rfl, e⟩
      · exact Or.inl ⟨rfl, e⟩
  · rw [oo2]
    constructor
    · rintro ⟨h, ⟨_, e⟩ | ⟨hf', _⟩⟩
      · exact ⟨h, e⟩
      · cases hf'
    · rintro ⟨h, e⟩; exact ⟨h, Or.inl ⟨rfl, e⟩⟩
  · rw [it2]
    constructor
    · exact fun h => h.2
    · exact fun h => ⟨rfl, h⟩
  · rw [d1, oo3, if3, hif]; rfl
  · rw [d2, on3, it3, hon]; simp
  · rw [d3, oa3, it3]

#print axioms LinkView.degree_unweighted

end Traph

import Proofs.CoFuel
import Proofs.CoDrainSlow
import Proofs.CoLinksOps
/-! C16 — the fuel of the network query `get_webentities_links_iter` (`CoSt.net`):
    `trie.size + links.size + pointers.length + 3` iterations per section ARE sufficient, but only because the
    lists hanging off distinct blocks share no stub — a global fact of the link store (`cf_SumOk`: heads inside the
    store, and the lengths of all out-lists and in-lists add up to less than `links.size`), not a consequence of
    `Shape`/`Inv`. It is kept by every section of every generator (`cf_sumOk_resume`) and holds in every reachable
    state (`cf_sumOk_reachable`).

    * A `cf_NI`: the walk of phase 1 pops every block once (ghost set `V`, as for the page query).
    * B `cf_sumTo`, `cf_total`, `cf_SumOk`. C `cf_Owns` (a stale head read from block `b` walks a suffix of `b`'s
      present list), `cf_NetInv` the local invariant, `cf_netResume_fuel` (1b).
    * D, F preservation of `cf_SumOk`. E `cf_NetInv.mono`, `cf_sched_never_G`, `cf_C16_net_query_failures`,
      `cf_C16_net_query_no_fuel`. -/
namespace Traph
open State Layout

/-! ## A. the depth-first walk of phase 1: blocks popped are popped once -/

theorem cf_edges_target_mem {u : T} (e : Nat × Slot × Nat) (he : e ∈ cf_edges u) : e.2.2 ∈ u.addrs := by
  cases u with
  | nil => simp [cf_edges] at he
  | node b l c r =>
    have h := cf_edges_targets 0 .L (.node b l c r)
    rw [← h]
    exact List.mem_map.mpr ⟨e, List.mem_append_right _ he, rfl⟩

/-- a tree that has a block is rooted at block 1 -/
theorem cf_root_one {s : State} {t : T} (h : Shape s t) {x : Nat} (hx : x ∈ t.addrs) : t.root = 1 ∧ 1 < s.trie.size := by
  have hroot := h.root
  cases t with
  | nil => simp [T.addrs] at hx
  | node a l c r =>
    by_cases hsz : s.trie.size ≤ 1
    · rw [if_pos hsz] at hroot
      exact absurd hroot h.rep.1
    · rw [if_neg hsz] at hroot
      exact ⟨hroot, by omega⟩

/-- the ghost part of the local invariant of the walk of the network query: `front` the blocks still to be
    expanded or popped, `V` the blocks expanded; distinct blocks of the tree, each the root or referred to by
    an expanded block -/
structure cf_NI (s : State) (t : T) (front V : List Nat) : Prop where
  nd   : (front ++ V).Nodup
  clos : ∀ x ∈ front ++ V, x ∈ t.addrs ∧ (x = 1 ∨ ∃ y ∈ V, ∃ sl, cf_Par s y sl x)

theorem cf_addrs_ext {s s' : State} {t t' : T} (x : Ext s t s' t') {a : Nat} (ha : a ∈ t.addrs) : a ∈ t'.addrs := by
  have := (entries_addrs_perm (s := s) t []).mem_iff.mpr ha
  obtain ⟨e, he, rfl⟩ := List.mem_map.mp this
  exact entries_addr_mem _ _ _ _ (x.keep e.1 e.2 he)

theorem cf_NI.mono {s s' : State} {t t' : T} {front V : List Nat} (h : Shape s t) (x : Ext s t s' t') (le : s ⊑ s')
    (hp : cf_NI s t front V) : cf_NI s' t' front V where
  nd := hp.nd
  clos := fun a ha => by
    obtain ⟨h1, h2⟩ := hp.clos a ha
    refine ⟨cf_addrs_ext x h1, ?_⟩
    rcases h2 with h2 | ⟨y, hy, sl, hpar⟩
    · exact Or.inl h2
    · have hyA := (hp.clos y (List.mem_append_right _ hy)).1
      exact Or.inr ⟨y, hy, sl, hpar.mono le (h.rep.lt_size y hyA)⟩

theorem cf_NI.length_le {s : State} {t : T} {front V : List Nat} (h : Shape s t) (hp : cf_NI s t front V) :
    front.length + V.length ≤ s.trie.size := by
  rw [← List.length_append]
  exact nodup_length_le _ _ hp.nd (fun x hx => h.rep.lt_size x (hp.clos x hx).1)

theorem cf_NI.expand {s : State} {t : T} {b : Nat} {F V : List Nat} (h : Shape s t)
    (hp : cf_NI s t (b :: F) V) {c1 c2 c3 : Prop} [Decidable c1] [Decidable c2] [Decidable c3]
    {x1 x2 x3 : Nat} (h1 : c1 → cf_Par s b .C x1) (h2 : c2 → cf_Par s b .L x2) (h3 : c3 → cf_Par s b .R x3) :
    cf_NI s t ((if c1 then [x1] else []) ++ ((if c2 then [x2] else []) ++ ((if c3 then [x3] else []) ++ F))) (b :: V) := by
  have hbA : b ∈ t.addrs := (hp.clos b (by simp)).1
  have hbV : b ∉ V := by
    have := hp.nd
    rw [List.cons_append, List.nodup_cons] at this
    exact fun hv => this.1 (List.mem_append_right _ hv)
  have hmem : ∀ sl x, cf_Par s b sl x → x ∈ t.addrs ∧ x ≠ 1 := by
    intro sl x hpar
    have he := cf_edges_mem t h.rep b sl hbA (by rw [hpar.2]; exact hpar.1)
    rw [hpar.2] at he
    refine ⟨cf_edges_target_mem _ he, ?_⟩
    have := cf_edges_not_root h.nodup _ he
    rw [(cf_root_one h hbA).1] at this
    exact this
  have fresh : ∀ sl x, cf_Par s b sl x → x ∉ (b :: F) ++ V := by
    intro sl x hpar hx
    rcases (hp.clos x hx).2 with e | ⟨y, hy, sl', hpar'⟩
    · exact (hmem sl x hpar).2 e
    · have hyA := (hp.clos y (List.mem_append_right _ hy)).1
      have := (cf_par_unique h hyA hbA hpar' hpar).1
      subst this
      exact hbV hy
  have hndFV : (F ++ b :: V).Nodup := (List.perm_middle.nodup_iff).mpr (by simpa using hp.nd)
  have memFV : ∀ x, x ∈ F ++ b :: V ↔ x ∈ (b :: F) ++ V := by
    intro x; simp only [List.mem_append, List.mem_cons]
    constructor
    · rintro (h | h | h)
      · exact Or.inl (Or.inr h)
      · exact Or.inl (Or.inl h)
      · exact Or.inr h
    · rintro ((h | h) | h)
      · exact Or.inr (Or.inl h)
      · exact Or.inl h
      · exact Or.inr (Or.inr h)
  refine ⟨?_, ?_⟩
  · simp only [List.append_assoc]
    refine cf_nodup_opt (cf_nodup_opt (cf_nodup_opt hndFV ?_) ?_) ?_
    · intro hc hx
      exact fresh _ _ (h3 hc) ((memFV _).mp hx)
    · intro hc hx
      rcases cf_mem_opt.mp hx with ⟨hc3, e⟩ | hx
      · have := (cf_par_unique h hbA hbA (h2 hc) (e ▸ (h3 hc3))).2
        cases this
      · exact fresh _ _ (h2 hc) ((memFV _).mp hx)
    · intro hc hx
      rcases cf_mem_opt.mp hx with ⟨hc2, e⟩ | hx
      · have := (cf_par_unique h hbA hbA (h1 hc) (e ▸ (h2 hc2))).2
        cases this
      · rcases cf_mem_opt.mp hx with ⟨hc3, e⟩ | hx
        · have := (cf_par_unique h hbA hbA (h1 hc) (e ▸ (h3 hc3))).2
          cases this
        · exact fresh _ _ (h1 hc) ((memFV _).mp hx)
  · have new : ∀ sl x, cf_Par s b sl x → x ∈ t.addrs ∧ (x = 1 ∨ ∃ y ∈ b :: V, ∃ sl, cf_Par s y sl x) :=
      fun sl x hpar => ⟨(hmem sl x hpar).1, Or.inr ⟨b, by simp, sl, hpar⟩⟩
    intro x hx
    simp only [List.append_assoc] at hx
    rcases cf_mem_opt.mp hx with ⟨hc, rfl⟩ | hx
    · exact new _ _ (h1 hc)
    rcases cf_mem_opt.mp hx with ⟨hc, rfl⟩ | hx
    · exact new _ _ (h2 hc)
    rcases cf_mem_opt.mp hx with ⟨hc, rfl⟩ | hx
    · exact new _ _ (h3 hc)
    obtain ⟨g1, g2⟩ := hp.clos x ((memFV x).mp hx)
    refine ⟨g1, ?_⟩
    rcases g2 with e | ⟨y, hy, sl, hpar⟩
    · exact Or.inl e
    · exact Or.inr ⟨y, List.mem_cons_of_mem _ hy, sl, hpar⟩

theorem cf_dfsWePush_map (b we cur : Nat) (c : Cell) (stack : List (Nat × Nat)) :
    (dfsWePush b we cur c stack).map (·.1) =
      (if c.child ≠ 0 then [c.child] else []) ++ ((if c.left ≠ 0 then [c.left] else []) ++
        ((if c.right ≠ 0 then [c.right] else []) ++ stack.map (·.1))) := by
  unfold dfsWePush
  by_cases h3 : c.child = 0 <;> by_cases h4 : c.left = 0 <;> by_cases h5 : c.right = 0 <;> simp [h3, h4, h5]

theorem cf_NI.expand_copy {s : State} {t : T} {b : Nat} {F V : List Nat} (h : Shape s t)
    (hp : cf_NI s t (b :: F) V) {c : Cell} (cl : CellLe c (s.cell b)) :
    cf_NI s t ((if c.child ≠ 0 then [c.child] else []) ++ ((if c.left ≠ 0 then [c.left] else []) ++
        ((if c.right ≠ 0 then [c.right] else []) ++ F))) (b :: V) :=
  hp.expand h (fun hc => ⟨hc, cl.child hc⟩) (fun hc => ⟨hc, cl.left hc⟩) (fun hc => ⟨hc, cl.right hc⟩)

/-- the walk starts at block 1 -/
theorem cf_NI.start {s : State} {t : T} (h : Shape s t) (hsz : ¬ s.trie.size ≤ 1) : cf_NI s t [1] [] := by
  have hroot := h.root
  rw [if_neg hsz] at hroot
  refine ⟨by simp, fun x hx => ?_⟩
  simp only [List.append_nil, List.mem_singleton] at hx
  subst hx
  cases t with
  | nil => simp at hroot
  | node a l c r =>
    simp only [T.root_node] at hroot
    subst hroot
    exact ⟨by simp [T.addrs], Or.inl rfl⟩

/-! ## B. the link store: the lists of distinct blocks share no stub -/

def cf_sumTo (g : Nat → Nat) : Nat → Nat
  | 0 => 0
  | n + 1 => cf_sumTo g n + g n

theorem cf_sum_filter_le (g : Nat → Nat) (n : Nat) : ∀ l : List Nat, l.Nodup →
    (l.map g).sum ≤ ((l.filter (· ≠ n)).map g).sum + g n
  | [], _ => by simp
  | x :: xs, hnd => by
    rw [List.nodup_cons] at hnd
    by_cases hx : x = n
    · subst hx
      have : xs.filter (· ≠ x) = xs := by
        rw [List.filter_eq_self]
        intro a ha
        simp only [ne_eq, decide_not, Bool.not_eq_eq_eq_not, Bool.not_true, decide_eq_false_iff_not]
        intro e; subst e; exact hnd.1 ha
      simp only [List.map_cons, List.sum_cons, ne_eq, not_true_eq_false, decide_false, Bool.false_eq_true,
        not_false_eq_true, List.filter_cons_of_neg]
      simp only [ne_eq] at this
      rw [this]
      omega
    · have ih := cf_sum_filter_le g n xs hnd.2
      simp only [List.map_cons, List.sum_cons, ne_eq, hx, not_false_eq_true, decide_true, List.filter_cons_of_pos]
      simp only [ne_eq] at ih
      omega

/-- the values of `g` on distinct numbers below `n` add up to at most the sum over all numbers below `n` -/
theorem cf_sum_nodup_le (g : Nat → Nat) : ∀ (n : Nat) (l : List Nat), l.Nodup → (∀ x ∈ l, x < n) →
    (l.map g).sum ≤ cf_sumTo g n
  | 0, l, _, hl => by
    cases l with
    | nil => simp [cf_sumTo]
    | cons a as => exact absurd (hl a (by simp)) (by omega)
  | n + 1, l, hnd, hl => by
    have h1 := cf_sum_filter_le g n l hnd
    have h2 := cf_sum_nodup_le g n (l.filter (· ≠ n)) (hnd.filter _) (by
      intro x hx
      rw [List.mem_filter] at hx
      have := hl x hx.1
      have h3 : x ≠ n := by simpa using hx.2
      omega)
    simp only [cf_sumTo]
    omega

/-- stubs in use: the lengths of all out-lists and in-lists -/
def cf_total (s : State) : Nat := cf_sumTo (fun a => (outList s a).length + (inList s a).length) s.trie.size

/-- **the global link invariant the network query needs**: heads inside the store, and the lists hanging off
    the blocks use distinct stubs: their lengths add up to less than the size of the store -/
def cf_SumOk (s : State) : Prop := HeadsOk s ∧ cf_total s + 1 ≤ s.links.size

def cf_listOf (s : State) (out : Bool) (b : Nat) : List Nat := if out then outList s b else inList s b

/-- `head` was read from block `b` (its out-head or in-head) at some earlier moment: the list hanging off it is
    a suffix of the block's present list -/
structure cf_Owns (s : State) (out : Bool) (b head : Nat) : Prop where
  lt  : b < s.trie.size
  ne  : head ≠ 0
  hlt : head < s.links.size
  suf : ∃ new, cf_listOf s out b = new ++ s.walk head

/-- stubs are never altered: the list hanging off a stub of the store is the same ever after -/
theorem cf_walk_le {s s' : State} (le : s ⊑ s') (hwf : s.LinksWf) (hwf' : s'.LinksWf) :
    ∀ (n h : Nat), h < n → h < s.links.size → s'.walk h = s.walk h := by
  intro n
  induction n with
  | zero => intro h hn; omega
  | succ n ih =>
    intro h hn hh
    have hs : s.links[h]? = some s.links[h] := by simp [hh]
    have hs' := le.stubs h _ hs
    rw [walk_unfold' s hwf h _ hs, walk_unfold' s' hwf' h _ hs']
    by_cases hp : (s.links[h]).prev ≠ 0
    · rw [if_pos hp, if_pos hp]
      rcases hwf.2 h _ hs with hlt | ⟨_, h0⟩
      · rw [ih _ (by omega) (by omega)]
      · exact absurd h0 hp
    · rw [if_neg hp, if_neg hp]

theorem cf_Owns.mono {s s' : State} {out : Bool} {b head : Nat} (le : s ⊑ s') (hk : HeadsOk s) (hk' : HeadsOk s')
    (hg : LinkGrow s s') (ho : cf_Owns s out b head) : cf_Owns s' out b head := by
  obtain ⟨h1, h2, h3, new, h4⟩ := ho
  have hs' := le.stubs head _ (by simp [h3] : s.links[head]? = some s.links[head])
  refine ⟨Nat.lt_of_lt_of_le h1 le.size, h2, (Array.getElem?_eq_some_iff.mp hs').1, ?_⟩
  rw [cf_walk_le le hk.1 hk'.1 _ head (Nat.lt_succ_self _) h3]
  obtain ⟨⟨n1, e1⟩, ⟨n2, e2⟩⟩ := hg b
  cases out with
  | true =>
    simp only [cf_listOf, if_true] at h4 ⊢
    exact ⟨n1 ++ new, by rw [e1, h4, List.append_assoc]⟩
  | false =>
    simp only [cf_listOf, Bool.false_eq_true, if_false] at h4 ⊢
    exact ⟨n2 ++ new, by rw [e2, h4, List.append_assoc]⟩

/-- a head just read from a block -/
theorem cf_Owns.fresh {s : State} {t : T} (h : Shape s t) (hk : HeadsOk s) (out : Bool) {b : Nat} (hb : b ∈ t.addrs)
    (hne : (if out then (s.cell b).out else (s.cell b).inn) ≠ 0) :
    cf_Owns s out b (if out then (s.cell b).out else (s.cell b).inn) := by
  refine ⟨h.rep.lt_size b hb, hne, ?_, [], ?_⟩
  · cases out
    · exact (hk.2 b).2
    · exact (hk.2 b).1
  · cases out with
    | true =>
      simp only [if_true] at hne ⊢
      simp [cf_listOf, outList, walk0, hne]
    | false =>
      simp only [Bool.false_eq_true, if_false] at hne ⊢
      simp [cf_listOf, inList, walk0, hne]

theorem cf_weighted_length_le (s : State) (head : Nat) : (s.weighted head).length ≤ (s.walk head).length := by
  have key : ∀ (l : List Nat) (acc : List (Nat × Nat)), (l.foldl countInto acc).length ≤ acc.length + l.length := by
    intro l
    induction l with
    | nil => intro acc; simp
    | cons x xs ih =>
      intro acc
      have h1 := ih (countInto acc x)
      have h2 := cd_countInto_length_le acc x
      simp only [List.foldl_cons, List.length_cons]
      omega
  have := key (s.walk head) []
  simpa [weighted] using this

/-- (owner block, source webentity, head) : a pointer of the query with the block it was read from -/
abbrev cf_Ptr := Nat × Nat × Nat

def cf_walkSum (s : State) (l : List cf_Ptr) : Nat := (l.map (fun x => (s.walk x.2.2).length)).sum

theorem cf_walkSum_le {s : State} {out : Bool} {l : List cf_Ptr} (hnd : (l.map (·.1)).Nodup)
    (ho : ∀ x ∈ l, cf_Owns s out x.1 x.2.2) : cf_walkSum s l ≤ cf_total s := by
  have h1 : cf_walkSum s l ≤ ((l.map (·.1)).map (fun a => (outList s a).length + (inList s a).length)).sum := by
    clear hnd
    induction l with
    | nil => simp [cf_walkSum]
    | cons x xs ih =>
      have := ih (fun y hy => ho y (List.mem_cons_of_mem _ hy))
      obtain ⟨new, e⟩ := (ho x (by simp)).suf
      have hl : (s.walk x.2.2).length ≤ (outList s x.1).length + (inList s x.1).length := by
        have := congrArg List.length e
        simp only [List.length_append] at this
        unfold cf_listOf at this
        split at this <;> omega
      simp only [cf_walkSum, List.map_cons, List.sum_cons, List.map_map] at this ⊢
      omega
  refine Nat.le_trans h1 (cf_sum_nodup_le _ _ _ hnd (fun a ha => ?_))
  obtain ⟨x, hx, rfl⟩ := List.mem_map.mp ha
  exact (ho x hx).lt

/-! ## C. the local invariant of the network query and the fuel of one section -/

def cf_netPend (n : NetSt) : List Nat :=
  match n.pend with
  | some (b, _, _, _) => [b]
  | none => []

def cf_netFront (n : NetSt) : List Nat := cf_netPend n ++ n.stack.map (·.1)

/-- ghosts: `V` the blocks expanded; `rem` the pointers still to process, each with the block it was read
    from; `cur` (at most one) the pointer whose list `curList` is a snapshot of -/
structure cf_NInv (s : State) (t : T) (n : NetSt) (V : List Nat) (cur rem : List cf_Ptr) : Prop where
  pendle : ∀ b we cu c, n.pend = some (b, we, cu, c) → CellLe c (s.cell b)
  unst   : n.started = false → n.pend = none ∧ n.phase2 = none ∧ rem = []
  dfs    : n.started = true → cf_NI s t (cf_netFront n) V
  ph1    : n.phase2 = none → rem.map (·.2) = n.pointers ∧ cur = [] ∧ n.curList = []
  ph2    : ∀ ptrs, n.phase2 = some ptrs → rem.map (·.2) = ptrs ∧ ptrs.length ≤ n.pointers.length
  ownd   : ((cur ++ rem).map (·.1)).Nodup
  owns   : ∀ x ∈ cur ++ rem, cf_Owns s n.out x.1 x.2.2
  inV    : n.phase2 = none → ∀ x ∈ rem, x.1 ∈ cf_netPend n ++ V
  curl   : n.curList.length ≤ cf_walkSum s cur

/-- **the local invariant of the network query** -/
def cf_NetInv (s : State) (t : T) (n : NetSt) : Prop := ∃ V cur rem, cf_NInv s t n V cur rem

theorem cf_NetInv.init (s : State) (t : T) (out auto : Bool) : cf_NetInv s t { out := out, auto := auto } :=
  ⟨[], [], [], fun _ _ _ _ e => by simp at e, fun _ => ⟨rfl, rfl, rfl⟩, fun e => by simp at e,
    fun _ => ⟨rfl, rfl, rfl⟩, fun _ e => by simp at e, by simp, fun x hx => by simp at hx,
    fun _ x hx => by simp at hx, by simp [cf_walkSum]⟩

theorem cf_net_aux2 : ∀ (F : Nat) (s : State) (t : T) (n : NetSt) (V : List Nat) (cur rem : List cf_Ptr)
    (ptrs : List (Nat × Nat)), cf_NInv s t n V cur rem → n.phase2 = some ptrs →
    n.curList.length + rem.length + cf_walkSum s rem + 1 ≤ F →
    (netResume F s n).2 ≠ .failed (.other "fuel") ∧
    ((netResume F s n).2 = .yielded → cf_NetInv s t (netResume F s n).1)
  | 0, _, _, _, _, _, _, _, _, _, hF => by omega
  | F + 1, s, t, n, V, cur, rem, ptrs, hn, hph, hF => by
    obtain ⟨out, auto, started, stack, pend, pageWe, pointers, phase2, curSrc, curList, graph⟩ := n
    simp only at hph
    subst hph
    rw [netResume]
    simp only
    cases curList with
    | cons tw more =>
      obtain ⟨tt, w⟩ := tw
      have hskip : ∀ g, cf_NInv s t ⟨out, auto, started, stack, pend, pageWe, pointers, some ptrs, curSrc, more, g⟩ V cur rem :=
        fun g => ⟨hn.pendle, hn.unst, hn.dfs, (fun e => by cases e), hn.ph2, hn.ownd, hn.owns, (fun e => by cases e), (by
          have := hn.curl
          simp only [List.length_cons] at this
          show more.length ≤ _
          omega)⟩
      simp only [List.length_cons] at hF
      simp only
      cases hd : dictGet? pageWe tt with
      | none =>
        simp only
        exact cf_net_aux2 F s t _ V cur rem ptrs (hskip _) rfl (by show more.length + _ + _ + 1 ≤ F; omega)
      | some tWe =>
        simp only
        split
        · exact cf_net_aux2 F s t _ V cur rem ptrs (hskip _) rfl (by show more.length + _ + _ + 1 ≤ F; omega)
        · exact ⟨by simp, fun _ => ⟨V, cur, rem, hskip _⟩⟩
    | nil =>
      simp only
      obtain ⟨hrem, hlen⟩ := hn.ph2 ptrs rfl
      cases ptrs with
      | nil => simp
      | cons sh rest =>
        obtain ⟨src, head⟩ := sh
        simp only
        cases rem with
        | nil => simp at hrem
        | cons x rem' =>
          simp only [List.map_cons, List.cons.injEq] at hrem
          obtain ⟨hx, hrem'⟩ := hrem
          have hnd := hn.ownd
          rw [List.map_append, List.map_cons] at hnd
          have hnd' : (([x] ++ rem').map (·.1)).Nodup := by
            simp only [List.singleton_append, List.map_cons]
            exact (List.nodup_append.mp hnd).2.1
          have hxh : x.2.2 = head := by rw [hx]
          have hopen : cf_NInv s t ⟨out, auto, started, stack, pend, pageWe, pointers, some rest, src, s.weighted head, graph⟩
              V [x] rem' := by
            refine ⟨hn.pendle, ?_, hn.dfs, (fun e => by cases e), ?_, hnd', ?_, (fun e => by cases e), ?_⟩
            · intro hst
              have := (hn.unst hst).2.1
              cases this
            · intro ptrs' e
              simp only [Option.some.injEq] at e
              subst e
              refine ⟨hrem', ?_⟩
              simp only [List.length_cons] at hlen
              show rest.length ≤ pointers.length
              omega
            · intro y hy
              exact hn.owns y (List.mem_append_right _ (by simpa using hy))
            · show (s.weighted head).length ≤ cf_walkSum s [x]
              have := cf_weighted_length_le s head
              simp only [cf_walkSum, List.map_cons, List.map_nil, List.sum_cons, List.sum_nil, hxh]
              omega
          refine cf_net_aux2 F s t _ V [x] rem' rest hopen rfl ?_
          show (s.weighted head).length + rem'.length + cf_walkSum s rem' + 1 ≤ F
          have := cf_weighted_length_le s head
          simp only [List.length_nil, List.length_cons, cf_walkSum, List.map_cons, List.sum_cons, hxh] at hF ⊢
          omega

theorem cf_net_aux1 : ∀ (F : Nat) (s : State) (t : T) (out auto : Bool) (stack : List (Nat × Nat))
    (pageWe pointers : List (Nat × Nat)) (curSrc : Nat) (graph : List NetRow) (V : List Nat) (rem : List cf_Ptr),
    Shape s t → HeadsOk s →
    cf_NInv s t ⟨out, auto, true, stack, none, pageWe, pointers, none, curSrc, [], graph⟩ V [] rem →
    s.trie.size + 2 + rem.length + cf_walkSum s rem ≤ F + V.length →
    (netResume F s ⟨out, auto, true, stack, none, pageWe, pointers, none, curSrc, [], graph⟩).2 ≠ .failed (.other "fuel") ∧
    ((netResume F s ⟨out, auto, true, stack, none, pageWe, pointers, none, curSrc, [], graph⟩).2 = .yielded →
      cf_NetInv s t (netResume F s ⟨out, auto, true, stack, none, pageWe, pointers, none, curSrc, [], graph⟩).1)
  | 0, s, t, out, auto, stack, pageWe, pointers, curSrc, graph, V, rem, h, hk, hn, hF => by
    have := (hn.dfs rfl).length_le h
    omega
  | F + 1, s, t, out, auto, stack, pageWe, pointers, curSrc, graph, V, rem, h, hk, hn, hF => by
    rw [netResume]
    simp only [if_true]
    cases stack with
    | nil =>
      simp only
      have hV := (hn.dfs rfl).length_le h
      refine cf_net_aux2 F s t _ V [] rem pointers ?_ rfl ?_
      · exact ⟨hn.pendle, (fun e => by cases e), hn.dfs, (fun e => by cases e),
          (fun ptrs e => by cases e; exact ⟨(hn.ph1 rfl).1, Nat.le_refl _⟩), hn.ownd, hn.owns, (fun e => by cases e), hn.curl⟩
      · show 0 + rem.length + cf_walkSum s rem + 1 ≤ F
        omega
    | cons top rest =>
      obtain ⟨b, we⟩ := top
      simp only
      generalize hcur : (if (s.cell b).we ≠ 0 then (s.cell b).we else we) = cur
      have hdfs := hn.dfs rfl
      have hfront : cf_netFront ⟨out, auto, true, (b, we) :: rest, none, pageWe, pointers, none, curSrc, [], graph⟩ =
          b :: rest.map (·.1) := rfl
      rw [hfront] at hdfs
      have hbA : b ∈ t.addrs := (hdfs.clos b (by simp)).1
      have hbV : b ∉ V := by
        have := hdfs.nd
        rw [List.cons_append, List.nodup_cons] at this
        exact fun hv => this.1 (List.mem_append_right _ hv)
      have hremV : ∀ x ∈ rem, x.1 ∈ V := fun x hx => by simpa [cf_netPend] using hn.inV rfl x hx
      split
      · refine ⟨by simp, fun _ => ?_⟩
        by_cases hne : (if out = true then (s.cell b).out else (s.cell b).inn) ≠ 0
        · refine ⟨V, [], rem ++ [(b, cur, if out = true then (s.cell b).out else (s.cell b).inn)], ?_⟩
          refine ⟨?_, (fun e => by cases e), fun _ => hdfs, fun _ => ⟨?_, rfl, rfl⟩, (fun _ e => by cases e), ?_, ?_, ?_, hn.curl⟩
          · intro b' we' cu' c' e'
            simp only [Option.some.injEq, Prod.mk.injEq] at e'
            obtain ⟨rfl, _, _, rfl⟩ := e'
            exact CellLe.refl _
          · show List.map (fun x : cf_Ptr => x.2) (rem ++ [(b, cur, _)]) = if _ then pointers ++ [(cur, _)] else pointers
            rw [if_pos hne, List.map_append, (hn.ph1 rfl).1]
            rfl
          · have := hn.ownd
            simp only [List.nil_append, List.map_append, List.map_cons, List.map_nil] at this ⊢
            rw [List.nodup_append]
            refine ⟨this, by simp, fun a ha c hc => ?_⟩
            simp only [List.mem_singleton] at hc
            subst hc
            obtain ⟨x, hx, rfl⟩ := List.mem_map.mp ha
            exact fun e => hbV (e ▸ hremV x hx)
          · intro x hx
            simp only [List.nil_append, List.mem_append, List.mem_singleton] at hx
            rcases hx with hx | rfl
            · exact hn.owns x (by simpa using hx)
            · exact cf_Owns.fresh h hk out hbA hne
          · intro _ x hx
            simp only [List.mem_append, List.mem_singleton] at hx
            rcases hx with hx | rfl
            · exact List.mem_append_right _ (hremV x hx)
            · simp [cf_netPend]
        · refine ⟨V, [], rem, ?_⟩
          refine ⟨?_, (fun e => by cases e), fun _ => hdfs, fun _ => ⟨?_, rfl, rfl⟩, (fun _ e => by cases e), hn.ownd, hn.owns, ?_, hn.curl⟩
          · intro b' we' cu' c' e'
            simp only [Option.some.injEq, Prod.mk.injEq] at e'
            obtain ⟨rfl, _, _, rfl⟩ := e'
            exact CellLe.refl _
          · show List.map (fun x : cf_Ptr => x.2) rem = if _ then pointers ++ [(cur, _)] else pointers
            rw [if_neg hne, (hn.ph1 rfl).1]
          · intro _ x hx
            exact List.mem_append_right _ (hremV x hx)
      · have hexp := hdfs.expand_copy h (CellLe.refl (s.cell b))
        rw [← cf_dfsWePush_map b we cur (s.cell b) rest] at hexp
        refine cf_net_aux1 F s t out auto _ pageWe pointers curSrc graph (b :: V) rem h hk ?_ ?_
        · exact ⟨(fun _ _ _ _ e => by cases e), (fun e => by cases e), fun _ => hexp, hn.ph1, hn.ph2, hn.ownd, hn.owns,
            (fun _ x hx => by simpa [cf_netPend] using Or.inr (hremV x hx)), hn.curl⟩
        · simp only [List.length_cons]; omega

theorem cf_walkSum_append (s : State) (a b : List cf_Ptr) : cf_walkSum s (a ++ b) = cf_walkSum s a + cf_walkSum s b := by
  simp [cf_walkSum]

/-- **(1b) fuel sufficiency for one section of the network query**, in any state of the machine satisfying the
    local invariant, on an index whose link store satisfies `cf_SumOk` (lists of distinct blocks share no stub) -/
theorem cf_netResume_fuel {s : State} {t : T} {n : NetSt} (h : Shape s t) (hg : cf_SumOk s) (hn : cf_NetInv s t n) :
    (netResume (s.trie.size + s.links.size + n.pointers.length + 3) s n).2 ≠ .failed (.other "fuel") ∧
    ((netResume (s.trie.size + s.links.size + n.pointers.length + 3) s n).2 = .yielded →
      cf_NetInv s t (netResume (s.trie.size + s.links.size + n.pointers.length + 3) s n).1) := by
  obtain ⟨V, cur, rem, hinv⟩ := hn
  obtain ⟨hk, hsum⟩ := hg
  have hws := cf_walkSum_le hinv.ownd hinv.owns
  rw [cf_walkSum_append] at hws
  obtain ⟨out, auto, started, stack, pend, pageWe, pointers, phase2, curSrc, curList, graph⟩ := n
  cases phase2 with
  | some ptrs =>
    refine cf_net_aux2 _ s t _ V cur rem ptrs hinv rfl ?_
    obtain ⟨e1, e2⟩ := hinv.ph2 ptrs rfl
    have hl : rem.length = ptrs.length := by rw [← e1, List.length_map]
    have := hinv.curl
    simp only at this e2 ⊢
    omega
  | none =>
    obtain ⟨e1, e2, e3⟩ := hinv.ph1 rfl
    simp only at e1 e3
    subst e2 e3
    have hl : rem.length = pointers.length := by rw [← e1, List.length_map]
    have h0 : cf_walkSum s ([] : List cf_Ptr) = 0 := rfl
    rw [h0, Nat.zero_add] at hws
    cases started with
    | false =>
      obtain ⟨e4, _, e5⟩ := hinv.unst rfl
      simp only at e4
      subst e4 e5
      have hnorm : ∀ F, netResume (F + 1) s ⟨out, auto, false, stack, none, pageWe, pointers, none, curSrc, [], graph⟩ =
          netResume (F + 1) s ⟨out, auto, true, (if s.trie.size ≤ 1 then [] else [(1, 0)]), none, pageWe, pointers, none,
            curSrc, [], graph⟩ := fun F => rfl
      show (netResume ((s.trie.size + s.links.size + pointers.length + 2) + 1) s _).2 ≠ _ ∧ _
      rw [hnorm]
      refine cf_net_aux1 _ s t out auto _ pageWe pointers curSrc graph [] [] h hk ?_ ?_
      · refine ⟨(fun _ _ _ _ e => by cases e), (fun e => by cases e), fun _ => ?_, fun _ => ⟨e1, rfl, rfl⟩,
          (fun _ e => by cases e), by simp, fun x hx => by simp at hx, fun _ x hx => by simp at hx, by simp [cf_walkSum]⟩
        by_cases hsz : s.trie.size ≤ 1
        · have : cf_netFront ⟨out, auto, true, (if s.trie.size ≤ 1 then [] else [(1, 0)]), none, pageWe, pointers, none,
              curSrc, [], graph⟩ = [] := by simp [cf_netFront, cf_netPend, hsz]
          rw [this]
          exact ⟨by simp, fun x hx => by simp at hx⟩
        · have : cf_netFront ⟨out, auto, true, (if s.trie.size ≤ 1 then [] else [(1, 0)]), none, pageWe, pointers, none,
              curSrc, [], graph⟩ = [1] := by simp [cf_netFront, cf_netPend, hsz]
          rw [this]
          exact cf_NI.start h hsz
      · simp only [cf_walkSum, List.map_nil, List.sum_nil, List.length_nil]; omega
    | true =>
      cases pend with
      | none =>
        refine cf_net_aux1 _ s t out auto stack pageWe pointers curSrc graph V rem h hk hinv ?_
        simp only at hl ⊢
        omega
      | some x =>
        obtain ⟨b, we, cu, c⟩ := x
        have hnorm : ∀ F, netResume (F + 1) s ⟨out, auto, true, stack, some (b, we, cu, c), pageWe, pointers, none, curSrc, [], graph⟩ =
            netResume (F + 1) s ⟨out, auto, true, dfsWePush b we cu c stack, none, pageWe, pointers, none,
              curSrc, [], graph⟩ := fun F => rfl
        show (netResume ((s.trie.size + s.links.size + pointers.length + 2) + 1) s _).2 ≠ _ ∧ _
        rw [hnorm]
        have hdfs := hinv.dfs rfl
        have hfront : cf_netFront ⟨out, auto, true, stack, some (b, we, cu, c), pageWe, pointers, none, curSrc, [], graph⟩ =
            b :: stack.map (·.1) := rfl
        rw [hfront] at hdfs
        have hexp := hdfs.expand_copy h (hinv.pendle b we cu c rfl)
        rw [← cf_dfsWePush_map b we cu c stack] at hexp
        refine cf_net_aux1 _ s t out auto _ pageWe pointers curSrc graph (b :: V) rem h hk ?_ ?_
        · refine ⟨(fun _ _ _ _ e => by cases e), (fun e => by cases e), fun _ => hexp, hinv.ph1, hinv.ph2, hinv.ownd, hinv.owns,
            fun _ x hx => ?_, hinv.curl⟩
          have := hinv.inV rfl x hx
          simpa [cf_netPend] using this
        · simp only [List.length_cons] at hl ⊢
          omega

/-! ## D. `cf_SumOk` is kept by every section of every generator -/

theorem cf_sumTo_congr {g g' : Nat → Nat} (n : Nat) (h : ∀ a, a < n → g' a = g a) : cf_sumTo g' n = cf_sumTo g n := by
  induction n with
  | zero => rfl
  | succ n ih =>
    simp only [cf_sumTo]
    rw [ih (fun a ha => h a (by omega)), h n (by omega)]

theorem cf_sumTo_zero_above (g : Nat → Nat) (n : Nat) (h0 : ∀ a, n ≤ a → g a = 0) : ∀ m, cf_sumTo g m ≤ cf_sumTo g n := by
  have up : ∀ k, cf_sumTo g (n + k) = cf_sumTo g n := by
    intro k
    induction k with
    | zero => rfl
    | succ k ih =>
      show cf_sumTo g (n + k) + g (n + k) = _
      rw [ih, h0 (n + k) (by omega)]; rfl
  have mono : ∀ a b, a ≤ b → cf_sumTo g a ≤ cf_sumTo g b := by
    intro a b hab
    induction hab with
    | refl => exact Nat.le_refl _
    | step _ ih => simp only [cf_sumTo]; omega
  intro m
  by_cases hm : m ≤ n
  · exact mono m n hm
  · obtain ⟨k, rfl⟩ : ∃ k, m = n + k := ⟨m - n, by omega⟩
    rw [up]; exact Nat.le_refl _

theorem cf_sumTo_bump {g g' : Nat → Nat} (p k : Nat) (h : ∀ a, g' a ≤ g a + (if a = p then k else 0)) :
    ∀ n, cf_sumTo g' n ≤ cf_sumTo g n + (if p < n then k else 0) := by
  intro n
  induction n with
  | zero => simp [cf_sumTo]
  | succ n ih =>
    simp only [cf_sumTo]
    have hn := h n
    by_cases hp : n = p
    · subst hp
      rw [if_pos rfl] at hn
      rw [if_neg (Nat.lt_irrefl _)] at ih
      rw [if_pos (Nat.lt_succ_self _)]
      omega
    · rw [if_neg hp] at hn
      by_cases hlt : p < n
      · rw [if_pos hlt] at ih
        rw [if_pos (by omega)]
        omega
      · rw [if_neg hlt] at ih
        rw [if_neg (by omega)]
        omega

theorem cf_outList_above (s : State) (a : Nat) (ha : s.trie.size ≤ a) : outList s a = [] ∧ inList s a = [] := by
  have : s.cell a = {} := cell_of_size_le s a ha
  simp only [outList, inList, this, walk0]
  exact ⟨rfl, rfl⟩

theorem cf_sumOk_frame {s s' : State} (f : LinkFrame s s') (hg : cf_SumOk s) : cf_SumOk s' := by
  refine ⟨(f.step hg.1).1, ?_⟩
  rw [f.links]
  refine Nat.le_trans (Nat.add_le_add_right ?_ 1) hg.2
  unfold cf_total
  have e : (fun a => (outList s' a).length + (inList s' a).length) = (fun a => (outList s a).length + (inList s a).length) := by
    funext a; rw [f.outList, f.inList]
  rw [e]
  exact cf_sumTo_zero_above _ _ (fun a ha => by simp [(cf_outList_above s a ha).1, (cf_outList_above s a ha).2]) _

theorem cf_sumOk_addStubs {s : State} (page : Nat) (targets : List Nat) (out : Bool) (hg : cf_SumOk s) :
    cf_SumOk (s.addStubs page targets out) := by
  obtain ⟨hk', ho, hi⟩ := addStubs_lists hg.1 page targets out
  refine ⟨hk', ?_⟩
  rw [addStubs_size]
  unfold cf_total
  rw [addStubs_trie_size]
  have := cf_sumTo_bump (g := fun a => (outList s a).length + (inList s a).length)
    (g' := fun a => (outList (s.addStubs page targets out) a).length + (inList (s.addStubs page targets out) a).length)
    page targets.length (fun a => by
      simp only [ho a, hi a, List.length_append]
      by_cases ha : a = page
      · subst ha
        cases out <;> simp <;> split <;> simp <;> omega
      · simp [ha]) s.trie.size
  have h2 := hg.2
  unfold cf_total at h2
  split at this <;> omega

theorem cf_sumOk_batch : ∀ (fuel : Nat) (s : State) (b : BatchSt), cf_SumOk s → cf_SumOk (batchResume fuel s b).1 := by
  intro fuel s b
  fun_induction batchResume fuel s b with
  | case1 => exact id
  | case2 => exact id
  | case3 => exact cf_sumOk_addStubs _ _ _
  | case4 _ _ _ _ _ _ ih => exact ih
  | case5 _ s _ _ _ src _ _ _ _ s1 _ _ hx =>
    intro hg
    have := cf_sumOk_frame (linkFrame_addPageCore s src true) hg
    rw [hx] at this
    exact this
  | case6 _ s _ _ _ src _ _ _ _ s1 _ _ hx ih =>
    intro hg
    apply ih
    have := cf_sumOk_frame (linkFrame_addPageCore s src true) hg
    rw [hx] at this
    exact this
  | case7 _ s _ _ _ _ _ _ _ n _ _ _ _ ih =>
    intro hg
    apply ih
    exact cf_sumOk_frame (linkFrame_modCell _ _ _ (fun c => ⟨rfl, rfl⟩)) hg
  | case8 _ _ _ _ _ _ _ _ _ _ _ _ _ ih => exact ih
  | case9 _ _ _ _ _ _ _ _ _ _ _ ih =>
    intro hg
    apply ih
    exact cf_sumOk_addStubs _ _ _ hg
  | case10 _ s _ _ _ _ _ _ t _ _ s1 _ _ hx _ =>
    intro hg
    have := cf_sumOk_frame (linkFrame_addPageCore s t false) hg
    rw [hx] at this
    exact this
  | case11 _ s _ _ _ _ _ _ t _ _ s1 _ _ hx _ =>
    intro hg
    have := cf_sumOk_frame (linkFrame_addPageCore s t false) hg
    rw [hx] at this
    exact this
  | case12 _ _ _ _ _ _ _ _ _ _ _ _ _ _ ih => exact ih

theorem cf_linkFrame_ruleStart (s : State) (r : RuleSt) : LinkFrame s (ruleStart s r).1 := by
  unfold ruleStart
  by_cases hs : r.started = true
  · rw [if_pos hs]; exact LinkFrame.refl s
  · rw [if_neg hs]
    have q0 : LinkFrame s { s with rules := dictSet s.rules r.anchor r.rule } := LinkFrame.of_eq rfl rfl
    have q1 := linkFrame_addLru { s with rules := dictSet s.rules r.anchor r.rule } (lruIter r.anchor) false
    exact q0.trans (q1.trans (linkFrame_modCell _ _ _ (fun _ => ⟨rfl, rfl⟩)))

theorem cf_linkFrame_ruleBody (s : State) (r : RuleSt) : LinkFrame s (ruleBody s r).1 := by
  unfold ruleBody
  split
  · exact LinkFrame.refl s
  · split
    · rename_i b lru rest _ _
      have q := linkFrame_addPageCore s (lru ++ s.stemAt b) false
      split
      · rename_i hx; rw [hx] at q; exact q
      · rename_i hx; rw [hx] at q; exact q
    · exact LinkFrame.refl s

theorem cf_sumOk_rule (s : State) (r : RuleSt) (hg : cf_SumOk s) : cf_SumOk (ruleResume s r).1 := by
  rw [ruleResume_eq]
  exact cf_sumOk_frame ((cf_linkFrame_ruleStart s r).trans (cf_linkFrame_ruleBody _ _)) hg

/-- **`cf_SumOk` is kept by every section of every generator** -/
theorem cf_sumOk_resume (s : State) (c : CoSt) (hg : cf_SumOk s) : cf_SumOk (c.resume s).1 := by
  cases c with
  | batch b => rw [resume_batch_fst]; exact cf_sumOk_batch _ s b hg
  | rule r => rw [resume_rule_fst]; exact cf_sumOk_rule s r hg
  | pages p => exact hg
  | net n => exact hg
  | query q => exact hg
  | finished => exact hg

/-! ## E. stability under foreign sections, every schedule -/

theorem cf_walkSum_mono {s s' : State} (le : s ⊑ s') (hk : HeadsOk s) (hk' : HeadsOk s') :
    ∀ l : List cf_Ptr, (∀ x ∈ l, x.2.2 < s.links.size) → cf_walkSum s' l = cf_walkSum s l
  | [], _ => rfl
  | x :: xs, hl => by
    have ih := cf_walkSum_mono le hk hk' xs (fun y hy => hl y (List.mem_cons_of_mem _ hy))
    simp only [cf_walkSum, List.map_cons, List.sum_cons] at ih ⊢
    rw [ih, cf_walk_le le hk.1 hk'.1 _ x.2.2 (Nat.lt_succ_self _) (hl x (by simp))]

theorem cf_NetInv.mono {s s' : State} {t t' : T} {n : NetSt} (h : Shape s t) (x : Ext s t s' t') (le : s ⊑ s')
    (hk : HeadsOk s) (hk' : HeadsOk s') (hg : LinkGrow s s') (hn : cf_NetInv s t n) : cf_NetInv s' t' n := by
  obtain ⟨V, cur, rem, hinv⟩ := hn
  refine ⟨V, cur, rem, ?_, hinv.unst, fun hst => (hinv.dfs hst).mono h x le, hinv.ph1, hinv.ph2, hinv.ownd,
    fun y hy => (hinv.owns y hy).mono le hk hk' hg, hinv.inV, ?_⟩
  · intro b we cu c e
    have hst : n.started = true := by
      cases hs : n.started with
      | true => rfl
      | false =>
        have := (hinv.unst hs).1
        rw [e] at this
        cases this
    have hb : b ∈ cf_netFront n := by simp [cf_netFront, cf_netPend, e]
    have hbA := ((hinv.dfs hst).clos b (List.mem_append_left _ hb)).1
    exact (hinv.pendle b we cu c e).trans (le.cell_le b (h.rep.lt_size b hbA))
  · rw [cf_walkSum_mono le hk hk' cur (fun y hy => (hinv.owns y (List.mem_append_left _ hy)).hlt)]
    exact hinv.curl

/-- the generic induction over schedules with a global invariant `G` of the index that every section keeps -/
theorem cf_sched_never_G (G : State → Prop) (J : State → T → CoSt → Prop) (Bad : CoOut → Prop)
    (hG : ∀ (s : State) (c : CoSt), G s → G (c.resume s).1)
    (hmono : ∀ (s : State) (t : T) (c' : CoSt) (t' : T) (c : CoSt), Shape s t → G s → CoSec s t c' (c'.resume s) t' →
      J s t c → J (c'.resume s).1 t' c)
    (hsec : ∀ s t c, Shape s t → G s → J s t c →
      (c.resume s).1 = s ∧ ¬ Bad (c.resume s).2.2 ∧ J s t (c.resume s).2.1) :
    ∀ (sched : Sched) (σ : Sys) (t : T), Shape σ.1 t → G σ.1 → ∀ (i : Nat) (c : CoSt), σ.2[i]? = some c → J σ.1 t c →
      ∀ o, (i, o) ∈ (σ.run sched).2 → ¬ Bad o
  | [], σ, t, _, _, i, c, _, _, o, hm => by simp [Sys.run_nil] at hm
  | j :: rest, σ, t, h, hg, i, c, hc, hJ, o, hm => by
    cases hcj : σ.2[j]? with
    | none =>
      rw [Sys.run_cons_none _ hcj] at hm
      exact cf_sched_never_G G J Bad hG hmono hsec rest σ t h hg i c hc hJ o hm
    | some cj =>
      rw [Sys.run_cons_some _ hcj] at hm
      obtain ⟨t1, sec⟩ := resume_sec h cj
      have hjlt : j < σ.2.length := (List.getElem?_eq_some_iff.mp hcj).1
      simp only [List.mem_cons, Prod.mk.injEq] at hm
      by_cases hij : j = i
      · subst hij
        rw [hc] at hcj
        cases hcj
        obtain ⟨e1, e2, e3⟩ := hsec σ.1 t c h hg hJ
        rcases hm with ⟨_, rfl⟩ | hm
        · exact e2
        · have e3' : J σ.1 t (c.resume σ.1).2.1 := e3
          have := hmono σ.1 t c t1 _ h hg sec e3'
          refine cf_sched_never_G G J Bad hG hmono hsec rest _ t1 sec.ext.shape (hG _ c hg) j (c.resume σ.1).2.1 ?_ this o hm
          exact List.getElem?_set_self hjlt
      · rcases hm with ⟨e, _⟩ | hm
        · exact absurd e.symm hij
        · refine cf_sched_never_G G J Bad hG hmono hsec rest _ t1 sec.ext.shape (hG _ cj hg) i c ?_
            (hmono σ.1 t cj t1 c h hg sec hJ) o hm
          show (σ.2.set j (cj.resume σ.1).2.1)[i]? = some c
          rw [List.getElem?_set_ne hij]; exact hc

/-- the local invariant of a network query that has not returned; nothing for one that has -/
def cf_JNet (s : State) (t : T) : CoSt → Prop
  | .net n => cf_NetInv s t n
  | .finished => True
  | _ => False

/-- the failures of a section of the network query, with no hypothesis at all: only "fuel" -/
theorem cf_netResume_failed : ∀ (fuel : Nat) (s : State) (n : NetSt) (e : Err),
    (netResume fuel s n).2 = .failed e → e = .other "fuel" := by
  intro fuel s n
  fun_induction netResume fuel s n <;> intro e he <;> simp_all

/-- the outcomes excluded for a network query: any failure (other than `StopIteration` after its end) -/
def cf_BadNet (o : CoOut) : Prop := ∃ e, o = .failed e ∧ e ≠ .other "StopIteration"

theorem cf_JNet_sec (s : State) (t : T) (c : CoSt) (h : Shape s t) (hg : cf_SumOk s) (hJ : cf_JNet s t c) :
    (c.resume s).1 = s ∧ ¬ cf_BadNet (c.resume s).2.2 ∧ cf_JNet s t (c.resume s).2.1 := by
  cases c with
  | net n =>
    obtain ⟨g1, g2⟩ := cf_netResume_fuel h hg hJ
    refine ⟨rfl, ?_, ?_⟩
    · rw [resume_net_out]
      rintro ⟨e, he, _⟩
      have := cf_netResume_failed _ _ _ e he
      subst this
      exact g1 he
    · by_cases ho : (netResume (s.trie.size + s.links.size + n.pointers.length + 3) s n).2 = .yielded
      · rw [resume_net_yielded s n ho]; exact g2 ho
      · rw [resume_net_stopped s n ho]; trivial
  | finished =>
    refine ⟨rfl, ?_, trivial⟩
    rintro ⟨e, he, h2⟩
    simp only [CoSt.resume, CoOut.failed.injEq] at he
    exact h2 he.symm
  | batch b => exact absurd hJ id
  | rule r => exact absurd hJ id
  | pages p => exact absurd hJ id
  | query q => exact absurd hJ id

theorem cf_JNet_mono (s : State) (t : T) (c' : CoSt) (t' : T) (c : CoSt) (h : Shape s t) (hg : cf_SumOk s)
    (sec : CoSec s t c' (c'.resume s) t') (hJ : cf_JNet s t c) : cf_JNet (c'.resume s).1 t' c := by
  cases c with
  | net n =>
    obtain ⟨hk', hgr⟩ := sec.link hg.1
    exact cf_NetInv.mono h sec.ext sec.le hg.1 hk' hgr hJ
  | finished => trivial
  | batch b => exact absurd hJ id
  | rule r => exact absurd hJ id
  | pages p => exact absurd hJ id
  | query q => exact absurd hJ id

/-- **(3, network query) C16: no section of the network query ever fails**, for every schedule, whatever the
    other generators are and do, started from fresh generators on an index with the shape invariant whose link
    store satisfies `cf_SumOk` (true of every reachable index: `cf_sumOk_reachable`): the only failure in the
    trace of `reqs[i] = queryNet out auto` is `StopIteration` when resumed after its end; in particular never "fuel" -/
theorem cf_C16_net_query_failures {s : State} {t : T} (hs : Shape s t) (hg : cf_SumOk s) (reqs : List CoReq)
    (sched : Sched) (i : Nat) (out auto : Bool) (hreq : reqs[i]? = some (.queryNet out auto)) (e : Err)
    (hm : (i, CoOut.failed e) ∈ (Sys.run (s, reqs.map CoReq.init) sched).2) : e = .other "StopIteration" := by
  have hget : (s, reqs.map CoReq.init).2[i]? = some (CoSt.net { out := out, auto := auto }) := by
    simp only [List.getElem?_map, hreq, Option.map_some]; rfl
  have := cf_sched_never_G cf_SumOk cf_JNet cf_BadNet cf_sumOk_resume cf_JNet_mono cf_JNet_sec sched _ t hs hg i _ hget
    (cf_NetInv.init s t out auto) _ hm
  apply Classical.byContradiction
  intro h2
  exact this ⟨e, rfl, h2⟩

theorem cf_C16_net_query_no_fuel {s : State} {t : T} (hs : Shape s t) (hg : cf_SumOk s) (reqs : List CoReq)
    (sched : Sched) (i : Nat) (out auto : Bool) (hreq : reqs[i]? = some (.queryNet out auto)) :
    (i, CoOut.failed (.other "fuel")) ∉ (Sys.run (s, reqs.map CoReq.init) sched).2 := fun hm =>
  absurd (cf_C16_net_query_failures hs hg reqs sched i out auto hreq _ hm) (by decide)

/-! ## F. `cf_SumOk` holds in every reachable state -/

def cf_SumStep (s s' : State) : Prop := cf_SumOk s → cf_SumOk s'

theorem cf_SumStep.trans {a b c : State} (h1 : cf_SumStep a b) (h2 : cf_SumStep b c) : cf_SumStep a c := fun h => h2 (h1 h)

theorem LinkFrame.cf_sum {s s' : State} (f : LinkFrame s s') : cf_SumStep s s' := cf_sumOk_frame f

theorem cf_sumStep_flushLists (out : Bool) (pages : List (Bytes × Nat)) :
    ∀ (l : List (Bytes × List Bytes)) (s : State), cf_SumStep s (flushLists out pages s l)
  | [], s => by simp only [flushLists]; exact id
  | (p, others) :: rest, s => by
    simp only [flushLists]
    exact cf_SumStep.trans (cf_sumOk_addStubs _ _ out) (cf_sumStep_flushLists out pages rest _)

theorem cf_sumStep_addLinks (s : State) (links : List (Bytes × Bytes)) : cf_SumStep s (s.addLinks links).1 := by
  have f1 := linkFrame_addLinksScan links s {}
  unfold addLinks
  split
  · rename_i heq; rw [heq] at f1; exact f1.cf_sum
  · rename_i s1 acc heq
    rw [heq] at f1
    simp only at f1 ⊢
    exact f1.cf_sum.trans ((cf_sumStep_flushLists true acc.pages acc.outl s1).trans
      (cf_sumStep_flushLists false acc.pages acc.inl _))

theorem cf_sumStep_batchSources : ∀ (data : List (Bytes × List Bytes)) (s : State) (acc : LinkAcc),
    cf_SumStep s (batchSources s data acc).1
  | [], s, _ => by simp only [batchSources]; exact id
  | (src, tgts) :: rest, s, acc => by
    have f1 : LinkFrame s (match dictGet? acc.pages src with
        | none => s.ensurePageCached acc src true
        | some n =>
          if !(s.cell n).flags.crawled then
            (s.modCell n (fun c => { c with flags := { c.flags with crawled := true } }), Except.ok acc)
          else (s, Except.ok acc)).1 := by
      split
      · exact linkFrame_ensurePageCached s acc src true
      · split
        · exact linkFrame_modCell _ _ _ (fun _ => ⟨rfl, rfl⟩)
        · exact LinkFrame.refl s
    rw [batchSources]
    simp only
    split
    · rename_i heq; exact (f1.fst_of_eq heq).cf_sum
    · rename_i s1 acc1 heq
      replace f1 : LinkFrame s s1 := f1.fst_of_eq heq
      have f2 := linkFrame_batchTargets tgts s1 src acc1 []
      split
      · rename_i heq2; rw [heq2] at f2; exact (f1.trans f2).cf_sum
      · rename_i s2 acc2 tb heq2
        rw [heq2] at f2
        simp only at f2
        exact (f1.trans f2).cf_sum.trans (cf_SumStep.trans (cf_sumOk_addStubs _ tb true)
          (cf_sumStep_batchSources rest _ acc2))

theorem cf_sumStep_batch (s : State) (data : List (Bytes × List Bytes)) : cf_SumStep s (s.batch data).1 := by
  have k1 := cf_sumStep_batchSources data s {}
  unfold batch
  split
  · rename_i heq; rw [heq] at k1; exact k1
  · rename_i s1 acc heq
    rw [heq] at k1
    simp only at k1 ⊢
    exact k1.trans (cf_sumStep_flushLists false acc.pages acc.inl s1)

theorem cf_sumStep_step (s : State) (op : Op) (hop : ∀ d rs, op ≠ .clear d rs) : cf_SumStep s (s.step op).1 := by
  cases op with
  | addPage l c => exact (linkFrame_addPageCore s l c).cf_sum
  | addPages ls c => exact (linkFrame_addPagesGo _ ls s c {}).cf_sum
  | addLinks links => exact cf_sumStep_addLinks s links
  | batch data => exact cf_sumStep_batch s data
  | create ps => exact (linkFrame_createWebentity s ps).cf_sum
  | delete w ps => exact (linkFrame_deleteWebentity s w ps).cf_sum
  | addPrefix p w => exact (linkFrame_addPrefix s p w).cf_sum
  | removePrefix p w => exact (linkFrame_removePrefix s p w).cf_sum
  | movePrefix p tg f => exact (linkFrame_movePrefix s p tg f).cf_sum
  | addRule a r => exact (linkFrame_addRule s a r true).cf_sum
  | removeRule a => exact (linkFrame_removeRule s a).cf_sum
  | reopen d rs => exact (LinkFrame.of_eq rfl rfl : LinkFrame s (s.reopen d rs)).cf_sum
  | clear d rs => exact absurd rfl (hop d rs)

theorem cf_sumOk_of_trie_init (s : State) (ht : s.trie = #[{}]) (hl : s.links = #[{}]) : cf_SumOk s := by
  refine ⟨headsOk_of_trie_init s ht hl, ?_⟩
  have h0 : s.cell 0 = {} := by unfold State.cell; rw [ht]; rfl
  have : cf_total s = 0 := by
    unfold cf_total
    rw [ht]
    show cf_sumTo _ 1 = 0
    simp only [cf_sumTo, outList, inList, h0, walk0]
    rfl
  rw [this, hl]
  decide

theorem cf_sumOk_fresh (cfg : Config) (dflt : Rule) (rules : List (Bytes × Rule)) (log : List Write) :
    cf_SumOk (State.fresh cfg dflt rules log).1 := by
  have h0 : cf_SumOk ({ cfg := cfg, dflt := dflt, log := .linkHdr :: .hdr 0 :: log } : State) :=
    cf_sumOk_of_trie_init _ rfl rfl
  exact (linkFrame_installRules rules _ true).cf_sum h0

theorem cf_sumOk_clear (s : State) (d : Option Rule) (rs : Option (List (Bytes × Rule))) :
    cf_SumOk (s.clear d rs).1 := by
  unfold State.clear
  split
  · exact cf_sumOk_of_trie_init _ rfl rfl
  · exact (linkFrame_installRules _ _ true).cf_sum (cf_sumOk_of_trie_init _ rfl rfl)

theorem cf_sumOk_step (s : State) (op : Op) (h : cf_SumOk s) : cf_SumOk (s.step op).1 := by
  by_cases hop : ∀ d rs, op ≠ .clear d rs
  · exact cf_sumStep_step s op hop h
  · have : ∃ d rs, op = .clear d rs := by
      cases op <;> first | exact ⟨_, _, rfl⟩ | (exfalso; apply hop; intro d rs e; cases e)
    obtain ⟨d, rs, rfl⟩ := this
    exact cf_sumOk_clear s d rs

/-- **`cf_SumOk` holds in every reachable state**: the hypothesis of the network-query theorems is not vacuous -/
theorem cf_sumOk_reachable (cfg : Config) (dflt : Rule) (rules : List (Bytes × Rule)) (ops : List Op) :
    cf_SumOk ((State.fresh cfg dflt rules []).1.run ops) := by
  suffices h : ∀ (ops : List Op) (s : State), cf_SumOk s → cf_SumOk (s.run ops) from
    h ops _ (cf_sumOk_fresh cfg dflt rules [])
  intro ops
  induction ops with
  | nil => intro s h; exact h
  | cons op ops ih => intro s h; exact ih _ (cf_sumOk_step s op h)

#print axioms cf_netResume_fuel
#print axioms cf_sumOk_resume
#print axioms cf_sumOk_reachable
#print axioms cf_C16_net_query_failures
#print axioms cf_C16_net_query_no_fuel

end Traph

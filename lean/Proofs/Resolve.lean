import Proofs.DescendSpec
import Proofs.Traverse
/-! Resolution three ways (C05 / C07 / C08), at the ghost level.
    * `lastWe` algebra; `lastWeFrom d l` = the last non-null id of `l`, `d` if there is none;
    * `T.resolveAlong s u stems inherited` = the abstract resolution along the descent of `stems` in `u`;
    * `preWe_mem_iff`: the id carried down by `dfs_with_webentity_iter` is the resolution of the node's own
      path; `C07_carried_is_resolution`: it is what `follow_lru` computes;
    * `wePre_mem_iff`: the per-webentity walk meets exactly the nodes below the start node with no
      webentity on the way (node included); `C05_walk_is_resolution`. -/
namespace Traph
open State

/-! ### 3. `lastWe` algebra -/

/-- the last non-null id of `l`, `d` if there is none -/
def lastWeFrom (d : Nat) (l : List Nat) : Nat := ((l.filter (· ≠ 0)).getLast?).getD d

theorem lastWeFrom_zero (l : List Nat) : lastWeFrom 0 l = lastWe l := rfl

@[simp] theorem lastWeFrom_nil (d : Nat) : lastWeFrom d [] = d := rfl

theorem lastWeFrom_cons (d x : Nat) (l : List Nat) :
    lastWeFrom d (x :: l) = lastWeFrom (if x ≠ 0 then x else d) l :=
  getLast_filter_cons d x l

@[simp] theorem lastWe_nil : lastWe [] = 0 := rfl

theorem lastWe_cons (x : Nat) (l : List Nat) : lastWe (x :: l) = lastWeFrom x l := by
  rw [← lastWeFrom_zero, lastWeFrom_cons]
  by_cases hx : x ≠ 0
  · rw [if_pos hx]
  · rw [if_neg hx]; have : x = 0 := by omega
    rw [this]

theorem lastWeFrom_eq (d : Nat) (l : List Nat) :
    lastWeFrom d l = if lastWe l ≠ 0 then lastWe l else d := by
  induction l generalizing d with
  | nil => simp
  | cons x l ih =>
    rw [lastWeFrom_cons, lastWe_cons, ih, ih x]
    by_cases hl : lastWe l ≠ 0
    · simp only [if_pos hl]
    · simp only [if_neg hl]

theorem lastWeFrom_append (d : Nat) (l₁ l₂ : List Nat) :
    lastWeFrom d (l₁ ++ l₂) = lastWeFrom (lastWeFrom d l₁) l₂ := by
  induction l₁ generalizing d with
  | nil => simp
  | cons x l ih => rw [List.cons_append, lastWeFrom_cons, ih, ← lastWeFrom_cons]

theorem lastWe_append (l₁ l₂ : List Nat) :
    lastWe (l₁ ++ l₂) = if lastWe l₂ ≠ 0 then lastWe l₂ else lastWe l₁ := by
  rw [← lastWeFrom_zero, lastWeFrom_append, lastWeFrom_eq, lastWeFrom_zero]

theorem lastWe_concat (l : List Nat) (x : Nat) :
    lastWe (l ++ [x]) = if x ≠ 0 then x else lastWe l := by
  rw [lastWe_append, lastWe_cons, lastWeFrom_nil]

/-- the result is 0 exactly when the default is 0 and every id is 0 -/
theorem lastWeFrom_eq_zero_iff (d : Nat) (l : List Nat) :
    lastWeFrom d l = 0 ↔ d = 0 ∧ ∀ x ∈ l, x = 0 := by
  induction l generalizing d with
  | nil => simp
  | cons x l ih =>
    rw [lastWeFrom_cons, ih]
    by_cases hx : x ≠ 0
    · rw [if_pos hx]; simp [hx]
    · rw [if_neg hx]; have : x = 0 := by omega
      simp [this]

theorem lastWe_eq_zero_iff (l : List Nat) : lastWe l = 0 ↔ ∀ x ∈ l, x = 0 := by
  rw [← lastWeFrom_zero, lastWeFrom_eq_zero_iff]; simp

/-! ### 1. the abstract resolution along a path; the carried-down id of `dfs_with_webentity_iter` -/

/-- the ids met by the descent of `stems` in `u`, top-down -/
def T.pathWes (s : State) (u : T) (stems : List Stem) : List Nat :=
  (u.pathCells s stems).map (fun c => (s.cell c.1).we)

/-- resolution of `stems` in `u`: the deepest non-null id on the path, the inherited one if none -/
def T.resolveAlong (s : State) (u : T) (stems : List Stem) (inherited : Nat) : Nat :=
  lastWeFrom inherited (u.pathWes s stems)

theorem T.resolveAlong_zero (s : State) (u : T) (stems : List Stem) :
    u.resolveAlong s stems 0 = lastWe ((u.pathCells s stems).map (fun c => (s.cell c.1).we)) := rfl

theorem T.resolveAlong_eq (s : State) (u : T) (stems : List Stem) (inh : Nat) :
    u.resolveAlong s stems inh
      = if u.resolveAlong s stems 0 ≠ 0 then u.resolveAlong s stems 0 else inh := by
  unfold T.resolveAlong
  rw [lastWeFrom_eq, lastWeFrom_zero]

/-- the descent through a sibling of the tree: its cell, then the descent in its child tree -/
theorem T.pathCells_sib {s : State} {u : T} {lo hi : Option Stem} (hord : OrdT s u lo hi)
    {a : Nat} (ha : a ∈ u.sibs) (rest : List Stem) :
    u.pathCells s (s.stemAt a :: rest) = (a, s.stemAt a) :: (u.childAt a).pathCells s rest :=
  T.pathCells_cons_found (T.find_found u lo hi hord a ha rfl)

theorem T.resolveAlong_sib {s : State} {u : T} {lo hi : Option Stem} (hord : OrdT s u lo hi)
    {a : Nat} (ha : a ∈ u.sibs) (rest : List Stem) (inh : Nat) :
    u.resolveAlong s (s.stemAt a :: rest) inh
      = (u.childAt a).resolveAlong s rest (if (s.cell a).we ≠ 0 then (s.cell a).we else inh) := by
  unfold T.resolveAlong T.pathWes
  rw [T.pathCells_sib hord ha, List.map_cons, lastWeFrom_cons]

@[simp] theorem T.resolveAlong_nil (s : State) (u : T) (inh : Nat) : u.resolveAlong s [] inh = inh := by
  simp [T.resolveAlong, T.pathWes, T.pathCells]

/-- an entry path below `pre` starts with the stem of a sibling of the tree -/
theorem entries_head_sib {s : State} {u : T} (hnd : u.addrs.Nodup) {pre p : LRU} {b : Nat}
    (h : (pre ++ p, b) ∈ u.entries s pre) :
    ∃ a ∈ u.sibs, (p = [s.stemAt a] ∧ b = a) ∨
      ∃ x rest, p = s.stemAt a :: x :: rest ∧
        (pre ++ [s.stemAt a] ++ x :: rest, b) ∈ (u.childAt a).entries s (pre ++ [s.stemAt a]) := by
  obtain ⟨a, ha, h⟩ := (mem_entries_iff u pre _ b hnd).mp h
  refine ⟨a, ha, ?_⟩
  rcases h with ⟨h1, h2⟩ | h
  · exact Or.inl ⟨List.append_cancel_left h1, h2⟩
  · obtain ⟨x, rest, e⟩ := entries_prefix _ _ _ _ h
    have e' : p = s.stemAt a :: x :: rest := by
      rw [List.append_assoc] at e
      simpa using List.append_cancel_left e
    refine Or.inr ⟨x, rest, e', ?_⟩
    rw [← e]; exact h

/-- the descent of an entry of the left sibling tree does not see the node on top -/
theorem T.pathCells_node_left {s : State} {a : Nat} {l c r : T} {lo hi : Option Stem}
    (hord : OrdT s (.node a l c r) lo hi) (hnd : (T.node a l c r).addrs.Nodup) {pre p : LRU} {b : Nat}
    (h : (pre ++ p, b) ∈ l.entries s pre) : (T.node a l c r).pathCells s p = l.pathCells s p := by
  have hn := T.nodup_node hnd
  obtain ⟨a', ha', h⟩ := entries_head_sib hn.2.2.2.1 h
  have hmem : a' ∈ (T.node a l c r).sibs := by simp [T.sibs, ha']
  have hp : ∃ rest, p = s.stemAt a' :: rest := by
    rcases h with ⟨h, _⟩ | ⟨x, rest, h, _⟩
    · exact ⟨[], h⟩
    · exact ⟨_, h⟩
  obtain ⟨rest, rfl⟩ := hp
  rw [T.pathCells_sib hord hmem, T.pathCells_sib hord.2.2.1 ha', T.childAt_node_left hnd ha']

theorem T.pathCells_node_right {s : State} {a : Nat} {l c r : T} {lo hi : Option Stem}
    (hord : OrdT s (.node a l c r) lo hi) (hnd : (T.node a l c r).addrs.Nodup) {pre p : LRU} {b : Nat}
    (h : (pre ++ p, b) ∈ r.entries s pre) : (T.node a l c r).pathCells s p = r.pathCells s p := by
  have hn := T.nodup_node hnd
  obtain ⟨a', ha', h⟩ := entries_head_sib hn.2.2.2.2.2.1 h
  have hmem : a' ∈ (T.node a l c r).sibs := by simp [T.sibs, ha']
  have hp : ∃ rest, p = s.stemAt a' :: rest := by
    rcases h with ⟨h, _⟩ | ⟨x, rest, h, _⟩
    · exact ⟨[], h⟩
    · exact ⟨_, h⟩
  obtain ⟨rest, rfl⟩ := hp
  rw [T.pathCells_sib hord hmem, T.pathCells_sib hord.2.2.2.1 ha', T.childAt_node_right hnd ha']

/-- the descent through the node on top -/
theorem T.pathCells_node_self {s : State} (a : Nat) (l c r : T) (rest : List Stem) :
    (T.node a l c r).pathCells s (s.stemAt a :: rest) = (a, s.stemAt a) :: c.pathCells s rest := by
  have hf : (T.node a l c r).find s (s.stemAt a) = .found a := by simp [T.find]
  rw [T.pathCells_cons_found hf, T.childAt_node_self]

theorem T.resolveAlong_node_self (s : State) (a : Nat) (l c r : T) (rest : List Stem) (inh : Nat) :
    (T.node a l c r).resolveAlong s (s.stemAt a :: rest) inh
      = c.resolveAlong s rest (if (s.cell a).we ≠ 0 then (s.cell a).we else inh) := by
  unfold T.resolveAlong T.pathWes
  rw [T.pathCells_node_self, List.map_cons, lastWeFrom_cons]

/-- C07, ghost level: the traversal meets every node (= entry) once, and the id it carries down to a node
    is the resolution of the node's own path: the deepest non-null id on it, the inherited one if none -/
theorem preWe_mem_iff {s : State} : ∀ (u : T) (lo hi : Option Stem) (pre : LRU) (inherited b w : Nat),
    OrdT s u lo hi → u.addrs.Nodup →
    ((b, w) ∈ u.preWe s inherited ↔
      ∃ p, (pre ++ p, b) ∈ u.entries s pre ∧ w = u.resolveAlong s p inherited) := by
  intro u
  induction u with
  | nil => intro _ _ _ _ _ _ _ _; simp [T.preWe, T.entries]
  | node a l c r ihl ihc ihr =>
    intro lo hi pre inh b w hord hnd
    have hn := T.nodup_node hnd
    obtain ⟨_, _, ol, or_, oc⟩ := id hord
    have il := ihl _ _ pre inh b w ol hn.2.2.2.1
    have ic := ihc _ _ (pre ++ [s.stemAt a]) (if (s.cell a).we ≠ 0 then (s.cell a).we else inh) b w oc
      hn.2.2.2.2.1
    have ir := ihr _ _ pre inh b w or_ hn.2.2.2.2.2.1
    simp only [T.preWe, T.entries, List.mem_cons, List.mem_append, Prod.mk.injEq]
    constructor
    · rintro (⟨rfl, rfl⟩ | (h | h) | h)
      · refine ⟨[s.stemAt b], Or.inr (Or.inl ⟨rfl, rfl⟩), ?_⟩
        rw [T.resolveAlong_node_self, T.resolveAlong_nil]
      · obtain ⟨q, hq, hw⟩ := ic.mp h
        refine ⟨s.stemAt a :: q, Or.inr (Or.inr (Or.inl ?_)), ?_⟩
        · simpa using hq
        · rw [T.resolveAlong_node_self]; exact hw
      · obtain ⟨p, hp, hw⟩ := il.mp h
        refine ⟨p, Or.inl hp, ?_⟩
        unfold T.resolveAlong T.pathWes
        rw [T.pathCells_node_left hord hnd hp]; exact hw
      · obtain ⟨p, hp, hw⟩ := ir.mp h
        refine ⟨p, Or.inr (Or.inr (Or.inr hp)), ?_⟩
        unfold T.resolveAlong T.pathWes
        rw [T.pathCells_node_right hord hnd hp]; exact hw
    · rintro ⟨p, (hp | ⟨hp, rfl⟩ | hp | hp), hw⟩
      · refine Or.inr (Or.inl (Or.inr (il.mpr ⟨p, hp, ?_⟩)))
        unfold T.resolveAlong T.pathWes at hw ⊢
        rw [T.pathCells_node_left hord hnd hp] at hw; exact hw
      · have : p = [s.stemAt b] := List.append_cancel_left hp
        subst this
        rw [T.resolveAlong_node_self, T.resolveAlong_nil] at hw
        exact Or.inl ⟨rfl, hw⟩
      · obtain ⟨x, rest, e⟩ := entries_prefix _ _ _ _ hp
        have e' : p = s.stemAt a :: x :: rest := by
          rw [List.append_assoc] at e
          simpa using List.append_cancel_left e
        subst e'
        rw [T.resolveAlong_node_self] at hw
        refine Or.inr (Or.inl (Or.inl (ic.mpr ⟨x :: rest, ?_, hw⟩)))
        simpa using hp
      · refine Or.inr (Or.inr (ir.mpr ⟨p, hp, ?_⟩))
        unfold T.resolveAlong T.pathWes at hw ⊢
        rw [T.pathCells_node_right hord hnd hp] at hw; exact hw

/-! ### every address once: entries and carried-down pairs are functions of the address -/

theorem nodup_map_inj {α β : Type} (f : α → β) : ∀ (l : List α), (l.map f).Nodup →
    ∀ x ∈ l, ∀ y ∈ l, f x = f y → x = y
  | [], _, x, hx, _, _, _ => by simp at hx
  | z :: l, hnd, x, hx, y, hy, e => by
    simp only [List.map_cons, List.nodup_cons, List.mem_map, not_exists, not_and] at hnd
    simp only [List.mem_cons] at hx hy
    rcases hx with rfl | hx <;> rcases hy with rfl | hy
    · rfl
    · exact absurd e.symm (hnd.1 y hy)
    · exact absurd e (hnd.1 x hx)
    · exact nodup_map_inj f l hnd.2 x hx y hy e

/-- every node is stored under exactly one path -/
theorem entries_addr_injective {s : State} {u : T} (hnd : u.addrs.Nodup) {pre p₁ p₂ : LRU} {b : Nat}
    (h1 : (p₁, b) ∈ u.entries s pre) (h2 : (p₂, b) ∈ u.entries s pre) : p₁ = p₂ := by
  have hn : ((u.entries s pre).map (·.2)).Nodup := (entries_addrs_perm u pre).nodup_iff.mpr hnd
  have := nodup_map_inj (·.2) _ hn _ h1 _ h2 rfl
  exact (Prod.mk.inj this).1

/-- the carrying traversal lists every address of the tree exactly once -/
theorem preWe_addrs_perm {s : State} : ∀ (t : T) (we : Nat), ((t.preWe s we).map (·.1)).Perm t.addrs := by
  intro t
  induction t with
  | nil => intro _; simp [T.preWe, T.addrs]
  | node a l c r ihl ihc ihr =>
    intro we
    simp only [T.preWe, T.addrs, List.map_cons, List.map_append]
    refine List.Perm.cons _ ?_
    exact (((ihc _).append (ihl we)).append (ihr we)).trans (List.perm_append_comm.append_right _)

/-- the traversal carries one id per node -/
theorem preWe_unique {s : State} {u : T} (hnd : u.addrs.Nodup) {inh b w₁ w₂ : Nat}
    (h1 : (b, w₁) ∈ u.preWe s inh) (h2 : (b, w₂) ∈ u.preWe s inh) : w₁ = w₂ := by
  have hn : ((u.preWe s inh).map (·.1)).Nodup := (preWe_addrs_perm u inh).nodup_iff.mpr hnd
  have := nodup_map_inj (·.1) _ hn _ h1 _ h2 rfl
  exact (Prod.mk.inj this).2

/-! ### C07 on the heap: carried-down id = top-down resolution -/

/-- membership in `dfs_with_webentity_iter`, in terms of the finite map and the abstract resolution -/
theorem dfsWe_mem_iff {s : State} {t : T} (h : Shape s t) (b w : Nat) :
    (b, w) ∈ s.dfsWe ↔ ∃ stems, (stems, b) ∈ t.entries s [] ∧ w = t.resolveAlong s stems 0 := by
  rw [dfsWe_eq h, preWe_mem_iff t none none [] 0 b w h.ord h.nodup]
  simp

/-- the abstract resolution from the root is what `follow_lru` computes -/
theorem followLru_we_resolveAlong {s : State} {t : T} (h : Shape s t) (stems : LRU) (hne : stems ≠ []) :
    (s.followLru stems).2.we = t.resolveAlong s stems 0 := by
  rw [followLru_we h stems hne, T.resolveAlong_zero]

/-- C07: for every stored LRU, the id the full traversal carries down to its node is the id `follow_lru`
    resolves the LRU to (and `follow_lru` ends on that node) -/
theorem C07_carried_is_resolution {s : State} {t : T} (h : Shape s t) (stems : LRU) (hne : stems ≠ [])
    (b : Nat) (hb : (stems, b) ∈ t.entries s []) :
    ∃ w, (b, w) ∈ s.dfsWe ∧ w = (s.followLru stems).2.we := by
  refine ⟨t.resolveAlong s stems 0, (dfsWe_mem_iff h b _).mpr ⟨stems, hb, rfl⟩, ?_⟩
  rw [followLru_we_resolveAlong h stems hne]

theorem C07_followLru_node {s : State} {t : T} (h : Shape s t) (stems : LRU) (hne : stems ≠ [])
    (b : Nat) (hb : (stems, b) ∈ t.entries s []) : (s.followLru stems).1 = some b := by
  rw [followLru_fst h stems hne]; exact (lruNode_iff_entries h stems hne b).mpr hb

/-- C07, uniqueness: the traversal yields one id per node -/
theorem C07_carried_unique {s : State} {t : T} (h : Shape s t) {b w₁ w₂ : Nat}
    (h1 : (b, w₁) ∈ s.dfsWe) (h2 : (b, w₂) ∈ s.dfsWe) : w₁ = w₂ := by
  rw [dfsWe_eq h] at h1 h2
  exact preWe_unique h.nodup h1 h2

/-- C07, converse reading: whatever the traversal yields for a node is the resolution of the node's LRU -/
theorem C07_carried_sound {s : State} {t : T} (h : Shape s t) {b w : Nat} (hw : (b, w) ∈ s.dfsWe) :
    ∃ stems, stems ≠ [] ∧ (stems, b) ∈ t.entries s [] ∧ (s.followLru stems).1 = some b ∧
      w = (s.followLru stems).2.we := by
  obtain ⟨stems, hb, hw⟩ := (dfsWe_mem_iff h b w).mp hw
  have hne : stems ≠ [] := by
    obtain ⟨x, rest, e⟩ := entries_prefix _ _ _ _ hb
    rw [e]; simp
  exact ⟨stems, hne, hb, C07_followLru_node h stems hne b hb, by rw [followLru_we_resolveAlong h stems hne]; exact hw⟩

/-! ### 2. the per-webentity walk: no other webentity on the way -/

theorem T.resolveAlong_zero_iff (s : State) (u : T) (q : List Stem) :
    u.resolveAlong s q 0 = 0 ↔ ∀ x ∈ u.pathCells s q, (s.cell x.1).we = 0 := by
  unfold T.resolveAlong T.pathWes
  rw [lastWeFrom_zero, lastWe_eq_zero_iff]
  constructor
  · intro h x hx
    exact h _ (List.mem_map.mpr ⟨x, hx, rfl⟩)
  · intro h w hw
    obtain ⟨x, hx, rfl⟩ := List.mem_map.mp hw
    exact h x hx

/-- membership in the walk at a node that is not the start node -/
theorem T.mem_wePre_node {s : State} {start a : Nat} (hne : a ≠ start) (l c r : T) (lru0 : Bytes)
    (x : Nat × Bytes) :
    x ∈ (T.node a l c r).wePre s start lru0 ↔
      ((s.cell a).we = 0 ∧ (x = (a, lru0 ++ s.stemAt a) ∨ x ∈ c.wePre s start (lru0 ++ s.stemAt a))) ∨
      x ∈ l.wePre s start lru0 ∨ x ∈ r.wePre s start lru0 := by
  simp only [T.wePre, hne, false_or, if_false, List.mem_append]
  by_cases hw : (s.cell a).we = 0
  · rw [if_pos hw]; simp [hw]
  · rw [if_neg hw]; simp [hw]

/-- below the start node: the walk meets exactly the entries all of whose path cells (the node's own
    included) carry no webentity; the LRU it yields is the flattened path -/
theorem wePre_below_mem_iff {s : State} (start : Nat) : ∀ (u : T) (lo hi : Option Stem) (pre : LRU)
    (lru0 : Bytes) (b : Nat) (lru : Bytes),
    OrdT s u lo hi → u.addrs.Nodup → start ∉ u.addrs →
    ((b, lru) ∈ u.wePre s start lru0 ↔
      ∃ q, (pre ++ q, b) ∈ u.entries s pre ∧ lru = lru0 ++ q.flatten ∧
        ∀ x ∈ u.pathCells s q, (s.cell x.1).we = 0) := by
  intro u
  induction u with
  | nil => intro _ _ _ _ _ _ _ _ _; simp [T.wePre, T.entries]
  | node a l c r ihl ihc ihr =>
    intro lo hi pre lru0 b lru hord hnd hst
    have hn := T.nodup_node hnd
    obtain ⟨_, _, ol, or_, oc⟩ := id hord
    simp only [T.addrs, List.mem_cons, List.mem_append, not_or] at hst
    obtain ⟨hsa, ⟨hsl, hsc⟩, hsr⟩ := hst
    have hne : a ≠ start := fun e => hsa e.symm
    have il := ihl _ _ pre lru0 b lru ol hn.2.2.2.1 hsl
    have ic := ihc _ _ (pre ++ [s.stemAt a]) (lru0 ++ s.stemAt a) b lru oc hn.2.2.2.2.1 hsc
    have ir := ihr _ _ pre lru0 b lru or_ hn.2.2.2.2.2.1 hsr
    rw [T.mem_wePre_node hne]
    simp only [T.entries, List.mem_cons, List.mem_append, Prod.mk.injEq]
    constructor
    · rintro (⟨hw, (⟨rfl, rfl⟩ | h)⟩ | h | h)
      · refine ⟨[s.stemAt b], Or.inr (Or.inl ⟨rfl, rfl⟩), by simp, ?_⟩
        rw [T.pathCells_node_self]
        intro x hx
        simp only [T.pathCells, List.mem_singleton] at hx
        subst hx; exact hw
      · obtain ⟨q, hq, hl, hz⟩ := ic.mp h
        refine ⟨s.stemAt a :: q, Or.inr (Or.inr (Or.inl ?_)), ?_, ?_⟩
        · simpa using hq
        · rw [hl]; simp
        · rw [T.pathCells_node_self]
          intro x hx
          simp only [List.mem_cons] at hx
          rcases hx with rfl | hx
          · exact hw
          · exact hz x hx
      · obtain ⟨q, hq, hl, hz⟩ := il.mp h
        refine ⟨q, Or.inl hq, hl, ?_⟩
        rw [T.pathCells_node_left hord hnd hq]; exact hz
      · obtain ⟨q, hq, hl, hz⟩ := ir.mp h
        refine ⟨q, Or.inr (Or.inr (Or.inr hq)), hl, ?_⟩
        rw [T.pathCells_node_right hord hnd hq]; exact hz
    · rintro ⟨q, (hq | ⟨hq, rfl⟩ | hq | hq), hl, hz⟩
      · refine Or.inr (Or.inl (il.mpr ⟨q, hq, hl, ?_⟩))
        rw [T.pathCells_node_left hord hnd hq] at hz; exact hz
      · have : q = [s.stemAt b] := List.append_cancel_left hq
        subst this
        rw [T.pathCells_node_self] at hz
        refine Or.inl ⟨hz (b, s.stemAt b) (by simp), Or.inl ⟨rfl, ?_⟩⟩
        rw [hl]; simp
      · obtain ⟨x, rest, e⟩ := entries_prefix _ _ _ _ hq
        have e' : q = s.stemAt a :: x :: rest := by
          rw [List.append_assoc] at e
          simpa using List.append_cancel_left e
        subst e'
        rw [T.pathCells_node_self] at hz
        refine Or.inl ⟨hz (a, s.stemAt a) (by simp), Or.inr (ic.mpr ⟨x :: rest, ?_, ?_, ?_⟩)⟩
        · simpa using hq
        · rw [hl]; simp
        · intro y hy; exact hz y (by simp [hy])
      · refine Or.inr (Or.inr (ir.mpr ⟨q, hq, hl, ?_⟩))
        rw [T.pathCells_node_right hord hnd hq] at hz; exact hz

/-- for a stored path, the descent matches every stem -/
theorem pathCells_length_of_entry {s : State} {u : T} {lo hi : Option Stem} (hord : OrdT s u lo hi)
    (hnd : u.addrs.Nodup) {pre q : LRU} {b : Nat} (h : (pre ++ q, b) ∈ u.entries s pre) :
    (u.pathCells s q).length = q.length := by
  have hne : q ≠ [] := by
    obtain ⟨x, rest, e⟩ := entries_prefix _ _ _ _ h
    have := List.append_cancel_left e
    rw [this]; simp
  exact (descend_found_last q u pre b ((descend_found_iff q u lo hi pre b hord hnd hne).mpr h)).1

/-- a property of all path cells of a stored path = the property of the nodes of all its non-empty
    prefixes -/
theorem pathCells_all_iff {s : State} {u : T} {lo hi : Option Stem} (hord : OrdT s u lo hi)
    (hnd : u.addrs.Nodup) {pre q : LRU} {b : Nat} (h : (pre ++ q, b) ∈ u.entries s pre) (P : Nat → Prop) :
    (∀ x ∈ u.pathCells s q, P x.1) ↔
      (∀ k, 0 < k → k ≤ q.length → ∀ b', (pre ++ q.take k, b') ∈ u.entries s pre → P b') := by
  constructor
  · intro hall k hk hkl b' hb'
    have hlen := pathCells_length_of_entry hord hnd h
    have hlt : k - 1 < (u.pathCells s q).length := by omega
    have hget : (u.pathCells s q)[k - 1]? = some ((u.pathCells s q)[k - 1]) := List.getElem?_eq_getElem hlt
    have he := (pathCells_entries_getElem? q u lo hi pre hord hnd (k - 1) _ hget).1
    have hk1 : k - 1 + 1 = k := by omega
    rw [hk1] at he
    have := entries_path_injective hord hnd he hb'
    rw [← this]
    exact hall _ (List.getElem_mem hlt)
  · intro hall x hx
    obtain ⟨k, hk, rfl⟩ := List.getElem_of_mem hx
    have hget : (u.pathCells s q)[k]? = some ((u.pathCells s q)[k]) := List.getElem?_eq_getElem hk
    have he := (pathCells_entries_getElem? q u lo hi pre hord hnd k _ hget).1
    have := pathCells_length_le (s := s) q u
    exact hall (k + 1) (by omega) (by omega) _ he

/-- C05, ghost level (path-cell phrasing): the walk of `webentity_dfs_iter` from the start node `a` meets
    `a` itself, and below it exactly the nodes with no webentity on the way from just below `a` down to
    the node itself -/
theorem wePre_mem_iff_cells {s : State} {a : Nat} {l c r : T} {lo hi : Option Stem}
    (hord : OrdT s (.node a l c r) lo hi) (hnd : (T.node a l c r).addrs.Nodup)
    (lru0 : Bytes) (b : Nat) (lru : Bytes) :
    (b, lru) ∈ (T.node a l c r).wePre s a lru0 ↔
      (b = a ∧ lru = lru0 ++ s.stemAt a) ∨
      ∃ q, q ≠ [] ∧ (q, b) ∈ c.entries s [] ∧ lru = lru0 ++ s.stemAt a ++ q.flatten ∧
        ∀ x ∈ c.pathCells s q, (s.cell x.1).we = 0 := by
  have hn := T.nodup_node hnd
  rw [T.wePre_start, List.mem_cons, Prod.mk.injEq,
    wePre_below_mem_iff a c none none [] (lru0 ++ s.stemAt a) b lru hord.2.2.2.2 hn.2.2.2.2.1 hn.2.1]
  simp only [List.nil_append]
  constructor
  · rintro (h | ⟨q, hq, h⟩)
    · exact Or.inl h
    · refine Or.inr ⟨q, ?_, hq, h⟩
      obtain ⟨x, rest, e⟩ := entries_prefix _ _ _ _ hq
      rw [e]; simp
  · rintro (h | ⟨q, _, hq, h⟩)
    · exact Or.inl h
    · exact Or.inr ⟨q, hq, h⟩

/-- C05, ghost level (prefix phrasing) -/
theorem wePre_mem_iff {s : State} {a : Nat} {l c r : T} {lo hi : Option Stem}
    (hord : OrdT s (.node a l c r) lo hi) (hnd : (T.node a l c r).addrs.Nodup)
    (lru0 : Bytes) (b : Nat) (lru : Bytes) :
    (b, lru) ∈ (T.node a l c r).wePre s a lru0 ↔
      (b = a ∧ lru = lru0 ++ s.stemAt a) ∨
      ∃ q, q ≠ [] ∧ (q, b) ∈ c.entries s [] ∧ lru = lru0 ++ s.stemAt a ++ q.flatten ∧
        (∀ k, 0 < k → k ≤ q.length → ∀ b', (q.take k, b') ∈ c.entries s [] → (s.cell b').we = 0) := by
  have hn := T.nodup_node hnd
  rw [wePre_mem_iff_cells hord hnd]
  constructor
  · rintro (h | ⟨q, hne, hq, hl, hz⟩)
    · exact Or.inl h
    · refine Or.inr ⟨q, hne, hq, hl, ?_⟩
      have := (pathCells_all_iff (pre := []) hord.2.2.2.2 hn.2.2.2.2.1 (by simpa using hq)
        (fun b' => (s.cell b').we = 0)).mp hz
      simpa using this
  · rintro (h | ⟨q, hne, hq, hl, hz⟩)
    · exact Or.inl h
    · refine Or.inr ⟨q, hne, hq, hl, ?_⟩
      apply (pathCells_all_iff (pre := []) hord.2.2.2.2 hn.2.2.2.2.1 (by simpa using hq)
        (fun b' => (s.cell b').we = 0)).mpr
      simpa using hz

/-- C05: a node stored strictly below the start node (under the relative path `q`) is met by the walk iff
    no node on the way from just below the start node down to it (inclusive) carries a webentity, i.e. iff
    its resolution is contributed by the start node; the LRU yielded is the flattened path -/
theorem C05_walk_is_resolution {s : State} {a : Nat} {l c r : T} {lo hi : Option Stem}
    (hord : OrdT s (.node a l c r) lo hi) (hnd : (T.node a l c r).addrs.Nodup)
    (lru0 : Bytes) {q : LRU} {b : Nat} (hq : (q, b) ∈ c.entries s []) (lru : Bytes) :
    (b, lru) ∈ (T.node a l c r).wePre s a lru0 ↔
      lru = lru0 ++ s.stemAt a ++ q.flatten ∧ c.resolveAlong s q 0 = 0 := by
  have hn := T.nodup_node hnd
  have hba : b ≠ a := by
    intro e; subst e; exact hn.2.1 (entries_addr_mem _ _ _ _ hq)
  rw [wePre_mem_iff_cells hord hnd, T.resolveAlong_zero_iff]
  constructor
  · rintro (⟨h, _⟩ | ⟨q', _, hq', hl, hz⟩)
    · exact absurd h hba
    · have : q' = q := entries_addr_injective hn.2.2.2.2.1 hq' hq
      subst this; exact ⟨hl, hz⟩
  · rintro ⟨hl, hz⟩
    refine Or.inr ⟨q, ?_, hq, hl, hz⟩
    obtain ⟨x, rest, e⟩ := entries_prefix _ _ _ _ hq
    rw [e]; simp

theorem C05_walk_is_resolution' {s : State} {a : Nat} {l c r : T} {lo hi : Option Stem}
    (hord : OrdT s (.node a l c r) lo hi) (hnd : (T.node a l c r).addrs.Nodup)
    (lru0 : Bytes) {q : LRU} {b : Nat} (hq : (q, b) ∈ c.entries s []) :
    (∃ lru, (b, lru) ∈ (T.node a l c r).wePre s a lru0) ↔ c.resolveAlong s q 0 = 0 := by
  constructor
  · rintro ⟨lru, h⟩; exact ((C05_walk_is_resolution hord hnd lru0 hq lru).mp h).2
  · intro h; exact ⟨_, (C05_walk_is_resolution hord hnd lru0 hq _).mpr ⟨rfl, h⟩⟩

/-- what "contributed by the start node" means for the resolution computed from the top of the start
    node's sibling tree: with nothing below, the start node's own id (or the inherited one); otherwise the
    id found below -/
theorem C05_resolution_split (s : State) (a : Nat) (l c r : T) (q : LRU) (inh : Nat) :
    (T.node a l c r).resolveAlong s (s.stemAt a :: q) inh =
      if c.resolveAlong s q 0 ≠ 0 then c.resolveAlong s q 0
      else if (s.cell a).we ≠ 0 then (s.cell a).we else inh := by
  rw [T.resolveAlong_node_self, T.resolveAlong_eq]

/-- a node met by the walk from a start node carrying `w0 ≠ 0` resolves to `w0` -/
theorem C05_walk_resolves_to_start {s : State} {a : Nat} {l c r : T} {lo hi : Option Stem}
    (hord : OrdT s (.node a l c r) lo hi) (hnd : (T.node a l c r).addrs.Nodup)
    (lru0 : Bytes) {q : LRU} {b : Nat} (hq : (q, b) ∈ c.entries s []) {lru : Bytes}
    (hw : (b, lru) ∈ (T.node a l c r).wePre s a lru0) (hw0 : (s.cell a).we ≠ 0) (inh : Nat) :
    (T.node a l c r).resolveAlong s (s.stemAt a :: q) inh = (s.cell a).we := by
  have hz := ((C05_walk_is_resolution hord hnd lru0 hq lru).mp hw).2
  rw [C05_resolution_split, hz]
  simp [hw0]

/-- the same through the heap entry point `webentity_dfs_iter` (no depth limit) -/
theorem weDfs_mem_iff {s : State} {a : Nat} {l c r : T} {lo hi : Option Stem}
    (hr : Rep s (.node a l c r)) (hsz : (T.node a l c r).size ≤ s.trie.size)
    (hord : OrdT s (.node a l c r) lo hi) (hnd : (T.node a l c r).addrs.Nodup)
    (startLru : Bytes) (b : Nat) (lru : Bytes) :
    (b, lru) ∈ s.weDfs a startLru none ↔
      (b = a ∧ lru = lruDirname startLru ++ s.stemAt a) ∨
      ∃ q, q ≠ [] ∧ (q, b) ∈ c.entries s [] ∧ lru = lruDirname startLru ++ s.stemAt a ++ q.flatten ∧
        (∀ k, 0 < k → k ≤ q.length → ∀ b', (q.take k, b') ∈ c.entries s [] → (s.cell b').we = 0) := by
  rw [weDfs_eq' hr hsz, ← T.wePre_start s a l c r]
  exact wePre_mem_iff hord hnd _ b lru

end Traph

section
open Traph
#print axioms lastWe_append
#print axioms preWe_mem_iff
#print axioms C07_carried_is_resolution
#print axioms C07_carried_unique
#print axioms C07_carried_sound
#print axioms wePre_mem_iff
#print axioms C05_walk_is_resolution
#print axioms C05_walk_resolves_to_start
#print axioms weDfs_mem_iff
end

import Traph
/-! Round-trip theorems for the pagination-token helpers of `Traph/Helpers.lean`. -/
namespace Traph
open Layout

/-! ### finite facts about the alphabet -/

theorem base64Index_digitChar_all : ∀ d, d < 64 → base64Index (digitChar d) = some d := by decide

theorem base64Index_digitChar (d : Nat) (h : d < 64) : base64Index (digitChar d) = some d :=
  base64Index_digitChar_all d h

theorem digitChar_dec_all : ∀ d, d < 10 → digitChar d = 48 + d := by decide

theorem digitChar_ne_hash_all : ∀ d, d < 64 → digitChar d ≠ 35 := by decide

/-- outside the alphabet `digitChar` is `0` (the `getD` default) -/
theorem digitChar_big (d : Nat) (h : 64 ≤ d) : digitChar d = 0 := by
  unfold digitChar
  rw [List.getD_eq_getElem?_getD, List.getElem?_eq_none (by simpa using h)]
  rfl

theorem digitChar_ne_hash (d : Nat) : digitChar d ≠ 35 := by
  by_cases h : d < 64
  · exact digitChar_ne_hash_all d h
  · rw [digitChar_big d (by omega)]; decide

/-! ### digits -/

def fromDigits (b : Nat) (ds : List Nat) : Nat := ds.foldl (fun acc d => acc * b + d) 0

theorem fromDigits_concat (b : Nat) (ds : List Nat) (d : Nat) :
    fromDigits b (ds ++ [d]) = fromDigits b ds * b + d := by
  simp [fromDigits, List.foldl_append]

/-- the digit list computed by `toBaseGo`, most significant first -/
def digitsGo (b : Nat) : Nat → Nat → List Nat
  | 0, _ => []
  | fuel + 1, x => if x = 0 then [] else digitsGo b fuel (x / b) ++ [x % b]

theorem toBaseGo_eq (b : Nat) : ∀ (fuel x : Nat) (acc : Bytes),
    toBaseGo b fuel x acc = (digitsGo b fuel x).map digitChar ++ acc := by
  intro fuel
  induction fuel with
  | zero => intro x acc; simp [toBaseGo, digitsGo]
  | succ fuel ih =>
    intro x acc
    by_cases hx : x = 0
    · simp [toBaseGo, digitsGo, hx]
    · simp [toBaseGo, digitsGo, hx, ih]

theorem digitsGo_zero (b fuel : Nat) : digitsGo b fuel 0 = [] := by
  cases fuel <;> simp [digitsGo]

theorem digitsGo_lt (b : Nat) (hb : 0 < b) : ∀ (fuel x : Nat), ∀ d ∈ digitsGo b fuel x, d < b := by
  intro fuel
  induction fuel with
  | zero => intro x d hd; simp [digitsGo] at hd
  | succ fuel ih =>
    intro x d hd
    by_cases hx : x = 0
    · simp [digitsGo, hx] at hd
    · simp only [digitsGo, hx, if_false, List.mem_append, List.mem_singleton] at hd
      rcases hd with hd | hd
      · exact ih _ d hd
      · rw [hd]; exact Nat.mod_lt _ hb

theorem fromDigits_digitsGo (b : Nat) (hb : 2 ≤ b) : ∀ (fuel x : Nat), x < fuel →
    fromDigits b (digitsGo b fuel x) = x := by
  intro fuel
  induction fuel with
  | zero => intro x h; omega
  | succ fuel ih =>
    intro x h
    by_cases hx : x = 0
    · simp [digitsGo, hx, fromDigits]
    · have hq : x / b < x := Nat.div_lt_self (by omega) (by omega)
      simp only [digitsGo, hx, if_false]
      rw [fromDigits_concat, ih (x / b) (by omega)]
      exact Nat.div_add_mod' x b

theorem digitsGo_head (b : Nat) (hb : 2 ≤ b) : ∀ (fuel x : Nat), x < fuel → x ≠ 0 →
    ∃ d rest, digitsGo b fuel x = d :: rest ∧ d ≠ 0 := by
  intro fuel
  induction fuel with
  | zero => intro x h; omega
  | succ fuel ih =>
    intro x h hx
    have hq : x / b < x := Nat.div_lt_self (by omega) (by omega)
    simp only [digitsGo, hx, if_false]
    by_cases hq0 : x / b = 0
    · refine ⟨x % b, [], ?_, ?_⟩
      · rw [hq0, digitsGo_zero]; rfl
      · have hlt : x < b := (Nat.div_eq_zero_iff_lt (by omega)).mp hq0
        rw [Nat.mod_eq_of_lt hlt]; exact hx
    · obtain ⟨d, rest, he, hd⟩ := ih (x / b) (by omega) hq0
      exact ⟨d, rest ++ [x % b], by rw [he]; rfl, hd⟩

theorem toBase_spec (b x : Nat) (hb : 2 ≤ b) (hb' : b ≤ 64) :
    ∃ ds : List Nat, toBase b x = ds.map digitChar ∧ (∀ d ∈ ds, d < b) ∧ fromDigits b ds = x ∧
      ds ≠ [] ∧ (x ≠ 0 → ds.head? ≠ some 0) := by
  by_cases hx : x = 0
  · refine ⟨[0], ?_, ?_, ?_, ?_, ?_⟩
    · simp [toBase, hx]
    · intro d hd; simp at hd; omega
    · simp [fromDigits, hx]
    · simp
    · intro h; exact absurd hx h
  · obtain ⟨d, rest, he, hd⟩ := digitsGo_head b hb (x + 1) x (by omega) hx
    refine ⟨digitsGo b (x + 1) x, ?_, ?_, ?_, ?_, ?_⟩
    · simp [toBase, hx, toBaseGo_eq]
    · exact digitsGo_lt b (by omega) _ _
    · exact fromDigits_digitsGo b hb _ _ (by omega)
    · rw [he]; simp
    · intro _; rw [he]; simpa using hd

/-! ### base-64 / decimal decoding of digit strings -/

theorem base64ToInt_map (ds : List Nat) (h : ∀ d ∈ ds, d < 64) :
    base64ToInt (ds.map digitChar) = some (fromDigits 64 ds) := by
  unfold base64ToInt fromDigits
  generalize (0 : Nat) = a
  induction ds generalizing a with
  | nil => rfl
  | cons d ds ih =>
    simp only [List.map_cons, List.foldl_cons]
    rw [base64Index_digitChar d (h d (by simp))]
    exact ih (fun e he => h e (by simp [he])) _

theorem base64ToInt_intToBase64 (x : Nat) : base64ToInt (intToBase64 x) = some x := by
  obtain ⟨ds, he, hlt, hfd, _, _⟩ := toBase_spec 64 x (by omega) (by omega)
  rw [intToBase64, he, base64ToInt_map ds hlt, hfd]

theorem decFold_map (ds : List Nat) (h : ∀ d ∈ ds, d < 10) (a : Nat) :
    (ds.map digitChar).foldl (fun acc c => match acc with
      | some x => if 48 ≤ c ∧ c ≤ 57 then some (x * 10 + (c - 48)) else none
      | none => none) (some a) = some (ds.foldl (fun acc d => acc * 10 + d) a) := by
  induction ds generalizing a with
  | nil => rfl
  | cons d ds ih =>
    have hd : d < 10 := h d (by simp)
    simp only [List.map_cons, List.foldl_cons]
    rw [digitChar_dec_all d hd]
    have hc : 48 ≤ 48 + d ∧ 48 + d ≤ 57 := by omega
    rw [if_pos hc, Nat.add_sub_cancel_left]
    exact ih (fun e he => h e (by simp [he])) _

theorem decToNat_natToDec (n : Nat) : decToNat? (natToDec n) = some n := by
  obtain ⟨ds, he, hlt, hfd, hne, _⟩ := toBase_spec 10 n (by omega) (by omega)
  rw [natToDec, he]
  unfold decToNat?
  have hemp : (ds.map digitChar).isEmpty = false := by
    cases ds with
    | nil => exact absurd rfl hne
    | cons _ _ => rfl
  rw [hemp]
  simp only [Bool.false_eq_true, if_false]
  exact (decFold_map ds hlt 0).trans (congrArg some hfd)

/-! ### no `#` in the rendered numbers -/

theorem map_digitChar_no_hash (ds : List Nat) : (35 : Nat) ∉ ds.map digitChar := by
  intro hm
  obtain ⟨d, _, hd⟩ := List.mem_map.mp hm
  exact digitChar_ne_hash d hd

theorem natToDec_no_hash (n : Nat) : (35 : Nat) ∉ natToDec n := by
  obtain ⟨ds, he, _⟩ := toBase_spec 10 n (by omega) (by omega)
  rw [natToDec, he]; exact map_digitChar_no_hash ds

theorem intToBase64_no_hash (x : Nat) : (35 : Nat) ∉ intToBase64 x := by
  obtain ⟨ds, he, _⟩ := toBase_spec 64 x (by omega) (by omega)
  rw [intToBase64, he]; exact map_digitChar_no_hash ds

/-! ### splitting -/

theorem splitOnGo_no_sep (s : Nat) : ∀ (b cur : Bytes), s ∉ b → splitOnGo s b cur = [cur.reverse ++ b] := by
  intro b
  induction b with
  | nil => intro cur _; simp [splitOnGo]
  | cons x xs ih =>
    intro cur h
    have hx : ¬ x = s := fun e => h (by simp [e])
    have hxs : s ∉ xs := fun m => h (by simp [m])
    simp [splitOnGo, hx, ih _ hxs]

theorem splitOnGo_sep (s : Nat) (b : Bytes) : ∀ (a cur : Bytes), s ∉ a →
    splitOnGo s (a ++ s :: b) cur = (cur.reverse ++ a) :: splitOnGo s b [] := by
  intro a
  induction a with
  | nil => intro cur _; simp [splitOnGo]
  | cons x xs ih =>
    intro cur h
    have hx : ¬ x = s := fun e => h (by simp [e])
    have hxs : s ∉ xs := fun m => h (by simp [m])
    simp [splitOnGo, hx, ih _ hxs]

theorem splitOn_two (s : Nat) (a b : Bytes) (ha : s ∉ a) (hb : s ∉ b) :
    splitOn s (a ++ [s] ++ b) = [a, b] := by
  unfold splitOn
  rw [List.append_assoc, List.singleton_append, splitOnGo_sep s b a [] ha, splitOnGo_no_sep s b [] hb]
  rfl

/-! ### MAIN: tokens -/

theorem parseToken_buildToken (i path : Nat) : parseToken (buildToken i path) = some (i, path) := by
  unfold parseToken buildToken
  rw [splitOn_two 35 _ _ (natToDec_no_hash i) (intToBase64_no_hash path)]
  simp only [decToNat_natToDec, base64ToInt_intToBase64]

/-! ### paths -/

theorem foldl_digit_ge (b : Nat) (hb : 0 < b) : ∀ (ds : List Nat) (a : Nat),
    a ≤ ds.foldl (fun acc d => acc * b + d) a := by
  intro ds
  induction ds with
  | nil => intro a; exact Nat.le_refl _
  | cons d ds ih =>
    intro a
    simp only [List.foldl_cons]
    have h1 : a ≤ a * b := Nat.le_mul_of_pos_right a hb
    exact Nat.le_trans (by omega) (ih (a * b + d))

theorem fromDigits_pos (b : Nat) (hb : 0 < b) (d : Nat) (rest : List Nat) (hd : d ≠ 0) :
    fromDigits b (d :: rest) ≠ 0 := by
  have := foldl_digit_ge b hb rest (0 * b + d)
  simp only [fromDigits, List.foldl_cons]
  omega

/-- uniqueness of the representation: a digit list without a leading zero is what `digitsGo` computes -/
theorem digitsGo_fromDigits (b : Nat) (hb : 2 ≤ b) : ∀ (fuel : Nat) (ds : List Nat),
    (∀ d ∈ ds, d < b) → (∀ d rest, ds = d :: rest → d ≠ 0) → fromDigits b ds < fuel →
    digitsGo b fuel (fromDigits b ds) = ds := by
  intro fuel
  induction fuel with
  | zero => intro ds _ _ h; omega
  | succ fuel ih =>
    intro ds hlt hhead hf
    rcases List.eq_nil_or_concat ds with hnil | ⟨init, last, hcat⟩
    · subst hnil; simp [fromDigits, digitsGo]
    · have hcat' : ds = init ++ [last] := by simpa using hcat
      subst hcat'
      have hl : last < b := hlt last (by simp)
      have hx : fromDigits b (init ++ [last]) ≠ 0 := by
        cases init with
        | nil => exact fromDigits_pos b (by omega) last [] (hhead last [] rfl)
        | cons d rest => exact fromDigits_pos b (by omega) d (rest ++ [last]) (hhead d _ rfl)
      have hq : fromDigits b (init ++ [last]) / b = fromDigits b init := by
        rw [fromDigits_concat, Nat.add_comm, Nat.add_mul_div_right _ _ (by omega : 0 < b),
          Nat.div_eq_of_lt hl, Nat.zero_add]
      have hm : fromDigits b (init ++ [last]) % b = last := by
        rw [fromDigits_concat, Nat.add_comm, Nat.add_mul_mod_self_right, Nat.mod_eq_of_lt hl]
      have hlt' : fromDigits b (init ++ [last]) / b < fromDigits b (init ++ [last]) :=
        Nat.div_lt_self (by omega) (by omega)
      simp only [digitsGo, hx, if_false]
      rw [hm, hq]
      rw [ih init (fun d hd => hlt d (by simp [hd]))
        (fun d rest he => hhead d (rest ++ [last]) (by rw [he]; rfl)) (by omega)]

theorem path_eq_fromDigits (ops : List Nat) : ops.foldl base4Append 0 = fromDigits 4 ops := rfl

theorem path_digits (ops : List Nat) (h : ∀ d ∈ ops, d = 1 ∨ d = 2 ∨ d = 3) (fuel : Nat)
    (hf : fromDigits 4 ops < fuel) : digitsGo 4 fuel (fromDigits 4 ops) = ops := by
  apply digitsGo_fromDigits 4 (by omega) fuel ops _ _ hf
  · intro d hd; have := h d hd; omega
  · intro d rest he; have := h d (by simp [he]); omega

theorem intToBase4_path (ops : List Nat) (h : ∀ d ∈ ops, d = 1 ∨ d = 2 ∨ d = 3) (hne : ops ≠ []) :
    intToBase4 (ops.foldl base4Append 0) = ops.map digitChar := by
  rw [path_eq_fromDigits]
  have hx : fromDigits 4 ops ≠ 0 := by
    cases ops with
    | nil => exact absurd rfl hne
    | cons d rest =>
      have := h d (by simp)
      exact fromDigits_pos 4 (by omega) d rest (by omega)
  unfold intToBase4 toBase
  rw [if_neg hx, toBaseGo_eq, path_digits ops h _ (by omega)]
  simp

theorem path_injective (o₁ o₂ : List Nat) (h₁ : ∀ d ∈ o₁, d = 1 ∨ d = 2 ∨ d = 3)
    (h₂ : ∀ d ∈ o₂, d = 1 ∨ d = 2 ∨ d = 3) :
    o₁.foldl base4Append 0 = o₂.foldl base4Append 0 → o₁ = o₂ := by
  rw [path_eq_fromDigits, path_eq_fromDigits]
  intro he
  have e1 := path_digits o₁ h₁ (fromDigits 4 o₁ + 1) (by omega)
  have e2 := path_digits o₂ h₂ (fromDigits 4 o₁ + 1) (by omega)
  rw [← he] at e2
  exact e1.symm.trans e2

#print axioms parseToken_buildToken
#print axioms intToBase4_path
#print axioms path_injective

end Traph

import Proofs.PagWalk
import Proofs.LeOps
/-! Pagination with writes between two calls, walk level.

    A token is a prefix index and the *route* (L / C / R steps) from the prefix node to a node. Nodes never
    move and pointers are only ever set once, so the route still leads to the same node, with the same LRU,
    in every later state. `weInorder_resume_route` shows that resuming at a route gives exactly the items of
    the *current* walk that sort after the LRU at the end of the route — whether or not that node is itself
    (still) an item of the walk. `weInorder_resume_later` is the cross-state statement. -/
namespace Traph
open State Layout

/-- the LRU of the node reached by the steps `ds` (1 = left, 2 = child, 3 = right) from the root of the
    sibling tree `t` whose level has prefix `lru`; `none` when the route leaves the tree -/
def T.routeLru (s : State) : T → List Nat → Bytes → Option Bytes
  | .nil, _, _ => none
  | .node a _ _ _, [], lru => some (lru ++ s.stemAt a)
  | .node a l c r, d :: ds, lru =>
    if d = 1 then l.routeLru s ds lru
    else if d = 2 then c.routeLru s ds (lru ++ s.stemAt a)
    else r.routeLru s ds lru

theorem route_under {s : State} : ∀ (t : T) (D : List Nat) (lru cur : Bytes),
    t.routeLru s D lru = some cur → Under s lru t.sibs cur
  | .nil, _, _, _, h => by simp [T.routeLru] at h
  | .node a l c r, [], lru, cur, h => by
    simp only [T.routeLru, Option.some.injEq] at h
    exact ⟨a, by simp [T.sibs], [], by rw [← h]; simp⟩
  | .node a l c r, d :: ds, lru, cur, h => by
    simp only [T.routeLru] at h
    split at h
    · exact (route_under l ds lru cur h).mono (by intro x hx; simp [T.sibs, hx])
    · split at h
      · exact (route_under c ds _ cur h).up.mono (by intro x hx; simp at hx; simp [T.sibs, hx])
      · exact (route_under r ds lru cur h).mono (by intro x hx; simp [T.sibs, hx])

/-- every item of the walk lies at the end of a route, and its path number is the number of that route -/
theorem weInorder_routeLru {s : State} (start : Nat) : ∀ (t : T) (lru : Bytes) (path : Nat),
    ∀ it ∈ t.weInorder s start lru path, ∃ ds, Digits ds ∧ it.2.2 = ds.foldl base4Append path ∧
      t.routeLru s ds lru = some it.2.1 := by
  intro t
  induction t with
  | nil => intro _ _ it h; simp [T.weInorder] at h
  | node a l c r ihl ihc ihr =>
    intro lru path it h
    simp only [T.weInorder, List.mem_append] at h
    rcases h with (h | h) | h
    · split at h
      · simp at h
      · obtain ⟨ds, hd, he, hf⟩ := ihl _ _ it h
        exact ⟨1 :: ds, hd.cons (by simp), he, by simp [T.routeLru, hf]⟩
    · split at h
      · simp only [List.mem_cons] at h
        rcases h with rfl | h
        · exact ⟨[], Digits.nil, rfl, by simp [T.routeLru]⟩
        · obtain ⟨ds, hd, he, hf⟩ := ihc _ _ it h
          exact ⟨2 :: ds, hd.cons (by simp), he, by simp [T.routeLru, hf]⟩
      · simp at h
    · split at h
      · simp at h
      · obtain ⟨ds, hd, he, hf⟩ := ihr _ _ it h
        exact ⟨3 :: ds, hd.cons (by simp), he, by simp [T.routeLru, hf]⟩

theorem routeLru_ne_nil {s : State} {t : T} {D : List Nat} {lru cur : Bytes}
    (h : t.routeLru s D lru = some cur) : t ≠ .nil := by
  intro e; subst e; simp [T.routeLru] at h

/-- `follow_path` walks a route of a represented tree -/
theorem followPath_of_routeLru {s : State} : ∀ (t : T) (D : List Nat) (lru cur : Bytes), Rep s t → Digits D →
    t.routeLru s D lru = some cur → s.followPath (D.map digitChar) t.root lru = some cur
  | .nil, _, _, _, _, _, h => by simp [T.routeLru] at h
  | .node a l c r, [], lru, cur, _, _, h => by
    simp only [T.routeLru, Option.some.injEq] at h
    simp [followPath, h]
  | .node a l c r, d :: ds, lru, cur, hr, hD, h => by
    obtain ⟨h1, h2, h3⟩ := hr.cell_eq
    obtain ⟨ha, _, rl, rc, rr⟩ := hr
    obtain ⟨d1, d2, d3⟩ := digitChar_123
    have hd := hD d (by simp)
    simp only [T.routeLru] at h
    rcases hd with rfl | rfl | rfl
    · simp only [if_true] at h
      have hne : l.root ≠ 0 := rl.root_ne_zero (routeLru_ne_nil h)
      have := followPath_of_routeLru l ds lru cur rl hD.tail h
      simp [followPath, base4L, d1, h1, hne, this]
    · simp only [show (2 : Nat) ≠ 1 by omega, if_false, if_true] at h
      have hne : c.root ≠ 0 := rc.root_ne_zero (routeLru_ne_nil h)
      have := followPath_of_routeLru c ds _ cur rc hD.tail h
      simp [followPath, base4L, base4C, d2, h2, hne, this]
    · simp only [show (3 : Nat) ≠ 1 by omega, show (3 : Nat) ≠ 2 by omega, if_false] at h
      have hne : r.root ≠ 0 := rr.root_ne_zero (routeLru_ne_nil h)
      have := followPath_of_routeLru r ds lru cur rr hD.tail h
      simp [followPath, base4L, base4C, d3, h3, hne, this]

/-! ### resuming at a route -/

theorem weInorderPag_resume_route {s : State} (start : Nat) (cur0 : Bytes) :
    ∀ (t : T) (lo hi : Option Stem) (lru : Bytes) (E D : List Nat), OrdT s t lo hi → AllWf s t → Digits E →
      Digits D → t.routeLru s D lru = some cur0 →
      t.weInorderPag s start (cmpOf ((E ++ D).foldl base4Append 0)) cur0 lru (E.foldl base4Append 0)
        = (t.weInorder s start lru (E.foldl base4Append 0)).filter (fun it => lexLt cur0 it.2.1) := by
  intro t
  induction t with
  | nil => intro _ _ _ _ _ _ _ _ _ _; simp [T.weInorderPag, T.weInorder]
  | node a l c r ihl ihc ihr =>
    intro lo hi lru E D ho hw hE hD hroute
    obtain ⟨x1, _, x3⟩ := node_cross (lru := lru) ho hw
    obtain ⟨_, _, ol, or_, oc⟩ := ho
    have step : ∀ d, base4Append (E.foldl base4Append 0) d = (E ++ [d]).foldl base4Append 0 := by
      intro d; rw [List.foldl_append]; rfl
    have hE1 : Digits (E ++ [1]) := hE.append (Digits.nil.cons (by simp))
    have hE2 : Digits (E ++ [2]) := hE.append (Digits.nil.cons (by simp))
    have hE3 : Digits (E ++ [3]) := hE.append (Digits.nil.cons (by simp))
    have hcmp : cmpOf ((E ++ D).foldl base4Append 0) = (E ++ D).map digitChar := cmpOf_path _ (hE.append hD)
    have hhere : canFollowPath (cmpOf ((E ++ D).foldl base4Append 0)) (E.foldl base4Append 0) = true := by
      rw [hcmp]; exact canFollow_prefix E D hE
    simp only [T.weInorderPag, T.weInorder, hhere, Bool.true_eq_false, if_false]
    simp only [step]
    cases D with
    | nil =>
      -- the route ends at this node: nothing at or below it is pruned
      simp only [T.routeLru, Option.some.injEq] at hroute
      rw [List.append_nil] at hcmp
      refine node_assemble cur0 _ (a, lru ++ s.stemAt a, _) _ _ _ _ _ _ ?_ ?_ ?_
      · apply slot_ite; intro _; apply weInorderPag_noprune; rw [List.append_nil, hcmp]
        exact noPrune_beyond E [1] hE1
      · intro _; apply weInorderPag_noprune; rw [List.append_nil, hcmp]
        exact noPrune_beyond E [2] hE2
      · apply slot_ite; intro _; apply weInorderPag_noprune; rw [List.append_nil, hcmp]
        exact noPrune_beyond E [3] hE3
    | cons d D' =>
      have hd := hD d (by simp)
      have eapp : ∀ e, (E ++ [e]) ++ D' = E ++ e :: D' := by intro e; simp
      simp only [T.routeLru] at hroute
      rcases hd with rfl | rfl | rfl
      · -- the route goes into the left subtree
        simp only [if_true] at hroute
        refine node_assemble cur0 _ (a, lru ++ s.stemAt a, _) _ _ _ _ _ _ ?_ ?_ ?_
        · apply slot_ite; intro _
          have := ihl _ _ lru (E ++ [1]) D' ol hw.left hE1 hD.tail hroute
          rw [eapp] at this; exact this
        · intro _; apply weInorderPag_noprune; rw [hcmp]
          exact noPrune_after E D' 1 2 (by simp) (by omega) hE2
        · apply slot_ite; intro _; apply weInorderPag_noprune; rw [hcmp]
          exact noPrune_after E D' 1 3 (by simp) (by omega) hE3
      · -- the route goes into the child subtree: the left subtree is pruned, and sorts before the end
        simp only [show (2 : Nat) ≠ 1 by omega, if_false, if_true] at hroute
        have hu := route_under c D' _ cur0 hroute
        refine node_assemble cur0 _ (a, lru ++ s.stemAt a, _) _ _ _ _ _ _ ?_ ?_ ?_
        · apply slot_ite; intro _
          rw [weInorderPag_pruned _ _ _ _ _ _ (by rw [hcmp]; exact canFollow_before E D' 2 1 (by simp) (by omega) hE1)]
          symm; apply filter_nil_of_before
          intro x hx
          exact x1 _ _ (weInorder_under start l lru _ x hx) (hu.up.mono (by intro y hy; simp at hy; simp [hy]))
        · intro _
          have := ihc _ _ (lru ++ s.stemAt a) (E ++ [2]) D' oc hw.child hE2 hD.tail hroute
          rw [eapp] at this; exact this
        · apply slot_ite; intro _; apply weInorderPag_noprune; rw [hcmp]
          exact noPrune_after E D' 2 3 (by simp) (by omega) hE3
      · -- the route goes into the right subtree: left and child subtrees are pruned, and sort before the end
        simp only [show (3 : Nat) ≠ 1 by omega, show (3 : Nat) ≠ 2 by omega, if_false] at hroute
        have hu := route_under r D' _ cur0 hroute
        refine node_assemble cur0 _ (a, lru ++ s.stemAt a, _) _ _ _ _ _ _ ?_ ?_ ?_
        · apply slot_ite; intro _
          rw [weInorderPag_pruned _ _ _ _ _ _ (by rw [hcmp]; exact canFollow_before E D' 3 1 (by simp) (by omega) hE1)]
          symm; apply filter_nil_of_before
          intro x hx
          exact x1 _ _ (weInorder_under start l lru _ x hx) (hu.mono (by intro y hy; simp [hy]))
        · intro _
          rw [weInorderPag_pruned _ _ _ _ _ _ (by rw [hcmp]; exact canFollow_before E D' 3 2 (by simp) (by omega) hE2)]
          symm; apply filter_nil_of_before
          intro x hx
          exact x3 _ _ (weInorder_under start c _ _ x hx).up hu
        · apply slot_ite; intro _
          have := ihr _ _ lru (E ++ [3]) D' or_ hw.right hE3 hD.tail hroute
          rw [eapp] at this; exact this

/-- RESUME AT A ROUTE: `webentity_inorder_iter` called with the number of a route that stays inside the tree
    raises no exception and returns exactly the items of the walk sorting after the LRU at the end of the route -/
theorem weInorder_resume_route {s : State} {a : Nat} {l c r : T} {lo hi : Option Stem}
    (hr : Rep s (.node a l c r)) (ho : OrdT s (.node a l c r) lo hi) (hw : AllWf s (.node a l c r))
    (hsz : (T.node a l c r).size ≤ s.trie.size) (startLru : Bytes) {D : List Nat} (hD : Digits D) {cur0 : Bytes}
    (hroute : (T.node a l c r).routeLru s D (lruDirname startLru) = some cur0) :
    s.weInorder a startLru (some (D.foldl base4Append 0))
      = some (((T.node a l c r).weInorder s a (lruDirname startLru) 0).filter (fun it => lexLt cur0 it.2.1)) := by
  have hh := T.height_le_size (T.node a l c r)
  have hfp := followPath_of_routeLru _ D (lruDirname startLru) cur0 hr hD hroute
  rw [← cmpOf_path D hD] at hfp
  simp only [T.root_node, cmpOf] at hfp
  have h1 := inorderGo_eq_weInorderPag (s := s) a (cmpOf (D.foldl base4Append 0)) cur0 (.node a l c r)
    (s.trie.size + 1) (lruDirname startLru) 0 hr (by simp) (by omega)
  have h2 := weInorderPag_resume_route (s := s) a cur0 (.node a l c r) lo hi (lruDirname startLru) [] D ho hw
    Digits.nil hD hroute
  simp only [T.root_node, cmpOf] at h1
  simp only [List.nil_append, List.foldl_nil, cmpOf] at h2
  simp only [State.weInorder, hfp, h1, h2]

/-! ### a route leads to the same node in every later state -/

theorem routeLru_later {s s' : State} (hle : s ⊑ s') : ∀ (u u' : T) (D : List Nat) (lru cur : Bytes),
    Rep s u → Rep s' u' → u.root = u'.root → (∀ x ∈ u.addrs, s'.stemAt x = s.stemAt x) →
    u.routeLru s D lru = some cur → u'.routeLru s' D lru = some cur
  | .nil, _, _, _, _, _, _, _, _, h => by simp [T.routeLru] at h
  | .node a l c r, .nil, _, _, _, hu, _, e, _, _ => absurd e hu.1
  | .node a l c r, .node a' l' c' r', D, lru, cur, hu, hu', e, hst, h => by
    simp only [T.root_node] at e
    subst e
    have hsa : s'.stemAt a = s.stemAt a := hst a (by simp [T.addrs])
    obtain ⟨_, ⟨cell, hc, h1, h2, h3⟩, rl, rc, rr⟩ := hu
    obtain ⟨_, ⟨cell', hc', g1, g2, g3⟩, rl', rc', rr'⟩ := hu'
    obtain ⟨cell'', hc'', hcl⟩ := hle.cells a cell hc
    rw [hc'] at hc''
    cases hc''
    cases D with
    | nil => simp only [T.routeLru, Option.some.injEq] at h ⊢; rw [hsa]; exact h
    | cons d ds =>
      simp only [T.routeLru] at h ⊢
      rw [hsa]
      split
      · rename_i hd
        rw [if_pos hd] at h
        have hne : l.root ≠ 0 := rl.root_ne_zero (routeLru_ne_nil h)
        refine routeLru_later hle l l' ds lru cur rl rl' ?_ (fun x hx => hst x (by simp [T.addrs, hx])) h
        rw [← h1, ← g1]; exact (hcl.left (by rw [h1]; exact hne)).symm
      · rename_i hd
        rw [if_neg hd] at h
        split
        · rename_i hd2
          rw [if_pos hd2] at h
          have hne : c.root ≠ 0 := rc.root_ne_zero (routeLru_ne_nil h)
          refine routeLru_later hle c c' ds _ cur rc rc' ?_ (fun x hx => hst x (by simp [T.addrs, hx])) h
          rw [← h2, ← g2]; exact (hcl.child (by rw [h2]; exact hne)).symm
        · rename_i hd2
          rw [if_neg hd2] at h
          have hne : r.root ≠ 0 := rr.root_ne_zero (routeLru_ne_nil h)
          refine routeLru_later hle r r' ds lru cur rr rr' ?_ (fun x hx => hst x (by simp [T.addrs, hx])) h
          rw [← h3, ← g3]; exact (hcl.right (by rw [h3]; exact hne)).symm

/-! ### the walk of a later state, resumed with a token of an earlier one -/

/-- `s'` is a later state than `s`: above it in the heap order, every stored path still stored at the same
    block, and itself satisfying the invariants -/
structure Later (s : State) (t : T) (s' : State) (t' : T) : Prop where
  le : s ⊑ s'
  keep : ∀ p b, (p, b) ∈ t.entries s [] → (p, b) ∈ t'.entries s' []
  shape : Shape s' t'
  wf : WfStems s' t'

theorem stem_later {s s' : State} {t t' : T} (h : Shape s t) (hl : Later s t s' t') :
    ∀ x ∈ t.addrs, s'.stemAt x = s.stemAt x := by
  intro x hx
  have hp := (entries_addrs_perm (s := s) t []).mem_iff.mpr hx
  obtain ⟨⟨p, b⟩, hm, rfl⟩ := List.mem_map.mp hp
  obtain ⟨q, e, _⟩ := entries_last_and_ptrs t [] p b h.rep hm
  obtain ⟨q', e', _⟩ := entries_last_and_ptrs t' [] p b hl.shape.rep (hl.keep p b hm)
  rw [e] at e'
  have := List.append_inj_right' e' rfl
  simpa using this.symm

theorem lruNode_later {s s' : State} {t t' : T} (h : Shape s t) (hl : Later s t s' t') {p : Bytes} {n : Nat}
    (hn : s.lruNode (lruIter p) = some n) : s'.lruNode (lruIter p) = some n := by
  by_cases hne : lruIter p = []
  · rw [hne] at hn ⊢
    unfold State.lruNode at hn ⊢
    have := hl.le.size
    by_cases hsz : s.trie.size ≤ 1
    · rw [if_pos hsz] at hn; cases hn
    · rw [if_neg hsz] at hn
      rw [if_neg (by omega)]
      exact hn
  · exact (lruNode_iff_entries hl.shape _ hne n).mpr (hl.keep _ _ ((lruNode_iff_entries h _ hne n).mp hn))

theorem walkOf_eq_of_subtree {s : State} {n : Nat} {l c r : T} (hr : Rep s (.node n l c r))
    (hsz : (T.node n l c r).size ≤ s.trie.size) {p : Bytes} (hn : s.lruNode (lruIter p) = some n) :
    walkOf s p = (T.node n l c r).weInorder s n (lruDirname p) 0 := by
  unfold walkOf
  rw [hn]
  simp only
  rw [weInorder_eq hr hsz p]
  simp [T.weInorder]

/-- RESUME IN A LATER STATE: the path number of any item of the walk of `s` from a prefix, fed to
    `webentity_inorder_iter` in a later state `s'`, raises no exception and yields exactly the items of the
    walk of `s'` from that prefix that sort after the item -/
theorem walk_resume_later {s s' : State} {t t' : T} (h : Shape s t) (hw : WfStems s t) (hl : Later s t s' t')
    {p : Bytes} {n : Nat} (hn : s.lruNode (lruIter p) = some n) {it : Item} (hit : it ∈ walkOf s p) :
    s'.weInorder n p (some it.2.2) = some ((walkOf s' p).filter (fun y => lexLt it.2.1 y.2.1)) := by
  have hn' := lruNode_later h hl hn
  obtain ⟨l, c, r, lo, hi, h1, _, _, h4, h5⟩ := prefix_subtree h hw hn
  obtain ⟨l', c', r', lo', hi', g1, g2, g3, g4, _⟩ := prefix_subtree hl.shape hl.wf hn'
  rw [walkOf_eq_of_subtree h1 h4 hn] at hit
  rw [walkOf_eq_of_subtree g1 g4 hn']
  obtain ⟨D, hD, hp0, hroute⟩ := weInorder_routeLru n _ _ 0 it hit
  have hroute' := routeLru_later hl.le _ _ D _ _ h1 g1 rfl (fun x hx => stem_later h hl x (h5 x hx)) hroute
  rw [hp0]
  exact weInorder_resume_route g1 g2 g3 g4 p hD hroute'

/-- every history of write requests without `clear` leads to a later state -/
theorem later_run {s : State} {t : T} (h : Shape s t) (hi : Inv s t) (hlive : Live s) (ops : List Op)
    (hop : ∀ op ∈ ops, ∀ d rs, op ≠ .clear d rs) (hwf : ∀ op ∈ ops, OpWf op) (hok : NoKeyErr s ops) :
    ∃ t', Later s t (s.run ops) t' ∧ Inv (s.run ops) t' := by
  obtain ⟨t', x, f⟩ := run_spec ops s t h hop
  have a := f hwf hi hok
  exact ⟨t', ⟨(run_le s ops hlive hop).1, x.keep, x.shape, a.inv.wf⟩, a.inv⟩

end Traph

section
open Traph
#print axioms weInorder_resume_route
#print axioms walk_resume_later
#print axioms later_run
end

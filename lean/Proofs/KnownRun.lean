import Proofs.KnownOps
/-! C02 at the level of histories, part 3: fresh and cleared indexes, histories.
    * a fresh index (or one just cleared) with constructor rules stores exactly the stem-prefixes of
      the rule anchors (`fresh_known`, `clear_known`);
    * `run_known`: along any history of write requests without `clear`, `Good` is kept, and — when no
      request is aborted by the `KeyError` of `__add_page` — the stored LRUs are those stored initially
      plus the non-empty stem-prefixes of everything named on the way (`State.namedRun`);
    * `C02_known`: from a fresh index; `C02_known_since`: for histories with `clear`, which resets. -/
namespace Traph
open State Layout

/-! ### indexes without any page: the re-insertion walk of a new rule does nothing -/

def NoPages (s : State) : Prop := ∀ b, (s.cell b).flags.page = false

theorem noPages_of_trie_init (s : State) (h : s.trie = #[{}]) : NoPages s := by
  intro b
  unfold State.cell
  rw [h]
  cases b with
  | zero => rfl
  | succ n => rfl

theorem NoPages.attrStep {s s' : State} (h : NoPages s) (a : AttrStep s s') : NoPages s' := by
  intro b
  by_cases hb : b < s.trie.size
  · rw [(a.old b hb).page]; exact h b
  · exact (a.new b (Nat.le_of_not_lt hb)).page

theorem NoPages.setRule {s : State} (h : NoPages s) (n : Nat) (v : Bool) :
    NoPages (s.modCell n (fun c => { c with flags := { c.flags with rule := v } })) := by
  intro b
  rw [cell_modCell]
  split
  · exact h b
  · exact h b

theorem addRuleLoop_noPages (start : Nat) : ∀ (fuel : Nat) (s : State) (stack : List (Nat × Bytes)) (rep : Report),
    NoPages s → addRuleLoop start fuel s stack rep = (s, .ok rep)
  | 0, s, stack, rep, _ => by simp [addRuleLoop]
  | fuel + 1, s, [], rep, _ => by simp [addRuleLoop]
  | fuel + 1, s, (b, lru) :: stack, rep, h => by
    rw [addRuleLoop_succ_cons]
    have hv : ruleVisit s b lru rep = (s, .ok rep) := by
      unfold ruleVisit
      rw [h b]
      rfl
    rw [hv]
    exact addRuleLoop_noPages start fuel s _ rep h

theorem addRule_noPages {s : State} (h : NoPages s) (a : Bytes) (r : Rule) :
    (s.addRule a r true).2 = .ok {} ∧ NoPages (s.addRule a r true).1 := by
  have h0 : NoPages { s with rules := dictSet s.rules a r } := h
  have h1 := h0.attrStep (attrStep_addLru { s with rules := dictSet s.rules a r } (lruIter a) false)
  rcases ha : State.addLru { s with rules := dictSet s.rules a r } (lruIter a) false with ⟨s1, n, hh⟩
  rw [ha] at h1
  simp only at h1
  simp only [addRule, ha, Bool.not_true, Bool.false_eq_true, if_false]
  rw [addRuleLoop_noPages _ _ _ _ _ (h1.setRule n true)]
  exact ⟨rfl, h1.setRule n true⟩

/-- constructor rules on an index without pages: the anchors are inserted, nothing else, no error -/
theorem installRules_noPages : ∀ (rules : List (Bytes × Rule)) (s : State) (t : T), Good s t → NoPages s →
    ∃ t', KStep (rules.map (fun ar => lruIter ar.1)) s t (installRules s rules true).1 t' ∧
      NoPages (installRules s rules true).1 ∧ (installRules s rules true).2 = .ok () ∧
      (installRules s rules true).1.links = s.links
  | [], s, t, g, h => ⟨t, KStep.refl g, h, rfl, rfl⟩
  | (a, r) :: rest, s, t, g, h => by
    obtain ⟨t1, _, _, ok⟩ := (done_addRule g a r).final
    obtain ⟨hres, hnp⟩ := addRule_noPages h a r
    have k1 := ok {} hres
    have hl : (s.addRule a r true).1.links = s.links := by
      have h0 : NoPages { s with rules := dictSet s.rules a r } := h
      have h1 := h0.attrStep (attrStep_addLru { s with rules := dictSet s.rules a r } (lruIter a) false)
      have hlk := links_addLru { s with rules := dictSet s.rules a r } (lruIter a) false
      rcases ha : State.addLru { s with rules := dictSet s.rules a r } (lruIter a) false with ⟨s1, n, hh⟩
      rw [ha] at h1 hlk
      simp only at h1 hlk
      simp only [addRule, ha, Bool.not_true, Bool.false_eq_true, if_false]
      rw [addRuleLoop_noPages _ _ _ _ _ (h1.setRule n true)]
      simp only [links_modCell]
      exact hlk
    rw [installRules]
    split
    · rename_i s1 e heq
      rw [heq] at hres
      cases hres
    · rename_i s1 _ heq
      rw [heq] at k1 hnp hl
      simp only at k1 hnp hl
      obtain ⟨t2, k2, hnp2, hok2, hl2⟩ := installRules_noPages rest s1 t1 k1.good hnp
      refine ⟨t2, ?_, hnp2, hok2, hl2.trans hl⟩
      have := k1.trans k2
      simpa [Report.attached] using this

/-- the anchors of a list of constructor rules, as LRUs -/
def anchors (rules : List (Bytes × Rule)) : List LRU := rules.map (fun ar => lruIter ar.1)

/-- a fresh index stores exactly the stem-prefixes of the anchors of its constructor rules -/
theorem fresh_known (cfg : Config) (dflt : Rule) (rules : List (Bytes × Rule)) (log : List Write) :
    ∃ t, Good (State.fresh cfg dflt rules log).1 t ∧ NoPages (State.fresh cfg dflt rules log).1 ∧
      (State.fresh cfg dflt rules log).1.links.size = 1 ∧
      ∀ p, Known (State.fresh cfg dflt rules log).1 t p ↔ Covered (anchors rules) p := by
  have g0 : Good ({ cfg := cfg, dflt := dflt, log := .linkHdr :: .hdr 0 :: log } : State) .nil :=
    good_of_trie_init _ rfl
  obtain ⟨t, k, hnp, _, hl⟩ := installRules_noPages rules _ .nil g0 (noPages_of_trie_init _ rfl)
  refine ⟨t, k.good, hnp, by unfold State.fresh; rw [hl]; rfl, fun p => ?_⟩
  unfold State.fresh
  rw [k.known]
  exact ⟨fun h => h.elim (fun hk => absurd hk (not_known_nil _ p)) id, Or.inr⟩

/-- the anchors a `clear` request re-installs in the trie (`None` keeps the RAM rules only) -/
def clearAnchors : Option (List (Bytes × Rule)) → List LRU
  | none => []
  | some rs => anchors rs

/-- a cleared index stores exactly the stem-prefixes of the anchors of the rules it is given -/
theorem clear_known (s : State) (d : Option Rule) (rs : Option (List (Bytes × Rule))) :
    ∃ t, Good (s.clear d rs).1 t ∧ NoPages (s.clear d rs).1 ∧ (s.clear d rs).1.links.size = 1 ∧
      (s.clear d rs).2 = .ok () ∧
      ∀ p, Known (s.clear d rs).1 t p ↔ Covered (clearAnchors rs) p := by
  cases rs with
  | none =>
    refine ⟨.nil, good_of_trie_init _ rfl, noPages_of_trie_init _ rfl, rfl, rfl, fun p => ?_⟩
    exact ⟨fun h => absurd h (not_known_nil _ p), fun h => absurd h (covered_nil p)⟩
  | some rl =>
    have g0 : Good ({ cfg := s.cfg, dflt := d.getD s.dflt, rules := [], log := .linkHdr :: .hdr 0 :: s.log } : State)
        .nil := good_of_trie_init _ rfl
    obtain ⟨t, k, hnp, hok, hl⟩ := installRules_noPages rl _ .nil g0 (noPages_of_trie_init _ rfl)
    refine ⟨t, k.good, hnp, by unfold State.clear; simp only; rw [hl]; rfl, hok, fun p => ?_⟩
    unfold State.clear
    simp only
    rw [k.known]
    exact ⟨fun h => h.elim (fun hk => absurd hk (not_known_nil _ p)) id, Or.inr⟩

/-! ### histories without `clear` -/

/-- everything named along a history: request by request, each in the state it is submitted in -/
def State.namedRun : State → List Op → List LRU
  | _, [] => []
  | s, op :: ops => s.named op ++ (s.step op).1.namedRun ops

/-- MAIN (histories): `Good` is kept along every history without `clear`; when no request is aborted by
    the `KeyError` of `__add_page`, the stored LRUs are those stored initially plus the non-empty
    stem-prefixes of everything named on the way -/
theorem run_known : ∀ (ops : List Op) (s : State) (t : T), Good s t →
    (∀ op ∈ ops, ∀ d rs, op ≠ .clear d rs) →
    ∃ t', (∃ L, KStep L s t (s.run ops) t') ∧
      (NoKeyErr s ops → KStep (s.namedRun ops) s t (s.run ops) t')
  | [], s, t, g, _ => ⟨t, ⟨[], KStep.refl g⟩, fun _ => KStep.refl g⟩
  | op :: ops, s, t, g, hop => by
    obtain ⟨t1, ⟨L1, k1⟩, f1⟩ := named_step g op (hop op (by simp))
    obtain ⟨t2, ⟨L2, k2⟩, f2⟩ := run_known ops (s.step op).1 t1 k1.good (fun o ho => hop o (by simp [ho]))
    rw [run_cons]
    exact ⟨t2, ⟨_, k1.trans k2⟩, fun hok => (f1 hok.1).trans (f2 hok.2)⟩

/-- `Good` (shape, block accounting, well-formed stems) holds after every history on a fresh index,
    whatever the constructor rules, whatever the requests, aborted or not -/
theorem good_run (cfg : Config) (dflt : Rule) (rules : List (Bytes × Rule)) (ops : List Op)
    (hop : ∀ op ∈ ops, ∀ d rs, op ≠ .clear d rs) :
    ∃ t, Good ((State.fresh cfg dflt rules []).1.run ops) t := by
  obtain ⟨t0, g0, _⟩ := fresh_known cfg dflt rules []
  obtain ⟨t, ⟨L, k⟩, _⟩ := run_known ops _ t0 g0 hop
  exact ⟨t, k.good⟩

/-- C02, known LRUs: after any history (without `clear`, no request aborted by `KeyError`) on a fresh
    index, an LRU is stored iff it is a non-empty stem-prefix of a constructor-rule anchor or of an LRU
    named by one of the requests -/
theorem C02_known (cfg : Config) (dflt : Rule) (rules : List (Bytes × Rule)) (ops : List Op)
    (hop : ∀ op ∈ ops, ∀ d rs, op ≠ .clear d rs)
    (hok : NoKeyErr (State.fresh cfg dflt rules []).1 ops) :
    ∃ t, Good ((State.fresh cfg dflt rules []).1.run ops) t ∧
      ∀ p, Known ((State.fresh cfg dflt rules []).1.run ops) t p ↔
        Covered (anchors rules ++ (State.fresh cfg dflt rules []).1.namedRun ops) p := by
  obtain ⟨t0, g0, _, _, h0⟩ := fresh_known cfg dflt rules []
  obtain ⟨t, _, f⟩ := run_known ops _ t0 g0 hop
  have k := f hok
  refine ⟨t, k.good, fun p => ?_⟩
  rw [k.known, h0, covered_append]

/-- the same through the model's own look-up `lru_node`, without any ghost tree -/
theorem C02_known_lruNode (cfg : Config) (dflt : Rule) (rules : List (Bytes × Rule)) (ops : List Op)
    (hop : ∀ op ∈ ops, ∀ d rs, op ≠ .clear d rs)
    (hok : NoKeyErr (State.fresh cfg dflt rules []).1 ops) (p : LRU) (hp : p ≠ []) :
    (∃ b, ((State.fresh cfg dflt rules []).1.run ops).lruNode p = some b) ↔
      ∃ l ∈ anchors rules ++ (State.fresh cfg dflt rules []).1.namedRun ops, p <+: l := by
  obtain ⟨t, g, h⟩ := C02_known cfg dflt rules ops hop hok
  rw [← known_iff_lruNode g.shape p hp, h]
  exact ⟨fun hc => hc.2, fun hc => ⟨hp, hc⟩⟩

/-! ### histories with `clear`: a reset -/

/-- what is named since the last `clear` (the accumulator starts with the constructor anchors) -/
def State.namedSince : State → List LRU → List Op → List LRU
  | _, acc, [] => acc
  | s, _, .clear d rs :: ops => (s.step (.clear d rs)).1.namedSince (clearAnchors rs) ops
  | s, acc, op :: ops => (s.step op).1.namedSince (acc ++ s.named op) ops

theorem run_known_since : ∀ (ops : List Op) (s : State) (t : T) (acc : List LRU), Good s t →
    (∀ p, Known s t p ↔ Covered acc p) → NoKeyErr s ops →
    ∃ t', Good (s.run ops) t' ∧ ∀ p, Known (s.run ops) t' p ↔ Covered (s.namedSince acc ops) p
  | [], s, t, acc, g, h, _ => ⟨t, g, h⟩
  | op :: ops, s, t, acc, g, h, hok => by
    rw [run_cons]
    by_cases hc : ∃ d rs, op = .clear d rs
    · obtain ⟨d, rs, rfl⟩ := hc
      obtain ⟨t1, g1, _, _, _, h1⟩ := clear_known s d rs
      have e : (s.step (.clear d rs)).1 = (s.clear d rs).1 := rfl
      have hns : s.namedSince acc (.clear d rs :: ops) =
          (s.step (.clear d rs)).1.namedSince (clearAnchors rs) ops := by
        simp [State.namedSince]
      rw [hns]
      exact run_known_since ops _ t1 (clearAnchors rs) (e ▸ g1) (e ▸ h1) hok.2
    · have hop : ∀ d rs, op ≠ .clear d rs := fun d rs e => hc ⟨d, rs, e⟩
      obtain ⟨t1, _, f1⟩ := named_step g op hop
      have k1 := f1 hok.1
      have hns : s.namedSince acc (op :: ops) = (s.step op).1.namedSince (acc ++ s.named op) ops := by
        cases op <;> first | rfl | exact absurd rfl (hop _ _)
      rw [hns]
      exact run_known_since ops _ t1 (acc ++ s.named op) k1.good
        (fun p => by rw [k1.known, h, covered_append]) hok.2

/-- C02, known LRUs, for every history (with `clear` as a reset): stored = prefix closure of what was
    named since the last `clear` (its rule anchors included) -/
theorem C02_known_since (cfg : Config) (dflt : Rule) (rules : List (Bytes × Rule)) (ops : List Op)
    (hok : NoKeyErr (State.fresh cfg dflt rules []).1 ops) :
    ∃ t, Good ((State.fresh cfg dflt rules []).1.run ops) t ∧
      ∀ p, Known ((State.fresh cfg dflt rules []).1.run ops) t p ↔
        Covered ((State.fresh cfg dflt rules []).1.namedSince (anchors rules) ops) p := by
  obtain ⟨t0, g0, _, _, h0⟩ := fresh_known cfg dflt rules []
  exact run_known_since ops _ t0 (anchors rules) g0 h0 hok

/-- `Good` holds in every reachable state, `clear` included -/
theorem good_run_any (cfg : Config) (dflt : Rule) (rules : List (Bytes × Rule)) : ∀ (ops : List Op),
    ∃ t, Good ((State.fresh cfg dflt rules []).1.run ops) t := by
  have key : ∀ (ops : List Op) (s : State) (t : T), Good s t → ∃ t', Good (s.run ops) t' := by
    intro ops
    induction ops with
    | nil => intro s t g; exact ⟨t, g⟩
    | cons op ops ih =>
      intro s t g
      rw [run_cons]
      by_cases hc : ∃ d rs, op = .clear d rs
      · obtain ⟨d, rs, rfl⟩ := hc
        obtain ⟨t1, g1, _⟩ := clear_known s d rs
        exact ih _ t1 g1
      · obtain ⟨t1, g1, _⟩ := good_step g op (fun d rs e => hc ⟨d, rs, e⟩)
        exact ih _ t1 g1
  intro ops
  obtain ⟨t0, g0, _⟩ := fresh_known cfg dflt rules []
  exact key ops _ t0 g0

#print axioms run_known
#print axioms C02_known
#print axioms C02_known_lruNode
#print axioms C02_known_since
#print axioms good_run_any

end Traph

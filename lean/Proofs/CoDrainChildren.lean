import Proofs.CoDrainShape
/-! C16 — `get_webentity_child_webentities_iter` drained on a fixed index = `get_webentity_child_webentities`.
    Same plan as `Proofs/CoDrain.lean`, for the plain `dfs_iter` cursor (every popped node is yielded, so a `next()`
    takes at most two iterations: open the next prefix, pop). -/
namespace Traph
open State

/-- the walk from `stack` empties its stack within `fuel` pops -/
def dfsFin (s : State) (start : Nat) (skip : Bool) : Nat → List (Nat × Bytes) → Prop
  | _, [] => True
  | 0, _ :: _ => False
  | f + 1, (b, lru) :: rest => dfsFin s start skip f (dfsPushSkip skip start b lru (lru ++ s.stemAt b) (s.cell b) rest)

theorem dfsGo_step (s : State) (st : Nat) (skip : Bool) (f b : Nat) (lru : Bytes) (rest : List (Nat × Bytes)) :
    s.dfsGo false st skip (f + 1) ((b, lru) :: rest) =
      (b, lru ++ s.stemAt b) :: s.dfsGo false st skip f (dfsPushSkip skip st b lru (lru ++ s.stemAt b) (s.cell b) rest) := by
  simp only [dfsGo, dfsPushSkip, Bool.false_or, decide_eq_true_eq]

theorem dfsGo_length_le (s : State) (st : Nat) (skip : Bool) : ∀ (f : Nat) (stk : List (Nat × Bytes)),
    (s.dfsGo false st skip f stk).length ≤ f := by
  intro f
  induction f with
  | zero => intro stk; simp [dfsGo]
  | succ f ih =>
    intro stk
    cases stk with
    | nil => simp [dfsGo]
    | cons p rest =>
      obtain ⟨b, lru⟩ := p
      rw [dfsGo_step]
      have := ih (dfsPushSkip skip st b lru (lru ++ s.stemAt b) (s.cell b) rest)
      simp only [List.length_cons]
      omega

def DfsCur.norm (w : DfsCur) : DfsCur :=
  { w with stack := (match w.pend with
      | some (b, lru, cur, c) => dfsPushSkip w.skip w.start b lru cur c w.stack
      | none => w.stack), pend := none }

theorem DfsCur.next_norm (g : Nat) (s : State) (w : DfsCur) : w.next (g + 1) s = w.norm.next (g + 1) s := by
  obtain ⟨ps, sk, st, stk, pend⟩ := w
  cases pend with
  | none => rfl
  | some p =>
    obtain ⟨b, lru, cur, c⟩ := p
    rfl

/-- the suspended `dfs_iter` loop, advanced on the fixed index, yields exactly `items`, then stops or raises -/
inductive DfsRuns (s : State) : DfsCur → List QItem → Option Err → Prop
  | stop (w w' : DfsCur) : (∀ g, 2 ≤ g → w.next g s = (w', .stop)) → DfsRuns s w [] none
  | fail (w w' : DfsCur) (e : Err) : (∀ g, 2 ≤ g → w.next g s = (w', .fail e)) → DfsRuns s w [] (some e)
  | item (w w' : DfsCur) (b : Nat) (lru : Bytes) (c : Cell) (items : List QItem) (e : Option Err) :
      (∀ g, 2 ≤ g → w.next g s = (w', .item b lru c)) → DfsRuns s w' items e → DfsRuns s w ((b, lru, c) :: items) e

theorem DfsRuns.congr {s : State} {w w2 : DfsCur} {items : List QItem} {e : Option Err}
    (hw : ∀ g, w.next (g + 1) s = w2.next (g + 1) s) (h : DfsRuns s w2 items e) : DfsRuns s w items e := by
  have key : ∀ g, 2 ≤ g → w.next g s = w2.next g s := by
    intro g hg
    obtain ⟨k, rfl⟩ : ∃ k, g = k + 1 := ⟨g - 1, by omega⟩
    exact hw k
  cases h with
  | stop _ w' h => exact .stop _ w' (fun g hg => by rw [key g hg]; exact h _ hg)
  | fail _ w' e h => exact .fail _ w' e (fun g hg => by rw [key g hg]; exact h _ hg)
  | item _ w' b lru c items e h r => exact .item _ w' b lru c items e (fun g hg => by rw [key g hg]; exact h _ hg) r

theorem dfsRuns_stack (s : State) (ps : List Bytes) (skip : Bool) (st : Nat) (itemsK : List QItem) (eK : Option Err)
    (hK : DfsRuns s { prefixes := ps, skip := skip, start := st, stack := [], pend := none } itemsK eK) :
    ∀ (f : Nat) (stk : List (Nat × Bytes)), dfsFin s st skip f stk →
      DfsRuns s { prefixes := ps, skip := skip, start := st, stack := stk, pend := none }
        ((s.dfsGo false st skip f stk).map (itemOf s) ++ itemsK) eK := by
  intro f
  induction f with
  | zero =>
    intro stk hfin
    cases stk with
    | nil => simpa [dfsGo] using hK
    | cons p rest => exact absurd hfin (by simp [dfsFin])
  | succ f ih =>
    intro stk hfin
    cases stk with
    | nil => simpa [dfsGo] using hK
    | cons p rest =>
      obtain ⟨b, lru⟩ := p
      simp only [dfsFin] at hfin
      have ih' := ih _ hfin
      rw [dfsGo_step]
      simp only [List.cons_append, List.map_cons, itemOf]
      refine .item _ { prefixes := ps, skip := skip, start := st, stack := rest,
                       pend := some (b, lru, lru ++ s.stemAt b, s.cell b) } b _ _ _ _ ?_ ?_
      · intro g hg
        obtain ⟨k, rfl⟩ : ∃ k, g = k + 1 := ⟨g - 1, by omega⟩
        simp only [DfsCur.next]
      · refine DfsRuns.congr (fun g => DfsCur.next_norm g s _) ?_
        simpa [DfsCur.norm] using ih'

def dfsItems (s : State) (skip : Bool) : List Bytes → List QItem × Option Err
  | [] => ([], none)
  | pf :: more =>
    match s.lruNode (lruIter pf) with
    | none => ([], some .traph)
    | some nn => ((s.dfsIter (some (nn, pf)) skip).map (itemOf s) ++ (dfsItems s skip more).1, (dfsItems s skip more).2)

theorem dfsItems_length (s : State) (skip : Bool) : ∀ ps : List Bytes,
    (dfsItems s skip ps).1.length ≤ (s.trie.size + 1) * ps.length := by
  intro ps
  induction ps with
  | nil => simp [dfsItems]
  | cons pf more ih =>
    cases hn : s.lruNode (lruIter pf) with
    | none => simp [dfsItems, hn]
    | some nn =>
      simp only [dfsItems, hn, List.length_append, List.length_map, List.length_cons, dfsIter]
      have := dfsGo_length_le s nn skip (s.trie.size + 1) [(nn, lruDirname pf)]
      rw [Nat.mul_add]
      omega

def DfsFin (s : State) (skip : Bool) (ps : List Bytes) : Prop :=
  ∀ pf ∈ ps, ∀ nn, s.lruNode (lruIter pf) = some nn → dfsFin s nn skip (s.trie.size + 1) [(nn, lruDirname pf)]

theorem dfsRuns_prefixes (s : State) (skip : Bool) : ∀ (ps : List Bytes) (st : Nat), DfsFin s skip ps →
    DfsRuns s { prefixes := ps, skip := skip, start := st, stack := [], pend := none }
      (dfsItems s skip ps).1 (dfsItems s skip ps).2 := by
  intro ps
  induction ps with
  | nil =>
    intro st _
    refine .stop _ { prefixes := [], skip := skip, start := st, stack := [], pend := none } (fun g hg => ?_)
    obtain ⟨k, rfl⟩ : ∃ k, g = k + 1 := ⟨g - 1, by omega⟩
    simp only [DfsCur.next]
  | cons pf more ih =>
    intro st hfin
    cases hn : s.lruNode (lruIter pf) with
    | none =>
      simp only [dfsItems, hn]
      refine .fail _ { prefixes := pf :: more, skip := skip, start := st, stack := [], pend := none } _ (fun g hg => ?_)
      obtain ⟨k, rfl⟩ : ∃ k, g = k + 1 := ⟨g - 1, by omega⟩
      simp only [DfsCur.next, hn]
    | some nn =>
      have hf := hfin pf (by simp) nn hn
      simp only [dfsFin] at hf
      have ihm := ih nn (fun p hp => hfin p (by simp [hp]))
      have hrun := dfsRuns_stack s more skip nn _ _ ihm s.trie.size _ hf
      simp only [dfsItems, hn, dfsIter]
      rw [dfsGo_step]
      simp only [List.cons_append, List.map_cons, itemOf]
      refine .item _ { prefixes := more, skip := skip, start := nn, stack := [],
                       pend := some (nn, lruDirname pf, lruDirname pf ++ s.stemAt nn, s.cell nn) } nn _ _ _ _
        (fun g hg => ?_) ?_
      · obtain ⟨k, rfl⟩ : ∃ k, g = k + 2 := ⟨g - 2, by omega⟩
        simp only [DfsCur.next, hn]
      · refine DfsRuns.congr (fun g => DfsCur.next_norm g s _) ?_
        simpa [DfsCur.norm] using hrun

theorem DfsCur.fuel_ge (s : State) (w : DfsCur) : 2 ≤ w.fuel s := by unfold DfsCur.fuel; omega

/-! ### the consumer -/

def childFold (weid : Nat) (weids : List Nat) (items : List QItem) : List Nat :=
  items.foldl (fun acc it => if it.2.2.we ≠ 0 && it.2.2.we ≠ weid then insertSorted it.2.2.we acc else acc) weids

theorem drain_child_unfold (s : State) (N : Nat) (q : ChildSt) :
    QSt.drain s (N + 1) (.children q) =
      (match childResume s q with
       | (q1, .yielded) => QSt.drain s N (.children q1)
       | (_, .done a) => a
       | (_, .failed e) => .err e) := by
  simp only [QSt.drain, QSt.resume]
  rcases childResume s q with ⟨q1, o⟩
  cases o <;> rfl

theorem childResume_run (s : State) (weid : Nat) {w : DfsCur} {items : List QItem} {e : Option Err}
    (h : DfsRuns s w items e) :
    ∀ (weids : List Nat) (N : Nat), items.length < N →
      QSt.drain s N (.children ⟨w, weid, weids⟩) = drainAns e (.nats (childFold weid weids items)) := by
  induction h with
  | stop w w' hfirst =>
    intro weids N hN
    obtain ⟨N', rfl⟩ : ∃ N', N = N' + 1 := ⟨N - 1, by omega⟩
    rw [drain_child_unfold]
    simp only [childResume, hfirst _ (DfsCur.fuel_ge s w), drainAns, childFold, List.foldl_nil]
  | fail w w' e hfirst =>
    intro weids N hN
    obtain ⟨N', rfl⟩ : ∃ N', N = N' + 1 := ⟨N - 1, by omega⟩
    rw [drain_child_unfold]
    simp only [childResume, hfirst _ (DfsCur.fuel_ge s w), drainAns]
  | item w w' b lru c items e hfirst hrest ih =>
    intro weids N hN
    obtain ⟨N', rfl⟩ : ∃ N', N = N' + 1 := ⟨N - 1, by omega⟩
    simp only [List.length_cons] at hN
    rw [drain_child_unfold]
    simp only [childResume, hfirst _ (DfsCur.fuel_ge s w)]
    rw [ih _ N' (by omega)]
    simp only [childFold, List.foldl_cons]

theorem forPrefixes_dfsItems (s : State) (skip : Bool) {α} (h : QItem → List α) : ∀ ps : List Bytes,
    s.forPrefixes ps (fun n p => (s.dfsIter (some (n, p)) skip).flatMap (fun bl => h (itemOf s bl))) =
      (match (dfsItems s skip ps).2 with
       | none => .ok ((dfsItems s skip ps).1.flatMap h)
       | some e => .error e) := by
  intro ps
  induction ps with
  | nil => simp [forPrefixes, dfsItems]
  | cons p ps ih =>
    rw [cd_forPrefixes_cons, ih]
    cases hn : s.lruNode (lruIter p) with
    | none => simp [dfsItems, hn]
    | some n =>
      simp only [dfsItems, hn]
      cases (dfsItems s skip ps).2 with
      | none => simp [List.flatMap_append, List.flatMap_map]
      | some e => simp

theorem childFold_eq (weid : Nat) (items : List QItem) : ∀ weids : List Nat,
    childFold weid weids items =
      (items.flatMap (fun it => if it.2.2.we ≠ 0 && it.2.2.we ≠ weid then [it.2.2.we] else [])).foldl
        (fun acc x => insertSorted x acc) weids := by
  induction items with
  | nil => intro weids; simp [childFold]
  | cons it items ih =>
    intro weids
    simp only [childFold, List.foldl_cons] at ih ⊢
    rw [ih]
    by_cases hc : (¬it.2.2.we = 0 ∧ ¬it.2.2.we = weid) <;> simp [hc]

theorem cd_map_filter_flatMap {α β} (P : β → Bool) (g : α → β) (l : List α) :
    (l.map g).filter P = l.flatMap (fun x => if P (g x) then [g x] else []) := by
  induction l with
  | nil => rfl
  | cons x xs ih =>
    by_cases hx : P (g x) = true
    · simp [hx, ih]
    · simp [hx, ih]

/-- **`get_webentity_child_webentities_iter` drained = `get_webentity_child_webentities`** (as sorted sets) -/
theorem children_drain (s : State) (weid : Nat) (ps : List Bytes) (hfin : DfsFin s true ps) (N : Nat)
    (hN : (s.trie.size + 1) * ps.length < N) :
    QSt.drain s N (.children { cur := { prefixes := ps, skip := true }, weid := weid }) = s.ask (.children weid ps) := by
  have hlen := dfsItems_length s true ps
  rw [childResume_run s weid (dfsRuns_prefixes s true ps 0 hfin) [] N (by omega), childFold_eq]
  simp only [State.ask, childWebentities]
  have hF : (fun n p => ((s.dfsIter (some (n, p)) true).map (fun bl => (s.cell bl.1).we)).filter
        (fun w => w ≠ 0 && w ≠ weid)) =
      (fun n p => (s.dfsIter (some (n, p)) true).flatMap (fun bl =>
        (fun it : QItem => if it.2.2.we ≠ 0 && it.2.2.we ≠ weid then [it.2.2.we] else []) (itemOf s bl))) := by
    funext n p
    rw [cd_map_filter_flatMap]
    rfl
  rw [hF, forPrefixes_dfsItems s true
    (fun it : QItem => if it.2.2.we ≠ 0 && it.2.2.we ≠ weid then [it.2.2.we] else []) ps]
  cases (dfsItems s true ps).2 with
  | none => simp [drainAns, Ans.ofExcept, Except.map, sortDedup]
  | some e => simp [drainAns, Ans.ofExcept, Except.map]

/-! ### under `Shape` -/

theorem dfsFin_of_stackRep {s : State} (st : Nat) (skip : Bool) :
    ∀ (fuel : Nat) (ts : List (T × Bytes)), StackRep s ts → stackSize ts < fuel →
      dfsFin s st skip fuel (ts.map (fun p => (p.1.root, p.2))) := by
  intro fuel
  induction fuel with
  | zero => intro ts _ hf; omega
  | succ f ih =>
    intro ts hs hf
    cases ts with
    | nil => simp [dfsFin]
    | cons p ts =>
      obtain ⟨t, lru⟩ := p
      obtain ⟨hr, hn⟩ := hs (t, lru) (by simp)
      cases t with
      | nil => exact absurd rfl hn
      | node a l c r =>
        obtain ⟨h1, h2, h3⟩ := hr.cell_eq
        obtain ⟨ha, _, rl, rc, rr⟩ := hr
        have hts : StackRep s ts := hs.tail
        simp only [stackSize_cons, T.size] at hf
        simp only [List.map_cons, T.root_node, dfsFin, dfsPushSkip, h1, h2, h3]
        have hsib : (if a ≠ st then
              (if l.root ≠ 0 then (l.root, lru) ::
                  (if r.root ≠ 0 then (r.root, lru) :: ts.map (fun p => (p.1.root, p.2))
                   else ts.map (fun p => (p.1.root, p.2)))
               else (if r.root ≠ 0 then (r.root, lru) :: ts.map (fun p => (p.1.root, p.2))
                   else ts.map (fun p => (p.1.root, p.2))))
              else ts.map (fun p => (p.1.root, p.2)))
            = (if a = st then ts else pushIf l lru (pushIf r lru ts)).map (fun p => (p.1.root, p.2)) := by
          by_cases e : a = st
          · simp [e]
          · rw [if_pos e, if_neg e, pushIf_roots r lru ts rr, pushIf_roots l lru _ rl]
        rw [hsib]
        generalize hst : (if a = st then ts else pushIf l lru (pushIf r lru ts)) = stk
        have hst_rep : StackRep s stk := by
          subst hst; split
          · exact hts
          · exact (hts.pushIf rr).pushIf rl
        have hst_sz : stackSize stk ≤ l.size + r.size + stackSize ts := by
          subst hst; split
          · omega
          · rw [pushIf_size, pushIf_size]; omega
        have hplain : dfsFin s st skip f (stk.map (fun p => (p.1.root, p.2))) := ih _ hst_rep (by omega)
        have hchild : dfsFin s st skip f
            ((if c.root ≠ 0 then (c.root, lru ++ s.stemAt a) :: stk.map (fun p => (p.1.root, p.2))
              else stk.map (fun p => (p.1.root, p.2)))) := by
          rw [pushIf_roots c (lru ++ s.stemAt a) stk rc]
          exact ih _ (hst_rep.pushIf rc) (by rw [pushIf_size]; omega)
        by_cases hsk : (skip && (s.cell a).flags.noChild) = true
        · simp only [hsk, if_true]; exact hplain
        · simp only [hsk, Bool.false_eq_true, if_false]; exact hchild

theorem dfsFin_of_shape {s : State} {t : T} (h : Shape s t) (skip : Bool) (ps : List Bytes)
    (hwf : ∀ pf ∈ ps, lruIter pf ≠ []) : DfsFin s skip ps := by
  intro pf hpf nn hn
  have hP : (lruIter pf, nn) ∈ t.entries s [] := (lruNode_iff_entries h _ (hwf pf hpf) nn).mp hn
  obtain ⟨l, c, r, lo', hi', h1, _, _, h4, _⟩ :=
    subtree_at_ord (lruIter pf) t none none [] nn h.rep h.ord h.nodup (by simpa using hP)
  have hsz : (T.node nn l c r).size ≤ s.trie.size := Nat.le_trans h4 h.size_le
  have := dfsFin_of_stackRep (s := s) nn skip (s.trie.size + 1) [(T.node nn l c r, lruDirname pf)]
    (by intro p hp; simp only [List.mem_singleton] at hp; subst hp; exact ⟨h1, by simp⟩)
    (by simp only [stackSize_cons, stackSize_nil]; omega)
  simpa using this

/-- **child webentities, unconditionally on a well-formed index** -/
theorem children_drain_shape {s : State} {t : T} (h : Shape s t) (weid : Nat) (ps : List Bytes)
    (hwf : ∀ pf ∈ ps, lruIter pf ≠ []) (N : Nat) (hN : (s.trie.size + 1) * ps.length < N) :
    QSt.drain s N (.children { cur := { prefixes := ps, skip := true }, weid := weid }) = s.ask (.children weid ps) :=
  children_drain s weid ps (dfsFin_of_shape h true ps hwf) N hN

#print axioms children_drain_shape

end Traph
